// unit pwl_schemas — C17: predefined trees equal their definitions (src/distill/schema.rs)
use vstd::prelude::*;
use std::marker::PhantomData;
use std::mem;
use std::ops::{Add, Sub, Mul, Div, Neg};
verus! {
global size_of usize == 8;

//@include prelude/inc_pwl_core.rs

// one-row decisions: label 1 iff the row holds
pub proof fn lemma_decide_one_row(aff: &AffFunc, x: V)
    requires aff.mat.nrows() == 1
    ensures decide(aff, x) == (if aff.row_sat(0, x) { 1int } else { 0int })
{
    assert((1usize << 0usize) == 1usize) by(bit_vector);
    assert(label_val(aff, x, 0) == 0);
}

// value of a tree at a binary one-row decision whose selected child exists
pub proof fn lemma_tree_fn_decision<const K: usize>(a: AArena<K>, h: Map<usize, nat>, idx: usize, x: V)
    requires ranked_down(a, h), a.dom().contains(idx), !a[idx].isleaf, a[idx].value.aff.mat.nrows() == 1, K >= 2,
        a[idx].children[0].is_some(), a[idx].children[1].is_some(),
    ensures tree_fn(a, h, idx, x) == (if a[idx].value.aff.row_sat(0, x) { tree_fn(a, h, a[idx].children[1].unwrap(), x) } else { tree_fn(a, h, a[idx].children[0].unwrap(), x) })
{
    lemma_decide_one_row(&a[idx].value.aff, x);
}
pub proof fn lemma_tree_fn_leaf<const K: usize>(a: AArena<K>, h: Map<usize, nat>, idx: usize, x: V)
    requires a[idx].isleaf
    ensures tree_fn(a, h, idx, x) == Some(a[idx].value.aff.ap(x))
{}

//@include prelude/textbook_spec.rs

//@fn src/distill/schema.rs | - | partial_ReLU
//@spec
    requires row < dim
    ensures
        r.tree.wf(), r.tree.root == Some(0usize), r.in_dim == dim, aff_shape_ok(r.a(), dim),
        // every terminal maps into the same space
        forall|i: usize| r.a().dom().contains(i) && #[trigger] r.a()[i].isleaf ==> r.a()[i].value.aff.mat.nrows() == dim,
        // changes exactly component `row` to max(0, x_row), for every input (breakpoint x_row == 0 included)
        forall|h: Map<usize, nat>, x: V| ranked_down(r.a(), h) && x.len() == dim ==>
            #[trigger] tree_fn(r.a(), h, 0, x) == Some(x.update(row as int, relu(x[row as int]))),
//@hint end
        proof {
            let a = dd.a();
            let c0 = a[0].children[0].unwrap();
            let c1 = a[0].children[1].unwrap();
            assert((1usize << 1usize) == 2usize) by(bit_vector);
            assert forall|i: usize| a.dom().contains(i) implies i == 0 || i == c0 || i == c1 by {}
            assert forall|h: Map<usize, nat>, x: V| ranked_down(a, h) && x.len() == dim implies
                #[trigger] tree_fn(a, h, 0, x) == Some(x.update(row as int, relu(x[row as int]))) by {
                lemma_tree_fn_decision(a, h, 0, x);
                lemma_tree_fn_leaf(a, h, c0, x);
                lemma_tree_fn_leaf(a, h, c1, x);
                // predicate of the root: x_row <= 0
                let rw = a[0].value.aff.mat.m()[0];
                lemma_dotp_unit(rw, x, dim as int, row as int, 1real);
                assert(1real * x[row as int] == x[row as int]) by(nonlinear_arith);
                if x[row as int] > 0real { assert(x.update(row as int, x[row as int]) =~= x); }
            }
        }
//@end


// dot product with a row that is zero except for coefficient s at position p
pub proof fn lemma_unit_row(rw: V, x: V, dim: int, p: int, s: real)
    requires rw == mconst(1, dim, 0real)[0].update(p, s), x.len() == dim, 0 <= p < dim
    ensures dotp(rw, x, dim) == s * x[p]
{
    lemma_dotp_unit(rw, x, dim, p, s);
}
// identity matrix with entry (p,p) replaced by s
pub proof fn lemma_scaled_identity(mt: M, b: V, x: V, dim: int, p: int, s: real, c: real)
    requires mt == mset(eye(dim), p, p, s), b == vconst(dim, 0real).update(p, c), x.len() == dim, 0 <= p < dim
    ensures vadd(mv(mt, x), b) =~= x.update(p, s * x[p] + c)
{
    assert forall|i: int| 0 <= i < dim implies vadd(mv(mt, x), b)[i] == x.update(p, s * x[p] + c)[i] by {
        lemma_dotp_unit(mt[i], x, dim, i, if i == p { s } else { 1real });
        assert(1real * x[i] == x[i]) by(nonlinear_arith);
    }
}

//@fn src/distill/schema.rs | - | partial_leaky_ReLU
//@spec
    requires row < dim, finite(alpha)
    ensures
        r.tree.wf(), r.tree.root == Some(0usize), r.in_dim == dim, aff_shape_ok(r.a(), dim),
        // every terminal maps into the same space
        forall|i: usize| r.a().dom().contains(i) && #[trigger] r.a()[i].isleaf ==> r.a()[i].value.aff.mat.nrows() == dim,
        forall|h: Map<usize, nat>, x: V| ranked_down(r.a(), h) && x.len() == dim ==>
            #[trigger] tree_fn(r.a(), h, 0, x) == Some(x.update(row as int, leaky_relu(x[row as int], alpha.rv()))),
//@hint end
        proof {
            let a = dd.a();
            let c0 = a[0].children[0].unwrap();
            let c1 = a[0].children[1].unwrap();
            assert((1usize << 1usize) == 2usize) by(bit_vector);
            assert forall|i: usize| a.dom().contains(i) implies i == 0 || i == c0 || i == c1 by {}
            assert forall|h: Map<usize, nat>, x: V| ranked_down(a, h) && x.len() == dim implies
                #[trigger] tree_fn(a, h, 0, x) == Some(x.update(row as int, leaky_relu(x[row as int], alpha.rv()))) by {
                lemma_tree_fn_decision(a, h, 0, x);
                lemma_tree_fn_leaf(a, h, c0, x);
                lemma_tree_fn_leaf(a, h, c1, x);
                lemma_dotp_unit(a[0].value.aff.mat.m()[0], x, dim as int, row as int, 1real);
                assert(1real * x[row as int] == x[row as int]) by(nonlinear_arith);
                assert(mset(mset(eye(dim as int), row as int, row as int, 0real), row as int, row as int, alpha.rv()) =~~= mset(eye(dim as int), row as int, row as int, alpha.rv()));
                assert(vconst(dim as int, 0real).update(row as int, 0real) =~= vconst(dim as int, 0real));
                lemma_scaled_identity(a[c1].value.aff.mat.m(), a[c1].value.aff.bias.v(), x, dim as int, row as int, alpha.rv(), 0real);
                if x[row as int] > 0real { assert(x.update(row as int, x[row as int]) =~= x); }
            }
        }
//@end

//@fn src/distill/schema.rs | - | partial_threshold
//@spec
    requires row < dim, finite(threshold), finite(value)
    ensures
        r.tree.wf(), r.tree.root == Some(0usize), r.in_dim == dim, aff_shape_ok(r.a(), dim),
        // every terminal maps into the same space
        forall|i: usize| r.a().dom().contains(i) && #[trigger] r.a()[i].isleaf ==> r.a()[i].value.aff.mat.nrows() == dim,
        forall|h: Map<usize, nat>, x: V| ranked_down(r.a(), h) && x.len() == dim ==>
            #[trigger] tree_fn(r.a(), h, 0, x) == Some(x.update(row as int, threshold_fn(x[row as int], threshold.rv(), value.rv()))),
//@hint end
        proof {
            let a = dd.a();
            let c0 = a[0].children[0].unwrap();
            let c1 = a[0].children[1].unwrap();
            assert((1usize << 1usize) == 2usize) by(bit_vector);
            assert forall|i: usize| a.dom().contains(i) implies i == 0 || i == c0 || i == c1 by {}
            assert forall|h: Map<usize, nat>, x: V| ranked_down(a, h) && x.len() == dim implies
                #[trigger] tree_fn(a, h, 0, x) == Some(x.update(row as int, threshold_fn(x[row as int], threshold.rv(), value.rv()))) by {
                lemma_tree_fn_decision(a, h, 0, x);
                lemma_tree_fn_leaf(a, h, c0, x);
                lemma_tree_fn_leaf(a, h, c1, x);
                lemma_dotp_unit(a[0].value.aff.mat.m()[0], x, dim as int, row as int, 1real);
                assert(1real * x[row as int] == x[row as int]) by(nonlinear_arith);
                lemma_scaled_identity(a[c1].value.aff.mat.m(), a[c1].value.aff.bias.v(), x, dim as int, row as int, 0real, value.rv());
                assert(0real * x[row as int] + value.rv() == value.rv()) by(nonlinear_arith);
                if x[row as int] > threshold.rv() { assert(x.update(row as int, x[row as int]) =~= x); }
            }
        }
//@end

//@fn src/distill/schema.rs | - | partial_hard_tanh
//@bodysub assert!(min_val <= max_val) => assert!(fle(min_val, max_val))
//@bodysub? = -1.0; => = flit(-1, 1);
//@bodysub? = -max_val; => = fneg(max_val);
//@bodysub? = 1.0; => = flit(1, 1);
//@spec
    requires row < dim, finite(min_val), finite(max_val), min_val.rv() <= max_val.rv()
    ensures
        r.tree.wf(), r.tree.root == Some(0usize), r.in_dim == dim, aff_shape_ok(r.a(), dim),
        // every terminal maps into the same space
        forall|i: usize| r.a().dom().contains(i) && #[trigger] r.a()[i].isleaf ==> r.a()[i].value.aff.mat.nrows() == dim,
        forall|h: Map<usize, nat>, x: V| ranked_down(r.a(), h) && x.len() == dim ==>
            #[trigger] tree_fn(r.a(), h, 0, x) == Some(x.update(row as int, hard_tanh(x[row as int], min_val.rv(), max_val.rv()))),
//@hint end
        proof {
            let a = dd.a();
            let n1 = a[0].children[0].unwrap();     // inner decision
            let t1 = a[0].children[1].unwrap();     // terminal under the root's label 1
            let t00 = a[n1].children[0].unwrap();
            let t01 = a[n1].children[1].unwrap();
            assert((1usize << 1usize) == 2usize) by(bit_vector);
            assert forall|i: usize| a.dom().contains(i) implies i == 0 || i == n1 || i == t1 || i == t00 || i == t01 by {}

            assert forall|h: Map<usize, nat>, x: V| ranked_down(a, h) && x.len() == dim implies
                #[trigger] tree_fn(a, h, 0, x) == Some(x.update(row as int, hard_tanh(x[row as int], min_val.rv(), max_val.rv()))) by {
                let t = x[row as int];
                lemma_tree_fn_decision(a, h, 0, x); lemma_tree_fn_decision(a, h, n1, x);
                lemma_tree_fn_leaf(a, h, t1, x); lemma_tree_fn_leaf(a, h, t00, x); lemma_tree_fn_leaf(a, h, t01, x);
                lemma_dotp_unit(a[0].value.aff.mat.m()[0], x, dim as int, row as int, 0real - 1real);
                lemma_dotp_unit(a[n1].value.aff.mat.m()[0], x, dim as int, row as int, 1real);
                assert((0real - 1real) * t == -t && 1real * t == t) by(nonlinear_arith);
                lemma_scaled_identity(a[t1].value.aff.mat.m(), a[t1].value.aff.bias.v(), x, dim as int, row as int, 0real, max_val.rv());
                lemma_scaled_identity(a[t01].value.aff.mat.m(), a[t01].value.aff.bias.v(), x, dim as int, row as int, 0real, min_val.rv());
                assert(0real * t + max_val.rv() == max_val.rv() && 0real * t + min_val.rv() == min_val.rv()) by(nonlinear_arith);
                assert(x.update(row as int, t) =~= x);
            }
        }
//@end

//@fn src/distill/schema.rs | - | partial_hard_shrink
//@bodysub? = -lambda; => = fneg(lambda);
//@bodysub? = 1.0; => = flit(1, 1);
//@bodysub? = -1.0; => = flit(-1, 1);
//@spec
    requires row < dim, finite(lambda)
    ensures
        r.tree.wf(), r.tree.root == Some(0usize), r.in_dim == dim, aff_shape_ok(r.a(), dim),
        // every terminal maps into the same space
        forall|i: usize| r.a().dom().contains(i) && #[trigger] r.a()[i].isleaf ==> r.a()[i].value.aff.mat.nrows() == dim,
        // x if |x| > lambda else 0, boundary points |x| == lambda included
        forall|h: Map<usize, nat>, x: V| ranked_down(r.a(), h) && x.len() == dim ==>
            #[trigger] tree_fn(r.a(), h, 0, x) == Some(x.update(row as int, hard_shrink(x[row as int], lambda.rv()))),
//@hint end
        proof {
            let a = dd.a();
            let n1 = a[0].children[1].unwrap();     // inner decision (label 1: x <= lambda)
            let t1 = a[0].children[0].unwrap();     // terminal for x > lambda
            let t00 = a[n1].children[0].unwrap();
            let t01 = a[n1].children[1].unwrap();
            assert((1usize << 1usize) == 2usize) by(bit_vector);
            assert forall|i: usize| a.dom().contains(i) implies i == 0 || i == n1 || i == t1 || i == t00 || i == t01 by {}
            assert forall|h: Map<usize, nat>, x: V| ranked_down(a, h) && x.len() == dim implies
                #[trigger] tree_fn(a, h, 0, x) == Some(x.update(row as int, hard_shrink(x[row as int], lambda.rv()))) by {
                let t = x[row as int];
                lemma_tree_fn_decision(a, h, 0, x); lemma_tree_fn_decision(a, h, n1, x);
                lemma_tree_fn_leaf(a, h, t1, x); lemma_tree_fn_leaf(a, h, t00, x); lemma_tree_fn_leaf(a, h, t01, x);
                lemma_dotp_unit(a[0].value.aff.mat.m()[0], x, dim as int, row as int, 1real);
                lemma_dotp_unit(a[n1].value.aff.mat.m()[0], x, dim as int, row as int, 0real - 1real);
                assert((0real - 1real) * t == -t && 1real * t == t) by(nonlinear_arith);
                assert(x.update(row as int, t) =~= x);
            }
        }
//@end

//@fn src/distill/schema.rs | - | partial_hard_sigmoid
//@bodysub? = -1.0; => = flit(-1, 1);
//@bodysub? = -3.; => = flit(-3, 1);
//@bodysub? = 1.0; => = flit(1, 1);
//@bodysub? = 1.; => = flit(1, 1);
//@bodysub? = 1. / 6.; => = fdiv(flit(1, 1), flit(6, 1));
//@bodysub? = 0.5; => = flit(1, 2);
//@bodysub? = 0.; => = flit(0, 1);
//@spec
    requires row < dim
    ensures
        r.tree.wf(), r.tree.root == Some(0usize), r.in_dim == dim, aff_shape_ok(r.a(), dim),
        // every terminal maps into the same space
        forall|i: usize| r.a().dom().contains(i) && #[trigger] r.a()[i].isleaf ==> r.a()[i].value.aff.mat.nrows() == dim,
        forall|h: Map<usize, nat>, x: V| ranked_down(r.a(), h) && x.len() == dim ==>
            #[trigger] tree_fn(r.a(), h, 0, x) == Some(x.update(row as int, hard_sigmoid(x[row as int]))),
//@hint end
        proof {
            let a = dd.a();
            let n1 = a[0].children[0].unwrap();     // inner decision
            let t1 = a[0].children[1].unwrap();     // terminal under the root's label 1
            let t00 = a[n1].children[0].unwrap();
            let t01 = a[n1].children[1].unwrap();
            assert((1usize << 1usize) == 2usize) by(bit_vector);
            assert forall|i: usize| a.dom().contains(i) implies i == 0 || i == n1 || i == t1 || i == t00 || i == t01 by {}

            assert forall|h: Map<usize, nat>, x: V| ranked_down(a, h) && x.len() == dim implies
                #[trigger] tree_fn(a, h, 0, x) == Some(x.update(row as int, hard_sigmoid(x[row as int]))) by {
                let t = x[row as int];
                lemma_tree_fn_decision(a, h, 0, x); lemma_tree_fn_decision(a, h, n1, x);
                lemma_tree_fn_leaf(a, h, t1, x); lemma_tree_fn_leaf(a, h, t00, x); lemma_tree_fn_leaf(a, h, t01, x);
                lemma_dotp_unit(a[0].value.aff.mat.m()[0], x, dim as int, row as int, 0real - 1real);
                lemma_dotp_unit(a[n1].value.aff.mat.m()[0], x, dim as int, row as int, 1real);
                assert((0real - 1real) * t == -t && 1real * t == t) by(nonlinear_arith);
                lemma_scaled_identity(a[t1].value.aff.mat.m(), a[t1].value.aff.bias.v(), x, dim as int, row as int, 0real, 1real);
                lemma_scaled_identity(a[t01].value.aff.mat.m(), a[t01].value.aff.bias.v(), x, dim as int, row as int, 0real, 0real);
                assert(mset(mset(eye(dim as int), row as int, row as int, 0real), row as int, row as int, 0real) =~~= mset(eye(dim as int), row as int, row as int, 0real));
                lemma_scaled_identity(a[t00].value.aff.mat.m(), a[t00].value.aff.bias.v(), x, dim as int, row as int, 1real / 6real, 1real / 2real);
                assert(0real * t + 1real == 1real && 0real * t + 0real == 0real) by(nonlinear_arith);
                assert((1real / 6real) * t + 1real / 2real == t / 6real + 1real / 2real) by(nonlinear_arith);
            }
        }
//@end

} // verus!
fn main() {}
