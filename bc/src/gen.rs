//! Small exhaustive / seeded generators. All numbers are small dyadic rationals so that f64
//! arithmetic inside the library is exact on them.
use affinitree::linalg::affine::{AffFunc, Polytope};
use affinitree::pwl::afftree::AffTree;
use ndarray::{Array1, Array2};

use crate::q::Q;

#[derive(Clone)]
pub struct Rng(pub u64);
impl Rng {
    pub fn new(seed: u64) -> Rng {
        Rng(seed.wrapping_mul(0x9E3779B97F4A7C15).wrapping_add(0x1234567))
    }
    pub fn next(&mut self) -> u64 {
        self.0 = self.0.wrapping_add(0x9E3779B97F4A7C15);
        let mut z = self.0;
        z = (z ^ (z >> 30)).wrapping_mul(0xBF58476D1CE4E5B9);
        z = (z ^ (z >> 27)).wrapping_mul(0x94D049BB133111EB);
        z ^ (z >> 31)
    }
    pub fn below(&mut self, n: usize) -> usize {
        (self.next() % n as u64) as usize
    }
    pub fn pick<'a, T>(&mut self, v: &'a [T]) -> &'a T {
        &v[self.below(v.len())]
    }
    pub fn chance(&mut self, num: usize, den: usize) -> bool {
        self.below(den) < num
    }
}

/// structure of a (possibly partial) K-ary decision tree
#[derive(Clone, Debug, PartialEq, Eq, Hash)]
pub enum Shape {
    Leaf,
    Dec(Vec<Option<Shape>>),
}

impl Shape {
    pub fn decisions(&self) -> usize {
        match self {
            Shape::Leaf => 0,
            Shape::Dec(c) => 1 + c.iter().flatten().map(|s| s.decisions()).sum::<usize>(),
        }
    }
    pub fn nodes(&self) -> usize {
        match self {
            Shape::Leaf => 1,
            Shape::Dec(c) => 1 + c.iter().flatten().map(|s| s.nodes()).sum::<usize>(),
        }
    }
    pub fn is_total(&self) -> bool {
        match self {
            Shape::Leaf => true,
            Shape::Dec(c) => c.iter().all(|s| s.as_ref().map_or(false, |s| s.is_total())),
        }
    }
}

/// all shapes with at most `n` decision nodes (each decision has at least one child);
/// `partial` allows missing children
pub fn shapes(k: usize, n: usize, partial: bool) -> Vec<Shape> {
    // by[m] = shapes with exactly m decisions
    let mut by: Vec<Vec<Shape>> = vec![vec![Shape::Leaf]];
    for m in 1..=n {
        let mut cur = vec![];
        // distribute m-1 decisions over k child slots; each slot: None | shape
        fn rec(k: usize, slot: usize, left: usize, partial: bool, by: &Vec<Vec<Shape>>, acc: &mut Vec<Option<Shape>>, out: &mut Vec<Shape>) {
            if slot == k {
                if left == 0 && acc.iter().any(|c| c.is_some()) {
                    out.push(Shape::Dec(acc.clone()));
                }
                return;
            }
            if partial {
                acc.push(None);
                rec(k, slot + 1, left, partial, by, acc, out);
                acc.pop();
            }
            for used in 0..=left {
                for s in &by[used] {
                    acc.push(Some(s.clone()));
                    rec(k, slot + 1, left - used, partial, by, acc, out);
                    acc.pop();
                }
            }
        }
        rec(k, 0, m - 1, partial, &by, &mut vec![], &mut cur);
        by.push(cur);
    }
    by.into_iter().flatten().collect()
}

pub fn arr2(rows: &[Vec<f64>], cols: usize) -> Array2<f64> {
    let mut m = Array2::zeros((rows.len(), cols));
    for (i, r) in rows.iter().enumerate() {
        for (j, v) in r.iter().enumerate() {
            m[[i, j]] = *v;
        }
    }
    m
}

pub fn aff(rows: &[Vec<f64>], bias: &[f64], cols: usize) -> AffFunc {
    AffFunc::from_mats(arr2(rows, cols), Array1::from(bias.to_vec()))
}

pub fn poly(rows: &[Vec<f64>], bias: &[f64], cols: usize) -> Polytope {
    Polytope::from_mats(arr2(rows, cols), Array1::from(bias.to_vec()))
}

/// random predicate row: coefficients in {-1,0,1} (zero rows allowed with probability ~1/9), bias in {-1,0,1}
pub fn pred_row(rng: &mut Rng, dim: usize) -> (Vec<f64>, f64) {
    let c = [-1.0, 0.0, 1.0];
    let row: Vec<f64> = (0..dim).map(|_| *rng.pick(&c)).collect();
    (row, *rng.pick(&c))
}

pub fn pred(rng: &mut Rng, dim: usize, rows: usize) -> AffFunc {
    let mut m = vec![];
    let mut b = vec![];
    for _ in 0..rows {
        let (r, bb) = pred_row(rng, dim);
        m.push(r);
        b.push(bb);
    }
    aff(&m, &b, dim)
}

/// random terminal R^dim -> R^out, coefficients in {-1,0,1,2}, bias in {-1,0,1}; with `few` the pool is
/// tiny so that equal siblings are frequent
pub fn term(rng: &mut Rng, dim: usize, out: usize, few: bool) -> AffFunc {
    let c: &[f64] = if few { &[0.0, 1.0] } else { &[-1.0, 0.0, 1.0, 2.0] };
    let bs: &[f64] = if few { &[0.0, 1.0] } else { &[-1.0, 0.0, 1.0] };
    let m: Vec<Vec<f64>> = (0..out).map(|_| (0..dim).map(|_| *rng.pick(c)).collect()).collect();
    let b: Vec<f64> = (0..out).map(|_| *rng.pick(bs)).collect();
    aff(&m, &b, dim)
}

/// build a tree of the given shape through the public API (from_aff + add_child_node);
/// `scramble` inserts and removes temporary subtrees so that arena indices are reused out of order
pub fn build<const K: usize>(rng: &mut Rng, shape: &Shape, dim: usize, out: usize, few: bool, scramble: bool) -> AffTree<K> {
    let rows = K.trailing_zeros() as usize;
    fn node_fn<const K: usize>(rng: &mut Rng, s: &Shape, dim: usize, out: usize, few: bool, rows: usize) -> AffFunc {
        match s {
            Shape::Leaf => term(rng, dim, out, few),
            Shape::Dec(_) => pred(rng, dim, rows),
        }
    }
    let mut t = AffTree::<K>::from_aff(node_fn::<K>(rng, shape, dim, out, few, rows));
    let root = t.tree.get_root_idx();
    // Nodes are inserted in a random parent-before-child order. With `scramble`, a slot that is about to be filled may
    // first receive a decoy node that is removed again at a random later time, so that freed (low) indices are reused by
    // arbitrary later nodes: children can get smaller indices than their parents and layouts are non-contiguous.
    let mut pending: Vec<(usize, usize, Shape, bool)> = vec![];
    let mut decoys: Vec<(usize, usize, Shape)> = vec![];
    if let Shape::Dec(cs) = shape {
        for (l, c) in cs.iter().enumerate() {
            if let Some(c) = c {
                pending.push((root, l, c.clone(), true));
            }
        }
    }
    while !pending.is_empty() || !decoys.is_empty() {
        let undo = !decoys.is_empty() && (pending.is_empty() || rng.chance(1, 3));
        if undo {
            let k = rng.below(decoys.len());
            let (p, l, sh) = decoys.swap_remove(k);
            t.tree.remove_child(p, l);
            pending.push((p, l, sh, false));
            continue;
        }
        let k = if scramble { rng.below(pending.len()) } else { 0 };
        let (p, l, sh, may_decoy) = pending.remove(k);
        if scramble && may_decoy && rng.chance(1, 3) {
            let tmp = t.add_child_node(p, l, term(rng, dim, out, few)).unwrap();
            if rng.chance(1, 2) {
                let _ = t.add_child_node(tmp, rng.below(K), term(rng, dim, out, few)).unwrap();
            }
            decoys.push((p, l, sh));
            continue;
        }
        let f = node_fn::<K>(rng, &sh, dim, out, few, rows);
        let idx = t.add_child_node(p, l, f).unwrap();
        if let Shape::Dec(cs) = &sh {
            for (cl, c) in cs.iter().enumerate() {
                if let Some(c) = c {
                    pending.push((idx, cl, c.clone(), true));
                }
            }
        }
    }
    t
}

/// half-integer lattice in [-3,3]^d
pub fn lattice(dim: usize) -> Vec<Vec<Q>> {
    let vals: Vec<Q> = (-6..=6).map(|i| Q::new(i, 2)).collect();
    let mut pts: Vec<Vec<Q>> = vec![vec![]];
    for _ in 0..dim {
        let mut next = vec![];
        for p in &pts {
            for v in &vals {
                let mut q = p.clone();
                q.push(*v);
                next.push(q);
            }
        }
        pts = next;
    }
    pts
}

pub fn to_arr(x: &[Q]) -> Array1<f64> {
    Array1::from(x.iter().map(|q| q.to_f64()).collect::<Vec<f64>>())
}
