use vstd::prelude::*;
use std::marker::PhantomData;
verus! {

// ---------- math prelude
pub type V = Seq<real>;
pub type M = Seq<Seq<real>>;

pub open spec fn dotp(a: V, b: V, n: int) -> real decreases n {
    if n <= 0 { 0real } else { dotp(a, b, n - 1) + a[n - 1] * b[n - 1] }
}
pub open spec fn m_ok(a: M, r: int, c: int) -> bool {
    a.len() == r && forall|i: int| 0 <= i < r ==> (#[trigger] a[i]).len() == c
}
pub open spec fn mv(a: M, x: V) -> V {
    Seq::new(a.len(), |i: int| dotp(a[i], x, x.len() as int))
}
pub open spec fn col(b: M, j: int) -> V { Seq::new(b.len(), |k: int| b[k][j]) }
pub open spec fn mm(a: M, b: M, c: int) -> M {
    Seq::new(a.len(), |i: int| Seq::new(c as nat, |j: int| dotp(a[i], col(b, j), b.len() as int)))
}
pub open spec fn vadd(a: V, b: V) -> V { Seq::new(a.len(), |i: int| a[i] + b[i]) }

// ---------- ndarray shim
pub trait Data { type Elem; }
pub trait Float: Sized {}
pub trait LinalgScalar: Sized {}
impl Float for f64 {}
impl LinalgScalar for f64 {}
pub struct OwnedRepr<A> { _a: PhantomData<A> }
impl<A> Data for OwnedRepr<A> { type Elem = A; }
pub struct Ix1; pub struct Ix2;

#[verifier::external_body]
#[verifier::accept_recursive_types(S)]
#[verifier::accept_recursive_types(D)]
pub struct ArrayBase<S: Data, D> { _s: PhantomData<S>, _d: PhantomData<D> }

pub type Array1<A> = ArrayBase<OwnedRepr<A>, Ix1>;
pub type Array2<A> = ArrayBase<OwnedRepr<A>, Ix2>;

impl<S: Data> ArrayBase<S, Ix2> {
    pub uninterp spec fn view2(&self) -> M;
    pub uninterp spec fn nrows(&self) -> int;
    pub uninterp spec fn ncols(&self) -> int;
    pub open spec fn ok(&self) -> bool { m_ok(self.view2(), self.nrows(), self.ncols()) && self.nrows() >= 0 && self.ncols() >= 0 }
}
impl<S: Data> ArrayBase<S, Ix1> {
    pub uninterp spec fn view1(&self) -> V;
}

pub trait Dot<Rhs> {
    type Output;
    spec fn dot_req(&self, rhs: &Rhs) -> bool;
    spec fn dot_ens(&self, rhs: &Rhs, out: &Self::Output) -> bool;
    fn dot(&self, rhs: &Rhs) -> (out: Self::Output)
        requires self.dot_req(rhs)
        ensures self.dot_ens(rhs, &out);
}

impl<A, S: Data<Elem = A>, S2: Data<Elem = A>> Dot<ArrayBase<S2, Ix2>> for ArrayBase<S, Ix2> {
    type Output = Array2<A>;
    open spec fn dot_req(&self, rhs: &ArrayBase<S2, Ix2>) -> bool { self.ok() && rhs.ok() && self.ncols() == rhs.nrows() }
    open spec fn dot_ens(&self, rhs: &ArrayBase<S2, Ix2>, out: &Array2<A>) -> bool {
        out.ok() && out.nrows() == self.nrows() && out.ncols() == rhs.ncols() && out.view2() == mm(self.view2(), rhs.view2(), rhs.ncols())
    }
    #[verifier::external_body]
    fn dot(&self, rhs: &ArrayBase<S2, Ix2>) -> (out: Array2<A>) { unimplemented!() }
}

impl<A, S: Data<Elem = A>, S2: Data<Elem = A>> Dot<ArrayBase<S2, Ix1>> for ArrayBase<S, Ix2> {
    type Output = Array1<A>;
    open spec fn dot_req(&self, rhs: &ArrayBase<S2, Ix1>) -> bool { self.ok() && self.ncols() == rhs.view1().len() }
    open spec fn dot_ens(&self, rhs: &ArrayBase<S2, Ix1>, out: &Array1<A>) -> bool {
        out.view1() == mv(self.view2(), rhs.view1())
    }
    #[verifier::external_body]
    fn dot(&self, rhs: &ArrayBase<S2, Ix1>) -> (out: Array1<A>) { unimplemented!() }
}

impl<'a, A, S: Data<Elem = A>, S2: Data<Elem = A>> core::ops::Add<&'a ArrayBase<S2, Ix1>> for ArrayBase<S, Ix1> {
    type Output = Array1<A>;
    #[verifier::external_body]
    fn add(self, rhs: &'a ArrayBase<S2, Ix1>) -> (out: Array1<A>)
    { unimplemented!() }
}

impl<A, S: Data<Elem = A>, S2: Data<Elem = A>> core::ops::Add<ArrayBase<S2, Ix1>> for ArrayBase<S, Ix1> {
    type Output = Array1<A>;
    #[verifier::external_body]
    fn add(self, rhs: ArrayBase<S2, Ix1>) -> (out: Array1<A>)
    { unimplemented!() }
}
// ---------- extracted code
pub struct AffFuncBase<T, S>
where
    S: Data,
    S::Elem: Float,
{
    pub mat: ArrayBase<S, Ix2>,
    pub bias: ArrayBase<S, Ix1>,
    pub _phantom: PhantomData<T>,
}
pub struct FunctionT;

impl<D: Data<Elem = A>, A: Float + LinalgScalar> AffFuncBase<FunctionT, D> {
    pub fn apply<S: Data<Elem = A>>(&self, input: &ArrayBase<S, Ix1>) -> Array1<A> {
        self.mat.dot(input) + &self.bias
    }
}

} // verus!
fn main() {}
