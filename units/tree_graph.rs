// unit tree_graph — C12: arena consistency of Tree<N,K> (src/tree/graph.rs)
use vstd::prelude::*;
use std::mem;
verus! {

pub type TreeIndex = usize;
pub type Label = usize;

//@include prelude/slab_shim.rs

//@item src/tree/graph.rs | struct TreeNode
//@item src/tree/graph.rs | struct InvalidTreeIndexError | pub-fields
//@item src/tree/graph.rs | enum NodeError
//@item src/tree/graph.rs | struct Tree | pub-fields
//@item src/tree/graph.rs | struct Edge
//@item src/tree/graph.rs | struct EdgeReference

// rule D4: what `#[from]` on NodeError::InvalidIndex expands to
impl From<InvalidTreeIndexError> for NodeError {
    fn from(e: InvalidTreeIndexError) -> (r: Self) ensures r == NodeError::InvalidIndex(e) { NodeError::InvalidIndex(e) }
}
impl vstd::std_specs::convert::FromSpecImpl<InvalidTreeIndexError> for NodeError {
    open spec fn obeys_from_spec() -> bool { true }
    open spec fn from_spec(e: InvalidTreeIndexError) -> NodeError { NodeError::InvalidIndex(e) }
}

// assumption A-from: the error conversion performed by `?` is the `From` impl above
pub mod ax {
    use super::*;
    pub broadcast axiom fn axiom_from_invalid_index(e: InvalidTreeIndexError, r: NodeError)
        ensures #[trigger] vstd::std_specs::control_flow::spec_from::<NodeError, InvalidTreeIndexError>(e, r) ==> r == NodeError::InvalidIndex(e);
}
broadcast use ax::axiom_from_invalid_index;

//@include prelude/tree_spec.rs

// two arenas with the same domain and the same links (values may differ)
pub open spec fn same_shape<N, const K: usize>(a0: Arena<N, K>, a1: Arena<N, K>) -> bool {
    a0.dom() =~= a1.dom() && forall|i: usize| #![trigger a1[i]] a0.dom().contains(i) ==>
        a0[i].parent == a1[i].parent && a0[i].children == a1[i].children && a0[i].isleaf == a1[i].isleaf
}

pub proof fn lemma_same_shape_wf<N, const K: usize>(a0: Arena<N, K>, a1: Arena<N, K>, root: Option<usize>)
    requires wf_at(a0, root), same_shape(a0, a1)
    ensures wf_at(a1, root)
{
    let d = choose|d: Map<usize, nat>| ranked(a0, d);
    assert(ranked(a1, d)) by {
        assert forall|c: usize| a1.dom().contains(c) && (#[trigger] a1[c].parent).is_some() implies d[a1[c].parent.unwrap()] < d[c] by {
            assert(a0[c].parent == a1[c].parent);
        }
    }
    assert(kids_ok(a1)) by {
        assert forall|i: usize, l: int| a1.dom().contains(i) && 0 <= l < K && (#[trigger] a1[i].children[l]).is_some() implies
            a1.dom().contains(a1[i].children[l].unwrap()) && a1[a1[i].children[l].unwrap()].parent == Some(i) by {
            assert(a0[i].children[l] == a1[i].children[l]);
            let c = a0[i].children[l].unwrap();
            assert(a0[c].parent == a1[c].parent);
        }
    }
    assert(parents_ok(a1)) by {
        assert forall|c: usize| a1.dom().contains(c) && (#[trigger] a1[c].parent).is_some() implies
            a1.dom().contains(a1[c].parent.unwrap())
            && exists|l: int| 0 <= l < K && #[trigger] a1[a1[c].parent.unwrap()].children[l] == Some(c) by {
            assert(a0[c].parent == a1[c].parent);
            let p = a0[c].parent.unwrap();
            let l = choose|l: int| 0 <= l < K && #[trigger] a0[p].children[l] == Some(c);
            assert(a1[p].children[l] == Some(c));
        }
    }
    assert(kids_unique(a1)) by {
        assert forall|i: usize, l1: int, l2: int| a1.dom().contains(i) && 0 <= l1 < K && 0 <= l2 < K && l1 != l2
            && (#[trigger] a1[i].children[l1]).is_some() implies a1[i].children[l1] != #[trigger] a1[i].children[l2] by {
            assert(a0[i].children[l1] == a1[i].children[l1]);
            assert(a0[i].children[l2] == a1[i].children[l2]);
        }
    }
    assert(leaf_ok(a1)) by {
        assert forall|i: usize| a1.dom().contains(i) implies (#[trigger] a1[i].isleaf <==> no_kids(a1[i])) by {
            assert(a0[i].isleaf == a1[i].isleaf);
            assert(a0[i].children == a1[i].children);
            assert(no_kids(a0[i]) <==> no_kids(a1[i]));
        }
    }
    assert(root_ok(a1, root)) by {
        assert forall|i: usize| a1.dom().contains(i) && (#[trigger] a1[i].parent).is_none() implies root == Some(i) by {
            assert(a0[i].parent == a1[i].parent);
        }
        if root.is_some() { assert(a0[root.unwrap()].parent == a1[root.unwrap()].parent); }
    }
}

// a1 is a0 with a fresh leaf c hung below `parent` at slot `label`
pub open spec fn child_added<N, const K: usize>(a0: Arena<N, K>, a1: Arena<N, K>, parent: usize, label: usize, c: usize) -> bool {
    &&& a0.dom().contains(parent) && label < K && a0[parent].children[label as int].is_none()
    &&& !a0.dom().contains(c) && a1.dom() =~= a0.dom().insert(c)
    &&& a1[c].parent == Some(parent) && a1[c].isleaf && no_kids(a1[c])
    &&& a1[parent].children@ == a0[parent].children@.update(label as int, Some(c))
    &&& a1[parent].parent == a0[parent].parent && !a1[parent].isleaf
    &&& forall|i: usize| a0.dom().contains(i) && i != parent ==> a1[i] == a0[i]
}

pub proof fn lemma_add_child_wf<N, const K: usize>(a0: Arena<N, K>, a1: Arena<N, K>, root: Option<usize>, parent: usize, label: usize, c: usize)
    requires wf_at(a0, root), child_added(a0, a1, parent, label, c)
    ensures wf_at(a1, root)
{
    let d = choose|d: Map<usize, nat>| ranked(a0, d);
    let d1 = d.insert(c, d[parent] + 1);
    assert(c != parent);
    assert(forall|l: int| 0 <= l < K && l != label ==> a1[parent].children[l] == a0[parent].children[l]) by {
        assert forall|l: int| 0 <= l < K && l != label implies a1[parent].children[l] == a0[parent].children[l] by {
            assert(a1[parent].children@[l] == a0[parent].children@[l]);
        }
    }
    assert(a1[parent].children[label as int] == Some(c)) by { assert(a1[parent].children@[label as int] == Some(c)); }
    // no old node lists c (c was not in the arena)
    assert forall|i: usize, l: int| a0.dom().contains(i) && 0 <= l < K implies (#[trigger] a0[i].children[l]) != Some(c) by {}
    assert(ranked(a1, d1)) by {
        assert forall|x: usize| a1.dom().contains(x) && (#[trigger] a1[x].parent).is_some() implies d1[a1[x].parent.unwrap()] < d1[x] by {
            if x == c {} else {
                assert(a1[x].parent == a0[x].parent);
                assert(a0.dom().contains(a0[x].parent.unwrap()));
            }
        }
    }
    assert(kids_ok(a1)) by {
        assert forall|i: usize, l: int| a1.dom().contains(i) && 0 <= l < K && (#[trigger] a1[i].children[l]).is_some() implies
            a1.dom().contains(a1[i].children[l].unwrap()) && a1[a1[i].children[l].unwrap()].parent == Some(i) by {
            if i == c { assert(a1[c].children[l].is_none()); }
            else if i == parent && l == label {}
            else {
                assert(a1[i].children[l] == a0[i].children[l]);
                let x = a0[i].children[l].unwrap();
                assert(x != c);
                assert(a1[x].parent == a0[x].parent);
            }
        }
    }
    assert(parents_ok(a1)) by {
        assert forall|x: usize| a1.dom().contains(x) && (#[trigger] a1[x].parent).is_some() implies
            a1.dom().contains(a1[x].parent.unwrap())
            && exists|l: int| 0 <= l < K && #[trigger] a1[a1[x].parent.unwrap()].children[l] == Some(x) by {
            if x == c { assert(a1[parent].children[label as int] == Some(c)); }
            else {
                assert(a1[x].parent == a0[x].parent);
                let p = a0[x].parent.unwrap();
                let l = choose|l: int| 0 <= l < K && #[trigger] a0[p].children[l] == Some(x);
                assert(l != label || p != parent);
                assert(a1[p].children[l] == Some(x));
            }
        }
    }
    assert(kids_unique(a1)) by {
        assert forall|i: usize, l1: int, l2: int| a1.dom().contains(i) && 0 <= l1 < K && 0 <= l2 < K && l1 != l2
            && (#[trigger] a1[i].children[l1]).is_some() implies a1[i].children[l1] != #[trigger] a1[i].children[l2] by {
            if i == c { assert(a1[c].children[l1].is_none()); }
            else if i == parent {
                if l1 == label { assert(a1[i].children[l2] == a0[i].children[l2]); }
                else if l2 == label { assert(a1[i].children[l1] == a0[i].children[l1]); }
                else { assert(a1[i].children[l1] == a0[i].children[l1]); assert(a1[i].children[l2] == a0[i].children[l2]); }
            } else {
                assert(a1[i].children[l1] == a0[i].children[l1]); assert(a1[i].children[l2] == a0[i].children[l2]);
            }
        }
    }
    assert(leaf_ok(a1)) by {
        assert forall|i: usize| a1.dom().contains(i) implies (#[trigger] a1[i].isleaf <==> no_kids(a1[i])) by {
            if i == c {} else if i == parent { assert(a1[i].children[label as int].is_some()); }
            else { assert(a1[i] == a0[i]); }
        }
    }
    assert(root_ok(a1, root)) by {
        assert forall|i: usize| a1.dom().contains(i) && (#[trigger] a1[i].parent).is_none() implies root == Some(i) by {
            if i != c { assert(a1[i].parent == a0[i].parent); }
        }
        if root.is_some() { assert(a1[root.unwrap()].parent == a0[root.unwrap()].parent); }
        if root.is_none() { assert(a0.dom().contains(parent)); }
    }
}

pub proof fn lemma_same_shape_wf_all<N, const K: usize>(a0: Arena<N, K>, root: Option<usize>)
    requires wf_at(a0, root)
    ensures forall|a1: Arena<N, K>| #[trigger] same_shape(a0, a1) ==> wf_at(a1, root)
{
    assert forall|a1: Arena<N, K>| #[trigger] same_shape(a0, a1) implies wf_at(a1, root) by { lemma_same_shape_wf(a0, a1, root); }
}

// complete effect of add_child_node: error => unchanged; success => child_added
pub open spec fn add_child_post<N, const K: usize>(a0: Arena<N, K>, a1: Arena<N, K>, parent: usize, label: usize, r: Result<usize, NodeError>) -> bool {
    &&& r is Err ==> a1 == a0
    &&& r is Ok ==> child_added(a0, a1, parent, label, r->Ok_0)
}

pub proof fn lemma_add_child_wf_all<N, const K: usize>(a0: Arena<N, K>, root: Option<usize>, parent: usize, label: usize)
    requires wf_at(a0, root)
    ensures forall|a1: Arena<N, K>, r: Result<usize, NodeError>| #[trigger] add_child_post(a0, a1, parent, label, r) ==> wf_at(a1, root)
{
    assert forall|a1: Arena<N, K>, r: Result<usize, NodeError>| #[trigger] add_child_post(a0, a1, parent, label, r) implies wf_at(a1, root) by {
        if r is Ok { lemma_add_child_wf(a0, a1, root, parent, label, r->Ok_0); }
    }
}

impl<T, const K: usize> TreeNode<T, K> {
//@fn src/tree/graph.rs | impl<T, const K: usize> TreeNode<T, K> | new
//@spec
    ensures r.isleaf, r.parent == parent, r.value == value, no_kids(r)
//@end
}

impl<N, const K: usize> Tree<N, K> {
    pub open spec fn wf(&self) -> bool { wf_at(self.arena@, self.root) }

//@fn src/tree/graph.rs | impl<N, const K: usize> Tree<N, K> | len
//@spec
    ensures r == self.arena@.dom().len()
//@end

//@fn src/tree/graph.rs | impl<N, const K: usize> Tree<N, K> | is_empty
//@spec
    ensures r == (self.arena@.dom().len() == 0)
//@end

//@fn src/tree/graph.rs | impl<N, const K: usize> Tree<N, K> | tree_node
//@spec
    ensures
        self.arena@.dom().contains(idx) ==> r is Ok && *r->Ok_0 == self.arena@[idx],
        !self.arena@.dom().contains(idx) ==> r is Err && r->Err_0.index == idx,
//@end

//@fn src/tree/graph.rs | impl<N, const K: usize> Tree<N, K> | tree_node_mut
//@spec
    ensures
        !old(self).arena@.dom().contains(idx) ==> r is Err && r->Err_0.index == idx && final(self).arena@ == old(self).arena@,
        old(self).arena@.dom().contains(idx) ==> r is Ok && *r->Ok_0 == old(self).arena@[idx]
            && final(self).arena@ == old(self).arena@.insert(idx, *final(r->Ok_0)),
        final(self).root == old(self).root,
//@end

//@fn src/tree/graph.rs | impl<N, const K: usize> Tree<N, K> | contains
//@spec
    ensures r == self.arena@.dom().contains(node_idx)
//@end

//@fn src/tree/graph.rs | impl<N, const K: usize> Tree<N, K> | is_root
//@spec
    ensures r == (self.root == Some(idx))
//@end

//@fn src/tree/graph.rs | impl<N, const K: usize> Tree<N, K> | num_children
//@spec
    requires self.arena@.dom().contains(node)
    ensures r == count_some_from(self.arena@[node].children, 0), r <= K
//@end

//@fn src/tree/graph.rs | impl<N, const K: usize> Tree<N, K> | get_root_idx
//@spec
    requires self.root is Some
    ensures Some(r) == self.root
//@end

//@fn src/tree/graph.rs | impl<N, const K: usize> Tree<N, K> | parent
//@spec
    requires parents_ok(self.arena@)
    ensures
        !self.arena@.dom().contains(node_idx) ==> (r matches Err(NodeError::InvalidIndex(e)) && e.index == node_idx),
        self.arena@.dom().contains(node_idx) && self.arena@[node_idx].parent is None
            ==> (r matches Err(NodeError::MissingParent { index }) && index == node_idx),
        self.arena@.dom().contains(node_idx) && self.arena@[node_idx].parent is Some ==> (r matches Ok(e)
            && Some(e.source_idx) == self.arena@[node_idx].parent && e.target_idx == node_idx && e.label < K
            && self.arena@[e.source_idx].children[e.label as int] == Some(node_idx)
            && (forall|l: int| 0 <= l < e.label ==> self.arena@[e.source_idx].children[l] != Some(node_idx))
            && *e.source_value == self.arena@[e.source_idx].value && *e.target_value == self.arena@[node_idx].value),
//@loop 1
        invariant
            parent.children.len() == K,
            *parent == self.arena@[parent_idx], *node == self.arena@[node_idx],
            node.parent == Some(parent_idx), self.arena@.dom().contains(node_idx), self.arena@.dom().contains(parent_idx),
            forall|l: int| 0 <= l < label ==> parent.children[l] != Some(node_idx),
//@end

//@fn src/tree/graph.rs | impl<N, const K: usize> Tree<N, K> | child
//@spec
    requires label < K
    ensures
        !self.arena@.dom().contains(node_idx) ==> (r matches Err(NodeError::InvalidIndex(e)) && e.index == node_idx),
        self.arena@.dom().contains(node_idx) && self.arena@[node_idx].children[label as int] is None
            ==> (r matches Err(NodeError::MissingChild { parent, label: l }) && parent == node_idx && l == label),
        self.arena@.dom().contains(node_idx) && self.arena@[node_idx].children[label as int] is Some
            && !self.arena@.dom().contains(self.arena@[node_idx].children[label as int].unwrap())
            ==> r is Err,
        self.arena@.dom().contains(node_idx) && self.arena@[node_idx].children[label as int] is Some
            && self.arena@.dom().contains(self.arena@[node_idx].children[label as int].unwrap())
            ==> (r matches Ok(e) && e.source_idx == node_idx && e.label == label
                && Some(e.target_idx) == self.arena@[node_idx].children[label as int]
                && *e.source_value == self.arena@[node_idx].value && *e.target_value == self.arena@[e.target_idx].value),
//@end

//@fn src/tree/graph.rs | impl<N, const K: usize> Tree<N, K> | add_root
//@spec
    ensures
        final(self).root == Some(r),
        !old(self).arena@.dom().contains(r),
        final(self).arena@.dom() == old(self).arena@.dom().insert(r),
        forall|i: usize| old(self).arena@.dom().contains(i) ==> final(self).arena@[i] == old(self).arena@[i],
        final(self).arena@[r].value == value, final(self).arena@[r].parent is None,
        final(self).arena@[r].isleaf, no_kids(final(self).arena@[r]),
        // documented exception: only a previously empty tree stays well-formed
        old(self).arena@.dom() =~= Set::<usize>::empty() ==> final(self).wf(),
//@hint end
        proof {
            if old(self).arena@.dom() =~= Set::<usize>::empty() {
                let a = self.arena@;
                assert(a.dom() =~= set![idx]);
                assert(ranked(a, Map::<usize, nat>::empty().insert(idx, 0nat)));
                assert(no_kids(a[idx]));
            }
        }
//@end

//@fn src/tree/graph.rs | impl<N, const K: usize> Tree<N, K> | add_child_node
//@spec
    requires old(self).wf(), label < K
    ensures
        // an operation that returns an error leaves the tree observably unchanged;
        // success: a fresh leaf under (parent, label), every other node keeps index and value
        add_child_post(old(self).arena@, final(self).arena@, parent, label, r),
        r matches Ok(c) ==> final(self).arena@[c].value == value
            && final(self).arena@[parent].value == old(self).arena@[parent].value,
        r is Err <==> !old(self).arena@.dom().contains(parent) || old(self).arena@[parent].children[label as int] is Some,
        !old(self).arena@.dom().contains(parent) ==> (r matches Err(NodeError::InvalidIndex(e)) && e.index == parent),
        final(self).root == old(self).root,
        // the structural invariant is preserved (follows from the effect clause by lemma_add_child_wf)
        add_child_post(old(self).arena@, final(self).arena@, parent, label, r) ==> final(self).wf(),
//@hint start
        proof { lemma_add_child_wf_all(old(self).arena@, old(self).root, parent, label); }
//@end

//@fn src/tree/graph.rs | impl<N, const K: usize> Tree<N, K> | update_node
//@spec
    requires old(self).wf()
    ensures
        final(self).root == old(self).root,
        same_shape(old(self).arena@, final(self).arena@),
        same_shape(old(self).arena@, final(self).arena@) ==> final(self).wf(),
        !old(self).arena@.dom().contains(idx) ==> (r matches Err(NodeError::InvalidIndex(e)) && e.index == idx
            && final(self).arena@ == old(self).arena@),
        old(self).arena@.dom().contains(idx) ==> (r matches Ok(v) && v == old(self).arena@[idx].value
            && same_shape(old(self).arena@, final(self).arena@)
            && final(self).arena@[idx].value == value
            && forall|i: usize| old(self).arena@.dom().contains(i) && i != idx ==> final(self).arena@[i] == old(self).arena@[i]),
//@hint start
        proof { lemma_same_shape_wf_all(old(self).arena@, old(self).root); }
//@end

}

} // verus!
fn main() {}
