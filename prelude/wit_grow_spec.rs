// ---- prelude/wit_grow_spec.rs : C05 for operations that only GROW the tree below terminals or rewrite terminal functions (un-pruned composition, apply_func) ----
// cached states of the old nodes are kept, nodes that are new carry no cache
#[verifier::opaque]
pub open spec fn states_kept<const K: usize>(a0: AArena<K>, a: AArena<K>) -> bool {
    forall|i: usize| #![trigger a[i]] a.dom().contains(i) ==> (if a0.dom().contains(i) { a[i].value.state == a0[i].value.state } else { a[i].value.state is Indeterminate })
}
pub proof fn lemma_sk_init<const K: usize>(a0: AArena<K>)
    ensures states_kept(a0, a0)
{ reveal(states_kept); }
// a value is replaced, its cached state kept (update_node in generic_composition_inplace, apply_func_at_node)
pub proof fn lemma_sk_update<const K: usize>(a0: AArena<K>, a1: AArena<K>, a2: AArena<K>, t: usize)
    requires states_kept(a0, a1), a1.dom().contains(t), a2.dom() == a1.dom(), a2[t].value.state == a1[t].value.state,
        forall|i: usize| a1.dom().contains(i) && i != t ==> #[trigger] a2[i] == a1[i],
    ensures states_kept(a0, a2)
{
    reveal(states_kept);
    assert forall|i: usize| #![trigger a2[i]] a2.dom().contains(i) implies (if a0.dom().contains(i) { a2[i].value.state == a0[i].value.state } else { a2[i].value.state is Indeterminate }) by {
        if i != t { assert(a2[i] == a1[i]); }
        assert(a1.dom().contains(i));
    }
}
// a fresh node without cache is attached
pub proof fn lemma_sk_add<const K: usize>(a0: AArena<K>, a1: AArena<K>, a2: AArena<K>, parent: usize, label: usize, c: usize)
    requires states_kept(a0, a1), a0.dom().subset_of(a1.dom()), child_added(a1, a2, parent, label, c), a2[c].value.state is Indeterminate, a2[parent].value == a1[parent].value,
    ensures states_kept(a0, a2)
{
    reveal(states_kept);
    assert forall|i: usize| #![trigger a2[i]] a2.dom().contains(i) implies (if a0.dom().contains(i) { a2[i].value.state == a0[i].value.state } else { a2[i].value.state is Indeterminate }) by {
        if i != c && i != parent { assert(a2[i] == a1[i]); }
        if i != c { assert(a1.dom().contains(i)); }
    }
}
// the old nodes keep their parent, old decisions keep everything: an ancestor chain that ends in an old node is an old chain
pub open spec fn old_kept<const K: usize>(a0: AArena<K>, a1: AArena<K>) -> bool {
    forall|i: usize| #![trigger a1[i]] a0.dom().contains(i) ==> a1.dom().contains(i) && a1[i].parent == a0[i].parent && (!a0[i].isleaf ==> a1[i] == a0[i])
}
pub proof fn lemma_old_chain<const K: usize>(a0: AArena<K>, a1: AArena<K>, k: usize, c: usize, f: nat)
    requires old_kept(a0, a1), parents_ok(a0), a0.dom().contains(c), is_desc(a1, k, c, f)
    ensures is_desc(a0, k, c, f), a0.dom().contains(k)
    decreases f
{
    assert(a1[c].parent == a0[c].parent);
    let p = a1[c].parent.unwrap();
    assert(a0.dom().contains(p));
    if p != k { lemma_old_chain(a0, a1, k, p, (f - 1) as nat); }
}
// witnesses that were right before are right afterwards; nothing new carries a witness
pub proof fn lemma_wit_grow<const K: usize>(a0: AArena<K>, a1: AArena<K>)
    requires wit_inv(a0, a0), states_kept(a0, a1), old_kept(a0, a1), links_ok(a0), kids_ok(a1)
    ensures wit_inv(a1, a1)
{
    reveal(wit_inv); reveal(states_kept);
    assert forall|c: usize| #![trigger a1[c].value] a1.dom().contains(c) implies wits_ok(a1, c, a1[c].value.state) by {
        if let NodeState::FeasibleWitness(v) = a1[c].value.state {
            assert(a1[c].value.state == a1[c].value.state);
            assert(a0.dom().contains(c)) by { if !a0.dom().contains(c) { assert(a1[c].value.state is Indeterminate); } }
            assert(a1[c].value.state == a0[c].value.state);
            assert(wits_ok(a0, c, a0[c].value.state));
            assert forall|i: int| 0 <= i < v@.len() implies wit_on_path(a1, c, (#[trigger] v@[i]).v()) by {
                let w = v@[i].v();
                assert(wit_on_path(a0, c, w));
                assert forall|p: usize, l: int| #[trigger] edge_above(a1, p, l, c) implies wit_edge(a1[p].value.aff, l, w) by {
                    let k = a1[p].children[l].unwrap();
                    assert(a1.dom().contains(k) && a1[k].parent == Some(p));
                    if k != c { let f = choose|f: nat| is_desc(a1, k, c, f); lemma_old_chain(a0, a1, k, c, f); }
                    // k is an old node, so its parent p is old and a decision of the old tree: untouched
                    assert(a0.dom().contains(k));
                    assert(a1[k].parent == a0[k].parent);
                    assert(a0.dom().contains(p));
                    let l0 = choose|l0: int| 0 <= l0 < K && #[trigger] a0[p].children[l0] == Some(k);
                    assert(!a0[p].isleaf) by { if a0[p].isleaf { assert(no_kids(a0[p])); assert(a0[p].children[l0].is_none()); } }
                    assert(a1[p] == a0[p]);
                    assert(edge_above(a0, p, l, c));
                }
            }
        }
    }
}
// apply_func: every terminal function composed with f, cached states kept, decisions untouched
pub proof fn lemma_wit_leaves<const K: usize>(a0: AArena<K>, a1: AArena<K>, f: &AffFunc, root: Option<usize>)
    requires all_leaves_composed(a0, a1, f), wf_at(a0, root), wit_inv(a0, a0)
    ensures wit_inv(a1, a1), states_kept(a0, a1)
{
    lemma_same_shape_wf(a0, a1, root);
    assert(states_kept(a0, a1)) by {
        reveal(states_kept);
        assert forall|i: usize| #![trigger a1[i]] a1.dom().contains(i) implies (if a0.dom().contains(i) { a1[i].value.state == a0[i].value.state } else { a1[i].value.state is Indeterminate }) by {
            assert(a0.dom().contains(i));
            if !a0[i].isleaf { assert(a1[i] == a0[i]); }
        }
    }
    assert(old_kept(a0, a1));
    lemma_wit_grow(a0, a1);
}
// ---- end wit_grow_spec ----
