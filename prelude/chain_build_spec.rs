// ---- prelude/chain_build_spec.rs : building a chain tree row by row (from_poly, inf_norm): invariant and step lemmas ----
// a list of n one-row conditions over inputs of dimension dim (the rows of a polytope, or the bounds of inf_norm)
pub ghost struct RowSpec { pub n: int, pub dim: int, pub sat: spec_fn(int, V) -> bool }
impl RowSpec {
    pub open spec fn all(&self, x: V) -> bool { forall|k: int| 0 <= k < self.n ==> #[trigger] (self.sat)(k, x) }
}
// row j of the polytope as a one-row predicate function
pub open spec fn row_fn_of(f: AffFunc, p: RowSpec, j: int) -> bool {
    f.ok() && f.mat.ncols() == p.dim && f.mat.nrows() == 1
        && forall|x: V| x.len() == p.dim ==> (#[trigger] f.row_sat(0, x) <==> (p.sat)(j, x))
}
pub proof fn lemma_row_fn_clone(f: AffFunc, g: AffFunc, p: RowSpec, j: int)
    requires row_fn_of(f, p, j), g.mat.m() == f.mat.m(), g.bias.v() == f.bias.v(), g.mat.nrows() == f.mat.nrows(), g.mat.ncols() == f.mat.ncols()
    ensures row_fn_of(g, p, j)
{
    assert forall|x: V| x.len() == p.dim implies (#[trigger] g.row_sat(0, x) <==> (p.sat)(j, x)) by { assert(f.row_sat(0, x) <==> (p.sat)(j, x)); }
}

// what from_poly has to denote
pub open spec fn rows_fn(p: RowSpec, ft: AffFunc, ff: Option<AffFunc>, x: V) -> Option<V> {
    if p.all(x) { Some(ft.ap(x)) } else { match ff { Some(g) => Some(g.ap(x)), None => None } }
}
pub open spec fn same_ap(f: AffFunc, g: AffFunc) -> bool { f.ok() && f.mat.nrows() == g.mat.nrows() && f.mat.ncols() == g.mat.ncols() && forall|x: V| x.len() == f.mat.ncols() ==> #[trigger] f.ap(x) == g.ap(x) }

// state of the construction after j rows: chain nodes c[0..j), all but the last complete
#[verifier::opaque]
pub open spec fn fp_inv(a: AArena<2>, c: Seq<usize>, p: RowSpec, ff: Option<AffFunc>, dim: usize, out: usize) -> bool {
    &&& 1 <= c.len() <= p.n && c[0] == 0
    &&& forall|i: usize| #[trigger] a.dom().contains(i) ==> a[i].value.aff.ok() && a[i].value.aff.mat.ncols() == dim
    &&& forall|k: int| 0 <= k < c.len() ==> a.dom().contains(#[trigger] c[k]) && row_fn_of(a[c[k]].value.aff, p, k)
    &&& forall|k1: int, k2: int| 0 <= k1 < k2 < c.len() ==> c[k1] != c[k2]
    &&& forall|k: int| 0 <= k < c.len() - 1 ==> {
            let nd = a[#[trigger] c[k]];
            &&& !nd.isleaf && nd.children[1] == Some(c[k + 1])
            &&& ff is Some ==> nd.children[0].is_some() && a.dom().contains(nd.children[0].unwrap()) && a[nd.children[0].unwrap()].isleaf
                    && same_ap(a[nd.children[0].unwrap()].value.aff, ff.unwrap())
            &&& ff is None ==> nd.children[0].is_none()
        }
    &&& a[c.last()].isleaf && no_kids(a[c.last()])
    // terminals so far: the else-leaves
    &&& forall|i: usize| a.dom().contains(i) && #[trigger] a[i].isleaf && i != c.last() ==> a[i].value.aff.mat.nrows() == out
}

pub proof fn lemma_fp_facts(a: AArena<2>, c: Seq<usize>, p: RowSpec, ff: Option<AffFunc>, dim: usize, out: usize)
    requires fp_inv(a, c, p, ff, dim, out)
    ensures c.len() >= 1, a.dom().contains(c.last()), a[c.last()].isleaf, no_kids(a[c.last()]), c.len() <= p.n
{
    reveal(fp_inv);
}
pub proof fn lemma_fp_init(a: AArena<2>, p: RowSpec, ff: Option<AffFunc>, dim: usize, out: usize)
    requires a.dom() =~= set![0usize], a[0].isleaf, no_kids(a[0]), row_fn_of(a[0].value.aff, p, 0), p.n >= 1, p.dim == dim
    ensures fp_inv(a, seq![0usize], p, ff, dim, out)
{
    reveal(fp_inv);
}

// one more row: (optional) else-leaf below label 0, next decision n below label 1 of the last chain node
pub proof fn lemma_fp_step(a0: AArena<2>, a1: AArena<2>, a2: AArena<2>, c: Seq<usize>, p: RowSpec, ff: Option<AffFunc>, dim: usize, out: usize, e: usize, n: usize)
    requires fp_inv(a0, c, p, ff, dim, out), c.len() < p.n, wf_at(a0, Some(0usize)), p.dim == dim,
        ff is Some ==> ff.unwrap().mat.ncols() == dim && ff.unwrap().mat.nrows() == out
            && child_added(a0, a1, c.last(), 0, e) && a1[c.last()].value == a0[c.last()].value && same_ap(a1[e].value.aff, ff.unwrap()),
        ff is None ==> a1 == a0,
        child_added(a1, a2, c.last(), 1, n), a2[c.last()].value == a1[c.last()].value, row_fn_of(a2[n].value.aff, p, c.len() as int),
    ensures fp_inv(a2, c.push(n), p, ff, dim, out)
{
    reveal(fp_inv);
    let last = c.last();
    let c2 = c.push(n);
    assert(c[c.len() - 1] == last);
    assert(n != last && !a1.dom().contains(n));
    assert(a2[last].children[1] == Some(n)) by { assert(a2[last].children@[1] == Some(n)); }
    if ff is Some {
        assert(e != last && n != e);
        assert(a2[e] == a1[e]);
        assert(a2[last].children[0] == Some(e)) by { assert(a2[last].children@[0] == a1[last].children@[0]); assert(a1[last].children@[0] == Some(e)); }
        assert forall|i: usize| a0.dom().contains(i) && i != last implies a2[i] == a0[i] by { assert(a1[i] == a0[i]); assert(a2[i] == a1[i]); }
        assert forall|i: usize| #[trigger] a2.dom().contains(i) implies a2[i].value.aff.ok() && a2[i].value.aff.mat.ncols() == dim by {
            if i != n && i != e { assert(a0.dom().contains(i)); }
        }
        assert forall|i: usize| a2.dom().contains(i) && #[trigger] a2[i].isleaf && i != n implies a2[i].value.aff.mat.nrows() == out by {
            if i != e { assert(a0.dom().contains(i)); assert(i != last); }
        }
    } else {
        assert(a2[last].children[0].is_none()) by { assert(a2[last].children@[0] == a1[last].children@[0]); }
        assert forall|i: usize| a0.dom().contains(i) && i != last implies a2[i] == a0[i] by { assert(a2[i] == a1[i]); }
        assert forall|i: usize| #[trigger] a2.dom().contains(i) implies a2[i].value.aff.ok() && a2[i].value.aff.mat.ncols() == dim by {
            if i != n { assert(a0.dom().contains(i)); }
        }
        assert forall|i: usize| a2.dom().contains(i) && #[trigger] a2[i].isleaf && i != n implies a2[i].value.aff.mat.nrows() == out by {
            assert(a0.dom().contains(i)); assert(i != last);
        }
    }
    assert forall|k: int| 0 <= k < c2.len() implies a2.dom().contains(#[trigger] c2[k]) && row_fn_of(a2[c2[k]].value.aff, p, k) by {
        if k < c.len() { assert(c2[k] == c[k]); assert(a0.dom().contains(c[k])); }
    }
    assert forall|k1: int, k2: int| 0 <= k1 < k2 < c2.len() implies c2[k1] != c2[k2] by {
        assert(c2[k1] == c[k1]); assert(a0.dom().contains(c[k1]));
        if k2 < c.len() { assert(c2[k2] == c[k2]); }
    }
    assert forall|k: int| 0 <= k < c2.len() - 1 implies ({
            let nd = a2[#[trigger] c2[k]];
            &&& !nd.isleaf && nd.children[1] == Some(c2[k + 1])
            &&& ff is Some ==> nd.children[0].is_some() && a2.dom().contains(nd.children[0].unwrap()) && a2[nd.children[0].unwrap()].isleaf
                    && same_ap(a2[nd.children[0].unwrap()].value.aff, ff.unwrap())
            &&& ff is None ==> nd.children[0].is_none()
        }) by {
        assert(c2[k] == c[k]);
        assert(a0.dom().contains(c[k]));
        if k < c.len() - 1 {
            assert(c2[k + 1] == c[k + 1]);
            assert(c[k] != last);
            if ff is Some {
                let e0 = a0[c[k]].children[0].unwrap();
                assert(a0.dom().contains(e0));
                assert(e0 != last) by {
                    if e0 == last {
                        let k2 = c.len() - 2;
                        assert(a0[c[k]].children[0] == Some(last));
                        assert(a0[last].parent == Some(c[k]));
                        assert(a0[c[k2]].children[1] == Some(c[k2 + 1]));
                        assert(a0[last].parent == Some(c[k2]));
                        if k != k2 { assert(c[k] != c[k2]); }
                    }
                }
            }
        }
    }
}

// the last chain node gets its (optional) else-leaf and the terminal func_true: the chain is complete and denotes poly_fn
pub proof fn lemma_fp_complete(a0: AArena<2>, a1: AArena<2>, a2: AArena<2>, c: Seq<usize>, p: RowSpec, ft: AffFunc, ff: Option<AffFunc>, dim: usize, out: usize, e: usize, t1: usize)
    requires fp_inv(a0, c, p, ff, dim, out), c.len() == p.n, wf_at(a0, Some(0usize)), p.dim == dim,
        ff is Some ==> ff.unwrap().mat.ncols() == dim && ff.unwrap().mat.nrows() == out
            && child_added(a0, a1, c.last(), 0, e) && a1[c.last()].value == a0[c.last()].value && same_ap(a1[e].value.aff, ff.unwrap()),
        ff is None ==> a1 == a0,
        child_added(a1, a2, c.last(), 1, t1), a2[c.last()].value == a1[c.last()].value, a2[t1].value.aff == ft, ft.ok(), ft.mat.ncols() == dim, ft.mat.nrows() == out,
    ensures
        aff_shape_ok(a2, dim),
        forall|i: usize| a2.dom().contains(i) && #[trigger] a2[i].isleaf ==> a2[i].value.aff.mat.nrows() == out,
        chain_ok(a2, c, t1, ff is Some), c.len() >= 1, c[0] == 0,
        forall|k: int| 0 <= k < c.len() ==> row_fn_of(a2[#[trigger] c[k]].value.aff, p, k),
        forall|k: int| 0 <= k < c.len() && ff is Some ==> same_ap(a2[a2[#[trigger] c[k]].children[0].unwrap()].value.aff, ff.unwrap()),
{
    reveal(fp_inv);
    let last = c.last();
    assert(c[c.len() - 1] == last);
    assert(t1 != last && !a1.dom().contains(t1));
    assert(a2[last].children[1] == Some(t1)) by { assert(a2[last].children@[1] == Some(t1)); }
    let has_else = ff is Some;
    if ff is Some {
        assert(e != last && t1 != e);
        assert(a2[e] == a1[e]);
        assert(a2[last].children[0] == Some(e)) by { assert(a2[last].children@[0] == a1[last].children@[0]); assert(a1[last].children@[0] == Some(e)); }
        assert forall|i: usize| a0.dom().contains(i) && i != last implies a2[i] == a0[i] by { assert(a1[i] == a0[i]); assert(a2[i] == a1[i]); }
        assert forall|i: usize| #[trigger] a2.dom().contains(i) implies a2[i].value.aff.ok() && a2[i].value.aff.mat.ncols() == dim by {
            if i != t1 && i != e { assert(a0.dom().contains(i)); }
        }
        assert forall|i: usize| a2.dom().contains(i) && #[trigger] a2[i].isleaf implies a2[i].value.aff.mat.nrows() == out by {
            if i != e && i != t1 { assert(a0.dom().contains(i)); assert(i != last); }
        }
    } else {
        assert(a2[last].children[0].is_none()) by { assert(a2[last].children@[0] == a1[last].children@[0]); }
        assert forall|i: usize| a0.dom().contains(i) && i != last implies a2[i] == a0[i] by { assert(a2[i] == a1[i]); }
        assert forall|i: usize| #[trigger] a2.dom().contains(i) implies a2[i].value.aff.ok() && a2[i].value.aff.mat.ncols() == dim by {
            if i != t1 { assert(a0.dom().contains(i)); }
        }
        assert forall|i: usize| a2.dom().contains(i) && #[trigger] a2[i].isleaf implies a2[i].value.aff.mat.nrows() == out by {
            if i != t1 { assert(a0.dom().contains(i)); assert(i != last); }
        }
    }
    // decisions are exactly the chain nodes, each with one row
    assert((1usize << 1usize) == 2usize) by(bit_vector);
    assert forall|i: usize| a2.dom().contains(i) && !(#[trigger] a2[i]).isleaf implies exists|k: int| 0 <= k < c.len() && c[k] == i by {
        if i == last { assert(c[c.len() - 1] == i); }
        else {
            assert(a0.dom().contains(i) && a2[i] == a0[i]);
            lemma_fp_decisions(a0, c, p, ff, dim, out, i);
        }
    }
    assert forall|i: usize| #![trigger a2[i].value] a2.dom().contains(i) implies a2[i].value.aff.ok() && a2[i].value.aff.mat.ncols() == dim
        && (!a2[i].isleaf ==> 1 <= a2[i].value.aff.mat.nrows() < 16 && (1usize << (a2[i].value.aff.mat.nrows() as usize)) <= 2) by {
        if !a2[i].isleaf {
            let k = choose|k: int| 0 <= k < c.len() && c[k] == i;
            assert(a0.dom().contains(c[k]));
            assert(row_fn_of(a0[c[k]].value.aff, p, k));
        }
    }
    assert(chain_ok(a2, c, t1, has_else)) by {
        assert forall|j: int| 0 <= j < c.len() implies ({
            let nd = #[trigger] a2[c[j]];
            &&& a2.dom().contains(c[j]) && !nd.isleaf && nd.value.aff.mat.nrows() == 1
            &&& nd.children[1] == Some(if j + 1 < c.len() { c[j + 1] } else { t1 })
            &&& (has_else ==> nd.children[0].is_some() && a2.dom().contains(nd.children[0].unwrap()) && a2[nd.children[0].unwrap()].isleaf)
            &&& (!has_else ==> nd.children[0].is_none())
        }) by {
            assert(a0.dom().contains(c[j]));
            if j < c.len() - 1 {
                assert(c[j] != last);
                if has_else {
                    let e0 = a0[c[j]].children[0].unwrap();
                    assert(a0.dom().contains(e0));
                    assert(e0 != last) by {
                        if e0 == last {
                            let k2 = c.len() - 2;
                            assert(a0[c[j]].children[0] == Some(last));
                            assert(a0[last].parent == Some(c[j]));
                            assert(a0[c[k2]].children[1] == Some(c[k2 + 1]));
                            assert(a0[last].parent == Some(c[k2]));
                            if j != k2 { assert(c[j] != c[k2]); }
                        }
                    }
                }
            }
        }
    }
    assert forall|k: int| 0 <= k < c.len() implies row_fn_of(a2[#[trigger] c[k]].value.aff, p, k) by { assert(a0.dom().contains(c[k])); }
    assert forall|k: int| 0 <= k < c.len() && has_else implies same_ap(a2[a2[#[trigger] c[k]].children[0].unwrap()].value.aff, ff.unwrap()) by {
        assert(a0.dom().contains(c[k]));
        if k < c.len() - 1 {
            assert(c[k] != last);
            let e0 = a0[c[k]].children[0].unwrap();
            assert(a0.dom().contains(e0));
            assert(e0 != last) by {
                if e0 == last {
                    let k2 = c.len() - 2;
                    assert(a0[c[k]].children[0] == Some(last));
                    assert(a0[last].parent == Some(c[k]));
                    assert(a0[c[k2]].children[1] == Some(c[k2 + 1]));
                    assert(a0[last].parent == Some(c[k2]));
                    if k != k2 { assert(c[k] != c[k2]); }
                }
            }
        }
    }
}

// ... and denotes poly_fn
pub proof fn lemma_fp_final(a2: AArena<2>, c: Seq<usize>, p: RowSpec, ft: AffFunc, ff: Option<AffFunc>, dim: usize, t1: usize)
    requires c.len() == p.n, p.dim == dim, a2[t1].value.aff == ft, c.len() >= 1, c[0] == 0, ff is Some ==> ff.unwrap().mat.ncols() == dim,
        chain_ok(a2, c, t1, ff is Some),
        forall|k: int| 0 <= k < c.len() ==> row_fn_of(a2[#[trigger] c[k]].value.aff, p, k),
        forall|k: int| 0 <= k < c.len() && ff is Some ==> same_ap(a2[a2[#[trigger] c[k]].children[0].unwrap()].value.aff, ff.unwrap()),
    ensures forall|h: Map<usize, nat>, x: V| ranked_down(a2, h) && x.len() == dim ==> #[trigger] tree_fn(a2, h, 0, x) == rows_fn(p, ft, ff, x),
{
    let has_else = ff is Some;
    assert forall|h: Map<usize, nat>, x: V| ranked_down(a2, h) && x.len() == dim implies #[trigger] tree_fn(a2, h, 0, x) == rows_fn(p, ft, ff, x) by {
        lemma_chain_fn(a2, h, c, t1, has_else, 0, x);
        lemma_fp_val(a2, c, p, ft, ff, dim, t1, 0, x);
        if forall|k: int| 0 <= k < p.n ==> #[trigger] (p.sat)(k, x) {
            assert(p.all(x));
        } else {
            let k = choose|k: int| 0 <= k < p.n && !#[trigger] (p.sat)(k, x);
            assert(!p.all(x)) by { if p.all(x) { assert((p.sat)(k, x)); } }
        }
    }
}
// in the partial chain every decision is a chain node
pub proof fn lemma_fp_decisions(a: AArena<2>, c: Seq<usize>, p: RowSpec, ff: Option<AffFunc>, dim: usize, out: usize, i: usize)
    requires fp_inv(a, c, p, ff, dim, out), wf_at(a, Some(0usize)), a.dom().contains(i), !a[i].isleaf
    ensures exists|k: int| 0 <= k < c.len() && c[k] == i
    decreases 0int
{
    reveal(fp_inv);
    // walk up: every node's parent chain reaches the root c[0]; a decision that is not on the chain would have to hang below a chain node's
    // label-0 terminal (impossible: terminals have no children) or be the last node (a leaf). Proved by rank induction.
    let d = choose|d: Map<usize, nat>| ranked(a, d);
    lemma_fp_on_chain(a, c, p, ff, dim, out, d, i);
}
pub proof fn lemma_fp_on_chain(a: AArena<2>, c: Seq<usize>, p: RowSpec, ff: Option<AffFunc>, dim: usize, out: usize, d: Map<usize, nat>, i: usize)
    requires fp_inv(a, c, p, ff, dim, out), wf_at(a, Some(0usize)), ranked(a, d), a.dom().contains(i)
    ensures (exists|k: int| 0 <= k < c.len() && c[k] == i) || (a[i].isleaf)
    decreases d[i]
{
    reveal(fp_inv);
    if a[i].parent.is_none() {
        assert(i == 0);
        assert(c[0] == i);
    } else {
        let pp = a[i].parent.unwrap();
        assert(a.dom().contains(pp) && d[pp] < d[i]);
        lemma_fp_on_chain(a, c, p, ff, dim, out, d, pp);
        let l = choose|l: int| 0 <= l < 2 && #[trigger] a[pp].children[l] == Some(i);
        assert(!no_kids(a[pp]));
        assert(!a[pp].isleaf);
        let k = choose|k: int| 0 <= k < c.len() && c[k] == pp;
        assert(k < c.len() - 1) by { if k == c.len() - 1 { assert(c[k] == c.last()); } }
        if l == 1 { assert(c[k + 1] == i); }
        else { assert(ff is Some); assert(a[i].isleaf); }
    }
}

// value of the completed chain from position j
pub proof fn lemma_fp_val(a2: AArena<2>, c: Seq<usize>, p: RowSpec, ft: AffFunc, ff: Option<AffFunc>, dim: usize, t1: usize, j: int, x: V)
    requires 0 <= j <= c.len(), c.len() == p.n, x.len() == dim, c.len() >= 1, p.dim == dim, a2[t1].value.aff == ft, ff is Some ==> ff.unwrap().mat.ncols() == dim,
        forall|k: int| 0 <= k < c.len() ==> row_fn_of(a2[#[trigger] c[k]].value.aff, p, k),
        forall|k: int| 0 <= k < c.len() && ff is Some ==> same_ap(a2[a2[#[trigger] c[k]].children[0].unwrap()].value.aff, ff.unwrap()),
    ensures chain_val(a2, c, t1, ff is Some, j, x) ==
        (if (forall|k: int| j <= k < p.n ==> #[trigger] (p.sat)(k, x)) { Some(ft.ap(x)) } else { match ff { Some(g) => Some(g.ap(x)), None => None } })
    decreases c.len() - j
{
    if j < c.len() {
        lemma_fp_val(a2, c, p, ft, ff, dim, t1, j + 1, x);
        assert(a2[c[j]].value.aff.row_sat(0, x) <==> (p.sat)(j, x));
        if a2[c[j]].value.aff.row_sat(0, x) {
            if forall|k: int| j + 1 <= k < p.n ==> #[trigger] (p.sat)(k, x) {
                assert forall|k: int| j <= k < p.n implies #[trigger] (p.sat)(k, x) by {}
            } else {
                let k = choose|k: int| j + 1 <= k < p.n && !#[trigger] (p.sat)(k, x);
                assert(!(forall|k: int| j <= k < p.n ==> #[trigger] (p.sat)(k, x))) by {
                    if forall|k: int| j <= k < p.n ==> #[trigger] (p.sat)(k, x) { assert((p.sat)(k, x)); }
                }
            }
        } else {
            assert(!(forall|k: int| j <= k < p.n ==> #[trigger] (p.sat)(k, x))) by {
                if forall|k: int| j <= k < p.n ==> #[trigger] (p.sat)(k, x) { assert((p.sat)(j, x)); }
            }
            if ff is Some {
                let e = a2[c[j]].children[0].unwrap();
                assert(same_ap(a2[e].value.aff, ff.unwrap()));
                assert(a2[e].value.aff.ap(x) == ff.unwrap().ap(x));
            }
        }
    }
}

// ---- end chain_build_spec ----
