// ---- prelude/sem_spec.rs : what removing / splicing nodes means for the denoted function (tree_fn) and for evaluation paths ----
// ---- removal of the children of p at the slots in ls (a1 -> am), p keeps at least one child ----
pub proof fn lemma_rm_sem<const K: usize>(a1: AArena<K>, am: AArena<K>, h: Map<usize, nat>, p: usize, ls: ISet<int>, idx: usize, x: V)
    requires removed_set(a1, am, p, ls), kids_ok(a1), leaf_ok(a1), kids_ok(am), ranked_down(a1, h), am.dom().contains(idx),
        exists|f: int| 0 <= f < K && !ls.contains(f) && (#[trigger] a1[p].children[f]) is Some,
        // x does not take a removed branch at p
        !(reaches(a1, h, idx, x, p) && ls.contains(decide(&a1[p].value.aff, x))),
    ensures tree_fn(am, h, idx, x) == tree_fn(a1, h, idx, x),
        forall|t: usize| reaches(am, h, idx, x, t) == reaches(a1, h, idx, x, t),
    decreases h[idx]
{
    reveal(removed_set);
    let nd1 = a1[idx];
    let ndm = am[idx];
    assert(a1.dom().contains(idx));
    let f = choose|f: int| 0 <= f < K && !ls.contains(f) && (#[trigger] a1[p].children[f]) is Some;
    assert(am[p].children[f] == a1[p].children[f]);
    assert(ndm.isleaf == nd1.isleaf && ndm.value == nd1.value) by {
        if idx == p { assert(!no_kids(am[p])); assert(!no_kids(a1[p])); assert(a1[p].isleaf == no_kids(a1[p])); } else { assert(ndm == nd1); }
    }
    if !nd1.isleaf {
        let l = decide(&nd1.value.aff, x);
        if 0 <= l < K {
            if idx == p && ls.contains(l) {
                // excluded by the precondition (reaches(p, p) holds)
            } else {
                assert(ndm.children[l] == nd1.children[l]);
                if nd1.children[l].is_some() {
                    let c = nd1.children[l].unwrap();
                    assert(h[c] < h[idx]);
                    assert(am.dom().contains(c));
                    if idx == p { } else { assert(reaches(a1, h, idx, x, p) == reaches(a1, h, c, x, p)); }
                    assert(!(reaches(a1, h, c, x, p) && ls.contains(decide(&a1[p].value.aff, x)))) by {
                        if idx == p && reaches(a1, h, c, x, p) { lemma_reaches_height(a1, h, c, x, p); }
                    }
                    lemma_rm_sem(a1, am, h, p, ls, c, x);
                }
            }
        }
    }
    assert forall|t: usize| reaches(am, h, idx, x, t) == reaches(a1, h, idx, x, t) by {
        if idx != t && !nd1.isleaf {
            let l = decide(&nd1.value.aff, x);
            if 0 <= l < K {
                if idx == p && ls.contains(l) { assert(reaches(a1, h, idx, x, p)); }
                else {
                    assert(ndm.children[l] == nd1.children[l]);
                    if nd1.children[l].is_some() { let c = nd1.children[l].unwrap(); assert(reaches(am, h, c, x, t) == reaches(a1, h, c, x, t)); }
                }
            }
        }
    }
}

// ---- splicing p (single child cf at slot f) out of the tree (am -> a2) ----
pub proof fn lemma_mg_ranked<const K: usize>(am: AArena<K>, a2: AArena<K>, h: Map<usize, nat>, p: usize, f: usize, gl: int)
    requires merged(am, a2, p, f, gl), ranked_down(am, h), am.dom().contains(am[p].parent.unwrap())
    ensures ranked_down(a2, h)
{
    let g = am[p].parent.unwrap();
    let cf = am[p].children[f as int].unwrap();
    assert(h[cf] < h[p]);
    assert(am[g].children[gl].is_some());
    assert(h[p] < h[g]);
    assert forall|i: usize, l: int| #![trigger a2[i].children[l]] a2.dom().contains(i) && 0 <= l < K && a2[i].children[l].is_some() implies h[a2[i].children[l].unwrap()] < h[i] by {
        if i == g { assert(a2[g].children@[l] == am[g].children@.update(gl, Some(cf))[l]); if l != gl { assert(a2[g].children[l] == am[g].children[l]); } }
        else if i == cf { assert(a2[cf].children == am[cf].children); }
        else { assert(a2[i] == am[i]); }
    }
}
pub proof fn lemma_mg_sem<const K: usize>(am: AArena<K>, a2: AArena<K>, h: Map<usize, nat>, p: usize, f: usize, gl: int, idx: usize, x: V)
    requires merged(am, a2, p, f, gl), kids_ok(am), parents_ok(am), kids_unique(am), leaf_ok(am), kids_ok(a2), ranked_down(am, h), ranked_down(a2, h), a2.dom().contains(idx),
        // x does not leave p through a slot other than f
        !(reaches(am, h, idx, x, p) && decide(&am[p].value.aff, x) != f),
    ensures tree_fn(a2, h, idx, x) == tree_fn(am, h, idx, x),
        forall|t: usize| t != p && reaches(a2, h, idx, x, t) ==> reaches(am, h, idx, x, t),
        forall|t: usize| t != p && reaches(am, h, idx, x, t) ==> reaches(a2, h, idx, x, t),
    decreases h[idx]
{
    let g = am[p].parent.unwrap();
    let cf = am[p].children[f as int].unwrap();
    let ndm = am[idx];
    let nd2 = a2[idx];
    assert(am.dom().contains(idx) && idx != p);
    assert(am.dom().contains(g));
    assert(nd2.isleaf == ndm.isleaf && nd2.value == ndm.value) by { if idx != g && idx != cf { assert(nd2 == ndm); } }
    assert(h[cf] < h[p] && h[p] < h[g]) by { assert(am[g].children[gl].is_some()); }
    if !ndm.isleaf {
        let l = decide(&ndm.value.aff, x);
        if 0 <= l < K {
            if idx == g && l == gl {
                // am: g -> p -> (slot decide(p)) ; a2: g -> cf
                assert(ndm.children[l] == Some(p));
                assert(nd2.children[l] == Some(cf)) by { assert(nd2.children@[l] == Some(cf)); }
                assert(reaches(am, h, p, x, p));
                assert(reaches(am, h, idx, x, p));
                assert(decide(&am[p].value.aff, x) == f);
                assert(!am[p].isleaf) by { assert(!no_kids(am[p])); }
                assert(tree_fn(am, h, p, x) == tree_fn(am, h, cf, x));
                assert(a2.dom().contains(cf));
                assert(!reaches(am, h, cf, x, p)) by { if reaches(am, h, cf, x, p) { lemma_reaches_height(am, h, cf, x, p); } }
                lemma_mg_sem(am, a2, h, p, f, gl, cf, x);
                assert forall|t: usize| t != p && reaches(a2, h, idx, x, t) implies reaches(am, h, idx, x, t) by {
                    if t != idx { assert(reaches(a2, h, cf, x, t)); assert(reaches(am, h, cf, x, t)); assert(reaches(am, h, p, x, t)); }
                }
                assert forall|t: usize| t != p && reaches(am, h, idx, x, t) implies reaches(a2, h, idx, x, t) by {
                    if t != idx { assert(reaches(am, h, p, x, t)); assert(reaches(am, h, cf, x, t)); }
                }
            } else {
                assert(nd2.children[l] == ndm.children[l]) by {
                    if idx == g { assert(nd2.children@[l] == ndm.children@[l]); } else if idx == cf { } else { assert(nd2 == ndm); }
                }
                if ndm.children[l].is_some() {
                    let c = ndm.children[l].unwrap();
                    assert(h[c] < h[idx]);
                    // only g lists p (at gl)
                    assert(c != p) by {
                        if c == p { assert(am[p].parent == Some(idx)); assert(idx == g); assert(am[g].children[gl] == am[g].children[l]); }
                    }
                    assert(a2.dom().contains(c));
                    assert(reaches(am, h, idx, x, p) == reaches(am, h, c, x, p));
                    lemma_mg_sem(am, a2, h, p, f, gl, c, x);
                    assert forall|t: usize| t != p && reaches(a2, h, idx, x, t) implies reaches(am, h, idx, x, t) by { if t != idx { assert(reaches(a2, h, c, x, t)); } }
                    assert forall|t: usize| t != p && reaches(am, h, idx, x, t) implies reaches(a2, h, idx, x, t) by { if t != idx { assert(reaches(am, h, c, x, t)); } }
                }
            }
        }
    }
}

// ---- one forward_if_redundant step (a1 -> a2 on decision p): x is unaffected unless it leaves p through a child that is not the feasible one ----
pub open spec fn fwd_unaffected<const K: usize>(a1: AArena<K>, h1: Map<usize, nat>, root: usize, p: usize, x: V) -> bool {
    !(reaches(a1, h1, root, x, p) && !kid_in_state(a1, p, decide(&a1[p].value.aff, x), true))
}
pub proof fn lemma_rm_ranked<const K: usize>(a1: AArena<K>, am: AArena<K>, h: Map<usize, nat>, p: usize, ls: ISet<int>)
    requires removed_set(a1, am, p, ls), ranked_down(a1, h)
    ensures ranked_down(am, h)
{
    reveal(removed_set);
    assert forall|i: usize, l: int| #![trigger am[i].children[l]] am.dom().contains(i) && 0 <= l < K && am[i].children[l].is_some() implies h[am[i].children[l].unwrap()] < h[i] by {
        if i != p { assert(am[i] == a1[i]); } else { assert(am[p].children[l] == a1[p].children[l]); }
    }
}
// the acting case, same height map h on all three arenas
pub proof fn lemma_fwd_sem_act<const K: usize>(a1: AArena<K>, am: AArena<K>, a2: AArena<K>, h: Map<usize, nat>, root: usize, p: usize, f: int, x: V)
    requires wf_at(a1, Some(root)), wf_at(am, Some(root)), wf_at(a2, Some(root)), a1.dom().contains(p), ranked_down(a1, h),
        removed_set(a1, am, p, infeasible_slots(a1, p)), merge_post(am, a2, p, f as usize, root == p),
        kid_in_state(a1, p, f, true), forall|g: int| kid_in_state(a1, p, g, true) ==> g == f,
        fwd_unaffected(a1, h, root, p, x),
    ensures ranked_down(a2, h), tree_fn(a2, h, root, x) == tree_fn(a1, h, root, x),
        forall|t: usize| #![trigger reaches(a2, h, root, x, t)] (t != p || a2.dom().contains(t)) && reaches(a2, h, root, x, t) ==> reaches(a1, h, root, x, t),
        forall|t: usize| #![trigger reaches(a1, h, root, x, t)] t != p && reaches(a1, h, root, x, t) ==> reaches(a2, h, root, x, t),
{
    let ls = infeasible_slots(a1, p);
    assert(!ls.contains(f));
    assert(a1[p].children[f] is Some);
    lemma_removed_facts(a1, am, p, ls);
    assert(am.dom().contains(root));
    assert(!(reaches(a1, h, root, x, p) && ls.contains(decide(&a1[p].value.aff, x))));
    lemma_rm_sem(a1, am, h, p, ls, root, x);
    lemma_rm_ranked(a1, am, h, p, ls);
    if root == p {
        assert(a2 == am);
    } else {
        let gl = choose|gl: int| #[trigger] merged(am, a2, p, f as usize, gl);
        assert(am[p].value == a1[p].value);
        lemma_mg_ranked(am, a2, h, p, f as usize, gl);
        assert(!(reaches(am, h, root, x, p) && decide(&am[p].value.aff, x) != f)) by {
            if reaches(am, h, root, x, p) { assert(reaches(a1, h, root, x, p)); assert(kid_in_state(a1, p, decide(&a1[p].value.aff, x), true)); }
        }
        lemma_mg_sem(am, a2, h, p, f as usize, gl, root, x);
    }
}
pub proof fn lemma_fwd_sem<const K: usize>(a1: AArena<K>, a2: AArena<K>, h1: Map<usize, nat>, h2: Map<usize, nat>, root: usize, p: usize, x: V)
    requires wf_at(a1, Some(root)), wf_at(a2, Some(root)), a1.dom().contains(p), forward_post(a1, a2, p, Some(root)), ranked_down(a1, h1), ranked_down(a2, h2),
        fwd_unaffected(a1, h1, root, p, x),
    ensures tree_fn(a2, h2, root, x) == tree_fn(a1, h1, root, x),
        forall|t: usize| #![trigger reaches(a2, h2, root, x, t)] (t != p || a2.dom().contains(t)) && reaches(a2, h2, root, x, t) ==> reaches(a1, h1, root, x, t),
        forall|t: usize| #![trigger reaches(a1, h1, root, x, t)] t != p && reaches(a1, h1, root, x, t) ==> reaches(a2, h2, root, x, t),
{
    if count_state(a1, p, 0, true) == 1 && count_state(a1, p, 0, false) == K - 1 {
        let ls = infeasible_slots(a1, p);
        let am = choose|am: AArena<K>| #[trigger] removed_set(a1, am, p, ls) && wf_at(am, Some(root))
            && (forall|f: int| #[trigger] kid_in_state(a1, p, f, true) ==> merge_post(am, a2, p, f as usize, Some(root) == Some(p)));
        lemma_count_exists(a1, p, 0, true);
        let f = choose|f: int| 0 <= f < K && kid_in_state(a1, p, f, true);
        assert(merge_post(am, a2, p, f as usize, Some(root) == Some(p)));
        // f is the only feasible slot
        assert forall|g: int| kid_in_state(a1, p, g, true) implies g == f by {
            if g < f { lemma_count_one(a1, p, 0, g, f, true); } else if f < g { lemma_count_one(a1, p, 0, f, g, true); }
        }
        lemma_fwd_sem_act(a1, am, a2, h1, root, p, f, x);
    } else {
        assert(a2 == a1);
    }
    lemma_tree_fn_rank_indep(a2, h1, h2, root, x);
    assert forall|t: usize| reaches(a2, h2, root, x, t) == reaches(a2, h1, root, x, t) by { lemma_reaches_rank_indep(a2, h1, h2, root, x, t); }
    assert forall|t: usize| (t != p || a2.dom().contains(t)) && reaches(a2, h2, root, x, t) implies reaches(a1, h1, root, x, t) by {
        assert(reaches(a2, h1, root, x, t));
    }
    assert forall|t: usize| t != p && reaches(a1, h1, root, x, t) implies reaches(a2, h2, root, x, t) by {
        assert(reaches(a2, h1, root, x, t));
    }
}
// ---- end sem_spec ----
