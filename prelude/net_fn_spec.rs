// ---- prelude/net_fn_spec.rs : what a layer sequence computes (C01) ----
//@include prelude/textbook_spec.rs
// a layer is dimension-consistent with an input of `dim` components
pub open spec fn lay_ok(dim: usize, l: Layer) -> bool {
    match l {
        Layer::Linear(f) => f.ok() && f.mat.ncols() == dim,
        Layer::ReLU(i) => i < dim,
        Layer::LeakyReLU(i, alpha) => i < dim && finite(alpha),
        Layer::HardTanh(i) => i < dim,
        Layer::HardSigmoid(i) => i < dim,
        Layer::Argmax => dim >= 2,
        Layer::ClassChar(c) => c < dim && dim >= 2,
    }
}
pub open spec fn lay_out(dim: usize, l: Layer) -> usize {
    match l {
        Layer::Linear(f) => f.mat.nrows() as usize,
        Layer::Argmax => 1,
        Layer::ClassChar(_) => 1,
        _ => dim,
    }
}
// the function of one layer
pub open spec fn lay_fn(l: Layer, y: V) -> V {
    match l {
        Layer::Linear(f) => f.ap(y),
        Layer::ReLU(i) => y.update(i as int, relu(y[i as int])),
        Layer::LeakyReLU(i, alpha) => y.update(i as int, leaky_relu(y[i as int], alpha.rv())),
        Layer::HardTanh(i) => y.update(i as int, hard_tanh(y[i as int], 0real - 1real, 1real)),
        Layer::HardSigmoid(i) => y.update(i as int, hard_sigmoid(y[i as int])),
        Layer::Argmax => seq![argmax_idx(y, y.len() as int) as real],
        Layer::ClassChar(c) => seq![if is_max_at(y, c as int) { 1real } else { 0real }],
    }
}
pub open spec fn netw_out(dim: usize, ls: Seq<Layer>) -> usize
    decreases ls.len()
{
    if ls.len() == 0 { dim } else { lay_out(netw_out(dim, ls.drop_last()), ls.last()) }
}
pub open spec fn netw_ok(dim: usize, ls: Seq<Layer>) -> bool
    decreases ls.len()
{
    ls.len() == 0 || (netw_ok(dim, ls.drop_last()) && lay_ok(netw_out(dim, ls.drop_last()), ls.last()))
}
// the network function: layers applied from left to right
pub open spec fn netw_fn(ls: Seq<Layer>, y: V) -> V
    decreases ls.len()
{
    if ls.len() == 0 { y } else { lay_fn(ls.last(), netw_fn(ls.drop_last(), y)) }
}
// ---- end net_fn_spec ----
