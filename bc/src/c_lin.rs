//! Bounded contract replay for the linear-algebra layer and the distillation front end:
//! C16 (affine algebra), C14 (polytope operations), C17 (schemas), C18 (architectures, layer files), C01 (distillation).
use affinitree::distill::arch::{Architecture, TensorShape};
use affinitree::distill::builder::{afftree_from_layers, read_layers, Layer};
use affinitree::distill::schema;
use affinitree::linalg::affine::{AffFunc, PolyRepr, Polytope};
use affinitree::pwl::afftree::AffTree;
use ndarray::{arr1, Array1, Array2};

use crate::c_pwl::same_function;
use crate::gen::*;
use crate::q::{dot, qs, Q};
use crate::report::*;
use crate::xtree::*;

fn xa(f: &AffFunc) -> XAff {
    XAff::from_aff(f).expect("finite coefficients")
}

fn qv(v: &Array1<f64>) -> Option<Vec<Q>> {
    v.iter().map(|x| Q::from_f64(*x)).collect()
}

fn same_aff_fn(rep: &mut Report, idx: u64, what: &str, got: &AffFunc, want: &dyn Fn(&[Q]) -> Vec<Q>, dim: usize, descr: &str) {
    if got.indim() != dim {
        rep.viol(idx, what, format!("{what}: input dimension {} want {dim} | {descr}", got.indim()));
        return;
    }
    let Some(g) = XAff::from_aff(got) else {
        rep.viol(idx, what, format!("{what}: non-finite coefficients | {descr}"));
        return;
    };
    for x in lattice(dim) {
        let (a, b) = (g.apply(&x), want(&x));
        if a != b {
            rep.viol(idx, what, format!("{what}: at x={} got {} want {} | {descr}", qs(&x), qs(&a), qs(&b)));
            return;
        }
        // the real apply() agrees (all values exactly representable)
        let r = got.apply(&to_arr(&x));
        if qv(&r).map_or(true, |r| r != a) {
            rep.viol(idx, "apply", format!("apply() of {what} at x={} = {r:?} want {} | {descr}", qs(&x), qs(&a)));
            return;
        }
    }
}

// ------------------------------------------------------------------------------------------ C16

pub fn aff_algebra(rep: &mut Report, tier: Tier) {
    let cases = if tier == Tier::Quick { 1500 } else { 30000 };
    rep.rule = "seeded affine functions (coefficients in {-1,0,1,2}) of all shapes up to 3x3: compose, stack, + - * / % in every ownership variant, negation, row, row_iter, remove_rows, remove_zero_rows, remove_zero_columns, from_row_iter, view/to_owned, function<->polytope conversions incl. every PolyRepr, and every named constructor in dims 1..=3, compared with the exact rational evaluation of the defining identity on the half-integer lattice; non-trivial: every case (distinct operands)".into();
    rep.bound = format!("{cases} seeded operand sets, dims 1..=3 (lattice [-3,3]^d step 1/2; d=3 only for constructors on a coarser sub-lattice)");
    for idx in 1..=cases as u64 {
        if rep.skip(idx) {
            continue;
        }
        let mut rng = Rng::new(rep.seed ^ (idx * 40503));
        let d = 1 + rng.below(2);
        let m = 1 + rng.below(3);
        let k = 1 + rng.below(3);
        let g = term(&mut rng, d, m, false);
        let f = term(&mut rng, m, k, false);
        let h = term(&mut rng, d, m, false);
        let (xf, xg, xh) = (xa(&f), xa(&g), xa(&h));
        let descr = format!("f={:?} g={:?} h={:?}", xf, xg, xh);
        rep.evaluations += 1;
        rep.nontrivial(&descr);
        if idx < 3 {
            rep.sample(descr.clone());
        }
        let res = guarded(|| {
            let mut out: Vec<(String, AffFunc, Box<dyn Fn(&[Q]) -> Vec<Q>>)> = vec![];
            let (xf2, xg2, xh2) = (xf.clone(), xg.clone(), xh.clone());
            out.push(("compose".into(), f.compose(&g), Box::new(move |x| xf2.apply(&xg2.apply(x)))));
            let (xg2, xh2b) = (xg.clone(), xh2.clone());
            out.push(("stack".into(), g.stack(&h), Box::new(move |x| {
                let mut v = xg2.apply(x);
                v.extend(xh2b.apply(x));
                v
            })));
            let lift = |op: char, a: &XAff, b: &XAff| -> Option<XAff> {
                let mut mat = vec![];
                let f = |x: Q, y: Q| -> Option<Q> {
                    Some(match op {
                        '+' => x + y,
                        '-' => x - y,
                        '*' => x * y,
                        _ => return None,
                    })
                };
                for i in 0..a.mat.len() {
                    let mut row = vec![];
                    for j in 0..a.indim {
                        row.push(f(a.mat[i][j], b.mat[i][j])?);
                    }
                    mat.push(row);
                }
                let mut bias = vec![];
                for i in 0..a.bias.len() {
                    bias.push(f(a.bias[i], b.bias[i])?);
                }
                Some(XAff { mat, bias, indim: a.indim })
            };
            for (op, name) in [('+', "add"), ('-', "sub"), ('*', "mul")] {
                let want = lift(op, &xg, &xh).unwrap();
                let variants: Vec<AffFunc> = match op {
                    '+' => vec![&g + &h, g.clone() + h.clone(), g.clone() + &h],
                    '-' => vec![&g - &h, g.clone() - h.clone(), g.clone() - &h],
                    _ => vec![&g * &h, g.clone() * h.clone(), g.clone() * &h],
                };
                for (vi, v) in variants.into_iter().enumerate() {
                    let w = want.clone();
                    out.push((format!("{name} variant {vi}"), v, Box::new(move |x| w.apply(x))));
                }
            }
            let xg3 = xg.clone();
            out.push(("neg".into(), -g.clone(), Box::new(move |x| xg3.apply(x).into_iter().map(|v| -v).collect())));
            let xg3 = xg.clone();
            out.push(("neg-ref".into(), -&g, Box::new(move |x| xg3.apply(x).into_iter().map(|v| -v).collect())));
            let xg3 = xg.clone();
            out.push(("negate".into(), g.clone().negate(), Box::new(move |x| xg3.apply(x).into_iter().map(|v| -v).collect())));
            let xg3 = xg.clone();
            out.push(("view/to_owned".into(), g.view().to_owned(), Box::new(move |x| xg3.apply(x))));
            let xg3 = xg.clone();
            out.push(("as_polytope/as_function".into(), g.as_polytope().as_function(), Box::new(move |x| xg3.apply(x))));
            let r = rng.below(m);
            let xg3 = xg.clone();
            out.push((format!("row({r})"), g.row(r).to_owned(), Box::new(move |x| vec![xg3.apply(x)[r]])));
            let rows: Vec<AffFunc> = g.row_iter().map(|v| v.to_owned()).collect();
            for (i, rw) in rows.into_iter().enumerate() {
                let xg3 = xg.clone();
                out.push((format!("row_iter[{i}]"), rw, Box::new(move |x| vec![xg3.apply(x)[i]])));
            }
            let drop: Vec<usize> = (0..m).filter(|_| rng.chance(1, 3)).collect();
            if drop.len() < m {
                let keep: Vec<usize> = (0..m).filter(|i| !drop.contains(i)).collect();
                let xg3 = xg.clone();
                out.push((format!("remove_rows({drop:?})"), g.remove_rows(drop.clone()), Box::new(move |x| {
                    let v = xg3.apply(x);
                    keep.iter().map(|i| v[*i]).collect()
                })));
            }
            let nz: Vec<usize> = (0..m).filter(|i| xg.mat[*i].iter().any(|v| !v.is_zero()) || !xg.bias[*i].is_zero()).collect();
            if !nz.is_empty() {
                let xg3 = xg.clone();
                let nz2 = nz.clone();
                out.push(("remove_zero_rows".into(), g.remove_zero_rows(), Box::new(move |x| {
                    let v = xg3.apply(x);
                    nz2.iter().map(|i| v[*i]).collect()
                })));
            }
            let xg3 = xg.clone();
            let it: Vec<(Array1<f64>, f64)> = (0..m).map(|i| (g.mat.row(i).to_owned(), g.bias[i])).collect();
            let refs: Vec<(Array1<f64>, &f64)> = it.iter().map(|(r, b)| (r.clone(), b)).collect();
            out.push(("from_row_iter".into(), AffFunc::from_row_iter(d, m, refs), Box::new(move |x| xg3.apply(x))));
            out
        });
        match res {
            Err(p) => rep.viol(idx, "panic", format!("panicked: {p} | {descr}")),
            Ok(list) => {
                for (name, got, want) in list {
                    let dim = if name == "compose" { d } else { d };
                    same_aff_fn(rep, idx, &name, &got, want.as_ref(), dim, &descr);
                }
            }
        }
        // remove_zero_columns: f'(x restricted to non-zero columns) == f(x)
        let nzc: Vec<usize> = (0..d).filter(|j| xg.mat.iter().any(|r| !r[*j].is_zero())).collect();
        if !nzc.is_empty() {
            match guarded(|| g.remove_zero_columns()) {
                Err(p) => rep.viol(idx, "panic", format!("remove_zero_columns panicked: {p} | {descr}")),
                Ok(r) => {
                    let xr = xa(&r);
                    for x in lattice(d) {
                        let xs: Vec<Q> = nzc.iter().map(|j| x[*j]).collect();
                        if xr.indim != nzc.len() || xr.apply(&xs) != xg.apply(&x) {
                            rep.viol(idx, "remove_zero_columns", format!("remove_zero_columns changed the function at x={} | {descr}", qs(&x)));
                            break;
                        }
                    }
                }
            }
        }
        // PolyRepr conversions: membership in {x | g.mat x <= g.bias} expressed through each representation
        let p = Polytope::from_mats(g.mat.clone(), g.bias.clone());
        for repr in [PolyRepr::MatrixLeqBias, PolyRepr::MatrixBiasLeqZero, PolyRepr::MatrixGeqBias, PolyRepr::MatrixBiasGeqZero] {
            let c = xa(&p.clone().convert_to(repr));
            for x in lattice(d) {
                let inside = (0..m).all(|i| dot(&xg.mat[i], &x) <= xg.bias[i]);
                let v = c.apply(&x);
                let lin: Vec<Q> = (0..m).map(|i| dot(&c.mat[i], &x)).collect();
                let says = match repr {
                    PolyRepr::MatrixLeqBias => (0..m).all(|i| lin[i] <= c.bias[i]),
                    PolyRepr::MatrixBiasLeqZero => v.iter().all(|q| *q <= Q::ZERO),
                    PolyRepr::MatrixGeqBias => (0..m).all(|i| lin[i] >= c.bias[i]),
                    PolyRepr::MatrixBiasGeqZero => v.iter().all(|q| *q >= Q::ZERO),
                };
                if inside != says {
                    rep.viol(idx, "convert_to", format!("convert_to({repr:?}) does not describe the same half-spaces at x={} | {descr}", qs(&x)));
                    break;
                }
            }
        }
        let pn = Polytope::new(g.clone());
        if xa(&pn.as_function()) != xg {
            rep.viol(idx, "convert_to", format!("Polytope::new/as_function changed the coefficients | {descr}"));
        }
    }
    // named constructors
    let mut idx = cases as u64;
    for dim in 1..=3usize {
        let pts: Vec<Vec<Q>> = if dim < 3 { lattice(dim) } else { lattice(3).into_iter().filter(|p| p.iter().all(|q| q.d == 1)).collect() };
        let mut cons: Vec<(String, Result<AffFunc, String>, Box<dyn Fn(&[Q]) -> Vec<Q>>)> = vec![];
        cons.push(("identity".into(), guarded(|| AffFunc::identity(dim)), Box::new(|x| x.to_vec())));
        cons.push(("zeros".into(), guarded(|| AffFunc::zeros(dim)), Box::new(move |_| vec![Q::ZERO; dim])));
        cons.push(("constant(2.5)".into(), guarded(|| AffFunc::constant(dim, 2.5)), Box::new(|_| vec![Q::new(5, 2)])));
        cons.push(("sum".into(), guarded(|| AffFunc::sum(dim)), Box::new(|x| vec![x.iter().fold(Q::ZERO, |a, b| a + *b)])));
        cons.push(("uniform_scaling(-2)".into(), guarded(|| AffFunc::uniform_scaling(dim, -2.0)), Box::new(|x| x.iter().map(|v| *v * Q::int(-2)).collect())));
        let sc: Vec<f64> = (0..dim).map(|i| i as f64 - 0.5).collect();
        let scq: Vec<Q> = sc.iter().map(|v| Q::from_f64(*v).unwrap()).collect();
        let sca = Array1::from(sc.clone());
        cons.push((format!("scaling({sc:?})"), guarded(|| AffFunc::scaling(&sca)), Box::new(move |x| x.iter().zip(scq.iter()).map(|(a, b)| *a * *b).collect())));
        let off: Vec<f64> = (0..dim).map(|i| 1.5 - i as f64).collect();
        let offq: Vec<Q> = off.iter().map(|v| Q::from_f64(*v).unwrap()).collect();
        let offa = Array1::from(off.clone());
        cons.push((format!("translation({off:?})"), guarded(|| AffFunc::translation(dim, offa.clone())), Box::new(move |x| x.iter().zip(offq.iter()).map(|(a, b)| *a + *b).collect())));
        for i in 0..dim {
            cons.push((format!("unit({i})"), guarded(|| AffFunc::unit(dim, i)), Box::new(move |x| vec![x[i]])));
            cons.push((format!("zero_idx({i})"), guarded(|| AffFunc::zero_idx(dim, i)), Box::new(move |x| {
                let mut v = x.to_vec();
                v[i] = Q::ZERO;
                v
            })));
            for j in 0..dim {
                cons.push((format!("subtraction({i},{j})"), guarded(|| AffFunc::subtraction(dim, i, j)), Box::new(move |x| vec![x[i] - x[j]])));
            }
            // slice: NaN keeps the axis, a number fixes it
            let mut rp = vec![f64::NAN; dim];
            rp[i] = 0.5;
            let rpa = Array1::from(rp.clone());
            cons.push((format!("slice(fix axis {i} at 0.5)"), guarded(|| AffFunc::slice(&rpa)), Box::new(move |x| {
                let mut v = x.to_vec();
                v[i] = Q::new(1, 2);
                v
            })));
        }
        if dim == 2 {
            let rot = Array2::from(vec![[0.0, -1.0], [1.0, 0.0]]);
            cons.push(("rotation(90deg)".into(), guarded(|| AffFunc::rotation(rot.clone())), Box::new(|x| vec![-x[1], x[0]])));
        }
        for (name, got, want) in cons {
            idx += 1;
            if rep.skip(idx) {
                continue;
            }
            rep.evaluations += 1;
            let descr = format!("dim={dim}");
            match got {
                Err(p) => rep.viol(idx, "panic", format!("{name} panicked: {p} | {descr}")),
                Ok(f) => {
                    let Some(g) = XAff::from_aff(&f) else {
                        rep.viol(idx, "constructor", format!("{name}: non-finite | {descr}"));
                        continue;
                    };
                    if g.indim != dim {
                        rep.viol(idx, "constructor", format!("{name}: input dimension {} | {descr}", g.indim));
                        continue;
                    }
                    for x in &pts {
                        if g.apply(x) != want(x) {
                            rep.viol(idx, "constructor", format!("{name}: at x={} got {} want {} | {descr}", qs(x), qs(&g.apply(x)), qs(&want(x))));
                            break;
                        }
                    }
                    rep.nontrivial(&format!("{name}{dim}"));
                }
            }
        }
    }
}

// ------------------------------------------------------------------------------------------ C14

fn member(p: &Polytope, x: &[Q]) -> bool {
    (0..p.mat.shape()[0]).all(|i| {
        let a: Vec<Q> = p.mat.row(i).iter().map(|v| Q::from_f64(*v).unwrap()).collect();
        dot(&a, x) <= Q::from_f64(p.bias[i]).unwrap()
    })
}

fn check_set(rep: &mut Report, idx: u64, name: &str, got: &Polytope, dim: usize, want: &dyn Fn(&[Q]) -> bool, descr: &str) {
    if got.indim() != dim {
        rep.viol(idx, name, format!("{name}: dimension {} want {dim} | {descr}", got.indim()));
        return;
    }
    for x in lattice(dim) {
        let m = member(got, &x);
        if m != want(&x) {
            rep.viol(idx, name, format!("{name}: x={} is {} the result but should {}be | {descr}", qs(&x), if m { "in" } else { "outside" }, if m { "not " } else { "" }));
            return;
        }
        // contains() (1e-8 tolerance) and distance() sign agree with exact membership on lattice points
        let arr = to_arr(&x);
        if got.contains(&arr) != m {
            rep.viol(idx, "contains", format!("contains() of {name} at x={} = {} but exact membership is {m} | {descr}", qs(&x), !m));
            return;
        }
        let raw = got.distance_raw(&arr);
        for i in 0..raw.len() {
            let a: Vec<Q> = got.mat.row(i).iter().map(|v| Q::from_f64(*v).unwrap()).collect();
            let ex = Q::from_f64(got.bias[i]).unwrap() - dot(&a, &x);
            if Q::from_f64(raw[i]) != Some(ex) {
                rep.viol(idx, "distance", format!("distance_raw of {name} row {i} at x={} = {} want {:?} | {descr}", qs(&x), raw[i], ex));
                return;
            }
        }
        let dist = got.distance(&arr);
        for i in 0..dist.len() {
            let a: Vec<Q> = got.mat.row(i).iter().map(|v| Q::from_f64(*v).unwrap()).collect();
            let ex = Q::from_f64(got.bias[i]).unwrap() - dot(&a, &x);
            let zero_row = a.iter().all(|v| v.is_zero());
            let ok = if zero_row {
                // tautological row: documented as +infinity (every point is inside)
                if ex >= Q::ZERO { dist[i] == f64::INFINITY || dist[i].is_nan() && ex.is_zero() } else { dist[i] == f64::NEG_INFINITY }
            } else {
                (dist[i] > 0.0) == (ex > Q::ZERO) && (dist[i] < 0.0) == (ex < Q::ZERO)
            };
            if !ok {
                rep.viol(idx, "distance", format!("distance() of {name} row {i} at x={} = {} but b - a.x = {:?} | {descr}", qs(&x), dist[i], ex));
                return;
            }
        }
    }
}

pub fn poly_ops(rep: &mut Report, tier: Tier) {
    let cases = if tier == Tier::Quick { 1500 } else { 30000 };
    rep.rule = "seeded polytopes (<= 3 rows incl. zero rows) and arguments: intersection, intersection_n, translate, apply_pre, apply_post / rotate with invertible / orthogonal matrices from a pool, and the constructors unbounded, empty, hypercube, hyperrectangle, axis_bounds (with infinite bounds), cross_polytope, from_normal, simplex (vertex/containment facts); exact membership of the result vs membership of the pre-image on the half-integer lattice (boundary points included); contains()/distance_raw()/distance() vs exact; non-trivial: every case".into();
    rep.bound = format!("{cases} seeded operand sets, dims in {{1,2}}");
    let inv_pool: Vec<([[f64; 2]; 2], [[f64; 2]; 2])> = vec![
        ([[1.0, 0.0], [0.0, 1.0]], [[1.0, 0.0], [0.0, 1.0]]),
        ([[1.0, 1.0], [0.0, 1.0]], [[1.0, -1.0], [0.0, 1.0]]),
        ([[2.0, 0.0], [0.0, 0.5]], [[0.5, 0.0], [0.0, 2.0]]),
        ([[0.0, -1.0], [1.0, 0.0]], [[0.0, 1.0], [-1.0, 0.0]]),
        ([[0.0, 1.0], [1.0, 0.0]], [[0.0, 1.0], [1.0, 0.0]]),
    ];
    for idx in 1..=cases as u64 {
        if rep.skip(idx) {
            continue;
        }
        let mut rng = Rng::new(rep.seed ^ (idx * 92821));
        let d = 1 + rng.below(2);
        let mk = |rng: &mut Rng| {
            let n = 1 + rng.below(3);
            let mut rows = vec![];
            let mut bias = vec![];
            for _ in 0..n {
                let (r, b) = pred_row(rng, d);
                rows.push(r);
                bias.push(b * *rng.pick(&[1.0, 2.0, 0.5]));
            }
            poly(&rows, &bias, d)
        };
        let p = mk(&mut rng);
        let q = mk(&mut rng);
        let r = mk(&mut rng);
        let descr = format!("P={:?}|{:?} Q={:?}|{:?}", p.mat, p.bias, q.mat, q.bias);
        rep.evaluations += 1;
        rep.nontrivial(&descr);
        if idx < 3 {
            rep.sample(descr.clone());
        }
        let res = guarded(|| {
            let (p2, q2) = (p.clone(), q.clone());
            check_set(rep, idx, "intersection", &p.intersection(&q), d, &|x| member(&p2, x) && member(&q2, x), &descr);
            let (p2, q2, r2) = (p.clone(), q.clone(), r.clone());
            check_set(rep, idx, "intersection_n", &Polytope::intersection_n(d, &[p.clone(), q.clone(), r.clone()]), d, &|x| member(&p2, x) && member(&q2, x) && member(&r2, x), &descr);
            check_set(rep, idx, "intersection_n(empty list)", &Polytope::intersection_n(d, &[] as &[Polytope]), d, &|_| true, &descr);
            let dir: Vec<f64> = (0..d).map(|_| (rng.below(9) as f64 - 4.0) / 2.0).collect();
            let dq: Vec<Q> = dir.iter().map(|v| Q::from_f64(*v).unwrap()).collect();
            let p2 = p.clone();
            check_set(rep, idx, &format!("translate({dir:?})"), &p.translate(&Array1::from(dir.clone())), d, &|x| {
                let y: Vec<Q> = x.iter().zip(dq.iter()).map(|(a, b)| *a - *b).collect();
                member(&p2, &y)
            }, &descr);
            // apply_pre: x in P.apply_pre(f) iff f(x) in P, for f: R^e -> R^d
            let e = 1 + rng.below(2);
            let f = term(&mut rng, e, d, false);
            let xf = xa(&f);
            let p2 = p.clone();
            check_set(rep, idx, "apply_pre", &p.apply_pre(&f), e, &|x| member(&p2, &xf.apply(x)), &format!("{descr} f={xf:?}"));
        });
        if let Err(pn) = res {
            rep.viol(idx, "panic", format!("panicked: {pn} | {descr}"));
        }
        if d == 2 {
            let (m, minv) = rng.pick(&inv_pool).clone();
            let b: Vec<f64> = (0..2).map(|_| (rng.below(5) as f64 - 2.0) / 2.0).collect();
            let mm = Array2::from(vec![m[0], m[1]]);
            let mi = Array2::from(vec![minv[0], minv[1]]);
            let mq: Vec<Vec<Q>> = minv.iter().map(|r| r.iter().map(|v| Q::from_f64(*v).unwrap()).collect()).collect();
            let bq: Vec<Q> = b.iter().map(|v| Q::from_f64(*v).unwrap()).collect();
            let p2 = p.clone();
            // image of P under y = M x + b :  y in image  iff  M^-1 (y - b) in P
            let res = guarded(|| {
                check_set(rep, idx, "apply_post", &p.apply_post(&mi, &Array1::from(b.clone())), 2, &|y| {
                    let z: Vec<Q> = y.iter().zip(bq.iter()).map(|(a, c)| *a - *c).collect();
                    let xpre: Vec<Q> = mq.iter().map(|r| dot(r, &z)).collect();
                    member(&p2, &xpre)
                }, &format!("{descr} M={m:?} b={b:?}"));
            });
            if let Err(pn) = res {
                rep.viol(idx, "panic", format!("apply_post panicked: {pn} | {descr}"));
            }
            let _ = mm;
            // rotate by an orthogonal matrix R: y in rotate(P) iff R^T y in P
            let orth: [[f64; 2]; 2] = *rng.pick(&[[[0.0, -1.0], [1.0, 0.0]], [[0.0, 1.0], [1.0, 0.0]], [[-1.0, 0.0], [0.0, -1.0]], [[1.0, 0.0], [0.0, 1.0]]]);
            let ro = Array2::from(vec![orth[0], orth[1]]);
            let p2 = p.clone();
            let res = guarded(|| {
                check_set(rep, idx, "rotate", &p.rotate(&ro), 2, &|y| {
                    // R^T y
                    let xpre = vec![
                        Q::from_f64(orth[0][0]).unwrap() * y[0] + Q::from_f64(orth[1][0]).unwrap() * y[1],
                        Q::from_f64(orth[0][1]).unwrap() * y[0] + Q::from_f64(orth[1][1]).unwrap() * y[1],
                    ];
                    member(&p2, &xpre)
                }, &format!("{descr} R={orth:?}"));
            });
            if let Err(pn) = res {
                rep.viol(idx, "panic", format!("rotate panicked: {pn} | {descr}"));
            }
        }
    }
    // constructors
    let mut idx = cases as u64;
    for dim in 1..=2usize {
        let descr = format!("dim={dim}");
        let mut list: Vec<(String, Result<Polytope, String>, Box<dyn Fn(&[Q]) -> bool>)> = vec![];
        list.push(("unbounded".into(), guarded(|| Polytope::unbounded(dim)), Box::new(|_| true)));
        list.push(("empty".into(), guarded(|| Polytope::empty(dim)), Box::new(|_| false)));
        for rad in [1.0, 0.5, 2.5] {
            let rq = Q::from_f64(rad).unwrap();
            list.push((format!("hypercube({rad})"), guarded(|| Polytope::hypercube(dim, rad)), Box::new(move |x| x.iter().all(|v| v.abs() <= rq))));
        }
        list.push(("cross_polytope".into(), guarded(|| Polytope::cross_polytope(dim)), Box::new(|x| x.iter().fold(Q::ZERO, |a, b| a + b.abs()) <= Q::ONE)));
        let ivs: Vec<Vec<(f64, f64)>> = vec![
            (0..dim).map(|i| (-1.0 - i as f64, 0.5)).collect(),
            (0..dim).map(|_| (f64::NEG_INFINITY, 1.0)).collect(),
            (0..dim).map(|i| (0.0, if i == 0 { f64::INFINITY } else { 0.0 })).collect(),
            (0..dim).map(|_| (f64::NEG_INFINITY, f64::INFINITY)).collect(),
        ];
        for iv in ivs {
            let iv2 = iv.clone();
            list.push((format!("hyperrectangle({iv:?})"), guarded(|| Polytope::hyperrectangle(&iv)), Box::new(move |x| {
                x.iter().zip(iv2.iter()).all(|(v, (lo, hi))| (lo.is_infinite() || Q::from_f64(*lo).unwrap() <= *v) && (hi.is_infinite() || *v <= Q::from_f64(*hi).unwrap()))
            })));
        }
        for ax in 0..dim {
            for (lo, hi) in [(-1.0, 2.0), (f64::NEG_INFINITY, 0.5), (0.5, f64::INFINITY), (1.0, 1.0), (f64::NEG_INFINITY, f64::INFINITY)] {
                list.push((format!("axis_bounds({ax},{lo},{hi})"), guarded(|| Polytope::axis_bounds(dim, ax, lo, hi)), Box::new(move |x| {
                    (lo.is_infinite() || Q::from_f64(lo).unwrap() <= x[ax]) && (hi.is_infinite() || x[ax] <= Q::from_f64(hi).unwrap())
                })));
            }
        }
        if dim == 2 {
            // from_normal: half-spaces {x | n.(x - p) >= 0}
            let normals = Array2::from(vec![[1.0, 0.0], [1.0, 1.0]]);
            let points = Array2::from(vec![[0.5, 0.0], [0.0, -1.0]]);
            list.push(("from_normal".into(), guarded(|| Polytope::from_normal(normals.clone(), points.clone())), Box::new(|x| {
                x[0] - Q::new(1, 2) >= Q::ZERO && (x[0] + (x[1] + Q::ONE)) >= Q::ZERO
            })));
        }
        for (name, got, want) in list {
            idx += 1;
            if rep.skip(idx) {
                continue;
            }
            rep.evaluations += 1;
            match got {
                Err(p) => rep.viol(idx, "panic", format!("{name} panicked: {p} | {descr}")),
                Ok(p) => {
                    check_set(rep, idx, &name, &p, dim, want.as_ref(), &descr);
                    rep.nontrivial(&format!("{name}{dim}"));
                }
            }
        }
        // simplex: contains the origin; bounded in every axis direction is not decidable on the lattice; vertices e_i lie on the boundary facet sum<=1
        idx += 1;
        if !rep.skip(idx) {
            rep.evaluations += 1;
            match guarded(|| Polytope::simplex(dim)) {
                Err(p) => rep.viol(idx, "panic", format!("simplex panicked: {p}")),
                Ok(s) => {
                    if !s.contains(&Array1::zeros(dim)) {
                        rep.viol(idx, "simplex", format!("simplex({dim}) does not contain the origin"));
                    }
                    for i in 0..dim {
                        let mut e = Array1::zeros(dim);
                        e[i] = 1.0;
                        if !s.contains(&e) {
                            rep.viol(idx, "simplex", format!("simplex({dim}) does not contain the unit vertex e_{i}"));
                        }
                        let mut far = Array1::zeros(dim);
                        far[i] = 1.5;
                        if s.contains(&far) {
                            rep.viol(idx, "simplex", format!("simplex({dim}) contains 1.5 e_{i}"));
                        }
                    }
                }
            }
        }
    }
}

// ------------------------------------------------------------------------------------------ C17

fn tree_fn_check(rep: &mut Report, idx: u64, name: &str, t: &AffTree<2>, dim: usize, want: &dyn Fn(&[Q]) -> Option<Vec<Q>>, pts: &[Vec<Q>], descr: &str) {
    let x = match xtree(t) {
        Ok(x) => x,
        Err(e) => {
            rep.viol(idx, name, format!("{name}: {e} | {descr}"));
            return;
        }
    };
    if let Err(e) = x.aff_wf() {
        rep.viol(idx, name, format!("{name}: not well-formed: {e} | {descr}"));
        return;
    }
    if x.in_dim != dim {
        rep.viol(idx, name, format!("{name}: in_dim {} want {dim} | {descr}", x.in_dim));
        return;
    }
    // coefficients such as 1/6 (hard sigmoid) are not representable: "up to rounding" = 1e-12 absolute
    let inexact = name.contains("sigmoid");
    for p in pts {
        let (a, b) = (x.eval(p), want(p));
        let same = if inexact {
            match (&a, &b) {
                (None, None) => true,
                (Some(u), Some(v)) => u.len() == v.len() && u.iter().zip(v.iter()).all(|(s, t)| (s.to_f64() - t.to_f64()).abs() < 1e-12),
                _ => false,
            }
        } else {
            a == b
        };
        if !same {
            rep.viol(idx, name, format!("{name}: at x={} got {} want {} | {descr}", qs(p), a.map_or("undefined".into(), |v| qs(&v)), b.map_or("undefined".into(), |v| qs(&v))));
            return;
        }
    }
}

fn with_row(x: &[Q], row: usize, v: Q) -> Option<Vec<Q>> {
    let mut y = x.to_vec();
    y[row] = v;
    Some(y)
}

fn small_relu_like(rng: &mut Rng) -> AffTree<2> {
    match rng.below(3) {
        0 => schema::partial_ReLU(1, 0),
        1 => schema::partial_hard_tanh(1, 0, -1.0, 1.0),
        _ => schema::partial_leaky_ReLU(1, 0, 0.5),
    }
}

pub fn schemas(rep: &mut Report, tier: Tier) {
    rep.rule = "every schema generator for dims 1..=3 (argmax/class: 2..=4), every row / class, parameter values from pools (alpha, min<=max incl. min==max, lambda incl. 0, threshold/value, optional bounds), from_poly with/without else-branch, from_slice + compose (once or twice) [+ infeasible_elimination] + remove_axes; tree function vs the textbook definition on the half-integer lattice (hits every breakpoint and tie); non-trivial: every (generator, parameters, dim) combination".into();
    rep.bound = "dims <= 3 (argmax/class <= 4); lattice [-3,3]^d step 1/2 (integer sub-lattice for d >= 3)".into();
    rep.exhaustive = true;
    let _ = tier;
    let mut idx = 0u64;
    let half = |n: i128| Q::new(n, 2);
    for dim in 1..=3usize {
        let pts: Vec<Vec<Q>> = if dim < 3 { lattice(dim) } else { lattice(3).into_iter().filter(|p| p.iter().all(|q| q.d == 1)).collect() };
        for row in 0..dim {
            let mut list: Vec<(String, Result<AffTree<2>, String>, Box<dyn Fn(&[Q]) -> Option<Vec<Q>>>)> = vec![];
            list.push(("partial_ReLU".into(), guarded(|| schema::partial_ReLU(dim, row)), Box::new(move |x| with_row(x, row, if x[row] > Q::ZERO { x[row] } else { Q::ZERO }))));
            for alpha in [0.5, 0.25, 2.0, 0.0] {
                let aq = Q::from_f64(alpha).unwrap();
                list.push((format!("partial_leaky_ReLU({alpha})"), guarded(|| schema::partial_leaky_ReLU(dim, row, alpha)), Box::new(move |x| with_row(x, row, if x[row] > Q::ZERO { x[row] } else { aq * x[row] }))));
            }
            for (lo, hi) in [(-1.0, 1.0), (0.0, 0.0), (-2.0, 0.5), (1.0, 2.5)] {
                let (lq, hq) = (Q::from_f64(lo).unwrap(), Q::from_f64(hi).unwrap());
                list.push((format!("partial_hard_tanh({lo},{hi})"), guarded(|| schema::partial_hard_tanh(dim, row, lo, hi)), Box::new(move |x| with_row(x, row, if x[row] > hq { hq } else if x[row] < lq { lq } else { x[row] }))));
            }
            for lam in [1.0, 0.5, 0.0, 2.0] {
                let lq = Q::from_f64(lam).unwrap();
                // textbook hard shrink: x if |x| > lambda else 0
                list.push((format!("partial_hard_shrink({lam})"), guarded(|| schema::partial_hard_shrink(dim, row, lam)), Box::new(move |x| with_row(x, row, if x[row].abs() > lq { x[row] } else { Q::ZERO }))));
            }
            // textbook hard sigmoid: 0 if x <= -3, 1 if x >= 3, x/6 + 1/2 otherwise
            list.push(("partial_hard_sigmoid".into(), guarded(|| schema::partial_hard_sigmoid(dim, row)), Box::new(move |x| {
                with_row(x, row, if x[row] <= Q::int(-3) { Q::ZERO } else if x[row] >= Q::int(3) { Q::ONE } else { x[row] / Q::int(6) + half(1) })
            })));
            for (th, val) in [(0.5, 2.0), (-1.0, 0.0), (0.0, -1.5)] {
                let (tq, vq) = (Q::from_f64(th).unwrap(), Q::from_f64(val).unwrap());
                // textbook threshold: x if x > threshold else value
                list.push((format!("partial_threshold({th},{val})"), guarded(|| schema::partial_threshold(dim, row, th, val)), Box::new(move |x| with_row(x, row, if x[row] > tq { x[row] } else { vq }))));
            }
            for (name, got, want) in list {
                idx += 1;
                if rep.skip(idx) {
                    continue;
                }
                rep.evaluations += 1;
                let descr = format!("dim={dim} row={row}");
                rep.nontrivial(&format!("{name}{descr}"));
                rep.sample(format!("{name} {descr}"));
                match got {
                    Err(p) => rep.viol(idx, "panic", format!("{name} panicked: {p} | {descr}")),
                    Ok(t) => tree_fn_check(rep, idx, &name, &t, dim, want.as_ref(), &pts, &descr),
                }
            }
        }
    }
    for dim in 2..=4usize {
        let pts: Vec<Vec<Q>> = if dim == 2 {
            lattice(2)
        } else {
            // small integer lattice with many ties
            let vals = [Q::int(-1), Q::ZERO, Q::ONE, Q::new(1, 2)];
            let mut p: Vec<Vec<Q>> = vec![vec![]];
            for _ in 0..dim {
                p = p.into_iter().flat_map(|v| vals.iter().map(move |q| { let mut w = v.clone(); w.push(*q); w })).collect();
            }
            p
        };
        idx += 1;
        if !rep.skip(idx) {
            rep.evaluations += 1;
            rep.nontrivial(&format!("argmax{dim}"));
            match guarded(|| schema::argmax(dim)) {
                Err(p) => rep.viol(idx, "panic", format!("argmax({dim}) panicked: {p}")),
                Ok(t) => tree_fn_check(rep, idx, "argmax", &t, dim, &|x| {
                    let mut best = 0;
                    for i in 1..x.len() {
                        if x[i] > x[best] {
                            best = i;
                        }
                    }
                    Some(vec![Q::int(best as i64)])
                }, &pts, &format!("dim={dim}")),
            }
        }
        for clazz in 0..dim {
            idx += 1;
            if rep.skip(idx) {
                continue;
            }
            rep.evaluations += 1;
            rep.nontrivial(&format!("class{dim}{clazz}"));
            match guarded(|| schema::class_characterization(dim, clazz)) {
                Err(p) => rep.viol(idx, "panic", format!("class_characterization({dim},{clazz}) panicked: {p}")),
                Ok(t) => tree_fn_check(rep, idx, "class_characterization", &t, dim, &|x| Some(vec![if x.iter().all(|v| *v <= x[clazz]) { Q::ONE } else { Q::ZERO }]), &pts, &format!("dim={dim} class={clazz}")),
            }
        }
    }
    for dim in 1..=2usize {
        for (lo, hi) in [(Some(-1.0), Some(1.5)), (Some(0.0), None), (None, Some(0.5)), (Some(1.0), Some(1.0))] {
            idx += 1;
            if rep.skip(idx) {
                continue;
            }
            rep.evaluations += 1;
            rep.nontrivial(&format!("inf_norm{dim}{lo:?}{hi:?}"));
            match guarded(|| schema::inf_norm(dim, lo, hi)) {
                Err(p) => rep.viol(idx, "panic", format!("inf_norm({dim},{lo:?},{hi:?}) panicked: {p}")),
                Ok(t) => tree_fn_check(rep, idx, "inf_norm", &t, dim, &|x| {
                    let ok = x.iter().all(|v| lo.map_or(true, |l| Q::from_f64(l).unwrap() <= *v) && hi.map_or(true, |h| *v <= Q::from_f64(h).unwrap()));
                    Some(vec![if ok { Q::ONE } else { Q::ZERO }])
                }, &lattice(dim), &format!("dim={dim} bounds=({lo:?},{hi:?})")),
            }
        }
    }
    // from_poly and from_slice + remove_axes
    for k in 0..240u64 {
        idx += 1;
        if rep.skip(idx) {
            continue;
        }
        let mut rng = Rng::new(rep.seed ^ (idx * 7727 + k));
        let d = 1 + rng.below(2);
        let n = 1 + rng.below(3);
        let mut rows = vec![];
        let mut bias = vec![];
        for _ in 0..n {
            let (r, b) = pred_row(&mut rng, d);
            rows.push(r);
            bias.push(b);
        }
        let p = poly(&rows, &bias, d);
        let ft = term(&mut rng, d, 1, false);
        let ff = term(&mut rng, d, 1, false);
        let with_else = rng.chance(1, 2);
        let (xft, xff) = (xa(&ft), xa(&ff));
        rep.evaluations += 1;
        let descr = format!("poly rows={rows:?} bias={bias:?} else={with_else}");
        rep.nontrivial(&descr);
        let p2 = p.clone();
        match guarded(|| AffTree::<2>::from_poly(p.clone(), ft.clone(), if with_else { Some(&ff) } else { None })) {
            Err(pn) => rep.viol(idx, "panic", format!("from_poly panicked: {pn} | {descr}")),
            Ok(Err(e)) => rep.viol(idx, "from_poly", format!("from_poly returned {e:?} | {descr}")),
            Ok(Ok(t)) => tree_fn_check(rep, idx, "from_poly", &t, d, &|x| if member(&p2, x) { Some(xft.apply(x)) } else if with_else { Some(xff.apply(x)) } else { None }, &lattice(d), &descr),
        }
        // slicing a random 2-d tree along one axis
        if d == 2 {
            let sh = shapes(2, 2, true);
            let spick = rng.below(sh.len());
            let t0 = build::<2>(&mut rng, &sh[spick], 2, 1, false, false);
            let x0 = xtree(&t0).unwrap();
            let ax = rng.below(2);
            let val = (rng.below(7) as f64 - 3.0) / 2.0;
            let mut rp = vec![f64::NAN; 2];
            rp[ax] = val;
            // half of the pipelines simplify the sliced tree first (fixing an axis makes branches infeasible: their removal leaves
            // holes in the arena below live indices), some compose twice so that the arena is larger
            let simplify = rng.chance(1, 2);
            let twice = rng.chance(1, 3);
            let g1 = small_relu_like(&mut rng);
            let res = guarded(|| {
                let mut s = AffTree::<2>::from_slice(&arr1(&rp));
                s.compose::<false, false>(&t0);
                if twice {
                    s.compose::<false, false>(&g1);
                }
                if simplify {
                    s.infeasible_elimination();
                }
                let mut mask = vec![true; 2];
                mask[ax] = false;
                s.remove_axes(&Array1::from(mask)).map(|_| s)
            });
            rep.evaluations += 1;
            let d2 = format!("tree {} sliced at axis {ax}={val}", x0.descr());
            match res {
                Err(pn) => rep.viol(idx, "panic", format!("slice pipeline panicked: {pn} | {d2}")),
                Ok(Err(e)) => rep.viol(idx, "slice", format!("remove_axes returned {e:?} | {d2}")),
                Ok(Ok(s)) => {
                    let xg1 = xtree(&g1).unwrap();
                    // evaluation itself must not panic (a node that kept its full-width matrix would)
                    let probe = guarded(|| { for p in lattice(1) { let _ = s.evaluate(&to_arr(&p)); } });
                    if let Err(pn) = probe {
                        rep.viol(idx, "from_slice+remove_axes", format!("evaluating the sliced tree panicked: {pn} | {d2} simplify={simplify} twice={twice}"));
                    } else {
                        tree_fn_check(rep, idx, "from_slice+remove_axes", &s, 1, &|x| {
                            let mut full = vec![Q::ZERO; 2];
                            full[ax] = Q::from_f64(val).unwrap();
                            full[1 - ax] = x[0];
                            let y = x0.eval(&full)?;
                            if twice { xg1.eval(&y) } else { Some(y) }
                        }, &lattice(1), &format!("{d2} simplify={simplify} twice={twice}"))
                    }
                }
            }
        }
    }
}

// ------------------------------------------------------------------------------------------ C01 / C18

#[derive(Clone, Debug)]
enum L {
    Lin(XAff),
    Relu(usize),
    Leaky(usize, Q),
    Tanh(usize),
    Sigm(usize),
    Argmax,
    Class(usize),
}

fn net_eval(layers: &[L], x: &[Q]) -> Vec<Q> {
    let mut v = x.to_vec();
    for l in layers {
        match l {
            L::Lin(a) => v = a.apply(&v),
            L::Relu(i) => {
                if v[*i] < Q::ZERO {
                    v[*i] = Q::ZERO
                }
            }
            L::Leaky(i, a) => {
                if v[*i] <= Q::ZERO {
                    v[*i] = *a * v[*i]
                }
            }
            L::Tanh(i) => {
                if v[*i] > Q::ONE {
                    v[*i] = Q::ONE
                } else if v[*i] < Q::int(-1) {
                    v[*i] = Q::int(-1)
                }
            }
            L::Sigm(i) => {
                v[*i] = if v[*i] <= Q::int(-3) { Q::ZERO } else if v[*i] >= Q::int(3) { Q::ONE } else { v[*i] / Q::int(6) + Q::new(1, 2) }
            }
            L::Argmax => {
                let mut b = 0;
                for i in 1..v.len() {
                    if v[i] > v[b] {
                        b = i;
                    }
                }
                v = vec![Q::int(b as i64)];
            }
            L::Class(c) => v = vec![if v.iter().all(|q| *q <= v[*c]) { Q::ONE } else { Q::ZERO }],
        }
    }
    v
}

/// does the exact evaluation pass through a breakpoint / tie at x? (used only for networks with
/// inexact coefficients, where the property excludes inputs within rounding distance of a breakpoint)
fn near_breakpoint(layers: &[L], x: &[Q]) -> bool {
    let mut v = x.to_vec();
    for (k, l) in layers.iter().enumerate() {
        let hit = match l {
            L::Lin(_) => false,
            L::Relu(i) | L::Leaky(i, _) => v[*i].is_zero(),
            L::Tanh(i) => v[*i].abs() == Q::ONE,
            L::Sigm(i) => v[*i].abs() == Q::int(3),
            L::Argmax => {
                let m = *v.iter().max().unwrap();
                v.iter().filter(|q| **q == m).count() > 1
            }
            L::Class(c) => v.iter().enumerate().any(|(j, q)| j != *c && *q == v[*c]),
        };
        if hit {
            return true;
        }
        v = net_eval(&layers[k..k + 1], &v);
    }
    false
}

fn gen_net(rng: &mut Rng, d: usize, sigm: bool) -> (Vec<Layer>, Vec<L>, usize) {
    let mut layers = vec![];
    let mut model = vec![];
    let mut dim = d;
    let nlin = 1 + rng.below(2);
    for li in 0..nlin {
        let h = 1 + rng.below(2);
        // weights in {-1,0,1,1/2}: hard sigmoid needs sixths, kept to the last layer only
        let c = [-1.0, 0.0, 1.0, 0.5];
        let m: Vec<Vec<f64>> = (0..h).map(|_| (0..dim).map(|_| *rng.pick(&c)).collect()).collect();
        let b: Vec<f64> = (0..h).map(|_| *rng.pick(&[-1.0, 0.0, 1.0])).collect();
        let a = aff(&m, &b, dim);
        model.push(L::Lin(xa(&a)));
        layers.push(Layer::Linear(a));
        dim = h;
        let last = li + 1 == nlin;
        for i in 0..dim {
            match rng.below(if sigm && last { 5 } else { 4 }) {
                0 => {
                    layers.push(Layer::ReLU(i));
                    model.push(L::Relu(i));
                }
                1 => {
                    layers.push(Layer::LeakyReLU(i, 0.5));
                    model.push(L::Leaky(i, Q::new(1, 2)));
                }
                2 => {
                    layers.push(Layer::HardTanh(i));
                    model.push(L::Tanh(i));
                }
                3 => {}
                _ => {
                    layers.push(Layer::HardSigmoid(i));
                    model.push(L::Sigm(i));
                }
            }
        }
    }
    if dim >= 2 {
        match rng.below(3) {
            0 => {
                layers.push(Layer::Argmax);
                model.push(L::Argmax);
                dim = 1;
            }
            1 => {
                let c = rng.below(dim);
                layers.push(Layer::ClassChar(c));
                model.push(L::Class(c));
                dim = 1;
            }
            _ => {}
        }
        // a head may be followed by further layers on its one-component output (C01 quantifies over all dimension-consistent sequences)
        if dim == 1 && rng.chance(1, 2) {
            let h = 1 + rng.below(2);
            let c = [-1.0, 1.0, 2.0];
            let m: Vec<Vec<f64>> = (0..h).map(|_| vec![*rng.pick(&c)]).collect();
            let b: Vec<f64> = (0..h).map(|_| *rng.pick(&[-1.0, 0.0, 1.0])).collect();
            let a = aff(&m, &b, 1);
            model.push(L::Lin(xa(&a)));
            layers.push(Layer::Linear(a));
            dim = h;
            if rng.chance(1, 2) {
                let i = rng.below(dim);
                layers.push(Layer::ReLU(i));
                model.push(L::Relu(i));
            }
        }
    }
    (layers, model, dim)
}

pub fn distill(rep: &mut Report, tier: Tier) {
    let cases = if tier == Tier::Quick { 3000 } else { 60000 };
    rep.rule = "seeded networks: 1-2 linear layers (widths 1-2, weights in {-1,0,1/2,1}) followed per neuron by ReLU / leaky ReLU(1/2) / hard tanh / nothing (hard sigmoid in the last layer only: its sixths are not exactly representable), optional argmax / class head (itself optionally followed by a linear layer and a ReLU), with no precondition or a polytope precondition (from_poly without else-branch); afftree_from_layers vs the exact network function on the half-integer lattice: equal value inside the precondition, undefined outside, breakpoints and ties included (hard-sigmoid cases compared in f64 with 1e-9 tolerance); non-trivial: network has an activation".into();
    rep.bound = format!("{cases} seeded networks, input dims in {{1,2}}");
    for idx in 1..=cases as u64 {
        if rep.skip(idx) {
            continue;
        }
        let mut rng = Rng::new(rep.seed ^ (idx * 48271));
        let d = 1 + rng.below(2);
        let sigm = rng.chance(1, 5);
        let (layers, model, _out) = gen_net(&mut rng, d, sigm);
        let has_sigm = model.iter().any(|l| matches!(l, L::Sigm(_)));
        let pre = if rng.chance(1, 2) {
            let n = 1 + rng.below(2);
            let mut rows = vec![];
            let mut bias = vec![];
            for _ in 0..n {
                let (r, b) = pred_row(&mut rng, d);
                rows.push(r);
                bias.push(b * 2.0);
            }
            Some(poly(&rows, &bias, d))
        } else {
            None
        };
        let descr = format!("d={d} layers={model:?} pre={:?}", pre.as_ref().map(|p| (p.mat.clone(), p.bias.clone())));
        rep.evaluations += 1;
        if model.iter().any(|l| !matches!(l, L::Lin(_))) {
            rep.nontrivial(&descr);
        }
        if idx < 3 {
            rep.sample(descr.clone());
        }
        let pre_tree = pre.as_ref().map(|p| AffTree::<2>::from_poly(p.clone(), AffFunc::identity(d), None).unwrap());
        let res = guarded(|| afftree_from_layers(d, &layers, pre_tree));
        let t = match res {
            Ok(t) => t,
            Err(p) => {
                rep.viol(idx, "panic", format!("afftree_from_layers panicked: {p} | {descr}"));
                continue;
            }
        };
        // C06 for distilled networks (no head, no precondition: the tree is total and the builder prunes after every activation unit):
        // no node below the root with an empty path region, no single-branch decision, and a further elimination changes nothing
        let has_head = model.iter().any(|l| matches!(l, L::Argmax | L::Class(_)));
        if !has_head && pre.is_none() && model.iter().any(|l| !matches!(l, L::Lin(_))) {
            if let Ok(xe) = xtree(&t) {
                for (i, nd) in &xe.nodes {
                    if *i == xe.root {
                        continue;
                    }
                    if !crate::fm::feasible(&xe.closed_region(*i), xe.in_dim) {
                        rep.viol(idx, "effective", format!("distilled tree keeps node {i} with an empty path region | {descr}"));
                        break;
                    }
                    if !nd.isleaf && nd.children.iter().flatten().count() == 1 {
                        rep.viol(idx, "effective", format!("distilled tree keeps decision {i} with a single branch | {descr}"));
                        break;
                    }
                }
                let mut t2 = t.clone();
                if guarded(|| t2.infeasible_elimination()).is_ok() {
                    if let Ok(xa2) = xtree(&t2) {
                        let strip = |x: &XTree| x.nodes.iter().map(|(i, n)| (*i, n.children.clone(), n.parent)).collect::<Vec<_>>();
                        if strip(&xa2) != strip(&xe) {
                            rep.viol(idx, "idempotent", format!("a further infeasible_elimination changes the distilled tree ({} -> {} nodes) | {descr}", xe.nodes.len(), xa2.nodes.len()));
                        }
                    }
                }
            }
        }
        if has_sigm {
            // inexact coefficients: compare the real evaluate() with the exact value in f64
            for x in lattice(d) {
                if near_breakpoint(&model, &x) {
                    continue;
                }
                let inside = pre.as_ref().map_or(true, |p| member(p, &x));
                let got = t.evaluate(&to_arr(&x));
                let want = if inside { Some(net_eval(&model, &x)) } else { None };
                let ok = match (&got, &want) {
                    (None, None) => true,
                    (Some(g), Some(w)) => g.len() == w.len() && g.iter().zip(w.iter()).all(|(a, b)| (a - b.to_f64()).abs() < 1e-9),
                    _ => false,
                };
                if !ok {
                    rep.viol(idx, "faithful", format!("distilled tree at x={} gives {got:?}, the network gives {:?} | {descr}", qs(&x), want.map(|v| qs(&v))));
                    break;
                }
            }
            continue;
        }
        let xt = match xtree(&t) {
            Ok(x) => x,
            Err(e) => {
                rep.viol(idx, "faithful", format!("{e} | {descr}"));
                continue;
            }
        };
        if let Err(e) = xt.aff_wf() {
            rep.viol(idx, "wf", format!("distilled tree not well-formed: {e} | {descr}"));
        }
        let expect = |x: &[Q]| if pre.as_ref().map_or(true, |p| member(p, x)) { Some(net_eval(&model, x)) } else { None };
        if let Err(e) = same_function(&expect, &|_| vec![], &xt, d, false, &mut 0) {
            rep.viol(idx, "faithful", format!("distilled tree differs from the network: {e} | {descr}"));
        }
    }
}

pub fn arch(rep: &mut Report, tier: Tier) {
    let cases = if tier == Tier::Quick { 3000 } else { 40000 };
    rep.rule = "seeded sequences of Architecture builder calls (valid and invalid: wrong input width, index out of range, argmax on width 1), shadow shape model: accepted iff dimension-compatible, Err leaves the architecture unchanged, current_shape == output width of the layers so far; every accepted architecture distills without panic; for every split point k the trees of extract_range(0,k) and extract_range(k,n) compose to the tree of the whole (exact, on the lattice); layer files: npz round trip incl. >= 11 layers (index order) with relu / hard_tanh / hard_sigmoid markers; non-trivial: sequence contains a rejected call and an accepted activation".into();
    rep.bound = format!("{cases} seeded call sequences of length <= 6, widths 1..=2; 12 layer files");
    for idx in 1..=cases as u64 {
        if rep.skip(idx) {
            continue;
        }
        let mut rng = Rng::new(rep.seed ^ (idx * 69621));
        let d = 1 + rng.below(2);
        let mut a = Architecture::new(TensorShape::Flat { in_dim: d });
        let mut width = d;
        let mut calls: Vec<String> = vec![];
        let mut accepted = 0usize;
        let mut rejected = false;
        let mut act = false;
        rep.evaluations += 1;
        let n = 1 + rng.below(6);
        for _ in 0..n {
            let before_ops = a.operators.len();
            let before_shape = a.current_shape;
            let (name, res, should_ok, new_width, added): (String, Result<(), String>, bool, usize, usize) = match rng.below(8) {
                0 | 1 => {
                    let ind = if rng.chance(1, 4) { 1 + rng.below(3) } else { width };
                    let out = 1 + rng.below(2);
                    let f = term(&mut rng, ind, out, false);
                    (format!("linear({ind}->{out})"), a.linear(f).map_err(|e| format!("{e:?}")), ind == width, out, 1)
                }
                2 => {
                    let i = rng.below(width + 1);
                    (format!("partial_relu({i})"), a.partial_relu(i).map_err(|e| format!("{e:?}")), i < width, width, 1)
                }
                3 => ("relu()".into(), a.relu().map_err(|e| format!("{e:?}")), true, width, width),
                4 => {
                    let i = rng.below(width + 1);
                    (format!("partial_leaky_relu({i})"), a.partial_leaky_relu(i, 0.5).map_err(|e| format!("{e:?}")), i < width, width, 1)
                }
                5 => {
                    let i = rng.below(width + 1);
                    (format!("partial_hard_tanh({i})"), a.partial_hard_tanh(i).map_err(|e| format!("{e:?}")), i < width, width, 1)
                }
                6 => ("hard_tanh()".into(), a.hard_tanh().map_err(|e| format!("{e:?}")), true, width, width),
                _ => ("argmax()".into(), a.argmax().map_err(|e| format!("{e:?}")), width >= 2, 1, 1),
            };
            calls.push(name.clone());
            if res.is_ok() != should_ok {
                rep.viol(idx, "accept", format!("{name} on width {width}: returned {res:?} but the call is {}dimension-compatible | calls {calls:?}", if should_ok { "" } else { "not " }));
                break;
            }
            if res.is_ok() {
                if name.contains("relu") || name.contains("tanh") {
                    act = true;
                }
                accepted += added;
                width = new_width;
                if a.operators.len() != before_ops + added {
                    rep.viol(idx, "shape", format!("{name}: queued {} layers, expected {added} | calls {calls:?}", a.operators.len() - before_ops));
                }
            } else {
                rejected = true;
                if a.operators.len() != before_ops || a.current_shape != before_shape {
                    rep.viol(idx, "err-changed", format!("{name} returned Err but changed the architecture | calls {calls:?}"));
                }
            }
            if a.current_shape.max_dim() != width {
                rep.viol(idx, "shape", format!("after {name}: current_shape {:?} but the network built so far has output width {width} | calls {calls:?}", a.current_shape));
                break;
            }
        }
        if rejected && act {
            rep.nontrivial(&format!("{calls:?}"));
        }
        if idx < 3 {
            rep.sample(format!("{calls:?}"));
        }
        if rep.violations.iter().any(|v| v.case_id == rep.case_id(idx)) || accepted == 0 {
            continue;
        }
        // distillation of the accepted architecture and of its splits
        let layers: Vec<Layer> = a.operators().cloned().collect();
        let whole = match guarded(|| afftree_from_layers(d, &layers, None)) {
            Ok(t) => t,
            Err(p) => {
                rep.viol(idx, "distill-panic", format!("accepted architecture panics in distillation: {p} | calls {calls:?}"));
                continue;
            }
        };
        let xw = match xtree(&whole) {
            Ok(x) => x,
            Err(_) => continue,
        };
        let nl = a.operators.len();
        for k in 1..nl {
            let res = guarded(|| {
                let a1 = a.extract_range(0, k).map_err(|e| format!("{e:?}"))?;
                let a2 = a.extract_range(k, nl).map_err(|e| format!("{e:?}"))?;
                if a1.current_shape != a2.input_shape {
                    return Err(format!("shapes at the split do not match: {:?} vs {:?}", a1.current_shape, a2.input_shape));
                }
                if a1.operators.len() != k || a2.operators.len() != nl - k {
                    return Err(format!("split sizes {} + {} != {nl}", a1.operators.len(), a2.operators.len()));
                }
                let l1: Vec<Layer> = a1.operators().cloned().collect();
                let l2: Vec<Layer> = a2.operators().cloned().collect();
                let t1 = afftree_from_layers(a1.input_shape.max_dim(), &l1, None);
                let t2 = afftree_from_layers(a2.input_shape.max_dim(), &l2, None);
                let mut c = t1;
                c.compose::<false, false>(&t2);
                Ok(c)
            });
            match res {
                Err(p) => rep.viol(idx, "split", format!("split at {k} panicked: {p} | calls {calls:?}")),
                Ok(Err(e)) => rep.viol(idx, "split", format!("split at {k}: {e} | calls {calls:?}")),
                Ok(Ok(c)) => {
                    let xc = xtree(&c).unwrap();
                    if let Err(e) = same_function(&|x| xw.eval(x), &|_| vec![], &xc, d, false, &mut 0) {
                        rep.viol(idx, "split", format!("trees of the two parts (split at {k}) do not compose to the tree of the whole: {e} | calls {calls:?}"));
                    }
                }
            }
        }
    }
    // layer files
    let dir = std::env::temp_dir().join(format!("bc_npz_{}", std::process::id()));
    let _ = std::fs::create_dir_all(&dir);
    for k in 0..12u64 {
        let idx = cases as u64 + 1 + k;
        if rep.skip(idx) {
            continue;
        }
        rep.evaluations += 1;
        let mut rng = Rng::new(rep.seed ^ (idx * 16807));
        let nlin = if k < 6 { 1 + rng.below(3) } else { 6 + rng.below(2) };
        let padded = k % 2 == 0;
        let ix = |li: usize| if padded { format!("{li:03}") } else { format!("{li}") };
        let path = dir.join(format!("net{k}.npz"));
        let mut written: Vec<String> = vec![];
        let mut expect: Vec<String> = vec![];
        let res = guarded(|| {
            use ndarray_npy::NpzWriter;
            let mut npz = NpzWriter::new(std::fs::File::create(&path).unwrap());
            let mut dim = 1 + rng.below(2);
            let mut li = 0;
            for _ in 0..nlin {
                let out = 1 + rng.below(3);
                let f = term(&mut rng, dim, out, false);
                npz.add_array(format!("{}.linear.weights.npy", ix(li)), &f.mat).unwrap();
                npz.add_array(format!("{}.linear.bias.npy", ix(li)), &f.bias).unwrap();
                written.push(format!("{}.linear", ix(li)));
                expect.push(format!("Linear({:?},{:?})", f.mat, f.bias));
                dim = out;
                li += 1;
                let kind = rng.below(4);
                let marker = ["relu", "hard_tanh", "hard_sigmoid", ""][kind];
                if !marker.is_empty() {
                    npz.add_array(format!("{}.{marker}.npy", ix(li)), &Array1::<f64>::zeros(0)).unwrap();
                    written.push(format!("{}.{marker}", ix(li)));
                    for i in 0..dim {
                        expect.push(match kind {
                            0 => format!("ReLU({i})"),
                            1 => format!("HardTanh({i})"),
                            _ => format!("HardSigmoid({i})"),
                        });
                    }
                    li += 1;
                }
            }
            npz.finish().unwrap();
        });
        if let Err(p) = res {
            rep.notes.push(format!("could not write layer file: {p}"));
            continue;
        }
        match guarded(|| read_layers(&path)) {
            Err(p) => rep.viol(idx, "layer-file", format!("read_layers panicked: {p} | entries {written:?}")),
            Ok(Err(e)) => rep.viol(idx, "layer-file", format!("read_layers returned {e:?} | entries {written:?}")),
            Ok(Ok(ls)) => {
                let got: Vec<String> = ls.iter().map(|l| match l {
                    Layer::Linear(f) => format!("Linear({:?},{:?})", f.mat, f.bias),
                    Layer::ReLU(i) => format!("ReLU({i})"),
                    Layer::HardTanh(i) => format!("HardTanh({i})"),
                    Layer::HardSigmoid(i) => format!("HardSigmoid({i})"),
                    other => format!("{other:?}"),
                }).collect();
                if got != expect {
                    let class = if written.len() > 10 && !padded { "layer-file-order" } else { "layer-file" };
                    rep.viol(idx, class, format!("read_layers returned {} layers in a different order / content than written | entries {written:?} | got {:?} | want {:?}", got.len(), got.iter().map(|s| s.chars().take(12).collect::<String>()).collect::<Vec<_>>(), expect.iter().map(|s| s.chars().take(12).collect::<String>()).collect::<Vec<_>>()));
                } else if written.len() > 10 {
                    rep.nontrivial(&format!("file{k}"));
                }
            }
        }
    }
    let _ = std::fs::remove_dir_all(&dir);
}
