"""Per-property configuration of the affinitree checks (what decides each property).

units:   Verus units (units/<name>.rs) whose every obligation must be discharged
bounded: bc sub-commands (bounded contract replay on the real crate) — labelled bounded, never counted as proved
level:   evidence level claimed for the property
"""

ASSUME_COMMON = [
    'Verus 0.2026.09.13 / Z3 are sound',
    'extraction rules D1-D6, S1-S2, I1-I10 (DESIGN.md §2.1) preserve semantics; the verified text is re-extracted from /repo on every run',
    'termination is proved for extracted loops only',
]

ASSUME_SLAB = [
    'slab::Slab contracts in prelude/slab_shim.rs are assumed (external_body): view Map<usize,T>; insert returns some key not in the domain; remove/try_remove/get/get_mut/contains/len as documented by slab 0.4.9',
    'core::mem::replace assume_specification',
    'axiom_from_invalid_index: the error conversion performed by `?` equals the (verified) From impl that thiserror #[from] generates',
]

PROPS = {
    'C12': {
        'level': 'proof',
        'units': ['tree_graph'],
        'bounded': [],
        'technique': 'Verus contracts on the extracted text of src/tree/graph.rs: wf is pre/post-condition of every mutator, Err => arena unchanged, frame clauses',
        'level_text': ('Deductive proof (Verus/Z3) that every mutator of Tree<N,K> (add_root on an empty tree, add_child_node, update_node, '
                       'try_remove_child, remove_child, remove_all_descendants, merge_child_with_parent), for generic N and K and an arbitrary well-formed '
                       'pre-state, re-establishes the structural invariant wf (mirrored links, unique listing, leaf flag, single parent-less root, ghost rank map '
                       '= acyclic + reachable), leaves the arena unchanged on Err, and changes only the nodes named by its relational post-condition. '
                       'By induction this covers every finite operation history, including index reuse (insert returns an arbitrary free key).'),
        'design_ref': 'DESIGN.md §4 C12',
        'assumptions': ASSUME_COMMON + ASSUME_SLAB + [
            'rewrite helpers count_some / children_idx_vec are themselves verified in the unit',
            'arena holds at most i32::MAX nodes (remove_all_descendants counts deletions in an i32)',
            'label < K is a precondition of add_child_node/child/try_remove_child (the code indexes a [_; K] array)',
        ],
    },
}

NOT_APPLICABLE = {
    'C10': 'correctness of the external LP solver (minilp simplex) seen through a 20-line adapter: no contract within reach can decide it; a contract on solve_linprog would have to be assumed',
    'C19': 'fmt::Formatter / string output: Verus has no model of core::fmt output or str contents; deciding it means parsing output back, which is testing, not contract verification',
}
