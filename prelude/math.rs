// ---- prelude/math.rs : real vectors / matrices as sequences, with proved lemmas (no assumptions) ----
pub type V = Seq<real>;
pub type M = Seq<Seq<real>>;

pub open spec fn dotp(a: V, b: V, n: int) -> real decreases n {
    if n <= 0 { 0real } else { dotp(a, b, n - 1) + a[n - 1] * b[n - 1] }
}
pub open spec fn m_ok(a: M, r: int, c: int) -> bool {
    a.len() == r && forall|i: int| 0 <= i < r ==> (#[trigger] a[i]).len() == c
}
pub open spec fn mv(a: M, x: V) -> V { Seq::new(a.len(), |i: int| dotp(a[i], x, x.len() as int)) }
pub open spec fn col(b: M, j: int) -> V { Seq::new(b.len(), |k: int| b[k][j]) }
pub open spec fn mm(a: M, b: M, c: int) -> M {
    Seq::new(a.len(), |i: int| Seq::new(c as nat, |j: int| dotp(a[i], col(b, j), b.len() as int)))
}
pub open spec fn transpose(a: M, c: int) -> M { Seq::new(c as nat, |j: int| col(a, j)) }
pub open spec fn vadd(a: V, b: V) -> V { Seq::new(a.len(), |i: int| a[i] + b[i]) }
pub open spec fn vsub(a: V, b: V) -> V { Seq::new(a.len(), |i: int| a[i] - b[i]) }
pub open spec fn vmul(a: V, b: V) -> V { Seq::new(a.len(), |i: int| a[i] * b[i]) }
pub open spec fn vdiv(a: V, b: V) -> V { Seq::new(a.len(), |i: int| a[i] / b[i]) }
pub open spec fn mdiv(a: M, b: M) -> M { Seq::new(a.len(), |i: int| vdiv(a[i], b[i])) }
pub open spec fn vneg(a: V) -> V { Seq::new(a.len(), |i: int| -a[i]) }
pub open spec fn vscale(a: V, s: real) -> V { Seq::new(a.len(), |i: int| a[i] * s) }
pub open spec fn madd(a: M, b: M) -> M { Seq::new(a.len(), |i: int| vadd(a[i], b[i])) }
pub open spec fn msub(a: M, b: M) -> M { Seq::new(a.len(), |i: int| vsub(a[i], b[i])) }
pub open spec fn mmul(a: M, b: M) -> M { Seq::new(a.len(), |i: int| vmul(a[i], b[i])) }
pub open spec fn mneg(a: M) -> M { Seq::new(a.len(), |i: int| vneg(a[i])) }
pub open spec fn mscale(a: M, s: real) -> M { Seq::new(a.len(), |i: int| vscale(a[i], s)) }
pub open spec fn eye(n: int) -> M { Seq::new(n as nat, |i: int| Seq::new(n as nat, |j: int| if i == j { 1real } else { 0real })) }
pub open spec fn mconst(r: int, c: int, x: real) -> M { Seq::new(r as nat, |i: int| Seq::new(c as nat, |j: int| x)) }
pub open spec fn vconst(n: int, x: real) -> V { Seq::new(n as nat, |i: int| x) }
pub open spec fn diag(d: V) -> M { Seq::new(d.len(), |i: int| Seq::new(d.len(), |j: int| if i == j { d[i] } else { 0real })) }
pub open spec fn mset(a: M, i: int, j: int, x: real) -> M { a.update(i, a[i].update(j, x)) }

// ---- dot product facts
pub proof fn lemma_dotp_zero_left(a: V, b: V, n: int)
    requires 0 <= n <= a.len(), forall|k: int| 0 <= k < n ==> a[k] == 0real
    ensures dotp(a, b, n) == 0real
    decreases n
{
    if n > 0 { lemma_dotp_zero_left(a, b, n - 1); assert(0real * b[n - 1] == 0real) by(nonlinear_arith); }
}
pub proof fn lemma_dotp_zero_right(a: V, b: V, n: int)
    requires 0 <= n <= b.len(), forall|k: int| 0 <= k < n ==> b[k] == 0real
    ensures dotp(a, b, n) == 0real
    decreases n
{
    if n > 0 { lemma_dotp_zero_right(a, b, n - 1); assert(a[n - 1] * 0real == 0real) by(nonlinear_arith); }
}
// a has a single non-zero entry s at position p
pub proof fn lemma_dotp_unit(a: V, b: V, n: int, p: int, s: real)
    requires 0 <= n <= a.len(), forall|k: int| 0 <= k < n && k != p ==> a[k] == 0real, 0 <= p < a.len(), a[p] == s
    ensures dotp(a, b, n) == (if p < n { s * b[p] } else { 0real })
    decreases n
{
    if n > 0 {
        lemma_dotp_unit(a, b, n - 1, p, s);
        if n - 1 != p { assert(0real * b[n - 1] == 0real) by(nonlinear_arith); }
    }
}
// a has exactly two non-zero entries
pub proof fn lemma_dotp_two(a: V, b: V, n: int, p: int, s: real, q: int, t: real)
    requires 0 <= n <= a.len(), 0 <= p < a.len(), 0 <= q < a.len(), p != q, a[p] == s, a[q] == t,
        forall|k: int| 0 <= k < n && k != p && k != q ==> a[k] == 0real
    ensures dotp(a, b, n) == (if p < n { s * b[p] } else { 0real }) + (if q < n { t * b[q] } else { 0real })
    decreases n
{
    if n > 0 {
        lemma_dotp_two(a, b, n - 1, p, s, q, t);
        if n - 1 != p && n - 1 != q { assert(0real * b[n - 1] == 0real) by(nonlinear_arith); }
    }
}
pub proof fn lemma_dotp_add_right(a: V, u: V, v: V, n: int)
    requires 0 <= n <= u.len(), n <= v.len()
    ensures dotp(a, vadd(u, v), n) == dotp(a, u, n) + dotp(a, v, n)
    decreases n
{
    if n > 0 {
        lemma_dotp_add_right(a, u, v, n - 1);
        assert(vadd(u, v)[n - 1] == u[n - 1] + v[n - 1]);
        assert(a[n - 1] * (u[n - 1] + v[n - 1]) == a[n - 1] * u[n - 1] + a[n - 1] * v[n - 1]) by(nonlinear_arith);
    }
}
pub proof fn lemma_dotp_sub_right(a: V, u: V, v: V, n: int)
    requires 0 <= n <= u.len(), n <= v.len()
    ensures dotp(a, vsub(u, v), n) == dotp(a, u, n) - dotp(a, v, n)
    decreases n
{
    if n > 0 {
        lemma_dotp_sub_right(a, u, v, n - 1);
        assert(vsub(u, v)[n - 1] == u[n - 1] - v[n - 1]);
        assert(a[n - 1] * (u[n - 1] - v[n - 1]) == a[n - 1] * u[n - 1] - a[n - 1] * v[n - 1]) by(nonlinear_arith);
    }
}
pub proof fn lemma_dotp_add_left(a: V, c: V, x: V, n: int)
    requires 0 <= n <= a.len(), n <= c.len()
    ensures dotp(vadd(a, c), x, n) == dotp(a, x, n) + dotp(c, x, n)
    decreases n
{
    if n > 0 {
        lemma_dotp_add_left(a, c, x, n - 1);
        assert(vadd(a, c)[n - 1] == a[n - 1] + c[n - 1]);
        assert((a[n - 1] + c[n - 1]) * x[n - 1] == a[n - 1] * x[n - 1] + c[n - 1] * x[n - 1]) by(nonlinear_arith);
    }
}
pub proof fn lemma_dotp_sub_left(a: V, c: V, x: V, n: int)
    requires 0 <= n <= a.len(), n <= c.len()
    ensures dotp(vsub(a, c), x, n) == dotp(a, x, n) - dotp(c, x, n)
    decreases n
{
    if n > 0 {
        lemma_dotp_sub_left(a, c, x, n - 1);
        assert(vsub(a, c)[n - 1] == a[n - 1] - c[n - 1]);
        assert((a[n - 1] - c[n - 1]) * x[n - 1] == a[n - 1] * x[n - 1] - c[n - 1] * x[n - 1]) by(nonlinear_arith);
    }
}
pub proof fn lemma_dotp_neg_left(a: V, x: V, n: int)
    requires 0 <= n <= a.len()
    ensures dotp(vneg(a), x, n) == -dotp(a, x, n)
    decreases n
{
    if n > 0 {
        lemma_dotp_neg_left(a, x, n - 1);
        assert(vneg(a)[n - 1] == -a[n - 1]);
        assert((-a[n - 1]) * x[n - 1] == -(a[n - 1] * x[n - 1])) by(nonlinear_arith);
    }
}
pub proof fn lemma_dotp_scale_left(a: V, s: real, x: V, n: int)
    requires 0 <= n <= a.len()
    ensures dotp(vscale(a, s), x, n) == dotp(a, x, n) * s
    decreases n
{
    if n > 0 {
        lemma_dotp_scale_left(a, s, x, n - 1);
        assert(vscale(a, s)[n - 1] == a[n - 1] * s);
        assert((a[n - 1] * s) * x[n - 1] == (a[n - 1] * x[n - 1]) * s) by(nonlinear_arith);
        assert((dotp(a, x, n - 1) + a[n - 1] * x[n - 1]) * s == dotp(a, x, n - 1) * s + (a[n - 1] * x[n - 1]) * s) by(nonlinear_arith);
    }
}
pub proof fn lemma_dotp_ext(a: V, b: V, a2: V, b2: V, n: int)
    requires 0 <= n, forall|k: int| 0 <= k < n ==> a[k] == a2[k] && b[k] == b2[k]
    ensures dotp(a, b, n) == dotp(a2, b2, n)
    decreases n
{
    if n > 0 { lemma_dotp_ext(a, b, a2, b2, n - 1); }
}
pub proof fn lemma_dotp_comm(a: V, b: V, n: int)
    requires 0 <= n
    ensures dotp(a, b, n) == dotp(b, a, n)
    decreases n
{
    if n > 0 { lemma_dotp_comm(a, b, n - 1); assert(a[n - 1] * b[n - 1] == b[n - 1] * a[n - 1]) by(nonlinear_arith); }
}

// ---- (A B) x == A (B x)
pub open spec fn rowcomb(a: V, b: M, m: int, c: int) -> V { Seq::new(c as nat, |j: int| dotp(a, col(b, j), m)) }
pub open spec fn outer(a: V, b: M, x: V, m: int, n: int) -> real decreases m {
    if m <= 0 { 0real } else { outer(a, b, x, m - 1, n) + a[m - 1] * dotp(b[m - 1], x, n) }
}
pub proof fn lemma_outer_zero(a: V, b: M, x: V, m: int)
    requires 0 <= m
    ensures outer(a, b, x, m, 0) == 0real
    decreases m
{
    if m > 0 { lemma_outer_zero(a, b, x, m - 1); assert(a[m - 1] * 0real == 0real) by(nonlinear_arith); }
}
pub proof fn lemma_outer_step(a: V, b: M, x: V, m: int, c: int, n: int)
    requires 0 <= m <= b.len(), 1 <= n <= c, m_ok(b, b.len() as int, c)
    ensures outer(a, b, x, m, n) == outer(a, b, x, m, n - 1) + dotp(a, col(b, n - 1), m) * x[n - 1]
    decreases m
{
    if m > 0 {
        lemma_outer_step(a, b, x, m - 1, c, n);
        let p = dotp(a, col(b, n - 1), m - 1);
        let ak = a[m - 1];
        let bk = b[m - 1][n - 1];
        let xn = x[n - 1];
        let d = dotp(b[m - 1], x, n - 1);
        assert(col(b, n - 1)[m - 1] == bk);
        assert(dotp(b[m - 1], x, n) == d + bk * xn);
        assert(ak * (d + bk * xn) == ak * d + (ak * bk) * xn) by(nonlinear_arith);
        assert((p + ak * bk) * xn == p * xn + (ak * bk) * xn) by(nonlinear_arith);
    } else {
        assert(0real * x[n - 1] == 0real) by(nonlinear_arith);
    }
}
pub proof fn lemma_swap(a: V, b: M, x: V, m: int, c: int, n: int)
    requires 0 <= m <= b.len(), 0 <= n <= c, m_ok(b, b.len() as int, c)
    ensures dotp(rowcomb(a, b, m, c), x, n) == outer(a, b, x, m, n)
    decreases n, m
{
    if n == 0 { lemma_outer_zero(a, b, x, m); }
    else {
        lemma_swap(a, b, x, m, c, n - 1);
        lemma_outer_step(a, b, x, m, c, n);
        assert(rowcomb(a, b, m, c)[n - 1] == dotp(a, col(b, n - 1), m));
    }
}
pub proof fn lemma_outer_mv(a: V, b: M, x: V, m: int)
    requires 0 <= m <= b.len()
    ensures outer(a, b, x, m, x.len() as int) == dotp(a, mv(b, x), m)
    decreases m
{
    if m > 0 { lemma_outer_mv(a, b, x, m - 1); assert(mv(b, x)[m - 1] == dotp(b[m - 1], x, x.len() as int)); }
}
pub proof fn lemma_mm_mv(a: M, b: M, x: V, c: int)
    requires m_ok(b, b.len() as int, c), x.len() == c, c >= 0
    ensures mv(mm(a, b, c), x) =~= mv(a, mv(b, x))
{
    assert forall|i: int| 0 <= i < a.len() implies mv(mm(a, b, c), x)[i] == mv(a, mv(b, x))[i] by {
        let m = b.len() as int;
        assert(mm(a, b, c)[i] =~= rowcomb(a[i], b, m, c));
        lemma_swap(a[i], b, x, m, c, c);
        lemma_outer_mv(a[i], b, x, m);
        assert(mv(b, x).len() == m);
    }
}

// ---- matrix-vector facts
pub proof fn lemma_mv_eye(n: int, x: V)
    requires x.len() == n, n >= 0
    ensures mv(eye(n), x) =~= x
{
    assert forall|i: int| 0 <= i < n implies mv(eye(n), x)[i] == x[i] by {
        lemma_dotp_unit(eye(n)[i], x, n, i, 1real);
        assert(1real * x[i] == x[i]) by(nonlinear_arith);
    }
}
pub proof fn lemma_mv_diag(d: V, x: V)
    requires x.len() == d.len()
    ensures mv(diag(d), x) =~= vmul(d, x)
{
    assert forall|i: int| 0 <= i < d.len() implies mv(diag(d), x)[i] == vmul(d, x)[i] by {
        lemma_dotp_unit(diag(d)[i], x, d.len() as int, i, d[i]);
    }
}
pub proof fn lemma_mv_zero(r: int, c: int, x: V)
    requires x.len() == c, r >= 0, c >= 0
    ensures mv(mconst(r, c, 0real), x) =~= vconst(r, 0real)
{
    assert forall|i: int| 0 <= i < r implies mv(mconst(r, c, 0real), x)[i] == 0real by {
        lemma_dotp_zero_left(mconst(r, c, 0real)[i], x, c);
    }
}
pub proof fn lemma_mv_add_right(a: M, x: V, y: V)
    requires x.len() == y.len()
    ensures mv(a, vadd(x, y)) =~= vadd(mv(a, x), mv(a, y))
{
    assert forall|i: int| 0 <= i < a.len() implies mv(a, vadd(x, y))[i] == vadd(mv(a, x), mv(a, y))[i] by {
        lemma_dotp_add_right(a[i], x, y, x.len() as int);
    }
}
pub proof fn lemma_mv_sub_right(a: M, x: V, y: V)
    requires x.len() == y.len()
    ensures mv(a, vsub(x, y)) =~= vsub(mv(a, x), mv(a, y))
{
    assert forall|i: int| 0 <= i < a.len() implies mv(a, vsub(x, y))[i] == vsub(mv(a, x), mv(a, y))[i] by {
        lemma_dotp_sub_right(a[i], x, y, x.len() as int);
    }
}
pub proof fn lemma_mv_neg(a: M, x: V, c: int)
    requires m_ok(a, a.len() as int, c), x.len() == c
    ensures mv(mneg(a), x) =~= vneg(mv(a, x))
{
    assert forall|i: int| 0 <= i < a.len() implies mv(mneg(a), x)[i] == vneg(mv(a, x))[i] by { lemma_dotp_neg_left(a[i], x, c); }
}
pub proof fn lemma_mv_scale(a: M, s: real, x: V, c: int)
    requires m_ok(a, a.len() as int, c), x.len() == c
    ensures mv(mscale(a, s), x) =~= vscale(mv(a, x), s)
{
    assert forall|i: int| 0 <= i < a.len() implies mv(mscale(a, s), x)[i] == vscale(mv(a, x), s)[i] by { lemma_dotp_scale_left(a[i], s, x, c); }
}
pub proof fn lemma_mv_madd(a: M, b: M, x: V, c: int)
    requires m_ok(a, a.len() as int, c), m_ok(b, a.len() as int, c), x.len() == c
    ensures mv(madd(a, b), x) =~= vadd(mv(a, x), mv(b, x))
{
    assert forall|i: int| 0 <= i < a.len() implies mv(madd(a, b), x)[i] == vadd(mv(a, x), mv(b, x))[i] by { lemma_dotp_add_left(a[i], b[i], x, c); }
}
pub proof fn lemma_mv_msub(a: M, b: M, x: V, c: int)
    requires m_ok(a, a.len() as int, c), m_ok(b, a.len() as int, c), x.len() == c
    ensures mv(msub(a, b), x) =~= vsub(mv(a, x), mv(b, x))
{
    assert forall|i: int| 0 <= i < a.len() implies mv(msub(a, b), x)[i] == vsub(mv(a, x), mv(b, x))[i] by { lemma_dotp_sub_left(a[i], b[i], x, c); }
}
pub proof fn lemma_mv_stack(a: M, b: M, x: V)
    ensures mv(a + b, x) =~= mv(a, x) + mv(b, x)
{
    assert forall|i: int| 0 <= i < a.len() + b.len() implies mv(a + b, x)[i] == (mv(a, x) + mv(b, x))[i] by {
        if i < a.len() { assert((a + b)[i] == a[i]); } else { assert((a + b)[i] == b[i - a.len()]); }
    }
}
// transpose: (A^T) y
pub proof fn lemma_transpose_row(a: M, c: int, j: int)
    requires 0 <= j < c
    ensures transpose(a, c)[j] == col(a, j)
{}
// ---- end math ----
