// ---- prelude/elim_spec.rs : ghost bookkeeping of AffTree::infeasible_elimination (a DFS whose tree is mutated between the steps) ----
// `vis` = nodes popped so far (it may keep indices that were removed later), `s` = the DFS stack, `ex` = the node just popped (its state is not settled yet).
// what the loop relies on for the node values: shapes, and cached witness lists are never empty
pub open spec fn vals_ok<const K: usize>(a: AArena<K>, in_dim: usize) -> bool {
    forall|i: usize| #![trigger a[i].value] a.dom().contains(i) ==> a[i].value.aff.ok() && a[i].value.aff.mat.ncols() == in_dim
        && (a[i].value.state matches NodeState::FeasibleWitness(w) ==> w@.len() > 0)
}
pub open spec fn preds_ok(ps: Seq<Polytope>, in_dim: usize) -> bool {
    forall|j: int| 0 <= j < ps.len() ==> (#[trigger] ps[j]).ok() && ps[j].mat.ncols() == in_dim
}

pub open spec fn on_stack(s: Seq<DfsNodeData>, i: usize) -> bool { exists|k: int| 0 <= k < s.len() && (#[trigger] s[k]).index == i }
pub open spec fn tracked(s: Seq<DfsNodeData>, vis: Set<usize>, i: usize) -> bool { vis.contains(i) || on_stack(s, i) }

// stack entries exist, are unvisited, hang below a visited node; depths are bounded by the number of visits
pub open spec fn el_entries<const K: usize>(a: AArena<K>, root: usize, s: Seq<DfsNodeData>, vis: Set<usize>) -> bool {
    forall|k: int| 0 <= k < s.len() ==> a.dom().contains((#[trigger] s[k]).index) && !vis.contains(s[k].index) && s[k].depth <= vis.len()
            && (s[k].index == root || (a[s[k].index].parent is Some && vis.contains(a[s[k].index].parent.unwrap())))
}
// ... are pairwise distinct, and of two siblings on the stack the upper one still counts a remaining sibling
pub open spec fn el_pairs<const K: usize>(a: AArena<K>, s: Seq<DfsNodeData>) -> bool {
    forall|k1: int, k2: int| 0 <= k1 < k2 < s.len() ==> (#[trigger] s[k1]).index != (#[trigger] s[k2]).index
            && (a[s[k1].index].parent == a[s[k2].index].parent ==> s[k2].n_remaining > 0)
}
// visited nodes are closed under parent
pub open spec fn el_closed<const K: usize>(a: AArena<K>, root: usize, vis: Set<usize>) -> bool {
    forall|x: usize| #![trigger vis.contains(x)] vis.contains(x) && a.dom().contains(x) && x != root ==> a[x].parent is Some && vis.contains(a[x].parent.unwrap())
}
// nothing that is visited or waiting hangs below a node cached infeasible (except the root, which is never tested, and the node in progress)
pub open spec fn el_clean<const K: usize>(a: AArena<K>, root: usize, s: Seq<DfsNodeData>, vis: Set<usize>, ex: usize) -> bool {
    forall|x: usize| #![trigger a[x].parent] tracked(s, vis, x) && a.dom().contains(x) && a[x].parent is Some
            ==> a[x].parent.unwrap() == root || a[x].parent.unwrap() == ex || !(a[a[x].parent.unwrap()].value.state is Infeasible)
}
#[verifier::opaque]
pub open spec fn el_inv<const K: usize>(a: AArena<K>, root: usize, s: Seq<DfsNodeData>, vis: Set<usize>, ex: usize, d0: Set<usize>) -> bool {
    &&& wf_at(a, Some(root))
    &&& a.dom().subset_of(d0) && vis.subset_of(d0)
    &&& el_entries(a, root, s, vis)
    &&& el_pairs(a, s)
    &&& el_closed(a, root, vis)
    &&& el_clean(a, root, s, vis, ex)
}
// no visited or waiting node hangs directly below n
pub open spec fn no_kid_tracked<const K: usize>(a: AArena<K>, s: Seq<DfsNodeData>, vis: Set<usize>, n: usize) -> bool {
    forall|x: usize| #![trigger a[x].parent] tracked(s, vis, x) && a.dom().contains(x) ==> a[x].parent != Some(n)
}
pub open spec fn no_sibling_waiting<const K: usize>(a: AArena<K>, s: Seq<DfsNodeData>, p: Option<usize>) -> bool {
    forall|k: int| 0 <= k < s.len() ==> a[(#[trigger] s[k]).index].parent != p
}
// only the value of node n differs
pub open spec fn value_written<const K: usize>(a0: AArena<K>, a1: AArena<K>, n: usize) -> bool {
    &&& a0.dom().contains(n) && a1.dom() == a0.dom()
    &&& a1[n].parent == a0[n].parent && a1[n].children == a0[n].children && a1[n].isleaf == a0[n].isleaf
    &&& forall|i: usize| a0.dom().contains(i) && i != n ==> #[trigger] a1[i] == a0[i]
}
// summary of one forward_if_redundant step on decision p: values are kept, a parent pointer changes only for the child that takes p's place,
// and what disappears is p itself or lies at / below a child of p that is cached infeasible
pub open spec fn pruned_step<const K: usize>(a1: AArena<K>, a2: AArena<K>, p: usize, root: usize) -> bool {
    &&& a2.dom().subset_of(a1.dom())
    &&& forall|i: usize| #![trigger a2[i]] a2.dom().contains(i) ==> a2[i].value == a1[i].value && a2[i].isleaf == a1[i].isleaf
            && (a2[i].parent == a1[i].parent || (p != root && a1[i].parent == Some(p) && a1[p].parent is Some && a2[i].parent == a1[p].parent))
    &&& forall|i: usize| #![trigger a2.dom().contains(i)] a1.dom().contains(i) && !a2.dom().contains(i) ==> (i == p && p != root)
            || exists|c: usize| #![trigger a1[c].parent] a1.dom().contains(c) && a1[c].parent == Some(p) && a1[c].value.state is Infeasible && (i == c || desc(a1, c, i))
}

pub proof fn lemma_el_init<const K: usize>(a: AArena<K>, root: usize)
    requires wf_at(a, Some(root))
    ensures el_inv(a, root, seq![DfsNodeData { depth: 0, index: root, n_remaining: 0 }], Set::<usize>::empty(), root, a.dom())
{
    reveal(el_inv);
    let s = seq![DfsNodeData { depth: 0, index: root, n_remaining: 0 }];
    assert forall|x: usize| #![trigger a[x].parent] tracked(s, Set::<usize>::empty(), x) && a.dom().contains(x) && a[x].parent is Some implies
        a[x].parent.unwrap() == root || !(a[a[x].parent.unwrap()].value.state is Infeasible) by {
        let k = choose|k: int| 0 <= k < s.len() && (#[trigger] s[k]).index == x;
        assert(x == root);
    }
}
// what the traversal code needs from the invariant
pub proof fn lemma_el_stack_ok<const K: usize>(a: AArena<K>, root: usize, s: Seq<DfsNodeData>, vis: Set<usize>, ex: usize, d0: Set<usize>)
    requires el_inv(a, root, s, vis, ex, d0), d0.len() <= i32::MAX
    ensures stack_ok(a, s), wf_at(a, Some(root)), a.dom().subset_of(d0), a.dom().len() <= i32::MAX
{
    reveal(el_inv);
    vstd::set_lib::lemma_len_subset(vis, d0);
    vstd::set_lib::lemma_len_subset(a.dom(), d0);
}
// the children pushed for the popped node n: exist, hang below n, are unvisited, not yet on the stack, and carry the sibling count of their slot
pub open spec fn pushed_ok<const K: usize>(a: AArena<K>, rest: Seq<DfsNodeData>, kids: Seq<DfsNodeData>, n: usize, v1: Set<usize>, dp: usize) -> bool {
    forall|j: int| 0 <= j < kids.len() ==> a.dom().contains((#[trigger] kids[j]).index) && a[kids[j].index].parent == Some(n)
        && !v1.contains(kids[j].index) && kids[j].depth == dp && !on_stack(rest, kids[j].index)
        && exists|l: int| 0 <= l < K && #[trigger] a[n].children[l] == Some(kids[j].index) && kids[j].n_remaining == count_some_from(a[n].children, l + 1)
}
pub proof fn lemma_el_next_kids<const K: usize>(a: AArena<K>, root: usize, s0: Seq<DfsNodeData>, it: DfsNodeData, vis: Set<usize>)
    requires wf_at(a, Some(root)), el_entries(a, root, s0, vis), el_closed(a, root, vis), s0.len() > 0, it == s0.last(), it.depth < usize::MAX
    ensures pushed_ok(a, s0.drop_last(), kid_items(a[it.index].children, 0, (it.depth + 1) as usize).reverse(), it.index, vis.insert(it.index), (it.depth + 1) as usize),
        forall|j1: int, j2: int| 0 <= j1 < j2 < kid_items(a[it.index].children, 0, (it.depth + 1) as usize).len() ==>
            (#[trigger] kid_items(a[it.index].children, 0, (it.depth + 1) as usize).reverse()[j1]).n_remaining < (#[trigger] kid_items(a[it.index].children, 0, (it.depth + 1) as usize).reverse()[j2]).n_remaining,
{
    let n = it.index;
    let v1 = vis.insert(n);
    let rest = s0.drop_last();
    let dp = (it.depth + 1) as usize;
    let ki = kid_items(a[n].children, 0, dp);
    let kids = ki.reverse();
    assert(s0[s0.len() - 1] == it);
    lemma_kid_items_props(a[n].children, 0, dp);
    let d = choose|d: Map<usize, nat>| ranked(a, d);
    assert forall|j: int| 0 <= j < kids.len() implies a.dom().contains((#[trigger] kids[j]).index) && a[kids[j].index].parent == Some(n)
        && !v1.contains(kids[j].index) && kids[j].depth == dp && !on_stack(rest, kids[j].index)
        && exists|l: int| 0 <= l < K && #[trigger] a[n].children[l] == Some(kids[j].index) && kids[j].n_remaining == count_some_from(a[n].children, l + 1) by {
        let c = kids[j].index;
        assert(kids[j] == ki[ki.len() - 1 - j]);
        let l = choose|l: int| 0 <= l < K && #[trigger] a[n].children[l] == Some(c) && kids[j].n_remaining == count_some_from(a[n].children, l + 1);
        assert(a.dom().contains(c) && a[c].parent == Some(n));
        assert(d[n] < d[c]);
        if vis.contains(c) { assert(vis.contains(a[c].parent.unwrap())); }
        if on_stack(rest, c) { let k = choose|k: int| 0 <= k < rest.len() && (#[trigger] rest[k]).index == c; assert(s0[k] == rest[k]); assert(vis.contains(n)); }
    }
    assert forall|j1: int, j2: int| 0 <= j1 < j2 < ki.len() implies (#[trigger] kids[j1]).n_remaining < (#[trigger] kids[j2]).n_remaining by {
        assert(kids[j1] == ki[ki.len() - 1 - j1] && kids[j2] == ki[ki.len() - 1 - j2]);
    }
}
pub proof fn lemma_el_next_entries<const K: usize>(a: AArena<K>, root: usize, s0: Seq<DfsNodeData>, kids: Seq<DfsNodeData>, it: DfsNodeData, vis: Set<usize>)
    requires el_entries(a, root, s0, vis), el_pairs(a, s0), s0.len() > 0, it == s0.last(), it.depth < usize::MAX,
        pushed_ok(a, s0.drop_last(), kids, it.index, vis.insert(it.index), (it.depth + 1) as usize), vis.insert(it.index).len() == vis.len() + 1,
    ensures el_entries(a, root, s0.drop_last() + kids, vis.insert(it.index))
{
    let rest = s0.drop_last();
    let s1 = rest + kids;
    let v1 = vis.insert(it.index);
    assert(s0[s0.len() - 1] == it);
    assert forall|k: int| 0 <= k < s1.len() implies a.dom().contains((#[trigger] s1[k]).index) && !v1.contains(s1[k].index) && s1[k].depth <= v1.len()
            && (s1[k].index == root || (a[s1[k].index].parent is Some && v1.contains(a[s1[k].index].parent.unwrap()))) by {
        if k < rest.len() { assert(s1[k] == s0[k]); assert(s0[k].index != s0[s0.len() - 1].index); } else { assert(s1[k] == kids[k - rest.len()]); assert(it.depth <= vis.len()); }
    }
}
pub proof fn lemma_el_next_pairs<const K: usize>(a: AArena<K>, root: usize, s0: Seq<DfsNodeData>, kids: Seq<DfsNodeData>, it: DfsNodeData, vis: Set<usize>)
    requires wf_at(a, Some(root)), el_entries(a, root, s0, vis), el_pairs(a, s0), s0.len() > 0, it == s0.last(), it.depth < usize::MAX,
        pushed_ok(a, s0.drop_last(), kids, it.index, vis.insert(it.index), (it.depth + 1) as usize),
        forall|j1: int, j2: int| 0 <= j1 < j2 < kids.len() ==> (#[trigger] kids[j1]).n_remaining < (#[trigger] kids[j2]).n_remaining,
    ensures el_pairs(a, s0.drop_last() + kids)
{
    let n = it.index;
    let rest = s0.drop_last();
    let s1 = rest + kids;
    assert(s0[s0.len() - 1] == it);
    assert forall|k1: int, k2: int| 0 <= k1 < k2 < s1.len() implies (#[trigger] s1[k1]).index != (#[trigger] s1[k2]).index
            && (a[s1[k1].index].parent == a[s1[k2].index].parent ==> s1[k2].n_remaining > 0) by {
        if k2 < rest.len() { assert(s1[k1] == s0[k1] && s1[k2] == s0[k2]); }
        else if k1 < rest.len() {
            assert(s1[k1] == s0[k1]); assert(s1[k2] == kids[k2 - rest.len()]);
            assert(rest[k1] == s0[k1]);
            assert(on_stack(rest, s1[k1].index));
            assert(!on_stack(rest, kids[k2 - rest.len()].index));
            // parent of the old entry is visited, n was not
            assert(!vis.contains(n));
            assert(a[s1[k1].index].parent != Some(n));
            assert(a[kids[k2 - rest.len()].index].parent == Some(n));
        } else {
            let j1 = k1 - rest.len(); let j2 = k2 - rest.len();
            assert(s1[k1] == kids[j1] && s1[k2] == kids[j2]);
            assert(kids[j2].n_remaining > kids[j1].n_remaining);
            if kids[j1].index == kids[j2].index {
                let c = kids[j1].index;
                let l1 = choose|l: int| 0 <= l < K && #[trigger] a[n].children[l] == Some(c) && kids[j1].n_remaining == count_some_from(a[n].children, l + 1);
                let l2 = choose|l: int| 0 <= l < K && #[trigger] a[n].children[l] == Some(c) && kids[j2].n_remaining == count_some_from(a[n].children, l + 1);
                assert(l1 == l2);    // kids_unique
            }
        }
    }
}
pub proof fn lemma_el_next_clean<const K: usize>(a: AArena<K>, root: usize, s0: Seq<DfsNodeData>, kids: Seq<DfsNodeData>, it: DfsNodeData, vis: Set<usize>)
    requires el_entries(a, root, s0, vis), el_closed(a, root, vis), el_clean(a, root, s0, vis, root), s0.len() > 0, it == s0.last(), it.depth < usize::MAX,
        pushed_ok(a, s0.drop_last(), kids, it.index, vis.insert(it.index), (it.depth + 1) as usize),
    ensures el_closed(a, root, vis.insert(it.index)), el_clean(a, root, s0.drop_last() + kids, vis.insert(it.index), it.index)
{
    let n = it.index;
    let rest = s0.drop_last();
    let s1 = rest + kids;
    let v1 = vis.insert(n);
    assert(s0[s0.len() - 1] == it);
    assert forall|x: usize| #![trigger v1.contains(x)] v1.contains(x) && a.dom().contains(x) && x != root implies a[x].parent is Some && v1.contains(a[x].parent.unwrap()) by {
        if x == n { } else { assert(vis.contains(x)); }
    }
    assert forall|x: usize| #![trigger a[x].parent] tracked(s1, v1, x) && a.dom().contains(x) && a[x].parent is Some implies
        a[x].parent.unwrap() == root || a[x].parent.unwrap() == n || !(a[a[x].parent.unwrap()].value.state is Infeasible) by {
        if vis.contains(x) { assert(tracked(s0, vis, x)); }
        else if x == n { assert(on_stack(s0, n)); assert(tracked(s0, vis, x)); }
        else {
            let k = choose|k: int| 0 <= k < s1.len() && (#[trigger] s1[k]).index == x;
            if k < rest.len() { assert(s1[k] == s0[k]); assert(on_stack(s0, x)); assert(tracked(s0, vis, x)); }
            else { assert(s1[k] == kids[k - rest.len()]); }
        }
    }
}
pub proof fn lemma_el_next_last<const K: usize>(a: AArena<K>, root: usize, s0: Seq<DfsNodeData>, kids: Seq<DfsNodeData>, it: DfsNodeData, vis: Set<usize>)
    requires wf_at(a, Some(root)), el_entries(a, root, s0, vis), el_pairs(a, s0), s0.len() > 0, it == s0.last(), it.depth < usize::MAX, it.n_remaining == 0, it.index != root,
        pushed_ok(a, s0.drop_last(), kids, it.index, vis.insert(it.index), (it.depth + 1) as usize),
    ensures no_sibling_waiting(a, s0.drop_last() + kids, a[it.index].parent)
{
    let n = it.index;
    let rest = s0.drop_last();
    let s1 = rest + kids;
    assert(s0[s0.len() - 1] == it);
    let d = choose|d: Map<usize, nat>| ranked(a, d);
    assert forall|k: int| 0 <= k < s1.len() implies a[(#[trigger] s1[k]).index].parent != a[n].parent by {
        if k < rest.len() { assert(s1[k] == s0[k]); }
        else { assert(s1[k] == kids[k - rest.len()]); assert(a[n].parent is Some); assert(d[a[n].parent.unwrap()] < d[n]); }
    }
}
// one step of the traversal: the top entry is popped and becomes the node in progress, its children are pushed
pub proof fn lemma_el_next<const K: usize>(a: AArena<K>, root: usize, s0: Seq<DfsNodeData>, s1: Seq<DfsNodeData>, lp: usize, it: DfsNodeData, vis: Set<usize>, d0: Set<usize>)
    requires el_inv(a, root, s0, vis, root, d0), dfs_step(a, s0, s1, lp, Some(it)), d0.len() <= i32::MAX
    ensures el_inv(a, root, s1, vis.insert(it.index), it.index, d0),
        a.dom().contains(it.index), !vis.contains(it.index),
        it.index != root ==> a[it.index].parent is Some && vis.contains(a[it.index].parent.unwrap()) && a.dom().contains(a[it.index].parent.unwrap()),
        it.n_remaining == 0 && it.index != root ==> no_sibling_waiting(a, s1, a[it.index].parent),
        vis.insert(it.index).len() == vis.len() + 1, vis.insert(it.index).len() <= d0.len(),
{
    reveal(el_inv);
    vstd::set_lib::lemma_len_subset(vis.insert(it.index), d0);
    vstd::set_lib::lemma_len_subset(vis, d0);
    let n = it.index;
    let kids = kid_items(a[n].children, 0, (it.depth + 1) as usize).reverse();
    assert(s0[s0.len() - 1] == it);
    assert(s1 == s0.drop_last() + kids);
    assert(vis.insert(n).len() == vis.len() + 1);
    lemma_el_next_kids(a, root, s0, it, vis);
    lemma_el_next_entries(a, root, s0, kids, it, vis);
    lemma_el_next_pairs(a, root, s0, kids, it, vis);
    lemma_el_next_clean(a, root, s0, kids, it, vis);
    if it.n_remaining == 0 && n != root { lemma_el_next_last(a, root, s0, kids, it, vis); }
}
// the pushed items: each is a child, their n_remaining counts the later siblings (so in the reversed order the lower one has fewer)
pub proof fn lemma_kid_items_props<const K: usize>(ch: [Option<usize>; K], lo: int, depth: usize)
    requires 0 <= lo <= K
    ensures
        forall|k: int| 0 <= k < kid_items(ch, lo, depth).len() ==> (#[trigger] kid_items(ch, lo, depth)[k]).depth == depth
            && exists|l: int| lo <= l < K && #[trigger] ch[l] == Some(kid_items(ch, lo, depth)[k].index) && kid_items(ch, lo, depth)[k].n_remaining == count_some_from(ch, l + 1),
        forall|k1: int, k2: int| 0 <= k1 < k2 < kid_items(ch, lo, depth).len() ==> (#[trigger] kid_items(ch, lo, depth)[k1]).n_remaining > (#[trigger] kid_items(ch, lo, depth)[k2]).n_remaining,
        forall|k: int| 0 <= k < kid_items(ch, lo, depth).len() ==> (#[trigger] kid_items(ch, lo, depth)[k]).n_remaining < kid_items(ch, lo, depth).len() - k,
    decreases K - lo
{
    if lo < K {
        lemma_kid_items_props(ch, lo + 1, depth);
        lemma_kid_items_len(ch, lo + 1, depth);
        let rest = kid_items(ch, lo + 1, depth);
        let all = kid_items(ch, lo, depth);
        if ch[lo].is_some() {
            assert(all == seq![DfsNodeData { depth, index: ch[lo].unwrap(), n_remaining: count_some_from(ch, lo + 1) as usize }] + rest);
            assert forall|k: int| 0 <= k < all.len() implies (#[trigger] all[k]).depth == depth
                && exists|l: int| lo <= l < K && #[trigger] ch[l] == Some(all[k].index) && all[k].n_remaining == count_some_from(ch, l + 1) by {
                if k == 0 { assert(ch[lo] == Some(all[0].index)); }
                else { assert(all[k] == rest[k - 1]); let l = choose|l: int| lo + 1 <= l < K && #[trigger] ch[l] == Some(rest[k - 1].index) && rest[k - 1].n_remaining == count_some_from(ch, l + 1); assert(ch[l] == Some(all[k].index)); }
            }
            assert forall|k: int| 0 <= k < all.len() implies (#[trigger] all[k]).n_remaining < all.len() - k by {
                if k > 0 { assert(all[k] == rest[k - 1]); }
            }
            assert forall|k1: int, k2: int| 0 <= k1 < k2 < all.len() implies (#[trigger] all[k1]).n_remaining > (#[trigger] all[k2]).n_remaining by {
                assert(all[k2] == rest[k2 - 1]);
                if k1 > 0 { assert(all[k1] == rest[k1 - 1]); }
            }
        }
    }
}
// the children of the node in progress are dropped again (skip_subtree right after next)
pub proof fn lemma_el_skip<const K: usize>(a: AArena<K>, root: usize, s0: Seq<DfsNodeData>, s1: Seq<DfsNodeData>, lp: usize, it: DfsNodeData, s2: Seq<DfsNodeData>, lp2: usize,
    vis: Set<usize>, d0: Set<usize>)
    requires el_inv(a, root, s0, vis, root, d0), dfs_step(a, s0, s1, lp, Some(it)), skip_step(s1, lp, s2, lp2), d0.len() <= i32::MAX
    ensures el_inv(a, root, s2, vis.insert(it.index), it.index, d0), no_kid_tracked(a, s2, vis.insert(it.index), it.index), s2 == s0.drop_last(),
        forall|p: Option<usize>| no_sibling_waiting(a, s1, p) ==> no_sibling_waiting(a, s2, p),
{
    reveal(el_inv);
    let n = it.index;
    let v1 = vis.insert(n);
    let rest = s0.drop_last();
    let dp = (it.depth + 1) as usize;
    let ki = kid_items(a[n].children, 0, dp);
    lemma_kid_items_len(a[n].children, 0, dp);
    assert(s1 == rest + ki.reverse());
    assert(lp == ki.len());
    assert(s2 =~= rest);
    assert(s0[s0.len() - 1] == it);
    vstd::set_lib::lemma_len_subset(vis, d0);
    assert(v1.len() == vis.len() + 1);
    assert forall|k: int| 0 <= k < s2.len() implies s2[k] == s0[k] && s2[k] == s1[k] by {}
    assert forall|x: usize| #![trigger a[x].parent] tracked(s2, v1, x) && a.dom().contains(x) implies a[x].parent != Some(n) by {
        if a[x].parent == Some(n) {
            if vis.contains(x) { assert(vis.contains(n)); }
            else if x == n { let d = choose|d: Map<usize, nat>| ranked(a, d); assert(d[n] < d[n]); }
            else { let k = choose|k: int| 0 <= k < s2.len() && (#[trigger] s2[k]).index == x; assert(s2[k] == s0[k]); assert(vis.contains(n)); }
        }
    }
    assert forall|x: usize| #![trigger a[x].parent] tracked(s2, v1, x) && a.dom().contains(x) && a[x].parent is Some implies
        a[x].parent.unwrap() == root || a[x].parent.unwrap() == n || !(a[a[x].parent.unwrap()].value.state is Infeasible) by {
        if vis.contains(x) { assert(tracked(s0, vis, x)); }
        else if x == n { assert(on_stack(s0, n)); assert(tracked(s0, vis, x)); }
        else { let k = choose|k: int| 0 <= k < s2.len() && (#[trigger] s2[k]).index == x; assert(s2[k] == s0[k]); assert(on_stack(s0, x)); assert(tracked(s0, vis, x)); }
    }
    assert forall|x: usize| #![trigger v1.contains(x)] v1.contains(x) && a.dom().contains(x) && x != root implies a[x].parent is Some && v1.contains(a[x].parent.unwrap()) by {
        if x == n { } else { assert(vis.contains(x)); }
    }
    assert forall|p: Option<usize>| no_sibling_waiting(a, s1, p) implies no_sibling_waiting(a, s2, p) by {
        assert forall|k: int| 0 <= k < s2.len() implies a[(#[trigger] s2[k]).index].parent != p by { assert(s2[k] == s1[k]); }
    }
}
// the node in progress is settled: either its state is not "infeasible", or nothing tracked hangs below it
pub proof fn lemma_el_settle<const K: usize>(a: AArena<K>, root: usize, s: Seq<DfsNodeData>, vis: Set<usize>, ex: usize, d0: Set<usize>)
    requires el_inv(a, root, s, vis, ex, d0), ex == root || !(a[ex].value.state is Infeasible) || no_kid_tracked(a, s, vis, ex)
    ensures el_inv(a, root, s, vis, root, d0)
{
    reveal(el_inv);
}
// writing the value (state) of the node in progress
pub open spec fn same_parents<const K: usize>(a0: AArena<K>, a1: AArena<K>) -> bool {
    a1.dom() == a0.dom() && forall|i: usize| a0.dom().contains(i) ==> #[trigger] a1[i].parent == a0[i].parent
}
pub proof fn lemma_el_write_clauses<const K: usize>(a0: AArena<K>, a1: AArena<K>, root: usize, s: Seq<DfsNodeData>, vis: Set<usize>, ex: usize)
    requires same_parents(a0, a1), parents_ok(a0), el_entries(a0, root, s, vis), el_pairs(a0, s), el_closed(a0, root, vis), el_clean(a0, root, s, vis, ex),
        forall|i: usize| a0.dom().contains(i) && i != ex ==> #[trigger] a1[i].value == a0[i].value,
    ensures el_entries(a1, root, s, vis), el_pairs(a1, s), el_closed(a1, root, vis), el_clean(a1, root, s, vis, ex)
{
    assert forall|k: int| 0 <= k < s.len() implies a1.dom().contains((#[trigger] s[k]).index) && !vis.contains(s[k].index) && s[k].depth <= vis.len()
            && (s[k].index == root || (a1[s[k].index].parent is Some && vis.contains(a1[s[k].index].parent.unwrap()))) by {
        assert(a1[s[k].index].parent == a0[s[k].index].parent);
    }
    assert forall|k1: int, k2: int| 0 <= k1 < k2 < s.len() implies (#[trigger] s[k1]).index != (#[trigger] s[k2]).index
            && (a1[s[k1].index].parent == a1[s[k2].index].parent ==> s[k2].n_remaining > 0) by {
        assert(a1[s[k1].index].parent == a0[s[k1].index].parent && a1[s[k2].index].parent == a0[s[k2].index].parent);
    }
    assert forall|x: usize| #![trigger vis.contains(x)] vis.contains(x) && a1.dom().contains(x) && x != root implies a1[x].parent is Some && vis.contains(a1[x].parent.unwrap()) by {
        assert(a1[x].parent == a0[x].parent);
    }
    assert forall|x: usize| #![trigger a1[x].parent] tracked(s, vis, x) && a1.dom().contains(x) && a1[x].parent is Some implies
        a1[x].parent.unwrap() == root || a1[x].parent.unwrap() == ex || !(a1[a1[x].parent.unwrap()].value.state is Infeasible) by {
        let y = a0[x].parent.unwrap();
        assert(a1[x].parent == a0[x].parent);
        assert(a0.dom().contains(y));
        if y != ex { assert(a1[y].value == a0[y].value); }
    }
}
pub proof fn lemma_el_write<const K: usize>(a0: AArena<K>, a1: AArena<K>, root: usize, s: Seq<DfsNodeData>, vis: Set<usize>, ex: usize, d0: Set<usize>)
    requires el_inv(a0, root, s, vis, ex, d0), value_written(a0, a1, ex)
    ensures el_inv(a1, root, s, vis, ex, d0),
        forall|n: usize| no_kid_tracked(a0, s, vis, n) ==> no_kid_tracked(a1, s, vis, n),
        forall|p: Option<usize>| no_sibling_waiting(a0, s, p) ==> no_sibling_waiting(a1, s, p),
{
    reveal(el_inv);
    assert(same_shape(a0, a1));
    lemma_same_shape_wf(a0, a1, Some(root));
    assert(same_parents(a0, a1)) by {
        assert forall|i: usize| a0.dom().contains(i) implies #[trigger] a1[i].parent == a0[i].parent by { if i != ex { assert(a1[i] == a0[i]); } }
    }
    lemma_el_write_clauses(a0, a1, root, s, vis, ex);
    lemma_el_write_aux(a0, a1, s, vis);
}
pub proof fn lemma_el_write_aux<const K: usize>(a0: AArena<K>, a1: AArena<K>, s: Seq<DfsNodeData>, vis: Set<usize>)
    requires same_parents(a0, a1), forall|k: int| 0 <= k < s.len() ==> a0.dom().contains((#[trigger] s[k]).index)
    ensures
        forall|n: usize| no_kid_tracked(a0, s, vis, n) ==> no_kid_tracked(a1, s, vis, n),
        forall|p: Option<usize>| no_sibling_waiting(a0, s, p) ==> no_sibling_waiting(a1, s, p),
{
    assert forall|n: usize| no_kid_tracked(a0, s, vis, n) implies no_kid_tracked(a1, s, vis, n) by {
        assert forall|x: usize| #![trigger a1[x].parent] tracked(s, vis, x) && a1.dom().contains(x) implies a1[x].parent != Some(n) by { assert(a1[x].parent == a0[x].parent); }
    }
    assert forall|p: Option<usize>| no_sibling_waiting(a0, s, p) implies no_sibling_waiting(a1, s, p) by {
        assert forall|k: int| 0 <= k < s.len() implies a1[(#[trigger] s[k]).index].parent != p by { assert(a1[s[k].index].parent == a0[s[k].index].parent); }
    }
}
// a tracked node below c has a tracked ancestor-or-self hanging directly below c
pub proof fn lemma_el_chain<const K: usize>(a: AArena<K>, root: usize, s: Seq<DfsNodeData>, vis: Set<usize>, ex: usize, d0: Set<usize>, c: usize, e: usize, f: nat)
    requires el_inv(a, root, s, vis, ex, d0), is_desc(a, c, e, f), tracked(s, vis, e)
    ensures exists|x: usize| #![trigger a[x].parent] tracked(s, vis, x) && a.dom().contains(x) && a[x].parent == Some(c)
    decreases f
{
    reveal(el_inv);
    if a[e].parent.unwrap() != c {
        let p1 = a[e].parent.unwrap();
        // e is not the root (it has a parent), so its parent is visited
        assert(vis.contains(p1)) by {
            if vis.contains(e) { } else { let k = choose|k: int| 0 <= k < s.len() && (#[trigger] s[k]).index == e; }
        }
        lemma_el_chain(a, root, s, vis, ex, d0, c, p1, (f - 1) as nat);
    }
}
// a forward_if_redundant step on the parent p of the node just settled, when no sibling is waiting on the stack
pub proof fn lemma_el_forward<const K: usize>(a1: AArena<K>, a2: AArena<K>, root: usize, s: Seq<DfsNodeData>, vis: Set<usize>, d0: Set<usize>, p: usize)
    requires el_inv(a1, root, s, vis, root, d0), pruned_step(a1, a2, p, root), wf_at(a2, Some(root)), vis.contains(p), a1.dom().contains(p),
        no_sibling_waiting(a1, s, Some(p)),
    ensures el_inv(a2, root, s, vis, root, d0)
{
    reveal(el_inv);
    // stack entries survive unchanged
    assert forall|k: int| 0 <= k < s.len() implies a2.dom().contains((#[trigger] s[k]).index) && a2[s[k].index].parent == a1[s[k].index].parent by {
        let e = s[k].index;
        assert(on_stack(s, e));
        if !a2.dom().contains(e) {
            let c = choose|c: usize| #![trigger a1[c].parent] a1.dom().contains(c) && a1[c].parent == Some(p) && a1[c].value.state is Infeasible && (e == c || desc(a1, c, e));
            if e != c {
                let f = choose|f: nat| is_desc(a1, c, e, f);
                lemma_el_chain(a1, root, s, vis, root, d0, c, e, f);
                let x = choose|x: usize| #![trigger a1[x].parent] tracked(s, vis, x) && a1.dom().contains(x) && a1[x].parent == Some(c);
                assert(a1[x].parent.unwrap() == c);
                assert(c != root);
            }
        }
    }
    assert forall|x: usize| #![trigger vis.contains(x)] vis.contains(x) && a2.dom().contains(x) && x != root implies a2[x].parent is Some && vis.contains(a2[x].parent.unwrap()) by {
        assert(a1.dom().contains(x));
        if a2[x].parent != a1[x].parent { assert(vis.contains(a1[p].parent.unwrap())); }
    }
    assert forall|x: usize| #![trigger a2[x].parent] tracked(s, vis, x) && a2.dom().contains(x) && a2[x].parent is Some implies
        a2[x].parent.unwrap() == root || !(a2[a2[x].parent.unwrap()].value.state is Infeasible) by {
        let y = a2[x].parent.unwrap();
        assert(a1.dom().contains(x));
        assert(a2.dom().contains(y));     // parents_ok(a2)
        assert(a2[y].value == a1[y].value);
        if a2[x].parent != a1[x].parent {
            // x took p's place: y is p's old parent
            assert(tracked(s, vis, p));
            assert(a1[p].parent.unwrap() == y);
        }
    }
}
// what the removal of the infeasible children of p means for the bookkeeping
pub proof fn lemma_removed_summary<const K: usize>(a0: AArena<K>, am: AArena<K>, root: usize, p: usize)
    requires wf_at(a0, Some(root)), removed_set(a0, am, p, infeasible_slots(a0, p)),
        exists|f: int| 0 <= f < K && !kid_in_state(a0, p, f, false) && (#[trigger] a0[p].children[f]) is Some,
    ensures am.dom().subset_of(a0.dom()), am.dom().contains(p),
        forall|i: usize| #![trigger am[i]] am.dom().contains(i) ==> am[i].value == a0[i].value && am[i].parent == a0[i].parent && am[i].isleaf == a0[i].isleaf,
        forall|l: int| 0 <= l < K && !kid_in_state(a0, p, l, false) ==> #[trigger] am[p].children[l] == a0[p].children[l],
        forall|i: usize| #![trigger am.dom().contains(i)] a0.dom().contains(i) && !am.dom().contains(i) ==>
            exists|c: usize| #![trigger a0[c].parent] a0.dom().contains(c) && a0[c].parent == Some(p) && a0[c].value.state is Infeasible && (i == c || desc(a0, c, i)),
{
    reveal(removed_set);
    let ls = infeasible_slots(a0, p);
    assert forall|i: usize| #![trigger am.dom().contains(i)] a0.dom().contains(i) && !am.dom().contains(i) implies
        exists|c: usize| #![trigger a0[c].parent] a0.dom().contains(c) && a0[c].parent == Some(p) && a0[c].value.state is Infeasible && (i == c || desc(a0, c, i)) by {
        assert(below_removed(a0, p, ls, i));
        let l = choose|l: int| 0 <= l < K && ls.contains(l) && (#[trigger] a0[p].children[l]) is Some && (i == a0[p].children[l].unwrap() || desc(a0, a0[p].children[l].unwrap(), i));
        let c = a0[p].children[l].unwrap();
        assert(kid_in_state(a0, p, l, false));
        assert(a0.dom().contains(c) && a0[c].parent == Some(p));
    }
    assert forall|l: int| 0 <= l < K && !kid_in_state(a0, p, l, false) implies #[trigger] am[p].children[l] == a0[p].children[l] by { assert(!ls.contains(l)); }
    let f = choose|f: int| 0 <= f < K && !kid_in_state(a0, p, f, false) && (#[trigger] a0[p].children[f]) is Some;
    assert(am[p].children[f] == a0[p].children[f]);
    assert(!no_kids(am[p]) && !no_kids(a0[p]));
    assert(a0[p].isleaf == no_kids(a0[p]));
    assert forall|i: usize| #![trigger am[i]] am.dom().contains(i) implies am[i].value == a0[i].value && am[i].parent == a0[i].parent && am[i].isleaf == a0[i].isleaf by { if i != p { assert(am[i] == a0[i]); } }
}
// forward_if_redundant's contract gives the summary the bookkeeping needs
pub proof fn lemma_fwd_pruned<const K: usize>(a0: AArena<K>, a2: AArena<K>, root: usize, p: usize)
    requires wf_at(a0, Some(root)), a0.dom().contains(p), forward_post(a0, a2, p, Some(root))
    ensures pruned_step(a0, a2, p, root)
{
    if count_state(a0, p, 0, true) == 1 && count_state(a0, p, 0, false) == K - 1 {
        let ls = infeasible_slots(a0, p);
        let am = choose|am: AArena<K>| #[trigger] removed_set(a0, am, p, ls) && wf_at(am, Some(root))
            && (forall|f: int| #[trigger] kid_in_state(a0, p, f, true) ==> merge_post(am, a2, p, f as usize, Some(root) == Some(p)));
        lemma_count_exists(a0, p, 0, true);
        let f = choose|f: int| 0 <= f < K && kid_in_state(a0, p, f, true);
        assert(merge_post(am, a2, p, f as usize, Some(root) == Some(p)));
        lemma_fwd_pruned_act(a0, am, a2, root, p, f);
    }
}
pub proof fn lemma_fwd_pruned_act<const K: usize>(a0: AArena<K>, am: AArena<K>, a2: AArena<K>, root: usize, p: usize, f: int)
    requires wf_at(a0, Some(root)), a0.dom().contains(p), removed_set(a0, am, p, infeasible_slots(a0, p)), merge_post(am, a2, p, f as usize, root == p), kid_in_state(a0, p, f, true)
    ensures pruned_step(a0, a2, p, root)
{
    assert(!kid_in_state(a0, p, f, false) && a0[p].children[f] is Some);
    lemma_removed_summary(a0, am, root, p);
    let cf = a0[p].children[f].unwrap();
    assert(am[p].children[f] == a0[p].children[f]);
    assert(a0.dom().contains(cf) && a0[cf].parent == Some(p));      // kids_ok
    if root == p {
        assert(a2 == am);
        lemma_root_summary(a0, am, root, p);
    } else {
        let gl = choose|gl: int| #[trigger] merged(am, a2, p, f as usize, gl);
        lemma_merged_summary(a0, am, a2, root, p, f, gl);
    }
}
pub proof fn lemma_root_summary<const K: usize>(a0: AArena<K>, am: AArena<K>, root: usize, p: usize)
    requires am.dom().subset_of(a0.dom()),
        forall|i: usize| #![trigger am[i]] am.dom().contains(i) ==> am[i].value == a0[i].value && am[i].parent == a0[i].parent && am[i].isleaf == a0[i].isleaf,
        forall|i: usize| #![trigger am.dom().contains(i)] a0.dom().contains(i) && !am.dom().contains(i) ==>
            exists|c: usize| #![trigger a0[c].parent] a0.dom().contains(c) && a0[c].parent == Some(p) && a0[c].value.state is Infeasible && (i == c || desc(a0, c, i)),
    ensures pruned_step(a0, am, p, root)
{
}
pub proof fn lemma_merged_summary<const K: usize>(a0: AArena<K>, am: AArena<K>, a2: AArena<K>, root: usize, p: usize, f: int, gl: int)
    requires wf_at(a0, Some(root)), 0 <= f < K, merged(am, a2, p, f as usize, gl), am.dom().subset_of(a0.dom()), p != root,
        a0[p].children[f] is Some, am[p].children[f] == a0[p].children[f], a0[a0[p].children[f].unwrap()].parent == Some(p),
        forall|i: usize| #![trigger am[i]] am.dom().contains(i) ==> am[i].value == a0[i].value && am[i].parent == a0[i].parent && am[i].isleaf == a0[i].isleaf,
        forall|i: usize| #![trigger am.dom().contains(i)] a0.dom().contains(i) && !am.dom().contains(i) ==>
            exists|c: usize| #![trigger a0[c].parent] a0.dom().contains(c) && a0[c].parent == Some(p) && a0[c].value.state is Infeasible && (i == c || desc(a0, c, i)),
    ensures pruned_step(a0, a2, p, root)
{
    let g = am[p].parent.unwrap();
    let cf = am[p].children[f].unwrap();
    assert forall|i: usize| #![trigger a2[i]] a2.dom().contains(i) implies a2[i].value == a0[i].value && a2[i].isleaf == a0[i].isleaf
        && (a2[i].parent == a0[i].parent || (p != root && a0[i].parent == Some(p) && a0[p].parent is Some && a2[i].parent == a0[p].parent)) by {
        assert(am.dom().contains(i));
        if i != g && i != cf { assert(a2[i] == am[i]); }
    }
    assert forall|i: usize| #![trigger a2.dom().contains(i)] a0.dom().contains(i) && !a2.dom().contains(i) implies (i == p && p != root)
        || exists|c: usize| #![trigger a0[c].parent] a0.dom().contains(c) && a0[c].parent == Some(p) && a0[c].value.state is Infeasible && (i == c || desc(a0, c, i)) by {
        if am.dom().contains(i) { assert(i == p); }
    }
}
// survivors keep their function, nothing is added, witnesses stay non-empty
pub open spec fn kept_ok<const K: usize>(a0: AArena<K>, a: AArena<K>, in_dim: usize) -> bool {
    &&& a.dom().subset_of(a0.dom())
    // ... and its kind: a decision never turns into a terminal (or vice versa)
    &&& forall|i: usize| #![trigger a[i].value] a.dom().contains(i) ==> a[i].value.aff == a0[i].value.aff && a[i].isleaf == a0[i].isleaf
    &&& vals_ok(a, in_dim)
}
pub proof fn lemma_kept_pruned<const K: usize>(a0: AArena<K>, a1: AArena<K>, a2: AArena<K>, in_dim: usize, p: usize, root: usize)
    requires kept_ok(a0, a1, in_dim), pruned_step(a1, a2, p, root)
    ensures kept_ok(a0, a2, in_dim)
{
    assert forall|i: usize| #![trigger a2[i].value] a2.dom().contains(i) implies a2[i].value.aff == a0[i].value.aff && a2[i].value == a1[i].value && a2[i].isleaf == a0[i].isleaf by {
        assert(a2[i].value == a1[i].value && a2[i].isleaf == a1[i].isleaf);
        assert(a1.dom().contains(i));
    }
}
pub proof fn lemma_kept_write<const K: usize>(a0: AArena<K>, a1: AArena<K>, a2: AArena<K>, in_dim: usize, n: usize)
    requires kept_ok(a0, a1, in_dim), value_written(a1, a2, n), a2[n].value.aff == a1[n].value.aff,
        a2[n].value.state matches NodeState::FeasibleWitness(w) ==> w@.len() > 0
    ensures kept_ok(a0, a2, in_dim)
{
    assert forall|i: usize| #![trigger a2[i].value] a2.dom().contains(i) implies a2[i].value.aff == a0[i].value.aff && a2[i].isleaf == a0[i].isleaf && a2[i].value.aff.ok() && a2[i].value.aff.mat.ncols() == in_dim
        && (a2[i].value.state matches NodeState::FeasibleWitness(w) ==> w@.len() > 0) by {
        if i != n { assert(a2[i] == a1[i]); }
    }
}
pub proof fn lemma_kept_removed<const K: usize>(a0: AArena<K>, a1: AArena<K>, a2: AArena<K>, in_dim: usize, parent: usize, label: usize, e: bool)
    requires kept_ok(a0, a1, in_dim), remove_child_post(a1, a2, parent, label, e), leaf_ok(a1),
        // the decision keeps another branch
        a1.dom().contains(parent) ==> count_some_from(a1[parent].children, 0) >= 2,
    ensures kept_ok(a0, a2, in_dim), a2.dom().subset_of(a1.dom())
{
    if !e {
        lemma_two_kids(a1[parent], 0, label as int);
        let l2 = choose|l2: int| 0 <= l2 < K && l2 != label && (#[trigger] a1[parent].children[l2]).is_some();
        assert(a2[parent].children[l2] == a1[parent].children[l2]) by { assert(a2[parent].children@[l2] == a1[parent].children@[l2]); }
        assert(!no_kids(a2[parent]) && !no_kids(a1[parent]));
        assert forall|i: usize| #![trigger a2[i].value] a2.dom().contains(i) implies a1.dom().contains(i) && a2[i].value == a1[i].value && a2[i].isleaf == a1[i].isleaf by {
            if i != parent { assert(a2[i] == a1[i]); }
        }
    }
}
pub proof fn lemma_two_kids<N, const K: usize>(nd: TreeNode<N, K>, lo: int, label: int)
    requires 0 <= lo <= K, count_some_from(nd.children, lo) >= 2
    ensures exists|l2: int| lo <= l2 < K && l2 != label && (#[trigger] nd.children[l2]).is_some()
    decreases K - lo
{
    if lo < K {
        if nd.children[lo].is_some() && lo != label { }
        else if nd.children[lo].is_some() {
            lemma_count_zero_no_kids(nd, lo + 1);
            let l2 = choose|l2: int| lo + 1 <= l2 < K && !(#[trigger] nd.children[l2]).is_none();
            assert(nd.children[l2].is_some());
        } else { lemma_two_kids(nd, lo + 1, label); }
    }
}
// ---- end elim_spec ----
