// ---- prelude/sem_elim_spec.rs : what infeasible_elimination does to the denoted function ----
// An input is "blamed" when its evaluation in the ORIGINAL tree a0 passes a node of the set b (nodes cached infeasible at entry or given an
// Infeasible LP verdict during the run).  Every other input keeps its value - and its undefinedness - through every step of the run.
pub open spec fn blamed_path<const K: usize>(a0: AArena<K>, h0: Map<usize, nat>, root: usize, b: Set<usize>, x: V) -> bool {
    exists|c: usize| b.contains(c) && #[trigger] reaches(a0, h0, root, x, c)
}
pub open spec fn sem_marks<const K: usize>(a: AArena<K>, b: Set<usize>) -> bool {
    forall|c: usize| #![trigger a[c].value] a.dom().contains(c) && a[c].value.state is Infeasible ==> b.contains(c)
}
pub open spec fn sem_same<const K: usize>(a0: AArena<K>, h0: Map<usize, nat>, a: AArena<K>, root: usize, b: Set<usize>) -> bool {
    &&& forall|h: Map<usize, nat>, x: V| #![trigger tree_fn(a, h, root, x)] ranked_down(a, h) && !blamed_path(a0, h0, root, b, x) ==> tree_fn(a, h, root, x) == tree_fn(a0, h0, root, x)
    &&& forall|h: Map<usize, nat>, x: V, t: usize| #![trigger reaches(a, h, root, x, t)] ranked_down(a, h) && !blamed_path(a0, h0, root, b, x) && a.dom().contains(t) && reaches(a, h, root, x, t)
            ==> reaches(a0, h0, root, x, t)
}
#[verifier::opaque]
pub open spec fn sem_inv<const K: usize>(a0: AArena<K>, h0: Map<usize, nat>, a: AArena<K>, root: usize, b: Set<usize>) -> bool {
    sem_marks(a, b) && sem_same(a0, h0, a, root, b)
}
// binary trees: every decision has exactly one row
pub open spec fn dec_one_row<const K: usize>(a: AArena<K>) -> bool {
    forall|i: usize| #![trigger a[i].value] a.dom().contains(i) && !a[i].isleaf ==> a[i].value.aff.mat.nrows() == 1
}
pub proof fn lemma_decide_binary(aff: &AffFunc, x: V)
    requires aff.mat.nrows() == 1
    ensures decide(aff, x) == 0 || decide(aff, x) == 1
{
    assert((1usize << 0usize) == 1usize) by(bit_vector);
    assert(label_val(aff, x, 0) == 0);
}
// where each blamed node comes from: cached infeasible at entry, or an Infeasible LP answer for the polytope recorded for it
pub open spec fn blame_ok<const K: usize>(a0: AArena<K>, b: Set<usize>, vp: Map<usize, Polytope>) -> bool {
    forall|c: usize| #![trigger b.contains(c)] b.contains(c) ==> a0.dom().contains(c) && (a0[c].value.state is Infeasible || (vp.dom().contains(c) && lp_status(vp[c]) is Infeasible))
}
// the deferred removals: whatever still hangs at a queued slot is a visited node cached infeasible
pub open spec fn tr_ok<const K: usize>(a: AArena<K>, tr: Seq<(usize, usize)>, vis: Set<usize>) -> bool {
    forall|j: int| #![trigger tr[j]] 0 <= j < tr.len() ==> tr[j].0 < K && (a.dom().contains(tr[j].1) && a[tr[j].1].children[tr[j].0 as int] is Some
        ==> a[a[tr[j].1].children[tr[j].0 as int].unwrap()].value.state is Infeasible && vis.contains(a[tr[j].1].children[tr[j].0 as int].unwrap()))
}

pub proof fn lemma_sem_init<const K: usize>(a0: AArena<K>, h0: Map<usize, nat>, root: usize)
    requires wf_at(a0, Some(root)), ranked_down(a0, h0)
    ensures sem_inv(a0, h0, a0, root, a0.dom().filter(|c: usize| a0[c].value.state is Infeasible)),
        blame_ok(a0, a0.dom().filter(|c: usize| a0[c].value.state is Infeasible), Map::<usize, Polytope>::empty()),
{
    reveal(sem_inv);
    let b = a0.dom().filter(|c: usize| a0[c].value.state is Infeasible);
    assert forall|h: Map<usize, nat>, x: V| #![trigger tree_fn(a0, h, root, x)] ranked_down(a0, h) implies tree_fn(a0, h, root, x) == tree_fn(a0, h0, root, x) by {
        lemma_tree_fn_rank_indep(a0, h0, h, root, x);
    }
    assert forall|h: Map<usize, nat>, x: V, t: usize| #![trigger reaches(a0, h, root, x, t)] ranked_down(a0, h) && reaches(a0, h, root, x, t) implies reaches(a0, h0, root, x, t) by {
        lemma_reaches_rank_indep(a0, h0, h, root, x, t);
    }
}
// ---- writing the state of node n ----
pub proof fn lemma_write_fn<const K: usize>(a1: AArena<K>, a2: AArena<K>, h: Map<usize, nat>, n: usize, idx: usize, x: V)
    requires value_written(a1, a2, n), a2[n].value.aff == a1[n].value.aff, kids_ok(a1), ranked_down(a1, h), a1.dom().contains(idx)
    ensures tree_fn(a2, h, idx, x) == tree_fn(a1, h, idx, x), forall|t: usize| reaches(a2, h, idx, x, t) == reaches(a1, h, idx, x, t)
    decreases h[idx]
{
    let nd1 = a1[idx];
    let nd2 = a2[idx];
    assert(nd2.isleaf == nd1.isleaf && nd2.children == nd1.children && nd2.value.aff == nd1.value.aff) by { if idx != n { assert(nd2 == nd1); } }
    if !nd1.isleaf {
        let l = decide(&nd1.value.aff, x);
        if 0 <= l < K && nd1.children[l].is_some() {
            let c = nd1.children[l].unwrap();
            assert(h[c] < h[idx]);
            lemma_write_fn(a1, a2, h, n, c, x);
        }
    }
    assert forall|t: usize| reaches(a2, h, idx, x, t) == reaches(a1, h, idx, x, t) by {
        if idx != t && !nd1.isleaf {
            let l = decide(&nd1.value.aff, x);
            if 0 <= l < K && nd1.children[l].is_some() { let c = nd1.children[l].unwrap(); assert(reaches(a2, h, c, x, t) == reaches(a1, h, c, x, t)); }
        }
    }
}
pub proof fn lemma_sem_write<const K: usize>(a0: AArena<K>, h0: Map<usize, nat>, a1: AArena<K>, a2: AArena<K>, root: usize, b: Set<usize>, n: usize)
    requires sem_inv(a0, h0, a1, root, b), value_written(a1, a2, n), a2[n].value.aff == a1[n].value.aff, wf_at(a1, Some(root))
    ensures sem_inv(a0, h0, a2, root, if a2[n].value.state is Infeasible { b.insert(n) } else { b })
{
    reveal(sem_inv);
    let b2 = if a2[n].value.state is Infeasible { b.insert(n) } else { b };
    assert forall|c: usize| #![trigger a2[c].value] a2.dom().contains(c) && a2[c].value.state is Infeasible implies b2.contains(c) by {
        if c != n { assert(a2[c] == a1[c]); assert(a1[c].value.state is Infeasible); }
    }
    assert forall|x: V| blamed_path(a0, h0, root, b, x) implies blamed_path(a0, h0, root, b2, x) by {
        let c = choose|c: usize| b.contains(c) && #[trigger] reaches(a0, h0, root, x, c);
        assert(b2.contains(c));
    }
    assert forall|h: Map<usize, nat>| ranked_down(a2, h) implies ranked_down(a1, h) by {
        assert forall|i: usize, l: int| #![trigger a1[i].children[l]] a1.dom().contains(i) && 0 <= l < K && a1[i].children[l].is_some() implies h[a1[i].children[l].unwrap()] < h[i] by {
            assert(a2[i].children == a1[i].children) by { if i != n { assert(a2[i] == a1[i]); } }
            assert(a2[i].children[l].is_some());
        }
    }
    assert forall|h: Map<usize, nat>, x: V| #![trigger tree_fn(a2, h, root, x)] ranked_down(a2, h) && !blamed_path(a0, h0, root, b2, x) implies tree_fn(a2, h, root, x) == tree_fn(a0, h0, root, x) by {
        lemma_write_fn(a1, a2, h, n, root, x);
        assert(tree_fn(a1, h, root, x) == tree_fn(a0, h0, root, x));
    }
    assert forall|h: Map<usize, nat>, x: V, t: usize| #![trigger reaches(a2, h, root, x, t)] ranked_down(a2, h) && !blamed_path(a0, h0, root, b2, x) && a2.dom().contains(t) && reaches(a2, h, root, x, t)
        implies reaches(a0, h0, root, x, t) by {
        lemma_write_fn(a1, a2, h, n, root, x);
        assert(reaches(a1, h, root, x, t));
    }
}
// ---- a step that may only affect inputs passing a child c of p that is cached infeasible ----
// an input that reaches p in a1 and leaves it through the slot of a child cached infeasible is blamed
pub proof fn lemma_blame_child<const K: usize>(a0: AArena<K>, h0: Map<usize, nat>, a1: AArena<K>, h1: Map<usize, nat>, root: usize, b: Set<usize>, p: usize, x: V)
    requires sem_inv(a0, h0, a1, root, b), wf_at(a1, Some(root)), ranked_down(a1, h1), a1.dom().contains(p), reaches(a1, h1, root, x, p), !a1[p].isleaf,
        0 <= decide(&a1[p].value.aff, x) < K, a1[p].children[decide(&a1[p].value.aff, x)] is Some,
        a1[a1[p].children[decide(&a1[p].value.aff, x)].unwrap()].value.state is Infeasible,
    ensures blamed_path(a0, h0, root, b, x)
{
    reveal(sem_inv);
    let l = decide(&a1[p].value.aff, x);
    let c = a1[p].children[l].unwrap();
    assert(a1.dom().contains(c));
    assert(h1[c] < h1[p]);
    assert(reaches(a1, h1, c, x, c));
    assert(reaches(a1, h1, p, x, c));
    lemma_reaches_step(a1, h1, root, x, p, c);
    assert(b.contains(c));
    if !blamed_path(a0, h0, root, b, x) { assert(reaches(a0, h0, root, x, c)); }
}
pub proof fn lemma_sem_forward<const K: usize>(a0: AArena<K>, h0: Map<usize, nat>, a1: AArena<K>, a2: AArena<K>, root: usize, b: Set<usize>, p: usize)
    requires sem_inv(a0, h0, a1, root, b), wf_at(a1, Some(root)), wf_at(a2, Some(root)), a1.dom().contains(p), forward_post(a1, a2, p, Some(root)), K == 2, dec_one_row(a1)
    ensures sem_inv(a0, h0, a2, root, b)
{
    if count_state(a1, p, 0, true) == 1 && count_state(a1, p, 0, false) == K - 1 {
        let h1 = choose|h: Map<usize, nat>| ranked_down(a1, h);
        lemma_counts_partition(a1, p, 0);
        lemma_count_exists(a1, p, 0, true);
        let f = choose|f: int| 0 <= f < K && kid_in_state(a1, p, f, true);
        assert(!no_kids(a1[p]));
        assert(!a1[p].isleaf);
        assert forall|x: V| !blamed_path(a0, h0, root, b, x) implies fwd_unaffected(a1, h1, root, p, x) by {
            if reaches(a1, h1, root, x, p) && !kid_in_state(a1, p, decide(&a1[p].value.aff, x), true) {
                lemma_decide_binary(&a1[p].value.aff, x);
                let l = decide(&a1[p].value.aff, x);
                assert(kid_in_state(a1, p, l, true) || kid_in_state(a1, p, l, false));
                lemma_blame_child(a0, h0, a1, h1, root, b, p, x);
            }
        }
        lemma_fwd_pruned(a1, a2, root, p);
        lemma_sem_forward_use(a0, h0, a1, h1, a2, root, b, p);
    } else {
        assert(a2 == a1);
    }
}
pub proof fn lemma_sem_forward_use<const K: usize>(a0: AArena<K>, h0: Map<usize, nat>, a1: AArena<K>, h1: Map<usize, nat>, a2: AArena<K>, root: usize, b: Set<usize>, p: usize)
    requires sem_inv(a0, h0, a1, root, b), wf_at(a1, Some(root)), wf_at(a2, Some(root)), a1.dom().contains(p), forward_post(a1, a2, p, Some(root)), ranked_down(a1, h1),
        forall|x: V| !blamed_path(a0, h0, root, b, x) ==> #[trigger] fwd_unaffected(a1, h1, root, p, x),
        // what disappears / is kept (pruned_step): values are kept, the domain shrinks
        pruned_step(a1, a2, p, root),
    ensures sem_inv(a0, h0, a2, root, b)
{
    reveal(sem_inv);
    assert forall|c: usize| #![trigger a2[c].value] a2.dom().contains(c) && a2[c].value.state is Infeasible implies b.contains(c) by {
        assert(a2[c].value == a1[c].value); assert(a1.dom().contains(c));
    }
    assert forall|h: Map<usize, nat>, x: V| #![trigger tree_fn(a2, h, root, x)] ranked_down(a2, h) && !blamed_path(a0, h0, root, b, x) implies tree_fn(a2, h, root, x) == tree_fn(a0, h0, root, x) by {
        assert(fwd_unaffected(a1, h1, root, p, x));
        lemma_fwd_sem(a1, a2, h1, h, root, p, x);
        assert(tree_fn(a1, h1, root, x) == tree_fn(a0, h0, root, x));
    }
    assert forall|h: Map<usize, nat>, x: V, t: usize| #![trigger reaches(a2, h, root, x, t)] ranked_down(a2, h) && !blamed_path(a0, h0, root, b, x) && a2.dom().contains(t) && reaches(a2, h, root, x, t)
        implies reaches(a0, h0, root, x, t) by {
        assert(fwd_unaffected(a1, h1, root, p, x));
        lemma_fwd_sem(a1, a2, h1, h, root, p, x);
        assert(reaches(a1, h1, root, x, t));
        assert(a1.dom().contains(t));
        assert(reaches(a0, h0, root, x, t));
    }
}
// ---- a deferred removal: the child at (node, label) - cached infeasible - goes, node keeps another branch ----
pub proof fn lemma_sem_remove<const K: usize>(a0: AArena<K>, h0: Map<usize, nat>, a1: AArena<K>, a2: AArena<K>, root: usize, b: Set<usize>, node: usize, label: usize)
    requires sem_inv(a0, h0, a1, root, b), wf_at(a1, Some(root)), wf_at(a2, Some(root)), child_removed(a1, a2, node, label), K == 2, dec_one_row(a1),
        a1[a1[node].children[label as int].unwrap()].value.state is Infeasible, count_some_from(a1[node].children, 0) >= 2,
    ensures sem_inv(a0, h0, a2, root, b)
{
    let ls = ISet::<int>::empty().insert(label as int);
    lemma_removed_init(a1, node);
    lemma_removed_step(a1, a1, a2, Some(root), node, ISet::<int>::empty(), label);
    assert(removed_set(a1, a2, node, ls));
    lemma_two_kids(a1[node], 0, label as int);
    let f = choose|f: int| 0 <= f < K && f != label && (#[trigger] a1[node].children[f]).is_some();
    assert(!ls.contains(f));
    assert(!no_kids(a1[node]));
    assert(!a1[node].isleaf);
    let h1 = choose|h: Map<usize, nat>| ranked_down(a1, h);
    lemma_rm_ranked(a1, a2, h1, node, ls);
    assert forall|x: V| !blamed_path(a0, h0, root, b, x) implies !(reaches(a1, h1, root, x, node) && #[trigger] ls.contains(decide(&a1[node].value.aff, x))) by {
        if reaches(a1, h1, root, x, node) && ls.contains(decide(&a1[node].value.aff, x)) {
            assert(decide(&a1[node].value.aff, x) == label);
            lemma_blame_child(a0, h0, a1, h1, root, b, node, x);
        }
    }
    lemma_sem_remove_use(a0, h0, a1, h1, a2, root, b, node, ls);
}
pub proof fn lemma_sem_remove_use<const K: usize>(a0: AArena<K>, h0: Map<usize, nat>, a1: AArena<K>, h1: Map<usize, nat>, a2: AArena<K>, root: usize, b: Set<usize>, node: usize, ls: ISet<int>)
    requires sem_inv(a0, h0, a1, root, b), wf_at(a1, Some(root)), wf_at(a2, Some(root)), removed_set(a1, a2, node, ls), ranked_down(a1, h1), ranked_down(a2, h1),
        exists|f: int| 0 <= f < K && !ls.contains(f) && (#[trigger] a1[node].children[f]) is Some,
        forall|x: V| !blamed_path(a0, h0, root, b, x) ==> !(reaches(a1, h1, root, x, node) && #[trigger] ls.contains(decide(&a1[node].value.aff, x))),
    ensures sem_inv(a0, h0, a2, root, b)
{
    reveal(sem_inv);
    lemma_removed_vals(a1, a2, node, ls);
    assert forall|c: usize| #![trigger a2[c].value] a2.dom().contains(c) && a2[c].value.state is Infeasible implies b.contains(c) by {
        assert(a2[c].value == a1[c].value); assert(a1.dom().contains(c));
    }
    assert forall|h: Map<usize, nat>, x: V| #![trigger tree_fn(a2, h, root, x)] ranked_down(a2, h) && !blamed_path(a0, h0, root, b, x) implies tree_fn(a2, h, root, x) == tree_fn(a0, h0, root, x) by {
        assert(!(reaches(a1, h1, root, x, node) && ls.contains(decide(&a1[node].value.aff, x))));
        lemma_rm_sem(a1, a2, h1, node, ls, root, x);
        lemma_tree_fn_rank_indep(a2, h1, h, root, x);
        assert(tree_fn(a1, h1, root, x) == tree_fn(a0, h0, root, x));
    }
    assert forall|h: Map<usize, nat>, x: V, t: usize| #![trigger reaches(a2, h, root, x, t)] ranked_down(a2, h) && !blamed_path(a0, h0, root, b, x) && a2.dom().contains(t) && reaches(a2, h, root, x, t)
        implies reaches(a0, h0, root, x, t) by {
        assert(!(reaches(a1, h1, root, x, node) && ls.contains(decide(&a1[node].value.aff, x))));
        lemma_rm_sem(a1, a2, h1, node, ls, root, x);
        lemma_reaches_rank_indep(a2, h1, h, root, x, t);
        assert(reaches(a1, h1, root, x, t));
        assert(a1.dom().contains(t));
        assert(reaches(a0, h0, root, x, t));
    }
}
pub proof fn lemma_removed_vals<const K: usize>(a1: AArena<K>, a2: AArena<K>, p: usize, ls: ISet<int>)
    requires removed_set(a1, a2, p, ls)
    ensures a2.dom().subset_of(a1.dom()), forall|i: usize| #![trigger a2[i]] a2.dom().contains(i) ==> a2[i].value == a1[i].value
{
    reveal(removed_set);
    assert forall|i: usize| #![trigger a2[i]] a2.dom().contains(i) implies a2[i].value == a1[i].value by { if i != p { assert(a2[i] == a1[i]); } }
}
// ---- bookkeeping of the deferred removals ----
pub proof fn lemma_tr_write<const K: usize>(a1: AArena<K>, a2: AArena<K>, tr: Seq<(usize, usize)>, vis0: Set<usize>, n: usize, pushed: bool, label: usize, parent: usize)
    requires tr_ok(a1, tr, vis0), !vis0.contains(n), value_written(a1, a2, n), kids_ok(a1),
        pushed ==> label < K && a2[n].value.state is Infeasible && (a1.dom().contains(parent) && a1[parent].children[label as int] is Some ==> a1[parent].children[label as int] == Some(n)),
    ensures tr_ok(a2, if pushed { tr.push((label, parent)) } else { tr }, vis0.insert(n))
{
    let tr2 = if pushed { tr.push((label, parent)) } else { tr };
    let vis = vis0.insert(n);
    assert forall|i: usize| a1.dom().contains(i) implies a2[i].children == a1[i].children by { if i != n { assert(a2[i] == a1[i]); } }
    assert forall|j: int| #![trigger tr2[j]] 0 <= j < tr2.len() implies tr2[j].0 < K && (a2.dom().contains(tr2[j].1) && a2[tr2[j].1].children[tr2[j].0 as int] is Some
        ==> a2[a2[tr2[j].1].children[tr2[j].0 as int].unwrap()].value.state is Infeasible && vis.contains(a2[tr2[j].1].children[tr2[j].0 as int].unwrap())) by {
        if j < tr.len() {
            assert(tr2[j] == tr[j]);
            let pp = tr[j].1; let l = tr[j].0 as int;
            if a2.dom().contains(pp) && a2[pp].children[l] is Some {
                let q = a1[pp].children[l].unwrap();
                assert(a2[pp].children == a1[pp].children);
                assert(vis0.contains(q));
                assert(q != n);
                assert(a1.dom().contains(q));
                assert(a2[q] == a1[q]);
            }
        } else {
            if a2.dom().contains(parent) && a2[parent].children[label as int] is Some { assert(a2[parent].children == a1[parent].children); }
        }
    }
}
pub proof fn lemma_tr_mono<const K: usize>(a: AArena<K>, tr: Seq<(usize, usize)>, vis0: Set<usize>, vis: Set<usize>)
    requires tr_ok(a, tr, vis0), vis0.subset_of(vis)
    ensures tr_ok(a, tr, vis)
{
}
pub proof fn lemma_tr_forward<const K: usize>(a1: AArena<K>, a2: AArena<K>, tr: Seq<(usize, usize)>, vis: Set<usize>, root: usize, p: usize)
    requires tr_ok(a1, tr, vis), wf_at(a1, Some(root)), wf_at(a2, Some(root)), a1.dom().contains(p), forward_post(a1, a2, p, Some(root)),
        p == root || !(a1[p].value.state is Infeasible),
    ensures tr_ok(a2, tr, vis)
{
    if count_state(a1, p, 0, true) == 1 && count_state(a1, p, 0, false) == K - 1 {
        let ls = infeasible_slots(a1, p);
        let am = choose|am: AArena<K>| #[trigger] removed_set(a1, am, p, ls) && wf_at(am, Some(root))
            && (forall|f: int| #[trigger] kid_in_state(a1, p, f, true) ==> merge_post(am, a2, p, f as usize, Some(root) == Some(p)));
        lemma_count_exists(a1, p, 0, true);
        let f = choose|f: int| 0 <= f < K && kid_in_state(a1, p, f, true);
        assert(merge_post(am, a2, p, f as usize, Some(root) == Some(p)));
        lemma_tr_removed(a1, am, tr, vis, p, ls);
        if root == p { assert(a2 == am); }
        else {
            let gl = choose|gl: int| #[trigger] merged(am, a2, p, f as usize, gl);
            lemma_removed_vals(a1, am, p, ls);
            lemma_tr_merged(am, a2, tr, vis, p, f as usize, gl);
        }
    } else {
        assert(a2 == a1);
    }
}
pub proof fn lemma_tr_removed<const K: usize>(a1: AArena<K>, am: AArena<K>, tr: Seq<(usize, usize)>, vis: Set<usize>, p: usize, ls: ISet<int>)
    requires tr_ok(a1, tr, vis), removed_set(a1, am, p, ls), kids_ok(am)
    ensures tr_ok(am, tr, vis)
{
    reveal(removed_set);
    assert forall|j: int| #![trigger tr[j]] 0 <= j < tr.len() implies tr[j].0 < K && (am.dom().contains(tr[j].1) && am[tr[j].1].children[tr[j].0 as int] is Some
        ==> am[am[tr[j].1].children[tr[j].0 as int].unwrap()].value.state is Infeasible && vis.contains(am[tr[j].1].children[tr[j].0 as int].unwrap())) by {
        let pp = tr[j].1; let l = tr[j].0 as int;
        if am.dom().contains(pp) && am[pp].children[l] is Some {
            let q = am[pp].children[l].unwrap();
            assert(am[pp].children[l] == a1[pp].children[l]) by { if pp != p { assert(am[pp] == a1[pp]); } }
            assert(am.dom().contains(q));
            assert(am[q].value == a1[q].value) by { if q != p { assert(am[q] == a1[q]); } }
        }
    }
}
pub proof fn lemma_tr_merged<const K: usize>(am: AArena<K>, a2: AArena<K>, tr: Seq<(usize, usize)>, vis: Set<usize>, p: usize, f: usize, gl: int)
    requires tr_ok(am, tr, vis), merged(am, a2, p, f, gl), kids_ok(a2), !(am[p].value.state is Infeasible), am.dom().contains(am[p].parent.unwrap())
    ensures tr_ok(a2, tr, vis)
{
    let g = am[p].parent.unwrap();
    let cf = am[p].children[f as int].unwrap();
    assert forall|j: int| #![trigger tr[j]] 0 <= j < tr.len() implies tr[j].0 < K && (a2.dom().contains(tr[j].1) && a2[tr[j].1].children[tr[j].0 as int] is Some
        ==> a2[a2[tr[j].1].children[tr[j].0 as int].unwrap()].value.state is Infeasible && vis.contains(a2[tr[j].1].children[tr[j].0 as int].unwrap())) by {
        let pp = tr[j].1; let l = tr[j].0 as int;
        if a2.dom().contains(pp) && a2[pp].children[l] is Some {
            assert(am.dom().contains(pp) && pp != p);
            if pp == g && l == gl {
                assert(am[g].children[gl] == Some(p));
                assert(am[p].value.state is Infeasible);     // contradiction with tr_ok(am)
            } else {
                assert(a2[pp].children[l] == am[pp].children[l]) by {
                    if pp == g { assert(a2[g].children@[l] == am[g].children@[l]); } else if pp == cf { } else { assert(a2[pp] == am[pp]); }
                }
                let q = a2[pp].children[l].unwrap();
                assert(a2.dom().contains(q));
                assert(a2[q].value == am[q].value) by { if q != g && q != cf { assert(a2[q] == am[q]); } }
            }
        }
    }
}
pub proof fn lemma_tr_remove<const K: usize>(a1: AArena<K>, a2: AArena<K>, tr: Seq<(usize, usize)>, vis: Set<usize>, node: usize, label: usize, e: bool)
    requires tr_ok(a1, tr, vis), remove_child_post(a1, a2, node, label, e), kids_ok(a2)
    ensures tr_ok(a2, tr, vis)
{
    if !e {
        assert forall|j: int| #![trigger tr[j]] 0 <= j < tr.len() implies tr[j].0 < K && (a2.dom().contains(tr[j].1) && a2[tr[j].1].children[tr[j].0 as int] is Some
            ==> a2[a2[tr[j].1].children[tr[j].0 as int].unwrap()].value.state is Infeasible && vis.contains(a2[tr[j].1].children[tr[j].0 as int].unwrap())) by {
            let pp = tr[j].1; let l = tr[j].0 as int;
            if a2.dom().contains(pp) && a2[pp].children[l] is Some {
                let q = a2[pp].children[l].unwrap();
                assert(a2[pp].children[l] == a1[pp].children[l]) by {
                    if pp == node { assert(a2[node].children@[l] == a1[node].children@.update(label as int, None)[l]); } else { assert(a2[pp] == a1[pp]); }
                }
                assert(a2.dom().contains(q));
                assert(a2[q].value == a1[q].value) by { if q != node { assert(a2[q] == a1[q]); } }
            }
        }
    }
}
// the parent of a visited node is the root or not cached infeasible
pub proof fn lemma_el_parent_clean<const K: usize>(a: AArena<K>, root: usize, s: Seq<DfsNodeData>, vis: Set<usize>, d0: Set<usize>, x: usize, p: usize)
    requires el_inv(a, root, s, vis, root, d0), vis.contains(x), a.dom().contains(x), a[x].parent == Some(p)
    ensures p == root || !(a[p].value.state is Infeasible)
{
    reveal(el_inv);
    assert(tracked(s, vis, x));
    assert(a[x].parent.unwrap() == p);
}
pub proof fn lemma_dec_kept<const K: usize>(a0: AArena<K>, a: AArena<K>, in_dim: usize)
    requires dec_one_row(a0), kept_ok(a0, a, in_dim)
    ensures dec_one_row(a)
{
    assert forall|i: usize| #![trigger a[i].value] a.dom().contains(i) && !a[i].isleaf implies a[i].value.aff.mat.nrows() == 1 by {
        assert(a0.dom().contains(i)); assert(a[i].value.aff == a0[i].value.aff && a[i].isleaf == a0[i].isleaf);
    }
}
// the statement for arbitrary height maps of the original tree
pub proof fn lemma_sem_final<const K: usize>(a0: AArena<K>, hs: Map<usize, nat>, a: AArena<K>, root: usize, b: Set<usize>)
    requires sem_inv(a0, hs, a, root, b), ranked_down(a0, hs), kids_ok(a0), a0.dom().contains(root)
    ensures forall|h0: Map<usize, nat>, h1: Map<usize, nat>, x: V| #![trigger tree_fn(a0, h0, root, x), tree_fn(a, h1, root, x)]
        ranked_down(a0, h0) && ranked_down(a, h1) && !blamed_path(a0, h0, root, b, x) ==> tree_fn(a, h1, root, x) == tree_fn(a0, h0, root, x)
{
    reveal(sem_inv);
    assert forall|h0: Map<usize, nat>, h1: Map<usize, nat>, x: V| #![trigger tree_fn(a0, h0, root, x), tree_fn(a, h1, root, x)]
        ranked_down(a0, h0) && ranked_down(a, h1) && !blamed_path(a0, h0, root, b, x) implies tree_fn(a, h1, root, x) == tree_fn(a0, h0, root, x) by {
        if blamed_path(a0, hs, root, b, x) {
            let c = choose|c: usize| b.contains(c) && #[trigger] reaches(a0, hs, root, x, c);
            lemma_reaches_rank_indep(a0, hs, h0, root, x, c);
            assert(reaches(a0, h0, root, x, c));
        }
        lemma_tree_fn_rank_indep(a0, hs, h0, root, x);
    }
}
// ---- end sem_elim_spec ----
