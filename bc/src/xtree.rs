//! Exact reading of a real `AffTree<K>` and the executable form of the tree-level contracts.
use std::collections::{BTreeMap, BTreeSet};

use affinitree::linalg::affine::AffFunc;
use affinitree::pwl::afftree::AffTree;
use affinitree::pwl::node::NodeState;

use crate::fm::Row;
use crate::q::{dot, Q};

#[derive(Clone, Debug, PartialEq)]
pub struct XAff {
    pub mat: Vec<Vec<Q>>,
    pub bias: Vec<Q>,
    pub indim: usize,
}

impl XAff {
    pub fn from_aff(f: &AffFunc) -> Option<XAff> {
        let (r, c) = (f.mat.shape()[0], f.mat.shape()[1]);
        let mut mat = vec![];
        for i in 0..r {
            let mut row = vec![];
            for j in 0..c {
                row.push(Q::from_f64(f.mat[[i, j]])?);
            }
            mat.push(row);
        }
        let mut bias = vec![];
        for i in 0..f.bias.len() {
            bias.push(Q::from_f64(f.bias[i])?);
        }
        Some(XAff { mat, bias, indim: c })
    }
    pub fn outdim(&self) -> usize {
        self.mat.len()
    }
    pub fn apply(&self, x: &[Q]) -> Vec<Q> {
        (0..self.mat.len()).map(|i| dot(&self.mat[i], x) + self.bias[i]).collect()
    }
}

#[derive(Clone, Debug, PartialEq)]
pub enum XState {
    Indeterminate,
    Infeasible,
    Feasible,
    Witness(Vec<Vec<f64>>),
}

#[derive(Clone, Debug, PartialEq)]
pub struct XNode {
    pub aff: XAff,
    pub parent: Option<usize>,
    pub children: Vec<Option<usize>>,
    pub isleaf: bool,
    pub state: XState,
}

#[derive(Clone, Debug, PartialEq)]
pub struct XTree {
    pub k: usize,
    pub in_dim: usize,
    pub root: usize,
    pub nodes: BTreeMap<usize, XNode>,
}

pub fn xtree<const K: usize>(t: &AffTree<K>) -> Result<XTree, String> {
    let mut nodes = BTreeMap::new();
    for (idx, nd) in t.tree.node_iter() {
        let aff = XAff::from_aff(&nd.value.aff).ok_or_else(|| format!("node {idx}: non-finite coefficient"))?;
        let state = match &nd.value.state {
            NodeState::Indeterminate => XState::Indeterminate,
            NodeState::Infeasible => XState::Infeasible,
            NodeState::Feasible => XState::Feasible,
            NodeState::FeasibleWitness(w) => XState::Witness(w.iter().map(|p| p.to_vec()).collect()),
        };
        nodes.insert(idx, XNode { aff, parent: nd.parent, children: nd.children.to_vec(), isleaf: nd.isleaf, state });
    }
    Ok(XTree { k: K, in_dim: t.in_dim(), root: t.tree.get_root_idx(), nodes })
}

impl XTree {
    /// label chosen at decision node for input x: sum_i 2^i [row_i.x - b_i <= 0]
    pub fn decide(nd: &XNode, x: &[Q]) -> usize {
        let mut l = 0;
        for i in 0..nd.aff.mat.len() {
            if dot(&nd.aff.mat[i], x) - nd.aff.bias[i] <= Q::ZERO {
                l += 1 << i;
            }
        }
        l
    }

    /// the function the tree denotes (None = undefined)
    pub fn eval(&self, x: &[Q]) -> Option<Vec<Q>> {
        self.route(x).1.map(|leaf| self.nodes[&leaf].aff.apply(x))
    }

    /// (visited node indices, reached leaf)
    pub fn route(&self, x: &[Q]) -> (Vec<usize>, Option<usize>) {
        let mut cur = self.root;
        let mut seen = vec![];
        loop {
            seen.push(cur);
            let nd = &self.nodes[&cur];
            if nd.isleaf {
                return (seen, Some(cur));
            }
            let l = Self::decide(nd, x);
            if l >= nd.children.len() {
                return (seen, None);
            }
            match nd.children[l] {
                Some(c) => cur = c,
                None => return (seen, None),
            }
            if seen.len() > self.nodes.len() + 1 {
                return (seen, None);
            }
        }
    }

    pub fn leaf_fn_at(&self, x: &[Q]) -> Option<&XAff> {
        self.route(x).1.map(|l| &self.nodes[&l].aff)
    }

    /// structural invariant of the arena (C12) + shape invariant of C04; returns the first broken clause
    pub fn aff_wf(&self) -> Result<(), String> {
        let n = &self.nodes;
        if !n.contains_key(&self.root) {
            return Err("root not in arena".into());
        }
        if n[&self.root].parent.is_some() {
            return Err("root has a parent".into());
        }
        let mut outdim: Option<usize> = None;
        for (i, nd) in n {
            if nd.parent.is_none() && *i != self.root {
                return Err(format!("node {i} has no parent but is not the root"));
            }
            if let Some(p) = nd.parent {
                let pn = n.get(&p).ok_or(format!("parent {p} of {i} missing"))?;
                if pn.children.iter().filter(|c| **c == Some(*i)).count() != 1 {
                    return Err(format!("node {i} is not listed exactly once by its parent {p}"));
                }
            }
            let mut kids = 0;
            for c in nd.children.iter().flatten() {
                kids += 1;
                let cn = n.get(c).ok_or(format!("child {c} of {i} missing"))?;
                if cn.parent != Some(*i) {
                    return Err(format!("child {c} of {i} has parent {:?}", cn.parent));
                }
            }
            if nd.isleaf != (kids == 0) {
                return Err(format!("node {i}: isleaf={} but {} children", nd.isleaf, kids));
            }
            if nd.aff.indim != self.in_dim {
                return Err(format!("node {i}: function has input dimension {} but the tree has {}", nd.aff.indim, self.in_dim));
            }
            if nd.aff.bias.len() != nd.aff.mat.len() {
                return Err(format!("node {i}: bias/matrix mismatch"));
            }
            if nd.isleaf {
                match outdim {
                    None => outdim = Some(nd.aff.outdim()),
                    Some(o) if o != nd.aff.outdim() => {
                        return Err(format!("terminal {i} has output dimension {} but another terminal has {}", nd.aff.outdim(), o))
                    }
                    _ => {}
                }
            } else {
                let rows = nd.aff.outdim();
                if rows == 0 || (1usize << rows) > self.k {
                    return Err(format!("decision {i} has {rows} rows, branching factor {}", self.k));
                }
            }
        }
        // reachability
        let mut seen = BTreeSet::new();
        let mut st = vec![self.root];
        while let Some(i) = st.pop() {
            if !seen.insert(i) {
                return Err(format!("node {i} reached twice"));
            }
            for c in n[&i].children.iter().flatten() {
                st.push(*c);
            }
        }
        if seen.len() != n.len() {
            return Err(format!("{} nodes stored but {} reachable", n.len(), seen.len()));
        }
        Ok(())
    }

    pub fn path_to(&self, idx: usize) -> Vec<(usize, usize)> {
        let mut p = vec![];
        let mut cur = idx;
        while let Some(par) = self.nodes[&cur].parent {
            let l = self.nodes[&par].children.iter().position(|c| *c == Some(cur)).unwrap();
            p.push((par, l));
            cur = par;
        }
        p.reverse();
        p
    }

    /// routing region of a node (binary trees): label 1: row.x <= b, label 0: row.x > b
    pub fn routing_region(&self, idx: usize) -> Vec<Row> {
        let mut rows = vec![];
        for (p, l) in self.path_to(idx) {
            let nd = &self.nodes[&p];
            for i in 0..nd.aff.mat.len() {
                let r = Row::le(nd.aff.mat[i].clone(), nd.aff.bias[i]);
                if (l >> i) & 1 == 1 {
                    rows.push(r);
                } else {
                    rows.push(r.negated());
                }
            }
        }
        rows
    }

    /// closed path polytope as the library reports it (label 0 negates the row, non-strict)
    pub fn closed_region(&self, idx: usize) -> Vec<Row> {
        self.routing_region(idx).into_iter().map(|r| Row { strict: false, ..r }).collect()
    }

    pub fn leaves(&self) -> Vec<usize> {
        self.nodes.iter().filter(|(_, n)| n.isleaf).map(|(i, _)| *i).collect()
    }

    pub fn descr(&self) -> String {
        let mut s = format!("K={} in_dim={} root={}:", self.k, self.in_dim, self.root);
        for (i, n) in &self.nodes {
            s.push_str(&format!(
                " {}{}[{}|{}]->{:?}",
                if n.isleaf { "T" } else { "D" },
                i,
                n.aff.mat.iter().map(|r| crate::q::qs(r)).collect::<Vec<_>>().join(";"),
                crate::q::qs(&n.aff.bias),
                n.children
            ));
        }
        s
    }
}
