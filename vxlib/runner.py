"""Run a Verus unit built by vx and classify the outcome (DESIGN.md §2.4)."""
import json
import os
import re
import subprocess
import time

from .vx import build_unit, Unsupported
from .rustlex import LostAnchor, mask

VERUS = os.environ.get('VERUS', 'verus')

ERR_KINDS = [
    ('postcondition not satisfied', 'postcondition'),
    ('precondition not satisfied', 'precondition'),
    ('invariant not satisfied', 'invariant'),
    ('assertion failed', 'assertion'),
    ('possible arithmetic underflow/overflow', 'overflow'),
    ('possible division by zero', 'division'),
    ('decreases not satisfied', 'termination'),
    ('loop ensures not satisfied', 'invariant'),
    ('possible bit shift underflow/overflow', 'overflow'),
    ('index out of bounds', 'bounds'),
    ('unreachable', 'panic-reachable'),
    ('panic', 'panic-reachable'),
]
UNDECIDED_PAT = ('rlimit', 'Resource limit', 'timeout', 'timed out')


def parse_errors(stderr: str, path: str):
    """Split Verus' human-readable diagnostics into error records."""
    recs = []
    blocks = re.split(r'\n(?=error(?:\[E\d+\])?: )', '\n' + stderr)
    for b in blocks:
        b = b.strip('\n')
        m = re.match(r'error(\[E\d+\])?: (.*)', b)
        if not m:
            continue
        msg = m.group(2).strip()
        if msg.startswith('aborting due to'):
            continue
        locs = [(int(l), int(c)) for (f, l, c) in re.findall(r'--> ([^\s:]+):(\d+):(\d+)', b) if os.path.basename(f) == os.path.basename(path)]
        # the line annotated "failed this postcondition / failed precondition" when present
        rec = {'msg': msg, 'lines': [l for l, _ in locs], 'text': b[:4000], 'rustc': bool(m.group(1))}
        kind = None
        for pat, k in ERR_KINDS:
            if pat in msg:
                kind = k
                break
        if any(p in b for p in UNDECIDED_PAT):
            kind = 'resource'
        rec['kind'] = kind
        recs.append(rec)
    return recs


def _canaries_in_resource_spans(ctext, cerrs):
    """indices of canary assertions that lie inside the body of a loop (or function) for which Verus reported
    'Resource limit (rlimit) exceeded' in the canary run"""
    from .rustlex import mask, match_close
    res = set()
    rl = [e for e in cerrs if e.get('kind') == 'resource' and e['lines']]
    if not rl:
        return res
    m = mask(ctext)
    lines = ctext.split('\n')
    starts = [0]
    for ln in lines:
        starts.append(starts[-1] + len(ln) + 1)
    spans = []
    for e in rl:
        ln = e['lines'][0]
        if not (1 <= ln <= len(lines)):
            continue
        # body brace: first line at or after the header that consists of "{" only (layout produced by render_fn for
        # loops / functions with a spec), else the first "{" on the header line
        k = ln - 1
        pos = None
        if '{' in m[starts[k]:starts[k + 1]] and not lines[k].strip().startswith(('pub fn', 'fn')) and 'invariant' not in lines[k]:
            # loop without a spec block: "while cond {"
            rel = m[starts[k]:starts[k + 1]].rfind('{')
            pos = starts[k] + rel
        else:
            j = k
            while j < len(lines) and lines[j].strip() != '{':
                j += 1
            if j < len(lines):
                pos = starts[j] + lines[j].index('{')
        if pos is None:
            continue
        try:
            spans.append((pos, match_close(m, pos)))
        except Exception:
            continue
    for mt in re.finditer(r'/\*CANARY (\d+)\*/', ctext):
        if any(a <= mt.start() <= b for a, b in spans):
            res.add(int(mt.group(1)))
    return res


def clause_at(lines, ln):
    if 1 <= ln <= len(lines):
        return lines[ln - 1].strip()
    return ''


def run_verus(path, rlimit=None, extra=(), timeout=900):
    cmd = [VERUS, path, '--output-json', '--time-expanded', '--multiple-errors', '200', '--triggers-mode', 'silent']
    if rlimit:
        cmd += ['--rlimit', str(rlimit)]
    cmd += list(extra)
    t0 = time.time()
    # own process group: on a timeout the solver processes started by verus are killed as well
    proc = subprocess.Popen(cmd, stdout=subprocess.PIPE, stderr=subprocess.PIPE, text=True, start_new_session=True)
    try:
        out, err = proc.communicate(timeout=timeout)
        rc = proc.returncode
    except subprocess.TimeoutExpired:
        import signal
        try:
            os.killpg(proc.pid, signal.SIGKILL)
        except Exception:
            pass
        try:
            proc.communicate(timeout=10)
        except Exception:
            pass
        out, err, rc = '', 'timeout', 124
    wall = time.time() - t0
    js = None
    try:
        js = json.loads(out)
    except Exception:
        pass
    return {'cmd': ' '.join(cmd), 'rc': rc, 'json': js, 'stderr': err, 'wall': wall}


def function_breakdown(js):
    res = []
    if not js:
        return res
    try:
        for mod in js['times-ms']['smt']['smt-run-module-times']:
            for f in mod.get('function-breakdown', []):
                res.append({'function': f['function'], 'mode': f.get('mode:', f.get('mode')), 'smt_ms': f['time'],
                            'rlimit': f.get('rlimit'), 'success': f['success']})
    except Exception:
        pass
    return res


SCAN = [r'\bassume\s*\(', r'\badmit\s*\(', r'external_body', r'assume_specification', r'\baxiom\s+fn\b', r'external_fn_specification', r'external_type_specification']


def scan_assumptions(text):
    m = mask(text)
    res = {}
    for pat in SCAN:
        k = len(re.findall(pat, m))
        if k:
            res[pat.replace('\\b', '').replace('\\s*\\(', '(').replace('\\s+', ' ')] = k
    return res


def count_clauses(text, fn_spans):
    """syntactic count of contract clauses inside the spliced functions"""
    lines = mask(text).split('\n')
    n = 0
    for (a, b, _) in fn_spans:
        seg = '\n'.join(lines[a - 1:b])
        n += len(re.findall(r'\b(requires|ensures|invariant|decreases)\b', seg))
        n += len(re.findall(r'\bassert\s*\(', seg))
    return n


def run_unit(unit, repo, verif, tier='quick', canary=True, workdir=None):
    """-> dict(status in {'verified','violation','undecided'}, ...)"""
    res = {'unit': unit, 'status': 'undecided', 'reason': None, 'errors': [], 'obligations': 0, 'discharged': 0}
    tpl = os.path.join(verif, 'units', unit + '.rs')
    bdir = workdir or os.environ.get('VERIF_BUILD_DIR') or os.path.join(verif, 'build')
    os.makedirs(bdir, exist_ok=True)
    try:
        text, info = build_unit(tpl, repo, verif)
    except LostAnchor as e:
        res['reason'] = f'lost anchor: {e}'
        return res
    except Unsupported as e:
        res['reason'] = f'unsupported construct: {e}'
        return res
    path = os.path.join(bdir, unit + '.rs')
    open(path, 'w').write(text)
    res['info'] = info
    res['path'] = path
    res['assumption_scan'] = scan_assumptions(text)
    res['clauses'] = count_clauses(text, info['fn_spans'])
    rl = 40 if tier == 'quick' else 160
    # the vacuity-guard run (same text + assert(false) canaries) is independent of the main run: start both at once
    cfut = None
    if canary:
        import concurrent.futures
        ctext, cinfo = build_unit(tpl, repo, verif, canary=True)
        cpath = os.path.join(bdir, unit + '_canary.rs')
        open(cpath, 'w').write(ctext)
        _ex = concurrent.futures.ThreadPoolExecutor(max_workers=1)
        cfut = _ex.submit(run_verus, cpath, min(rl, 10))
    r = run_verus(path, rlimit=rl)
    res['checker_cmd'] = r['cmd']
    res['wall'] = r['wall']
    js = r['json']
    fb = function_breakdown(js)
    res['functions'] = fb
    if js and 'verification-results' in js:
        vr = js['verification-results']
        res['obligations'] = vr.get('verified', 0) + vr.get('errors', 0)
        res['discharged'] = vr.get('verified', 0)
        res['smt_ms'] = ((js.get('times-ms') or {}).get('smt') or {}).get('total')
    errs = parse_errors(r['stderr'], path)
    lines = text.split('\n')
    # solver instability guard: a function whose query ran out of resources in the whole-file run is re-verified alone (Z3's search depends on the
    # order and naming of everything that precedes the query; the verification condition itself is the same).  Only resource-limit failures are retried;
    # a function that then verifies counts as discharged and is listed under `retried_in_isolation`.
    res['retried_in_isolation'] = []
    if js and any(e['kind'] == 'resource' for e in errs):
        crate = os.path.splitext(os.path.basename(path))[0]
        slow = [f['function'] for f in fb if not f['success']]
        if len(slow) > 3:
            slow = []      # many functions out of budget: not an instability of one query
        still = []
        for fq in slow:
            short = fq[len(crate) + 2:] if fq.startswith(crate + '::') else fq
            ok = False
            for rl2 in (rl,):
                rr = run_verus(path, rlimit=rl2, extra=['--verify-root', '--verify-function', short], timeout=150)
                j2 = rr['json']
                vr2 = (j2 or {}).get('verification-results', {})
                if vr2 and vr2.get('errors') == 0 and vr2.get('verified', 0) > 0 and not vr2.get('encountered-error') and not vr2.get('encountered-vir-error') and not parse_errors(rr['stderr'], path):
                    ok = True
                    res['retried_in_isolation'].append({'function': fq, 'rlimit': rl2, 'wall': round(rr['wall'], 1)})
                    break
            if not ok:
                still.append(fq)
        if slow and not still:
            errs = [e for e in errs if e['kind'] != 'resource']
            res['discharged'] = res.get('discharged', 0) + len(slow)
            for f in fb:
                if f['function'] in slow:
                    f['success'] = True
                    f['note'] = 'verified when re-run in isolation'
            if not errs:
                js['verification-results']['success'] = True

    def fn_of(ln):
        for (a, b, name) in info['fn_spans']:
            if a <= ln <= b:
                return name
        return None

    if js and js['verification-results'].get('success') and not errs:
        res['status'] = 'verified'
    else:
        if not js or js['verification-results'].get('encountered-vir-error') or any(e['rustc'] or e['kind'] is None for e in errs) or r['rc'] == 124:
            bad = [e for e in errs if e['rustc'] or e['kind'] is None]
            res['reason'] = 'tool-level error (unsupported construct / type error / timeout): ' + (bad[0]['msg'] if bad else r['stderr'][-300:])
            res['errors'] = errs
            return res
        if any(e['kind'] == 'resource' for e in errs):
            res['reason'] = 'solver resource limit'
            res['errors'] = errs
            return res
        out = []
        for e in errs:
            # first location is the failing clause (post/pre-condition) or the assertion itself
            ln = e['lines'][0] if e['lines'] else 0
            f = None
            for l in e['lines']:
                f = fn_of(l)
                if f:
                    break
            e['fn'] = f
            e['clause'] = clause_at(lines, ln)
            e['line'] = ln
            # an obligation raised inside a ghost hint block (lemma call, assertion) is a proof step, not part of a contract
            loc_lines = e['lines'][-1:] if e['kind'] == 'precondition' else e['lines'][:1]
            if any(a <= l <= b for l in loc_lines for (a, b) in info.get('hint_spans', [])):
                e['kind'] = 'assertion'
            # a loop invariant that the template marks `//@loop n contract` states the property itself (e.g. the certificate under which a row may be dropped)
            if e['kind'] == 'invariant' and any(a <= l <= b for l in e['lines'] for (a, b) in info.get('contract_inv_spans', [])):
                e['kind'] = 'postcondition'
            out.append(e)
        res['errors'] = out
        res['status'] = 'violation'
        return res
    # vacuity guard: canaries must all fail
    if canary:
        marks = cinfo.get('canaries', [])
        rc = cfut.result()
        cerrs = parse_errors(rc['stderr'], cpath)
        clines = ctext.split('\n')
        failed = set()
        for e in cerrs:
            if e['kind'] == 'assertion' and e['lines']:
                mm = re.search(r'/\*CANARY (\d+)\*/', clause_at(clines, e['lines'][0]))
                if mm:
                    failed.add(int(mm.group(1)))
        # a canary inside a loop / function whose query ran out of resources was not proved either: "false" was not derivable
        # within the budget, which is all the guard needs (a contradictory context proves assert(false) at once)
        unproven = _canaries_in_resource_spans(ctext, cerrs)
        failed |= unproven
        bad = [marks[i] for i in range(len(marks)) if i not in failed]
        res['canaries'] = {'inserted': len(marks), 'failed_as_expected': len(failed), 'wall': rc['wall']}
        if bad or not marks:
            res['status'] = 'undecided'
            res['reason'] = f'vacuity guard: {len(bad)} canary assertion(s) did not fail (contradictory requires/invariant?) {bad[:4]}'
    return res
