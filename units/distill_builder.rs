// unit distill_builder — C01: afftree_from_layers_generic (src/distill/builder.rs) computes the network, GIVEN the contracts of the operations it
// calls: compose::<false,false>, apply_func and all schemas (activations, argmax, class_characterization) are proved in their own units;
// infeasible_elimination and compose::<true,_> are ASSUMED here (they depend on the LP solver and are checked bounded under C03).
use vstd::prelude::*;
use std::marker::PhantomData;
use std::mem;
use std::ops::{Add, Sub, Mul, Div, Neg};
verus! {
global size_of usize == 8;

//@include prelude/inc_pwl_core.rs
//@include prelude/tol_spec.rs
//@include prelude/wit_core_spec.rs
//@include prelude/wit_grow_spec.rs
//@item src/distill/builder.rs | enum Layer | no-debug
//@include prelude/net_fn_spec.rs

// all terminals produce vectors of d components
pub open spec fn out_dim_ok<const K: usize>(a: AArena<K>, d: usize) -> bool {
    forall|i: usize| a.dom().contains(i) && #[trigger] a[i].isleaf ==> a[i].value.aff.mat.nrows() == d
}

// ---------------------------------------------------------------- contracts proved in other units (same directive blocks, bodies dropped)
impl<const K: usize> AffTree<K> {
//@assumed units/pwl_compose.rs | compose
//@assumed units/pwl_tree.rs | apply_func

// ASSUMED: pruned composition satisfies the contract proved for the un-pruned one (claim of C03, checked bounded there)
#[verifier::external_body]
pub fn compose_pruned(&mut self, other: &AffTree<K>)
    requires K >= 2, K < usize::MAX,
        other.tree.wf(), other.tree.root is Some, aff_shape_ok(other.a(), other.in_dim),
        old(self).tree.wf(), aff_shape_ok(old(self).a(), old(self).in_dim),
        forall|i: usize| old(self).a().dom().contains(i) && #[trigger] old(self).a()[i].isleaf ==> old(self).a()[i].value.aff.mat.nrows() == other.in_dim,
    ensures
        final(self).tree.wf(), final(self).tree.root == old(self).tree.root, final(self).in_dim == old(self).in_dim,
        aff_shape_ok(final(self).a(), final(self).in_dim),
        forall|h0: Map<usize, nat>, h1: Map<usize, nat>, hl: Map<usize, nat>, x: V|
            #![trigger tree_fn(final(self).a(), h1, old(self).tree.root.unwrap(), x), and_then_fn(old(self).a(), h0, other.a(), hl, other.tree.root.unwrap(), old(self).tree.root.unwrap(), x)]
            old(self).tree.root is Some && ranked_down(old(self).a(), h0) && ranked_down(final(self).a(), h1) && ranked_down(other.a(), hl) && x.len() == old(self).in_dim ==>
            tree_fn(final(self).a(), h1, old(self).tree.root.unwrap(), x) == and_then_fn(old(self).a(), h0, other.a(), hl, other.tree.root.unwrap(), old(self).tree.root.unwrap(), x),
        forall|i: usize| final(self).a().dom().contains(i) && #[trigger] final(self).a()[i].isleaf ==>
            exists|p: usize| other.a().dom().contains(p) && (#[trigger] other.a()[p]).isleaf && final(self).a()[i].value.aff.mat.nrows() == other.a()[p].value.aff.mat.nrows(),
{ unimplemented!() }

// ASSUMED: infeasible path elimination keeps the tree well-formed and its denotation (claim of C03/C04/C05, checked bounded there)
#[verifier::external_body]
pub fn infeasible_elimination(&mut self)
    requires old(self).tree.wf(), old(self).tree.root is Some, aff_shape_ok(old(self).a(), old(self).in_dim)
    ensures
        final(self).tree.wf(), final(self).tree.root == old(self).tree.root, final(self).in_dim == old(self).in_dim,
        aff_shape_ok(final(self).a(), final(self).in_dim),
        same_denotation(old(self).a(), final(self).a(), old(self).tree.root.unwrap(), old(self).in_dim),
        forall|i: usize| final(self).a().dom().contains(i) && #[trigger] final(self).a()[i].isleaf ==>
            exists|p: usize| old(self).a().dom().contains(p) && (#[trigger] old(self).a()[p]).isleaf && final(self).a()[i].value.aff.mat.nrows() == old(self).a()[p].value.aff.mat.nrows(),
{ unimplemented!() }

//@fn src/pwl/afftree.rs | impl<const K: usize> AffTree<K> | with_capacity
//@bodysub polytope_cache: RefCell::new(Vec::new()), =>
//@spec
    requires K >= 2, K < usize::MAX
    ensures r.tree.wf(), r.tree.root == Some(0usize), r.a().dom() =~= set![0usize], r.in_dim == dim,
        r.a()[0].isleaf, r.a()[0].value.aff.ok(), r.a()[0].value.aff.mat.ncols() == dim, r.a()[0].value.aff.mat.nrows() == dim,
        forall|x: V| x.len() == dim ==> #[trigger] r.a()[0].value.aff.ap(x) =~= x,
//@end
}

// rule I12: `dd.terminals().map(|x| x.aff.outdim()).next().unwrap()` — output dimension of the first terminal in arena order (TRUSTED helper)
#[verifier::external_body]
pub fn first_terminal_outdim(t: &AffTree<2>) -> (r: usize)
    requires exists|i: usize| t.a().dom().contains(i) && #[trigger] t.a()[i].isleaf
    ensures exists|i: usize| t.a().dom().contains(i) && (#[trigger] t.a()[i]).isleaf && r == t.a()[i].value.aff.mat.nrows()
{ unimplemented!() }

// ---------------------------------------------------------------- activation schemas: contracts proved in unit pwl_schemas
//@assumed units/pwl_schemas.rs | partial_ReLU
//@assumed units/pwl_schemas.rs | partial_leaky_ReLU
//@assumed units/pwl_schemas.rs | partial_hard_tanh
//@assumed units/pwl_schemas.rs | partial_hard_sigmoid
//@assumed units/pwl_schemas.rs | class_characterization
//@assumed units/pwl_schemas.rs | argmax


// ---------------------------------------------------------------- specification of distillation
// the tree with arena a denotes "first the start tree a_init (precondition, or identity), then the layers ls"
#[verifier::opaque]
pub open spec fn denotes_net(a_init: AArena<2>, a: AArena<2>, root: usize, dim0: usize, ls: Seq<Layer>) -> bool {
    forall|h0: Map<usize, nat>, h1: Map<usize, nat>, x: V| #![trigger tree_fn(a_init, h0, root, x), tree_fn(a, h1, root, x)]
        ranked_down(a_init, h0) && ranked_down(a, h1) && x.len() == dim0 ==>
        tree_fn(a, h1, root, x) == (match tree_fn(a_init, h0, root, x) { None => None, Some(y) => Some(netw_fn(ls, y)) })
}
// values produced by a tree whose terminals have d rows have d components
pub proof fn lemma_tree_fn_len<const K: usize>(a: AArena<K>, h: Map<usize, nat>, idx: usize, x: V, d: usize)
    requires ranked_down(a, h), kids_ok(a), a.dom().contains(idx), out_dim_ok(a, d), forall|i: usize| a.dom().contains(i) ==> (#[trigger] a[i]).value.aff.ok()
    ensures tree_fn(a, h, idx, x) is Some ==> tree_fn(a, h, idx, x).unwrap().len() == d
    decreases h[idx]
{
    broadcast use axiom_array2_shape;
    let nd = a[idx];
    if nd.isleaf {
        assert(nd.value.aff.ap(x).len() == nd.value.aff.mat.nrows());
    } else {
        let l = decide(&nd.value.aff, x);
        if 0 <= l < K && nd.children[l].is_some() && h[nd.children[l].unwrap()] < h[idx] {
            lemma_tree_fn_len(a, h, nd.children[l].unwrap(), x, d);
        }
    }
}

pub proof fn lemma_denotes_init(a: AArena<2>, root: usize, dim0: usize)
    requires kids_ok(a), a.dom().contains(root)
    ensures denotes_net(a, a, root, dim0, Seq::<Layer>::empty())
{
    reveal(denotes_net);
    assert forall|h0: Map<usize, nat>, h1: Map<usize, nat>, x: V| #![trigger tree_fn(a, h0, root, x), tree_fn(a, h1, root, x)]
        ranked_down(a, h0) && ranked_down(a, h1) && x.len() == dim0 implies
        tree_fn(a, h1, root, x) == (match tree_fn(a, h0, root, x) { None => None, Some(y) => Some(netw_fn(Seq::<Layer>::empty(), y)) }) by {
        lemma_tree_fn_rank_indep(a, h0, h1, root, x);
    }
}

// a layer realised by apply_func
pub proof fn lemma_step_linear(a_init: AArena<2>, a0: AArena<2>, a1: AArena<2>, root: usize, dim0: usize, ls: Seq<Layer>, f: AffFunc)
    requires denotes_net(a_init, a0, root, dim0, ls), wf_at(a0, Some(root)), wf_at(a1, Some(root)), same_shape(a0, a1),
        forall|h: Map<usize, nat>, idx: usize, x: V| #![trigger tree_fn(a1, h, idx, x)]
            ranked_down(a0, h) && a0.dom().contains(idx) && x.len() == dim0 ==>
            tree_fn(a1, h, idx, x) == (match tree_fn(a0, h, idx, x) { Some(y) => Some(f.ap(y)), None => None }),
    ensures denotes_net(a_init, a1, root, dim0, ls.push(Layer::Linear(f)))
{
    reveal(denotes_net);
    let ls1 = ls.push(Layer::Linear(f));
    assert(ls1.drop_last() =~= ls);
    assert(ls1.last() == Layer::Linear(f));
    let hh = choose|h: Map<usize, nat>| ranked_down(a0, h);
    assert(ranked_down(a1, hh));
    assert forall|h0: Map<usize, nat>, h1: Map<usize, nat>, x: V| #![trigger tree_fn(a_init, h0, root, x), tree_fn(a1, h1, root, x)]
        ranked_down(a_init, h0) && ranked_down(a1, h1) && x.len() == dim0 implies
        tree_fn(a1, h1, root, x) == (match tree_fn(a_init, h0, root, x) { None => None, Some(y) => Some(netw_fn(ls1, y)) }) by {
        assert(tree_fn(a1, hh, root, x) == (match tree_fn(a0, hh, root, x) { Some(y) => Some(f.ap(y)), None => None }));
        lemma_tree_fn_rank_indep(a1, hh, h1, root, x);
        assert(tree_fn(a0, hh, root, x) == (match tree_fn(a_init, h0, root, x) { None => None, Some(y) => Some(netw_fn(ls, y)) }));
    }
}

// a layer realised by composing with a schema g whose function is known
pub proof fn lemma_step_compose(a_init: AArena<2>, a0: AArena<2>, a1: AArena<2>, ag: AArena<2>, root: usize, dim0: usize, dim: usize, ls: Seq<Layer>, l: Layer)
    requires denotes_net(a_init, a0, root, dim0, ls), wf_at(a0, Some(root)), wf_at(ag, Some(0usize)),
        // values flowing into the layer have `dim` components
        out_dim_ok(a0, dim), aff_shape_ok(a0, dim0),
        // the schema computes the layer
        forall|h: Map<usize, nat>, y: V| ranked_down(ag, h) && y.len() == dim ==> #[trigger] tree_fn(ag, h, 0, y) == Some(lay_fn(l, y)),
        // composition law
        forall|h0: Map<usize, nat>, h1: Map<usize, nat>, hl: Map<usize, nat>, x: V|
            #![trigger tree_fn(a1, h1, root, x), and_then_fn(a0, h0, ag, hl, 0usize, root, x)]
            ranked_down(a0, h0) && ranked_down(a1, h1) && ranked_down(ag, hl) && x.len() == dim0 ==>
            tree_fn(a1, h1, root, x) == and_then_fn(a0, h0, ag, hl, 0usize, root, x),
    ensures denotes_net(a_init, a1, root, dim0, ls.push(l))
{
    reveal(denotes_net);
    let ls1 = ls.push(l);
    assert(ls1.drop_last() =~= ls);
    assert(ls1.last() == l);
    let hh = choose|h: Map<usize, nat>| ranked_down(a0, h);
    let hg = choose|h: Map<usize, nat>| ranked_down(ag, h);
    assert forall|h0: Map<usize, nat>, h1: Map<usize, nat>, x: V| #![trigger tree_fn(a_init, h0, root, x), tree_fn(a1, h1, root, x)]
        ranked_down(a_init, h0) && ranked_down(a1, h1) && x.len() == dim0 implies
        tree_fn(a1, h1, root, x) == (match tree_fn(a_init, h0, root, x) { None => None, Some(y) => Some(netw_fn(ls1, y)) }) by {
        assert(tree_fn(a1, h1, root, x) == and_then_fn(a0, hh, ag, hg, 0usize, root, x));
        assert(tree_fn(a0, hh, root, x) == (match tree_fn(a_init, h0, root, x) { None => None, Some(y) => Some(netw_fn(ls, y)) }));
        lemma_tree_fn_len(a0, hh, root, x, dim);
        if tree_fn(a0, hh, root, x) is Some {
            let y = tree_fn(a0, hh, root, x).unwrap();
            assert(y.len() == dim);
            assert(tree_fn(ag, hg, 0, y) == Some(lay_fn(l, y)));
        }
    }
}

// output dimension bookkeeping: the terminals of a composition have the rows of the schema's terminals
pub proof fn lemma_out_dim_after<const K: usize>(a1: AArena<K>, ag: AArena<K>, d: usize)
    requires out_dim_ok(ag, d),
        forall|i: usize| a1.dom().contains(i) && #[trigger] a1[i].isleaf ==>
            exists|p: usize| ag.dom().contains(p) && (#[trigger] ag[p]).isleaf && a1[i].value.aff.mat.nrows() == ag[p].value.aff.mat.nrows(),
    ensures out_dim_ok(a1, d)
{
    assert forall|i: usize| a1.dom().contains(i) && #[trigger] a1[i].isleaf implies a1[i].value.aff.mat.nrows() == d by {
        let p = choose|p: usize| ag.dom().contains(p) && (#[trigger] ag[p]).isleaf && a1[i].value.aff.mat.nrows() == ag[p].value.aff.mat.nrows();
    }
}

// a denotation-preserving clean-up after a step
pub proof fn lemma_step_same(a_init: AArena<2>, a0: AArena<2>, a1: AArena<2>, root: usize, dim0: usize, ls: Seq<Layer>)
    requires denotes_net(a_init, a0, root, dim0, ls), same_denotation(a0, a1, root, dim0), wf_at(a0, Some(root))
    ensures denotes_net(a_init, a1, root, dim0, ls)
{
    reveal(denotes_net);
    reveal(same_denotation);
    let hh = choose|h: Map<usize, nat>| ranked_down(a0, h);
    assert forall|h0: Map<usize, nat>, h1: Map<usize, nat>, x: V| #![trigger tree_fn(a_init, h0, root, x), tree_fn(a1, h1, root, x)]
        ranked_down(a_init, h0) && ranked_down(a1, h1) && x.len() == dim0 implies
        tree_fn(a1, h1, root, x) == (match tree_fn(a_init, h0, root, x) { None => None, Some(y) => Some(netw_fn(ls, y)) }) by {
        assert(tree_fn(a1, h1, root, x) == tree_fn(a0, hh, root, x));
        assert(tree_fn(a0, hh, root, x) == (match tree_fn(a_init, h0, root, x) { None => None, Some(y) => Some(netw_fn(ls, y)) }));
    }
}

pub proof fn lemma_netw_ok_prefix(d: usize, ls: Seq<Layer>, k: int)
    requires netw_ok(d, ls), 0 <= k <= ls.len()
    ensures netw_ok(d, ls.take(k))
    decreases ls.len()
{
    if k < ls.len() {
        assert(ls.drop_last().take(k) =~= ls.take(k));
        lemma_netw_ok_prefix(d, ls.drop_last(), k);
    } else {
        assert(ls.take(k) =~= ls);
    }
}

// ---------------------------------------------------------------- the builder
//@fn src/distill/builder.rs | - | afftree_from_layers_generic
//@sigsub <I, Estimator, Visitor> =>
//@sigsub layers: I, => layers: Vec<Layer>,
//@sigsub node_estimator: &mut Estimator, =>
//@sigsub visitor: &mut Visitor, =>
//@sigsub where I: IntoIterator, I::Item: Borrow<Layer>, Estimator: NodeEstimator, Visitor: DistillVisitor, =>
//@bodysub let container = layers.into_iter().collect_vec(); => let container = layers;
//@bodysub let (n_layers, n_nodes) = node_estimator.estimate_nodes(dim, 0, &container); => let n_nodes: usize = 0;
//@bodysub let n_nodes = min(n_nodes, 524288); =>
//@bodysub dim = dd.terminals().map(|x| x.aff.outdim()).next().unwrap(); => dim = first_terminal_outdim(&dd);
//@bodysub? dd.reserve(n_nodes); =>
//@bodysub visitor.start_distill(dim, n_layers, n_nodes); =>
//@bodysub for layer in container.into_iter() { let layer = layer.borrow(); => let mut __l: usize = 0; while __l < container.len() { let layer = &container[__l]; __l += 1;
//@bodysub let old_len = dd.len(); =>
//@bodysub visitor.start_layer(layer); =>
//@bodysub visitor.finish_layer( layer, dd.len() - old_len, dd.len() - dd.tree.num_terminals(), dd.tree.num_terminals(), ); =>
//@bodysub visitor.finish_distill(dd.len() - dd.tree.num_terminals(), dd.tree.num_terminals()); =>
//@bodysub dd.compose::<false, false>(&partial_ReLU(dim, *row)); => let __g_relu = partial_ReLU(dim, *row); dd.compose(&__g_relu);
//@bodysub dd.compose::<false, false>(&partial_leaky_ReLU(dim, *row, *alpha)); => let __g_leaky = partial_leaky_ReLU(dim, *row, *alpha); dd.compose(&__g_leaky);
//@bodysub dd.compose::<false, false>(&partial_hard_tanh(dim, *row, -1., 1.)); => let __g_tanh = partial_hard_tanh(dim, *row, flit(-1, 1), flit(1, 1)); dd.compose(&__g_tanh);
//@bodysub dd.compose::<false, false>(&partial_hard_sigmoid(dim, *row)); => let __g_sig = partial_hard_sigmoid(dim, *row); dd.compose(&__g_sig);
//@bodysub dd.compose::<true, true>(&argmax(dim)); => let __g_argmax = argmax(dim); dd.compose_pruned(&__g_argmax);
//@bodysub dd.compose::<true, false>(&class_characterization(dim, *clazz)); => let __g_class = class_characterization(dim, *clazz); dd.compose_pruned(&__g_class);
//@spec
    requires
        match precondition {
            None => netw_ok(dim, layers@),
            Some(p) => p.tree.wf() && p.tree.root is Some && p.in_dim == dim && aff_shape_ok(p.a(), dim)
                && (exists|i: usize| p.a().dom().contains(i) && #[trigger] p.a()[i].isleaf)
                && (exists|d: usize| out_dim_ok(p.a(), d) && #[trigger] netw_ok(d, layers@)),
        },
    ensures
        r.tree.wf(), r.in_dim == dim, aff_shape_ok(r.a(), dim), r.tree.root is Some,
        // C01: for every input of the stated dimension the tree returns the network output on the value the precondition tree passes on,
        // and is undefined where the precondition tree is (no precondition: the identity, i.e. the tree is total and equals the network)
        match precondition {
            None => forall|h: Map<usize, nat>, x: V| ranked_down(r.a(), h) && x.len() == dim ==>
                #[trigger] tree_fn(r.a(), h, r.tree.root.unwrap(), x) == Some(netw_fn(layers@, x)),
            Some(p) => r.tree.root == p.tree.root && denotes_net(p.a(), r.a(), p.tree.root.unwrap(), dim, layers@),
        },
//@hint start
    let ghost dim0 = dim;
    let ghost pre = precondition;
//@hint loop 1 before
    let ghost d_start = dim;
    let ghost a_init = dd.a();
    let ghost root = dd.tree.root.unwrap();
    proof {
        lemma_denotes_init(a_init, root, dim0);
        assert(container@.take(0) =~= Seq::<Layer>::empty());
        match pre {
            None => {}
            Some(p) => {
                let d = choose|d: usize| out_dim_ok(p.a(), d) && #[trigger] netw_ok(d, layers@);
                assert(d == dim);
            }
        }
    }
//@loop 1
        invariant
            container@ == layers@, 0 <= __l <= container@.len(),
            dd.tree.wf(), dd.tree.root == Some(root), dd.in_dim == dim0, aff_shape_ok(dd.a(), dim0), out_dim_ok(dd.a(), dim),
            netw_ok(d_start, container@), dim == netw_out(d_start, container@.take(__l as int)),
            denotes_net(a_init, dd.a(), root, dim0, container@.take(__l as int)),
            wf_at(a_init, Some(root)),
        decreases container@.len() - __l
//@hint loop 1 start
        let ghost a0 = dd.a();
        let ghost ls = container@.take(__l as int);
        let ghost ls1 = container@.take(__l as int + 1);
        proof {
            assert(ls1.drop_last() =~= ls);
            assert(ls1.last() == container@[__l as int]);
            assert(ls1 =~= ls.push(container@[__l as int]));
            lemma_netw_ok_prefix(d_start, container@, __l as int + 1);
        }
//@hint after dd.apply_func(aff);
                proof {
                    lemma_step_linear(a_init, a0, dd.a(), root, dim0, ls, *aff);
                    assert(aff_shape_ok(dd.a(), dim0)) by {
                        assert forall|i: usize| #![trigger dd.a()[i].value] dd.a().dom().contains(i) implies dd.a()[i].value.aff.ok() && dd.a()[i].value.aff.mat.ncols() == dim0
                            && (!dd.a()[i].isleaf ==> 1 <= dd.a()[i].value.aff.mat.nrows() < 16 && (1usize << (dd.a()[i].value.aff.mat.nrows() as usize)) <= 2) by {
                            assert(a0.dom().contains(i));
                            if !a0[i].isleaf { assert(dd.a()[i] == a0[i]); }
                        }
                    }
                }
//@hint after dd.compose(&__g_relu);
                let ghost a_mid_relu = dd.a();
                proof {
                    lemma_step_compose(a_init, a0, a_mid_relu, __g_relu.a(), root, dim0, dim, ls, Layer::ReLU(*row));
                    lemma_out_dim_after(a_mid_relu, __g_relu.a(), dim);
                }
//@hint after#1 dd.infeasible_elimination();
                proof {
                    lemma_step_same(a_init, a_mid_relu, dd.a(), root, dim0, ls1);
                    lemma_out_dim_after(dd.a(), a_mid_relu, dim);
                }
//@hint after dd.compose(&__g_leaky);
                let ghost a_mid_leaky = dd.a();
                proof {
                    lemma_step_compose(a_init, a0, a_mid_leaky, __g_leaky.a(), root, dim0, dim, ls, Layer::LeakyReLU(*row, *alpha));
                    lemma_out_dim_after(a_mid_leaky, __g_leaky.a(), dim);
                }
//@hint after#2 dd.infeasible_elimination();
                proof {
                    lemma_step_same(a_init, a_mid_leaky, dd.a(), root, dim0, ls1);
                    lemma_out_dim_after(dd.a(), a_mid_leaky, dim);
                }
//@hint after dd.compose(&__g_tanh);
                let ghost a_mid_tanh = dd.a();
                proof {
                    lemma_step_compose(a_init, a0, a_mid_tanh, __g_tanh.a(), root, dim0, dim, ls, Layer::HardTanh(*row));
                    lemma_out_dim_after(a_mid_tanh, __g_tanh.a(), dim);
                }
//@hint after#3 dd.infeasible_elimination();
                proof {
                    lemma_step_same(a_init, a_mid_tanh, dd.a(), root, dim0, ls1);
                    lemma_out_dim_after(dd.a(), a_mid_tanh, dim);
                }
//@hint after dd.compose(&__g_sig);
                let ghost a_mid_sig = dd.a();
                proof {
                    lemma_step_compose(a_init, a0, a_mid_sig, __g_sig.a(), root, dim0, dim, ls, Layer::HardSigmoid(*row));
                    lemma_out_dim_after(a_mid_sig, __g_sig.a(), dim);
                }
//@hint after#4 dd.infeasible_elimination();
                proof {
                    lemma_step_same(a_init, a_mid_sig, dd.a(), root, dim0, ls1);
                    lemma_out_dim_after(dd.a(), a_mid_sig, dim);
                }
//@hint after dd.compose_pruned(&__g_argmax);
                proof {
                    lemma_step_compose(a_init, a0, dd.a(), __g_argmax.a(), root, dim0, dim, ls, Layer::Argmax);
                    lemma_out_dim_after(dd.a(), __g_argmax.a(), 1);
                }
//@hint after dd.compose_pruned(&__g_class);
                proof {
                    lemma_step_compose(a_init, a0, dd.a(), __g_class.a(), root, dim0, dim, ls, Layer::ClassChar(*clazz));
                    lemma_out_dim_after(dd.a(), __g_class.a(), 1);
                }
//@hint loop 1 after
    proof {
        assert(container@.take(__l as int) =~= layers@);
        match pre {
            None => {
                reveal(denotes_net);
                assert forall|h: Map<usize, nat>, x: V| ranked_down(dd.a(), h) && x.len() == dim0 implies
                    #[trigger] tree_fn(dd.a(), h, root, x) == Some(netw_fn(layers@, x)) by {
                    let h0 = choose|h0: Map<usize, nat>| ranked_down(a_init, h0);
                    assert(tree_fn(a_init, h0, root, x) == Some(a_init[root].value.aff.ap(x)));
                }
            }
            Some(p) => {}
        }
    }
//@end

} // verus!
fn main() {}
