use vstd::prelude::*;
verus! {

pub type V = Seq<real>;
pub type M = Seq<Seq<real>>;

pub open spec fn dotp(a: V, b: V, n: int) -> real decreases n {
    if n <= 0 { 0real } else { dotp(a, b, n - 1) + a[n - 1] * b[n - 1] }
}
pub open spec fn m_ok(a: M, r: int, c: int) -> bool {
    a.len() == r && forall|i: int| 0 <= i < r ==> (#[trigger] a[i]).len() == c
}
pub open spec fn mv(a: M, x: V) -> V {
    Seq::new(a.len(), |i: int| dotp(a[i], x, x.len() as int))
}
pub open spec fn col(b: M, j: int) -> V { Seq::new(b.len(), |k: int| b[k][j]) }
pub open spec fn mm(a: M, b: M, c: int) -> M {
    Seq::new(a.len(), |i: int| Seq::new(c as nat, |j: int| dotp(a[i], col(b, j), b.len() as int)))
}
pub open spec fn vadd(a: V, b: V) -> V { Seq::new(a.len(), |i: int| a[i] + b[i]) }

// dot(a, S) where S_k = sum_j b[k][j]*x[j]  ==  sum_j (sum_k a_k b[k][j]) x_j
// Prove by induction on n (number of k terms) with inner statement about partial sums.

// helper: dotp is linear in second arg: dotp(a, u+v, n) = dotp(a,u,n)+dotp(a,v,n)
pub proof fn lemma_dotp_add(a: V, u: V, v: V, n: int)
    requires 0 <= n <= u.len(), n <= v.len()
    ensures dotp(a, vadd(u, v), n) == dotp(a, u, n) + dotp(a, v, n)
    decreases n
{
    if n > 0 {
        lemma_dotp_add(a, u, v, n - 1);
        assert(vadd(u, v)[n - 1] == u[n - 1] + v[n - 1]);
        assert(a[n-1] * (u[n-1] + v[n-1]) == a[n-1] * u[n-1] + a[n-1] * v[n-1]) by(nonlinear_arith);
    }
}

// row combination: r(a, b, m)[j] = sum_{k<m} a[k]*b[k][j]  (as a vector of length c)
pub open spec fn rowcomb(a: V, b: M, m: int, c: int) -> V {
    Seq::new(c as nat, |j: int| dotp(a, col(b, j), m))
}

// dotp(rowcomb(a,b,m,c), x, n) == sum_{k<m} a[k] * dotp(b[k], x, n)
pub open spec fn outer(a: V, b: M, x: V, m: int, n: int) -> real decreases m {
    if m <= 0 { 0real } else { outer(a, b, x, m - 1, n) + a[m - 1] * dotp(b[m - 1], x, n) }
}

pub proof fn lemma_swap(a: V, b: M, x: V, m: int, c: int, n: int)
    requires 0 <= m <= b.len(), 0 <= n <= c, m_ok(b, b.len() as int, c)
    ensures dotp(rowcomb(a, b, m, c), x, n) == outer(a, b, x, m, n)
    decreases n, m
{
    if n == 0 {
        lemma_outer_zero(a, b, x, m);
    } else {
        // dotp(rc, x, n) = dotp(rc, x, n-1) + rc[n-1]*x[n-1]
        lemma_swap(a, b, x, m, c, n - 1);
        // outer(m, n) - outer(m, n-1) = sum_k a[k]*b[k][n-1]*x[n-1] = dotp(a, col(b,n-1), m) * x[n-1]
        lemma_outer_step(a, b, x, m, c, n);
        assert(rowcomb(a, b, m, c)[n - 1] == dotp(a, col(b, n - 1), m));
    }
}

pub proof fn lemma_outer_zero(a: V, b: M, x: V, m: int)
    requires 0 <= m
    ensures outer(a, b, x, m, 0) == 0real
    decreases m
{
    if m > 0 { lemma_outer_zero(a, b, x, m - 1); 
        assert(a[m-1] * 0real == 0real) by(nonlinear_arith); }
}

pub proof fn lemma_outer_step(a: V, b: M, x: V, m: int, c: int, n: int)
    requires 0 <= m <= b.len(), 1 <= n <= c, m_ok(b, b.len() as int, c)
    ensures outer(a, b, x, m, n) == outer(a, b, x, m, n - 1) + dotp(a, col(b, n - 1), m) * x[n - 1]
    decreases m
{
    if m > 0 {
        lemma_outer_step(a, b, x, m - 1, c, n);
        let p = dotp(a, col(b, n - 1), m - 1);
        let ak = a[m - 1];
        let bk = b[m - 1][n - 1];
        let xn = x[n - 1];
        let d = dotp(b[m - 1], x, n - 1);
        assert(col(b, n - 1)[m - 1] == bk);
        assert(dotp(b[m - 1], x, n) == d + bk * xn);
        assert(ak * (d + bk * xn) == ak * d + (ak * bk) * xn) by(nonlinear_arith);
        assert((p + ak * bk) * xn == p * xn + (ak * bk) * xn) by(nonlinear_arith);
    } else {
        assert(0real * x[n-1] == 0real) by(nonlinear_arith);
    }
}

// outer(a,b,x,m,n) == dotp(a, mv(b,x), m) when n == x.len()
pub proof fn lemma_outer_mv(a: V, b: M, x: V, m: int)
    requires 0 <= m <= b.len()
    ensures outer(a, b, x, m, x.len() as int) == dotp(a, mv(b, x), m)
    decreases m
{
    if m > 0 {
        lemma_outer_mv(a, b, x, m - 1);
        assert(mv(b, x)[m - 1] == dotp(b[m - 1], x, x.len() as int));
    }
}

pub proof fn lemma_mm_mv(a: M, b: M, x: V, c: int)
    requires m_ok(b, b.len() as int, c), x.len() == c, c >= 0
    ensures mv(mm(a, b, c), x) =~= mv(a, mv(b, x))
{
    assert forall|i: int| 0 <= i < a.len() implies mv(mm(a, b, c), x)[i] == mv(a, mv(b, x))[i] by {
        let m = b.len() as int;
        assert(mm(a, b, c)[i] =~= rowcomb(a[i], b, m, c));
        lemma_swap(a[i], b, x, m, c, c);
        lemma_outer_mv(a[i], b, x, m);
        assert(mv(b, x).len() == m);
    }
}

} // verus!
fn main() {}
