// unit pwl_from_poly — C17: AffTree::from_poly (src/pwl/afftree.rs): the chain tree of a polytope (used as pre-/post-condition)
use vstd::prelude::*;
use std::marker::PhantomData;
use std::mem;
use std::ops::{Add, Sub, Mul, Div, Neg};
verus! {
global size_of usize == 8;

//@include prelude/inc_pwl_core.rs
//@include prelude/chain_spec.rs
//@item src/pwl/afftree.rs | enum InputError

impl InputError {
//@fn src/pwl/afftree.rs | impl InputError | expect_dim
//@spec
    ensures r is Ok <==> expected == found
//@end
}

impl<D: Data<Elem = A>, A: Float> AffFuncBase<PolytopeT, D> {
//@fn src/linalg/affine.rs | impl<D: Data<Elem = A>, A: Float> AffFuncBase<PolytopeT, D> | n_constraints
//@spec
    ensures r == self.mat.nrows()
//@hint start
        broadcast use axiom_array2_shape;
//@end
}

impl<const K: usize> AffTree<K> {
//@fn src/pwl/afftree.rs | impl<const K: usize> AffTree<K> | with_capacity
//@bodysub polytope_cache: RefCell::new(Vec::new()), =>
//@spec
    requires K >= 2, K < usize::MAX
    ensures r.tree.wf(), r.tree.root == Some(0usize), r.a().dom() =~= set![0usize], r.in_dim == dim,
        r.a()[0].isleaf, no_kids(r.a()[0]), r.a()[0].parent is None,
//@end
}

// row j of the polytope as a one-row predicate function
pub open spec fn row_fn_of(f: AffFunc, p: Polytope, j: int) -> bool {
    f.ok() && f.mat.ncols() == p.mat.ncols() && f.mat.nrows() == 1
        && forall|x: V| x.len() == p.mat.ncols() ==> (#[trigger] f.row_sat(0, x) <==> p.row_sat(j, x))
}
// rule I14: `poly.row_iter()` with `.as_function().to_owned()` applied to every item: the rows of the polytope as owned one-row functions (TRUSTED helper)
#[verifier::external_body]
pub fn poly_row_fns(p: &Polytope) -> (r: Vec<AffFunc>)
    ensures r@.len() == p.mat.nrows(), forall|j: int| 0 <= j < r@.len() ==> row_fn_of(#[trigger] r@[j], *p, j)
{ unimplemented!() }

pub proof fn lemma_row_fn_clone(f: AffFunc, g: AffFunc, p: Polytope, j: int)
    requires row_fn_of(f, p, j), g.mat.m() == f.mat.m(), g.bias.v() == f.bias.v(), g.mat.nrows() == f.mat.nrows(), g.mat.ncols() == f.mat.ncols()
    ensures row_fn_of(g, p, j)
{
    assert forall|x: V| x.len() == p.mat.ncols() implies (#[trigger] g.row_sat(0, x) <==> p.row_sat(j, x)) by { assert(f.row_sat(0, x) <==> p.row_sat(j, x)); }
}

// what from_poly has to denote
pub open spec fn poly_fn(p: Polytope, ft: AffFunc, ff: Option<AffFunc>, x: V) -> Option<V> {
    if p.sat(x) { Some(ft.ap(x)) } else { match ff { Some(g) => Some(g.ap(x)), None => None } }
}
pub open spec fn same_ap(f: AffFunc, g: AffFunc) -> bool { f.ok() && f.mat.nrows() == g.mat.nrows() && f.mat.ncols() == g.mat.ncols() && f.mat.m() == g.mat.m() && f.bias.v() == g.bias.v() }

// state of the construction after j rows: chain nodes c[0..j), all but the last complete
#[verifier::opaque]
pub open spec fn fp_inv(a: AArena<2>, c: Seq<usize>, p: Polytope, ff: Option<AffFunc>, dim: usize, out: usize) -> bool {
    &&& 1 <= c.len() <= p.mat.nrows() && c[0] == 0
    &&& forall|i: usize| #[trigger] a.dom().contains(i) ==> a[i].value.aff.ok() && a[i].value.aff.mat.ncols() == dim
    &&& forall|k: int| 0 <= k < c.len() ==> a.dom().contains(#[trigger] c[k]) && row_fn_of(a[c[k]].value.aff, p, k)
    &&& forall|k1: int, k2: int| 0 <= k1 < k2 < c.len() ==> c[k1] != c[k2]
    &&& forall|k: int| 0 <= k < c.len() - 1 ==> {
            let nd = a[#[trigger] c[k]];
            &&& !nd.isleaf && nd.children[1] == Some(c[k + 1])
            &&& ff is Some ==> nd.children[0].is_some() && a.dom().contains(nd.children[0].unwrap()) && a[nd.children[0].unwrap()].isleaf
                    && same_ap(a[nd.children[0].unwrap()].value.aff, ff.unwrap())
            &&& ff is None ==> nd.children[0].is_none()
        }
    &&& a[c.last()].isleaf && no_kids(a[c.last()])
    // terminals so far: the else-leaves
    &&& forall|i: usize| a.dom().contains(i) && #[trigger] a[i].isleaf && i != c.last() ==> a[i].value.aff.mat.nrows() == out
}

pub proof fn lemma_fp_facts(a: AArena<2>, c: Seq<usize>, p: Polytope, ff: Option<AffFunc>, dim: usize, out: usize)
    requires fp_inv(a, c, p, ff, dim, out)
    ensures c.len() >= 1, a.dom().contains(c.last()), a[c.last()].isleaf, no_kids(a[c.last()]), c.len() <= p.mat.nrows()
{
    reveal(fp_inv);
}
pub proof fn lemma_fp_init(a: AArena<2>, p: Polytope, ff: Option<AffFunc>, dim: usize, out: usize)
    requires a.dom() =~= set![0usize], a[0].isleaf, no_kids(a[0]), row_fn_of(a[0].value.aff, p, 0), p.mat.nrows() >= 1, p.mat.ncols() == dim
    ensures fp_inv(a, seq![0usize], p, ff, dim, out)
{
    reveal(fp_inv);
}

// one more row: (optional) else-leaf below label 0, next decision n below label 1 of the last chain node
pub proof fn lemma_fp_step(a0: AArena<2>, a1: AArena<2>, a2: AArena<2>, c: Seq<usize>, p: Polytope, ff: Option<AffFunc>, dim: usize, out: usize, e: usize, n: usize)
    requires fp_inv(a0, c, p, ff, dim, out), c.len() < p.mat.nrows(), wf_at(a0, Some(0usize)), p.mat.ncols() == dim,
        ff is Some ==> ff.unwrap().mat.ncols() == dim && ff.unwrap().mat.nrows() == out
            && child_added(a0, a1, c.last(), 0, e) && a1[c.last()].value == a0[c.last()].value && same_ap(a1[e].value.aff, ff.unwrap()),
        ff is None ==> a1 == a0,
        child_added(a1, a2, c.last(), 1, n), a2[c.last()].value == a1[c.last()].value, row_fn_of(a2[n].value.aff, p, c.len() as int),
    ensures fp_inv(a2, c.push(n), p, ff, dim, out)
{
    reveal(fp_inv);
    let last = c.last();
    let c2 = c.push(n);
    assert(c[c.len() - 1] == last);
    assert(n != last && !a1.dom().contains(n));
    assert(a2[last].children[1] == Some(n)) by { assert(a2[last].children@[1] == Some(n)); }
    if ff is Some {
        assert(e != last && n != e);
        assert(a2[e] == a1[e]);
        assert(a2[last].children[0] == Some(e)) by { assert(a2[last].children@[0] == a1[last].children@[0]); assert(a1[last].children@[0] == Some(e)); }
        assert forall|i: usize| a0.dom().contains(i) && i != last implies a2[i] == a0[i] by { assert(a1[i] == a0[i]); assert(a2[i] == a1[i]); }
        assert forall|i: usize| #[trigger] a2.dom().contains(i) implies a2[i].value.aff.ok() && a2[i].value.aff.mat.ncols() == dim by {
            if i != n && i != e { assert(a0.dom().contains(i)); }
        }
        assert forall|i: usize| a2.dom().contains(i) && #[trigger] a2[i].isleaf && i != n implies a2[i].value.aff.mat.nrows() == out by {
            if i != e { assert(a0.dom().contains(i)); assert(i != last); }
        }
    } else {
        assert(a2[last].children[0].is_none()) by { assert(a2[last].children@[0] == a1[last].children@[0]); }
        assert forall|i: usize| a0.dom().contains(i) && i != last implies a2[i] == a0[i] by { assert(a2[i] == a1[i]); }
        assert forall|i: usize| #[trigger] a2.dom().contains(i) implies a2[i].value.aff.ok() && a2[i].value.aff.mat.ncols() == dim by {
            if i != n { assert(a0.dom().contains(i)); }
        }
        assert forall|i: usize| a2.dom().contains(i) && #[trigger] a2[i].isleaf && i != n implies a2[i].value.aff.mat.nrows() == out by {
            assert(a0.dom().contains(i)); assert(i != last);
        }
    }
    assert forall|k: int| 0 <= k < c2.len() implies a2.dom().contains(#[trigger] c2[k]) && row_fn_of(a2[c2[k]].value.aff, p, k) by {
        if k < c.len() { assert(c2[k] == c[k]); assert(a0.dom().contains(c[k])); }
    }
    assert forall|k1: int, k2: int| 0 <= k1 < k2 < c2.len() implies c2[k1] != c2[k2] by {
        assert(c2[k1] == c[k1]); assert(a0.dom().contains(c[k1]));
        if k2 < c.len() { assert(c2[k2] == c[k2]); }
    }
    assert forall|k: int| 0 <= k < c2.len() - 1 implies ({
            let nd = a2[#[trigger] c2[k]];
            &&& !nd.isleaf && nd.children[1] == Some(c2[k + 1])
            &&& ff is Some ==> nd.children[0].is_some() && a2.dom().contains(nd.children[0].unwrap()) && a2[nd.children[0].unwrap()].isleaf
                    && same_ap(a2[nd.children[0].unwrap()].value.aff, ff.unwrap())
            &&& ff is None ==> nd.children[0].is_none()
        }) by {
        assert(c2[k] == c[k]);
        assert(a0.dom().contains(c[k]));
        if k < c.len() - 1 {
            assert(c2[k + 1] == c[k + 1]);
            assert(c[k] != last);
            if ff is Some {
                let e0 = a0[c[k]].children[0].unwrap();
                assert(a0.dom().contains(e0));
                assert(e0 != last) by {
                    if e0 == last {
                        let k2 = c.len() - 2;
                        assert(a0[c[k]].children[0] == Some(last));
                        assert(a0[last].parent == Some(c[k]));
                        assert(a0[c[k2]].children[1] == Some(c[k2 + 1]));
                        assert(a0[last].parent == Some(c[k2]));
                        if k != k2 { assert(c[k] != c[k2]); }
                    }
                }
            }
        }
    }
}

// the last chain node gets its (optional) else-leaf and the terminal func_true: the chain is complete and denotes poly_fn
pub proof fn lemma_fp_complete(a0: AArena<2>, a1: AArena<2>, a2: AArena<2>, c: Seq<usize>, p: Polytope, ft: AffFunc, ff: Option<AffFunc>, dim: usize, out: usize, e: usize, t1: usize)
    requires fp_inv(a0, c, p, ff, dim, out), c.len() == p.mat.nrows(), wf_at(a0, Some(0usize)), p.mat.ncols() == dim,
        ff is Some ==> ff.unwrap().mat.ncols() == dim && ff.unwrap().mat.nrows() == out
            && child_added(a0, a1, c.last(), 0, e) && a1[c.last()].value == a0[c.last()].value && same_ap(a1[e].value.aff, ff.unwrap()),
        ff is None ==> a1 == a0,
        child_added(a1, a2, c.last(), 1, t1), a2[c.last()].value == a1[c.last()].value, a2[t1].value.aff == ft, ft.ok(), ft.mat.ncols() == dim, ft.mat.nrows() == out,
    ensures
        aff_shape_ok(a2, dim),
        forall|i: usize| a2.dom().contains(i) && #[trigger] a2[i].isleaf ==> a2[i].value.aff.mat.nrows() == out,
        chain_ok(a2, c, t1, ff is Some), c.len() >= 1, c[0] == 0,
        forall|k: int| 0 <= k < c.len() ==> row_fn_of(a2[#[trigger] c[k]].value.aff, p, k),
        forall|k: int| 0 <= k < c.len() && ff is Some ==> same_ap(a2[a2[#[trigger] c[k]].children[0].unwrap()].value.aff, ff.unwrap()),
{
    reveal(fp_inv);
    let last = c.last();
    assert(c[c.len() - 1] == last);
    assert(t1 != last && !a1.dom().contains(t1));
    assert(a2[last].children[1] == Some(t1)) by { assert(a2[last].children@[1] == Some(t1)); }
    let has_else = ff is Some;
    if ff is Some {
        assert(e != last && t1 != e);
        assert(a2[e] == a1[e]);
        assert(a2[last].children[0] == Some(e)) by { assert(a2[last].children@[0] == a1[last].children@[0]); assert(a1[last].children@[0] == Some(e)); }
        assert forall|i: usize| a0.dom().contains(i) && i != last implies a2[i] == a0[i] by { assert(a1[i] == a0[i]); assert(a2[i] == a1[i]); }
        assert forall|i: usize| #[trigger] a2.dom().contains(i) implies a2[i].value.aff.ok() && a2[i].value.aff.mat.ncols() == dim by {
            if i != t1 && i != e { assert(a0.dom().contains(i)); }
        }
        assert forall|i: usize| a2.dom().contains(i) && #[trigger] a2[i].isleaf implies a2[i].value.aff.mat.nrows() == out by {
            if i != e && i != t1 { assert(a0.dom().contains(i)); assert(i != last); }
        }
    } else {
        assert(a2[last].children[0].is_none()) by { assert(a2[last].children@[0] == a1[last].children@[0]); }
        assert forall|i: usize| a0.dom().contains(i) && i != last implies a2[i] == a0[i] by { assert(a2[i] == a1[i]); }
        assert forall|i: usize| #[trigger] a2.dom().contains(i) implies a2[i].value.aff.ok() && a2[i].value.aff.mat.ncols() == dim by {
            if i != t1 { assert(a0.dom().contains(i)); }
        }
        assert forall|i: usize| a2.dom().contains(i) && #[trigger] a2[i].isleaf implies a2[i].value.aff.mat.nrows() == out by {
            if i != t1 { assert(a0.dom().contains(i)); assert(i != last); }
        }
    }
    // decisions are exactly the chain nodes, each with one row
    assert((1usize << 1usize) == 2usize) by(bit_vector);
    assert forall|i: usize| a2.dom().contains(i) && !(#[trigger] a2[i]).isleaf implies exists|k: int| 0 <= k < c.len() && c[k] == i by {
        if i == last { assert(c[c.len() - 1] == i); }
        else {
            assert(a0.dom().contains(i) && a2[i] == a0[i]);
            lemma_fp_decisions(a0, c, p, ff, dim, out, i);
        }
    }
    assert forall|i: usize| #![trigger a2[i].value] a2.dom().contains(i) implies a2[i].value.aff.ok() && a2[i].value.aff.mat.ncols() == dim
        && (!a2[i].isleaf ==> 1 <= a2[i].value.aff.mat.nrows() < 16 && (1usize << (a2[i].value.aff.mat.nrows() as usize)) <= 2) by {
        if !a2[i].isleaf {
            let k = choose|k: int| 0 <= k < c.len() && c[k] == i;
            assert(a0.dom().contains(c[k]));
            assert(row_fn_of(a0[c[k]].value.aff, p, k));
        }
    }
    assert(chain_ok(a2, c, t1, has_else)) by {
        assert forall|j: int| 0 <= j < c.len() implies ({
            let nd = #[trigger] a2[c[j]];
            &&& a2.dom().contains(c[j]) && !nd.isleaf && nd.value.aff.mat.nrows() == 1
            &&& nd.children[1] == Some(if j + 1 < c.len() { c[j + 1] } else { t1 })
            &&& (has_else ==> nd.children[0].is_some() && a2.dom().contains(nd.children[0].unwrap()) && a2[nd.children[0].unwrap()].isleaf)
            &&& (!has_else ==> nd.children[0].is_none())
        }) by {
            assert(a0.dom().contains(c[j]));
            if j < c.len() - 1 {
                assert(c[j] != last);
                if has_else {
                    let e0 = a0[c[j]].children[0].unwrap();
                    assert(a0.dom().contains(e0));
                    assert(e0 != last) by {
                        if e0 == last {
                            let k2 = c.len() - 2;
                            assert(a0[c[j]].children[0] == Some(last));
                            assert(a0[last].parent == Some(c[j]));
                            assert(a0[c[k2]].children[1] == Some(c[k2 + 1]));
                            assert(a0[last].parent == Some(c[k2]));
                            if j != k2 { assert(c[j] != c[k2]); }
                        }
                    }
                }
            }
        }
    }
    assert forall|k: int| 0 <= k < c.len() implies row_fn_of(a2[#[trigger] c[k]].value.aff, p, k) by { assert(a0.dom().contains(c[k])); }
    assert forall|k: int| 0 <= k < c.len() && has_else implies same_ap(a2[a2[#[trigger] c[k]].children[0].unwrap()].value.aff, ff.unwrap()) by {
        assert(a0.dom().contains(c[k]));
        if k < c.len() - 1 {
            assert(c[k] != last);
            let e0 = a0[c[k]].children[0].unwrap();
            assert(a0.dom().contains(e0));
            assert(e0 != last) by {
                if e0 == last {
                    let k2 = c.len() - 2;
                    assert(a0[c[k]].children[0] == Some(last));
                    assert(a0[last].parent == Some(c[k]));
                    assert(a0[c[k2]].children[1] == Some(c[k2 + 1]));
                    assert(a0[last].parent == Some(c[k2]));
                    if k != k2 { assert(c[k] != c[k2]); }
                }
            }
        }
    }
}

// ... and denotes poly_fn
pub proof fn lemma_fp_final(a2: AArena<2>, c: Seq<usize>, p: Polytope, ft: AffFunc, ff: Option<AffFunc>, dim: usize, t1: usize)
    requires c.len() == p.mat.nrows(), p.mat.ncols() == dim, a2[t1].value.aff == ft, c.len() >= 1, c[0] == 0,
        chain_ok(a2, c, t1, ff is Some),
        forall|k: int| 0 <= k < c.len() ==> row_fn_of(a2[#[trigger] c[k]].value.aff, p, k),
        forall|k: int| 0 <= k < c.len() && ff is Some ==> same_ap(a2[a2[#[trigger] c[k]].children[0].unwrap()].value.aff, ff.unwrap()),
    ensures forall|h: Map<usize, nat>, x: V| ranked_down(a2, h) && x.len() == dim ==> #[trigger] tree_fn(a2, h, 0, x) == poly_fn(p, ft, ff, x),
{
    let has_else = ff is Some;
    assert forall|h: Map<usize, nat>, x: V| ranked_down(a2, h) && x.len() == dim implies #[trigger] tree_fn(a2, h, 0, x) == poly_fn(p, ft, ff, x) by {
        lemma_chain_fn(a2, h, c, t1, has_else, 0, x);
        lemma_fp_val(a2, c, p, ft, ff, dim, t1, 0, x);
        if forall|k: int| 0 <= k < p.mat.nrows() ==> #[trigger] p.row_sat(k, x) {
            assert(p.sat(x));
        } else {
            let k = choose|k: int| 0 <= k < p.mat.nrows() && !#[trigger] p.row_sat(k, x);
            assert(!p.sat(x)) by { if p.sat(x) { assert(p.row_sat(k, x)); } }
        }
    }
}
// in the partial chain every decision is a chain node
pub proof fn lemma_fp_decisions(a: AArena<2>, c: Seq<usize>, p: Polytope, ff: Option<AffFunc>, dim: usize, out: usize, i: usize)
    requires fp_inv(a, c, p, ff, dim, out), wf_at(a, Some(0usize)), a.dom().contains(i), !a[i].isleaf
    ensures exists|k: int| 0 <= k < c.len() && c[k] == i
    decreases 0int
{
    reveal(fp_inv);
    // walk up: every node's parent chain reaches the root c[0]; a decision that is not on the chain would have to hang below a chain node's
    // label-0 terminal (impossible: terminals have no children) or be the last node (a leaf). Proved by rank induction.
    let d = choose|d: Map<usize, nat>| ranked(a, d);
    lemma_fp_on_chain(a, c, p, ff, dim, out, d, i);
}
pub proof fn lemma_fp_on_chain(a: AArena<2>, c: Seq<usize>, p: Polytope, ff: Option<AffFunc>, dim: usize, out: usize, d: Map<usize, nat>, i: usize)
    requires fp_inv(a, c, p, ff, dim, out), wf_at(a, Some(0usize)), ranked(a, d), a.dom().contains(i)
    ensures (exists|k: int| 0 <= k < c.len() && c[k] == i) || (a[i].isleaf)
    decreases d[i]
{
    reveal(fp_inv);
    if a[i].parent.is_none() {
        assert(i == 0);
        assert(c[0] == i);
    } else {
        let pp = a[i].parent.unwrap();
        assert(a.dom().contains(pp) && d[pp] < d[i]);
        lemma_fp_on_chain(a, c, p, ff, dim, out, d, pp);
        let l = choose|l: int| 0 <= l < 2 && #[trigger] a[pp].children[l] == Some(i);
        assert(!no_kids(a[pp]));
        assert(!a[pp].isleaf);
        let k = choose|k: int| 0 <= k < c.len() && c[k] == pp;
        assert(k < c.len() - 1) by { if k == c.len() - 1 { assert(c[k] == c.last()); } }
        if l == 1 { assert(c[k + 1] == i); }
        else { assert(ff is Some); assert(a[i].isleaf); }
    }
}

// value of the completed chain from position j
pub proof fn lemma_fp_val(a2: AArena<2>, c: Seq<usize>, p: Polytope, ft: AffFunc, ff: Option<AffFunc>, dim: usize, t1: usize, j: int, x: V)
    requires 0 <= j <= c.len(), c.len() == p.mat.nrows(), x.len() == dim, c.len() >= 1, p.mat.ncols() == dim, a2[t1].value.aff == ft,
        forall|k: int| 0 <= k < c.len() ==> row_fn_of(a2[#[trigger] c[k]].value.aff, p, k),
        forall|k: int| 0 <= k < c.len() && ff is Some ==> same_ap(a2[a2[#[trigger] c[k]].children[0].unwrap()].value.aff, ff.unwrap()),
    ensures chain_val(a2, c, t1, ff is Some, j, x) ==
        (if (forall|k: int| j <= k < p.mat.nrows() ==> #[trigger] p.row_sat(k, x)) { Some(ft.ap(x)) } else { match ff { Some(g) => Some(g.ap(x)), None => None } })
    decreases c.len() - j
{
    if j < c.len() {
        lemma_fp_val(a2, c, p, ft, ff, dim, t1, j + 1, x);
        assert(a2[c[j]].value.aff.row_sat(0, x) <==> p.row_sat(j, x));
        if a2[c[j]].value.aff.row_sat(0, x) {
            if forall|k: int| j + 1 <= k < p.mat.nrows() ==> #[trigger] p.row_sat(k, x) {
                assert forall|k: int| j <= k < p.mat.nrows() implies #[trigger] p.row_sat(k, x) by {}
            } else {
                let k = choose|k: int| j + 1 <= k < p.mat.nrows() && !#[trigger] p.row_sat(k, x);
                assert(!(forall|k: int| j <= k < p.mat.nrows() ==> #[trigger] p.row_sat(k, x))) by {
                    if forall|k: int| j <= k < p.mat.nrows() ==> #[trigger] p.row_sat(k, x) { assert(p.row_sat(k, x)); }
                }
            }
        } else {
            assert(!(forall|k: int| j <= k < p.mat.nrows() ==> #[trigger] p.row_sat(k, x))) by {
                if forall|k: int| j <= k < p.mat.nrows() ==> #[trigger] p.row_sat(k, x) { assert(p.row_sat(j, x)); }
            }
            if ff is Some {
                let e = a2[c[j]].children[0].unwrap();
                assert(same_ap(a2[e].value.aff, ff.unwrap()));
                assert(a2[e].value.aff.ap(x) == ff.unwrap().ap(x));
            }
        }
    }
}

impl AffTree<2> {
//@fn src/pwl/afftree.rs | impl AffTree<2> | from_poly
//@bodysub let mut iter = poly.row_iter(); => let __rows = poly_row_fns(&poly);
//@bodysub let aff = iter.next().unwrap().as_function().to_owned(); => let aff = __rows[0].clone_aff();
//@bodysub for decision in iter { => let mut __j: usize = 1; while __j < __rows.len() { let decision = &__rows[__j]; __j += 1;
//@bodysub let aff = decision.as_function().to_owned(); => let aff = decision.clone_aff();
//@bodysub aff_false.clone() => aff_false.clone_aff()
//@spec
    requires poly.ok(), func_true.ok(), poly.mat.nrows() < usize::MAX,
        match func_false { Some(g) => g.ok() && g.mat.nrows() == func_true.mat.nrows(), None => true },
        poly.mat.nrows() > 0,    // asserted by the code
    ensures
        // dimension mismatch is the only error
        r is Err <==> poly.mat.ncols() != func_true.mat.ncols() || (func_false is Some && func_false.unwrap().mat.ncols() != poly.mat.ncols()),
        r matches Ok(t) ==> t.tree.wf() && t.tree.root == Some(0usize) && t.in_dim == func_true.mat.ncols() && aff_shape_ok(t.a(), t.in_dim)
            && (forall|i: usize| t.a().dom().contains(i) && #[trigger] t.a()[i].isleaf ==> t.a()[i].value.aff.mat.nrows() == func_true.mat.nrows())
            // inside the polytope: func_true; outside: func_false, or undefined when there is none
            && (forall|h: Map<usize, nat>, x: V| ranked_down(t.a(), h) && x.len() == t.in_dim ==>
                #[trigger] tree_fn(t.a(), h, 0, x) == poly_fn(poly, func_true, match func_false { Some(g) => Some(*g), None => None }, x)),
//@hint start
        broadcast use axiom_array2_shape;
        let ghost dim = func_true.mat.ncols() as usize;
        let ghost out = func_true.mat.nrows() as usize;
        let ghost ff: Option<AffFunc> = match func_false { Some(g) => Some(*g), None => None };
        broadcast use axiom_array2_shape;
//@hint before tree.tree.node_value_mut(parent).unwrap().aff = aff;
        let ghost a_w = tree.a();
        proof { lemma_row_fn_clone(__rows@[0], aff, poly, 0); }
//@hint after tree.tree.node_value_mut(parent).unwrap().aff = aff;
        let ghost mut c: Seq<usize> = seq![0usize];
        proof {
            assert(same_shape(a_w, tree.a()));
            lemma_same_shape_wf(a_w, tree.a(), Some(0usize));
            assert(no_kids(tree.a()[0])) by { assert(tree.a()[0].children == a_w[0].children); }
            lemma_fp_init(tree.a(), poly, ff, dim, out);
        }
//@loop 1
            invariant
                poly.ok(), func_true.ok(), poly.mat.ncols() == dim, func_true.mat.ncols() == dim, func_true.mat.nrows() == out,
                ff == (match func_false { Some(g) => Some(*g), None => None }),
                ff is Some ==> ff.unwrap().ok() && ff.unwrap().mat.ncols() == dim && ff.unwrap().mat.nrows() == out,
                __rows@.len() == poly.mat.nrows(), forall|j: int| 0 <= j < __rows@.len() ==> row_fn_of(#[trigger] __rows@[j], poly, j),
                1 <= __j <= __rows@.len(),
                tree.tree.wf(), tree.tree.root == Some(0usize), tree.in_dim == dim,
                fp_inv(tree.a(), c, poly, ff, dim, out), c.len() == __j, parent == c.last(),
            decreases __rows@.len() - __j
//@hint loop 1 start
            let ghost a0 = tree.a();
            proof { lemma_fp_facts(tree.a(), c, poly, ff, dim, out); }
//@hint before let aff = decision.clone_aff();
            let ghost a1 = tree.a();
//@hint after parent = tree.add_child_node(parent, 1, aff).unwrap();
            proof {
                lemma_row_fn_clone(__rows@[__j - 1], tree.a()[parent].value.aff, poly, __j - 1);
                lemma_fp_step(a0, a1, tree.a(), c, poly, ff, dim, out, a1[c.last()].children[0].unwrap(), parent);
                c = c.push(parent);
            }
//@hint loop 1 after
        let ghost b0 = tree.a();
        proof { lemma_fp_facts(tree.a(), c, poly, ff, dim, out); }
//@hint before tree.add_child_node(parent, 1, func_true).unwrap();
        let ghost b1 = tree.a();
//@hint after tree.add_child_node(parent, 1, func_true).unwrap();
        proof {
            let t1 = tree.a()[c.last()].children[1].unwrap();
            lemma_fp_complete(b0, b1, tree.a(), c, poly, func_true, ff, dim, out, b1[c.last()].children[0].unwrap(), t1);
            lemma_fp_final(tree.a(), c, poly, func_true, ff, dim, t1);
        }
//@end
}

} // verus!
fn main() {}
