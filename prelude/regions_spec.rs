// ---- prelude/regions_spec.rs : bookkeeping of PolyhedraGen (path of the last returned node, one half-space per edge) and what the half-spaces mean ----
// ---------------------------------------------------------------- specification
// path[k] is the node at depth k on the way from the start node to the last returned node.
// Every stack entry hangs below that path: an entry of depth d >= 1 is a child of path[d - 1]; deeper entries are nearer to the top.
pub open spec fn anc_inv<N, const K: usize>(a: Arena<N, K>, s: Seq<DfsNodeData>, path: Seq<usize>) -> bool {
    &&& forall|j: int| 0 <= j < s.len() ==> (#[trigger] s[j]).depth <= path.len() && a.dom().contains(s[j].index)
            && (s[j].depth >= 1 ==> a[s[j].index].parent == Some(path[s[j].depth - 1]))
            && (s[j].depth == 0 ==> a[s[j].index].parent is None)
    &&& forall|j1: int, j2: int| 0 <= j1 < j2 < s.len() ==> (#[trigger] s[j1]).depth <= (#[trigger] s[j2]).depth
}
pub open spec fn next_path(path: Seq<usize>, it: DfsNodeData) -> Seq<usize> { path.take(it.depth as int).push(it.index) }

pub proof fn lemma_anc_step<N, const K: usize>(a: Arena<N, K>, s0: Seq<DfsNodeData>, s1: Seq<DfsNodeData>, lp: usize, it: DfsNodeData, path: Seq<usize>)
    requires anc_inv(a, s0, path), dfs_step(a, s0, s1, lp, Some(it)), kids_ok(a), it.depth < usize::MAX
    ensures anc_inv(a, s1, next_path(path, it)), it.depth <= path.len(), next_path(path, it).len() == it.depth + 1,
        it.depth >= 1 ==> a[it.index].parent == Some(path[it.depth - 1]), it.depth == 0 ==> a[it.index].parent is None,
{
    let rest = s0.drop_last();
    let kids = kid_items(a[it.index].children, 0, (it.depth + 1) as usize).reverse();
    let p1 = next_path(path, it);
    assert(s0[s0.len() - 1] == it);
    lemma_kid_items_facts(a[it.index].children, 0, (it.depth + 1) as usize);
    assert forall|j: int| 0 <= j < s1.len() implies (#[trigger] s1[j]).depth <= p1.len() && a.dom().contains(s1[j].index)
        && (s1[j].depth >= 1 ==> a[s1[j].index].parent == Some(p1[s1[j].depth - 1]))
        && (s1[j].depth == 0 ==> a[s1[j].index].parent is None) by {
        if j < rest.len() {
            assert(s1[j] == s0[j]);
            assert(s0[j].depth <= it.depth);
            if s0[j].depth >= 1 { assert(p1[s0[j].depth - 1] == path[s0[j].depth - 1]); }
        } else {
            let k = j - rest.len();
            assert(s1[j] == kids[k]);
            let ki = kid_items(a[it.index].children, 0, (it.depth + 1) as usize);
            assert(kids[k] == ki[ki.len() - 1 - k]);
            assert(p1[it.depth as int] == it.index);
        }
    }
    assert forall|j1: int, j2: int| 0 <= j1 < j2 < s1.len() implies (#[trigger] s1[j1]).depth <= (#[trigger] s1[j2]).depth by {
        let ki = kid_items(a[it.index].children, 0, (it.depth + 1) as usize);
        if j2 < rest.len() { assert(s1[j1] == s0[j1] && s1[j2] == s0[j2]); }
        else {
            assert(s1[j2] == kids[j2 - rest.len()]);
            assert(kids[j2 - rest.len()] == ki[ki.len() - 1 - (j2 - rest.len())]);
            if j1 < rest.len() { assert(s1[j1] == s0[j1]); assert(s0[j1].depth <= it.depth); }
            else { assert(s1[j1] == kids[j1 - rest.len()]); assert(kids[j1 - rest.len()] == ki[ki.len() - 1 - (j1 - rest.len())]); }
        }
    }
}
// the items pushed for the children of a node: depth, existence, parent
pub proof fn lemma_kid_items_facts<const K: usize>(ch: [Option<usize>; K], lo: int, depth: usize)
    requires 0 <= lo <= K
    ensures forall|k: int| 0 <= k < kid_items(ch, lo, depth).len() ==> (#[trigger] kid_items(ch, lo, depth)[k]).depth == depth
        && exists|l: int| lo <= l < K && #[trigger] ch[l] == Some(kid_items(ch, lo, depth)[k].index)
    decreases K - lo
{
    if lo < K {
        lemma_kid_items_facts(ch, lo + 1, depth);
        let rest = kid_items(ch, lo + 1, depth);
        let all = kid_items(ch, lo, depth);
        if ch[lo].is_some() {
            assert forall|k: int| 0 <= k < all.len() implies (#[trigger] all[k]).depth == depth && exists|l: int| lo <= l < K && #[trigger] ch[l] == Some(all[k].index) by {
                if k == 0 { assert(ch[lo] == Some(all[0].index)); }
                else {
                    assert(all[k] == rest[k - 1]);
                    let l = choose|l: int| lo + 1 <= l < K && #[trigger] ch[l] == Some(rest[k - 1].index);
                    assert(ch[l] == Some(all[k].index));
                }
            }
        } else {
            assert forall|k: int| 0 <= k < all.len() implies (#[trigger] all[k]).depth == depth && exists|l: int| lo <= l < K && #[trigger] ch[l] == Some(all[k].index) by {
                let l = choose|l: int| lo + 1 <= l < K && #[trigger] ch[l] == Some(rest[k].index);
                assert(ch[l] == Some(all[k].index));
            }
        }
    }
}
pub proof fn lemma_anc_skip<N, const K: usize>(a: Arena<N, K>, s0: Seq<DfsNodeData>, lp0: usize, s1: Seq<DfsNodeData>, lp1: usize, path: Seq<usize>)
    requires anc_inv(a, s0, path), skip_step(s0, lp0, s1, lp1)
    ensures anc_inv(a, s1, path)
{
    assert forall|j: int| 0 <= j < s1.len() implies s1[j] == s0[j] by {}
}

// the half-space reported for the edge (p --label--> child): the predicate of p for label 1, its closed complement for label 0
pub open spec fn edge_poly(f: AffFunc, label: usize, q: Polytope) -> bool {
    let s = if label == 1 { 1real } else { 0real - 1real };
    q.mat.nrows() == f.mat.nrows() && q.mat.ncols() == f.mat.ncols() && q.mat.m() == mscale(f.mat.m(), s) && q.bias.v() == vscale(f.bias.v(), s)
}
// what it means for the points: label 1: every row holds; label 0: every row is violated or tight
pub proof fn lemma_edge_poly_sat(f: AffFunc, label: usize, q: Polytope, x: V, i: int)
    requires edge_poly(f, label, q), f.ok(), 0 <= i < f.mat.nrows(), x.len() == f.mat.ncols()
    ensures label == 1 ==> (q.row_sat(i, x) <==> f.row_sat(i, x)),
        label != 1 ==> (q.row_sat(i, x) <==> dotp(f.mat.m()[i], x, x.len() as int) >= f.bias.v()[i]),
        label == 1 ==> dotp(q.mat.m()[i], x, x.len() as int) == dotp(f.mat.m()[i], x, x.len() as int) && q.bias.v()[i] == f.bias.v()[i],
        label != 1 ==> dotp(q.mat.m()[i], x, x.len() as int) == -dotp(f.mat.m()[i], x, x.len() as int) && q.bias.v()[i] == -f.bias.v()[i],
{
    broadcast use axiom_array2_shape;
    let s = if label == 1 { 1real } else { 0real - 1real };
    lemma_dotp_scale_left(f.mat.m()[i], s, x, x.len() as int);
    let dq = dotp(q.mat.m()[i], x, x.len() as int);
    let df = dotp(f.mat.m()[i], x, x.len() as int);
    assert(q.mat.m()[i] == vscale(f.mat.m()[i], s));
    assert(dq == df * s);
    assert(q.bias.v()[i] == f.bias.v()[i] * s);
    if label == 1 { assert(df * 1real == df && f.bias.v()[i] * 1real == f.bias.v()[i]) by(nonlinear_arith); }
    else { assert(df * (0real - 1real) == -df && f.bias.v()[i] * (0real - 1real) == -f.bias.v()[i]) by(nonlinear_arith); }
}

// state of the generator after it returned the node path.last() (or before the first call: path empty):
// one reported half-space per edge of the path, in path order, each for the label under which the next path node hangs
#[verifier::opaque]
pub open spec fn gen_inv<const K: usize>(a: AArena<K>, g: PolyhedraGen, path: Seq<usize>) -> bool {
    &&& anc_inv(a, g.iter.stack@, path) && path.len() <= usize::MAX
    &&& path.len() == 0 ==> g.predicates@.len() == 0 && g.last_depth == 0
    &&& path.len() > 0 ==> g.last_depth == path.len() - 1 && g.predicates@.len() == path.len() - 1
    &&& forall|k: int| 0 <= k < path.len() - 1 && k < g.predicates@.len() ==> a.dom().contains(path[k]) && exists|l: usize| l < 2 && l < K
            && a[path[k]].children[l as int] == Some(path[k + 1]) && #[trigger] edge_poly(a[path[k]].value.aff, l, g.predicates@[k])
}

pub proof fn lemma_gen_init<const K: usize>(a: AArena<K>, g: PolyhedraGen, root: usize)
    requires g.iter.stack@ == seq![DfsNodeData { depth: 0, index: root, n_remaining: 0 }], g.predicates@.len() == 0, g.last_depth == 0,
        a.dom().contains(root), a[root].parent is None
    ensures gen_inv(a, g, Seq::<usize>::empty())
{
    reveal(gen_inv);
}
pub proof fn lemma_gen_skip<const K: usize>(a: AArena<K>, g0: PolyhedraGen, g1: PolyhedraGen, path: Seq<usize>)
    requires gen_inv(a, g0, path), skip_step(g0.iter.stack@, g0.iter.last_push, g1.iter.stack@, g1.iter.last_push),
        g1.predicates@ == g0.predicates@, g1.last_depth == g0.last_depth
    ensures gen_inv(a, g1, path)
{
    reveal(gen_inv);
    lemma_anc_skip(a, g0.iter.stack@, g0.iter.last_push, g1.iter.stack@, g1.iter.last_push, path);
}
// facts next() needs about the state before the step
pub proof fn lemma_gen_facts<const K: usize>(a: AArena<K>, g: PolyhedraGen, path: Seq<usize>)
    requires gen_inv(a, g, path)
    ensures anc_inv(a, g.iter.stack@, path), path.len() <= usize::MAX,
        path.len() == 0 ==> g.predicates@.len() == 0 && g.last_depth == 0,
        path.len() > 0 ==> g.last_depth == path.len() - 1 && g.predicates@.len() == path.len() - 1,
{
    reveal(gen_inv);
}
// the step: the new path is the old one cut at the depth of the new node plus that node; the reported half-spaces are cut accordingly
// and extended by the half-space of the parent edge (none for a start node without parent)
pub proof fn lemma_gen_step(a: AArena<2>, g0: PolyhedraGen, g1: PolyhedraGen, path: Seq<usize>, it: DfsNodeData, label: usize)
    requires gen_inv(a, g0, path), anc_inv(a, g1.iter.stack@, next_path(path, it)), it.depth <= path.len(), it.depth < usize::MAX,
        g1.last_depth == it.depth,
        it.depth == 0 ==> g1.predicates@.len() == 0,
        it.depth >= 1 ==> g1.predicates@.len() == it.depth && g1.predicates@.take(it.depth - 1) =~= g0.predicates@.take(it.depth - 1)
            && a.dom().contains(path[it.depth - 1]) && label < 2 && a[path[it.depth - 1]].children[label as int] == Some(it.index)
            && edge_poly(a[path[it.depth - 1]].value.aff, label, g1.predicates@[it.depth - 1]),
    ensures gen_inv(a, g1, next_path(path, it))
{
    reveal(gen_inv);
    let p1 = next_path(path, it);
    let d = it.depth as int;
    assert(p1.len() == d + 1);
    assert forall|k: int| 0 <= k < p1.len() - 1 && k < g1.predicates@.len() implies a.dom().contains(p1[k]) && exists|l: usize| l < 2 && l < 2
        && a[p1[k]].children[l as int] == Some(p1[k + 1]) && #[trigger] edge_poly(a[p1[k]].value.aff, l, g1.predicates@[k]) by {
        if k < d - 1 {
            assert(p1[k] == path[k] && p1[k + 1] == path[k + 1]);
            assert(g1.predicates@[k] == g1.predicates@.take(d - 1)[k]);
            assert(g0.predicates@[k] == g0.predicates@.take(d - 1)[k]);
            let l = choose|l: usize| l < 2 && l < 2 && a[path[k]].children[l as int] == Some(path[k + 1]) && #[trigger] edge_poly(a[path[k]].value.aff, l, g0.predicates@[k]);
            assert(edge_poly(a[p1[k]].value.aff, l, g1.predicates@[k]));
        } else {
            assert(p1[k] == path[d - 1] && p1[k + 1] == it.index);
            assert(edge_poly(a[p1[k]].value.aff, label, g1.predicates@[k]));
        }
    }
}

// ---------------------------------------------------------------- what the reported half-spaces mean for inputs (binary trees, one-row decisions)
// x is routed along the path: at every path node the decision selects the label under which the next path node hangs
pub open spec fn routed(a: AArena<2>, path: Seq<usize>, x: V) -> bool {
    forall|k: int| 0 <= k < path.len() - 1 ==> 0 <= decide(&a[#[trigger] path[k]].value.aff, x) < 2
        && a[path[k]].children[decide(&a[path[k]].value.aff, x)] == Some(path[k + 1])
}
pub open spec fn strictly_inside(q: Polytope, x: V) -> bool {
    forall|i: int| 0 <= i < q.mat.nrows() ==> dotp(#[trigger] q.mat.m()[i], x, x.len() as int) < q.bias.v()[i]
}
pub proof fn lemma_decide_one(f: &AffFunc, x: V)
    requires f.mat.nrows() == 1
    ensures decide(f, x) == (if f.row_sat(0, x) { 1int } else { 0int })
{
    assert((1usize << 0usize) == 1usize) by(bit_vector);
    assert(label_val(f, x, 0) == 0);
}
// C09: an input routed through the node satisfies every reported path condition ...
pub proof fn lemma_route_in_region(a: AArena<2>, g: PolyhedraGen, path: Seq<usize>, x: V, in_dim: usize)
    requires gen_inv(a, g, path), routed(a, path, x), aff_shape_ok(a, in_dim), x.len() == in_dim, kids_unique(a), leaf_ok(a),
    ensures forall|k: int| 0 <= k < g.predicates@.len() ==> (#[trigger] g.predicates@[k]).sat(x)
{
    reveal(gen_inv);
    assert forall|k: int| 0 <= k < g.predicates@.len() implies (#[trigger] g.predicates@[k]).sat(x) by {
        let f = a[path[k]].value.aff;
        let q = g.predicates@[k];
        let l = choose|l: usize| l < 2 && l < 2 && a[path[k]].children[l as int] == Some(path[k + 1]) && #[trigger] edge_poly(f, l, q);
        assert(!no_kids(a[path[k]])) by { assert(a[path[k]].children[l as int].is_some()); }
        assert(!a[path[k]].isleaf);
        lemma_shape_one_row(a, in_dim, path[k]);
        lemma_decide_one(&f, x);
        let dl = decide(&f, x);
        assert(a[path[k]].children[dl] == Some(path[k + 1]));
        assert(dl == l as int) by { if dl != l as int { assert(a[path[k]].children[dl] != a[path[k]].children[l as int]); } }
        assert forall|i: int| 0 <= i < q.mat.nrows() implies #[trigger] q.row_sat(i, x) by {
            lemma_edge_poly_sat(f, l, q, x, i);
        }
    }
}
// ... and an input strictly inside every reported half-space is routed through the node
pub proof fn lemma_interior_routed(a: AArena<2>, g: PolyhedraGen, path: Seq<usize>, x: V, in_dim: usize)
    requires gen_inv(a, g, path), aff_shape_ok(a, in_dim), x.len() == in_dim, leaf_ok(a),
        forall|k: int| 0 <= k < g.predicates@.len() ==> strictly_inside(#[trigger] g.predicates@[k], x),
    ensures routed(a, path, x)
{
    reveal(gen_inv);
    assert forall|k: int| 0 <= k < path.len() - 1 implies 0 <= decide(&a[#[trigger] path[k]].value.aff, x) < 2
        && a[path[k]].children[decide(&a[path[k]].value.aff, x)] == Some(path[k + 1]) by {
        let f = a[path[k]].value.aff;
        let q = g.predicates@[k];
        let l = choose|l: usize| l < 2 && l < 2 && a[path[k]].children[l as int] == Some(path[k + 1]) && #[trigger] edge_poly(f, l, q);
        assert(!no_kids(a[path[k]])) by { assert(a[path[k]].children[l as int].is_some()); }
        assert(!a[path[k]].isleaf);
        lemma_shape_one_row(a, in_dim, path[k]);
        lemma_decide_one(&f, x);
        assert(strictly_inside(q, x));
        lemma_edge_poly_sat(f, l, q, x, 0);
        assert(q.mat.nrows() == 1);
        assert(dotp(q.mat.m()[0], x, x.len() as int) < q.bias.v()[0]);
        if l == 1 { assert(f.row_sat(0, x)); } else { assert(!f.row_sat(0, x)); }
    }
}
// a node with a child is a decision; for K = 2 it has exactly one row
pub proof fn lemma_shape_one_row(a: AArena<2>, in_dim: usize, p: usize)
    requires aff_shape_ok(a, in_dim), a.dom().contains(p), !a[p].isleaf
    ensures a[p].value.aff.mat.nrows() == 1, a[p].value.aff.ok(), a[p].value.aff.mat.ncols() == in_dim
{
    let n = a[p].value.aff.mat.nrows() as usize;
    assert(1 <= n < 16 && (1usize << n) <= 2usize ==> n == 1) by (bit_vector);
}

// ---- disjoint interiors / cover ----
// two paths from the same start along which the same input is routed agree as far as both go
pub proof fn lemma_routed_agree(a: AArena<2>, p1: Seq<usize>, p2: Seq<usize>, x: V, k: int)
    requires routed(a, p1, x), routed(a, p2, x), p1.len() > 0, p2.len() > 0, p1[0] == p2[0], 0 <= k < p1.len(), k < p2.len()
    ensures p1[k] == p2[k]
    decreases k
{
    if k > 0 {
        lemma_routed_agree(a, p1, p2, x, k - 1);
        assert(a[p1[k - 1]].children[decide(&a[p1[k - 1]].value.aff, x)] == Some(p1[k]));
        assert(a[p2[k - 1]].children[decide(&a[p2[k - 1]].value.aff, x)] == Some(p2[k]));
    }
}
// C09: the regions reported for two distinct terminals have disjoint interiors
pub proof fn lemma_disjoint_interiors(a: AArena<2>, g1: PolyhedraGen, p1: Seq<usize>, g2: PolyhedraGen, p2: Seq<usize>, x: V, in_dim: usize)
    requires gen_inv(a, g1, p1), gen_inv(a, g2, p2), aff_shape_ok(a, in_dim), x.len() == in_dim, leaf_ok(a), p1.len() > 0, p2.len() > 0, p1[0] == p2[0],
        a.dom().contains(p1.last()), a.dom().contains(p2.last()), a[p1.last()].isleaf, a[p2.last()].isleaf, p1.last() != p2.last(),
        forall|k: int| 0 <= k < g1.predicates@.len() ==> strictly_inside(#[trigger] g1.predicates@[k], x),
        forall|k: int| 0 <= k < g2.predicates@.len() ==> strictly_inside(#[trigger] g2.predicates@[k], x),
    ensures false
{
    lemma_interior_routed(a, g1, p1, x, in_dim);
    lemma_interior_routed(a, g2, p2, x, in_dim);
    // the shorter path ends in a node that the longer one passes (and leaves through a child): a leaf has no child
    if p1.len() <= p2.len() {
        lemma_routed_agree(a, p1, p2, x, p1.len() - 1);
        if p1.len() < p2.len() {
            let k = p1.len() - 1;
            assert(a[p2[k]].children[decide(&a[p2[k]].value.aff, x)] == Some(p2[k + 1]));
            assert(!no_kids(a[p2[k]]));
        }
    } else {
        lemma_routed_agree(a, p2, p1, x, p2.len() - 1);
        let k = p2.len() - 1;
        assert(a[p1[k]].children[decide(&a[p1[k]].value.aff, x)] == Some(p1[k + 1]));
        assert(!no_kids(a[p1[k]]));
    }
}
// a tree without missing branches: every decision lists both children
pub open spec fn total_tree(a: AArena<2>) -> bool {
    forall|i: usize| #![trigger a[i].children] a.dom().contains(i) && !a[i].isleaf ==> a[i].children[0] is Some && a[i].children[1] is Some
}
// C09 (cover): in a tree without missing branches every input of the tree's dimension reaches a terminal
pub proof fn lemma_total_defined(a: AArena<2>, h: Map<usize, nat>, in_dim: usize, idx: usize, x: V)
    requires total_tree(a), aff_shape_ok(a, in_dim), kids_ok(a), ranked_down(a, h), a.dom().contains(idx), x.len() == in_dim
    ensures tree_fn(a, h, idx, x) is Some
    decreases h[idx]
{
    let nd = a[idx];
    if !nd.isleaf {
        lemma_shape_one_row(a, in_dim, idx);
        lemma_decide_one(&nd.value.aff, x);
        let l = decide(&nd.value.aff, x);
        assert(nd.children[l] is Some);
        let c = nd.children[l].unwrap();
        assert(a.dom().contains(c) && h[c] < h[idx]);
        lemma_total_defined(a, h, in_dim, c, x);
    }
}
// ---- end regions_spec ----
