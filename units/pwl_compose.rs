// unit pwl_compose — the grafting loop of composition (src/pwl/impl_composition.rs: generic_composition_inplace),
// specialised to the un-pruned schema FunctionComposition and the no-op visitor (rule G1), as used by compose::<false,false>
use vstd::prelude::*;
use std::marker::PhantomData;
use std::mem;
use std::ops::{Add, Sub, Mul, Div, Neg};
verus! {
global size_of usize == 8;

//@include prelude/inc_pwl_core.rs

impl<N, const K: usize> Tree<N, K> {
// proved in unit tree_graph; only needed here so that the (unreachable) pruning branches type-check
//@fn src/tree/graph.rs | impl<N, const K: usize> Tree<N, K> | remove_child
//@trusted
//@spec
    requires old(self).wf(), label < K, old(self).arena@.dom().len() <= i32::MAX,
        old(self).arena@.dom().contains(parent), old(self).arena@[parent].children[label as int] is Some,
    ensures final(self).wf(), final(self).root == old(self).root
//@end
//@fn src/tree/graph.rs | impl<N, const K: usize> Tree<N, K> | merge_child_with_parent
//@trusted
//@spec
    requires old(self).wf(), label < K, old(self).arena@.dom().contains(parent_idx), count_some_from(old(self).arena@[parent_idx].children, 0) == 1,
    ensures final(self).root == old(self).root
//@end
}

// update_decision / update_terminal of the schema (verified in unit pwl_schema with the same contracts)
//@fn src/pwl/impl_composition.rs | impl CompositionSchema for FunctionComposition | update_decision | as=function_composition_update_decision
//@spec
    requires original.ok(), context.ok(), original.mat.ncols() == context.mat.nrows()
    ensures r.ok(), r.mat.ncols() == context.mat.ncols(), r.mat.nrows() == original.mat.nrows(),
        forall|x: V, i: int| x.len() == context.mat.ncols() && 0 <= i < original.mat.nrows() ==> (#[trigger] r.row_sat(i, x) <==> original.row_sat(i, context.ap(x))),
//@hint start
        broadcast use axiom_array2_shape;
//@hint end
        proof {
            let rm = mm(original.mat.m(), context.mat.m(), context.mat.ncols());
            let rb = vadd(vneg(mv(original.mat.m(), context.bias.v())), original.bias.v());
            assert forall|x: V, i: int| x.len() == context.mat.ncols() && 0 <= i < original.mat.nrows() implies
                (#[trigger] dotp(rm[i], x, x.len() as int) <= rb[i] <==> original.row_sat(i, context.ap(x))) by {
                lemma_update_decision_raw(original.mat.m(), original.bias.v(), context.mat.m(), context.bias.v(), original.mat.ncols(), context.mat.ncols(), x, i);
            }
        }
//@end
//@fn src/pwl/impl_composition.rs | impl CompositionSchema for FunctionComposition | update_terminal | as=function_composition_update_terminal
//@spec
    requires original.ok(), context.ok(), original.mat.ncols() == context.mat.nrows()
    ensures r.ok(), r.mat.ncols() == context.mat.ncols(), r.mat.nrows() == original.mat.nrows(),
        forall|x: V| x.len() == context.mat.ncols() ==> #[trigger] r.ap(x) =~= original.ap(context.ap(x)),
//@end

pub proof fn lemma_update_decision_raw(m: M, b: V, f: M, cb: V, k: int, n: int, x: V, i: int)
    requires m_ok(m, m.len() as int, k), m_ok(f, k, n), cb.len() == k, b.len() == m.len(), x.len() == n, n >= 0, 0 <= i < m.len()
    ensures dotp(mm(m, f, n)[i], x, n) <= vadd(vneg(mv(m, cb)), b)[i] <==> dotp(m[i], vadd(mv(f, x), cb), k) <= b[i]
{
    lemma_mm_mv(m, f, x, n);
    lemma_mv_add_right(m, mv(f, x), cb);
    let y = vadd(mv(f, x), cb);
    assert(mv(mm(m, f, n), x)[i] == dotp(mm(m, f, n)[i], x, n));
    assert(mv(m, y)[i] == dotp(m[i], y, y.len() as int));
    assert(mv(m, y)[i] == vadd(mv(m, mv(f, x)), mv(m, cb))[i]);
}

impl<const K: usize> AffTree<K> {
//@fn src/pwl/afftree.rs | impl<const K: usize> AffTree<K> | update_node
//@spec
    requires old(self).tree.wf()
    ensures
        final(self).tree.root == old(self).tree.root, final(self).in_dim == old(self).in_dim,
        !old(self).a().dom().contains(node) ==> r is Err && final(self).a() == old(self).a(),
        old(self).a().dom().contains(node) ==> r is Ok && r->Ok_0 == old(self).a()[node].value.aff
            && same_shape(old(self).a(), final(self).a())
            && final(self).a()[node].value.aff == aff && final(self).a()[node].value.state == old(self).a()[node].value.state
            && forall|i: usize| old(self).a().dom().contains(i) && i != node ==> final(self).a()[i] == old(self).a()[i],
        same_shape(old(self).a(), final(self).a()) ==> final(self).tree.wf(),
//@hint start
        proof { lemma_same_shape_wf_all(old(self).a(), old(self).tree.root); }
//@end
}


// ---------------------------------------------------------------- stage 1: structure
// the listed terminals are distinct leaves of the tree whose output feeds the left operand (dimension dl)
pub open spec fn terminals_ok<const K: usize>(a: AArena<K>, ts: Seq<usize>, dl: usize) -> bool {
    &&& forall|j: int| 0 <= j < ts.len() ==> a.dom().contains(#[trigger] ts[j]) && a[ts[j]].isleaf && a[ts[j]].value.aff.mat.nrows() == dl
    &&& forall|j1: int, j2: int| 0 <= j1 < j2 < ts.len() ==> ts[j1] != ts[j2]
}
// nodes of the tree as it was before keep their index; its decisions are untouched; only the processed terminals change
pub open spec fn old_nodes_kept<const K: usize>(a0: AArena<K>, a1: AArena<K>) -> bool {
    forall|i: usize| #![trigger a1[i]] a0.dom().contains(i) ==> a1.dom().contains(i) && a1[i].parent == a0[i].parent && (!a0[i].isleaf ==> a1[i] == a0[i])
}
// a work item (p0, p1): the copy p1 of lhs node p0 exists, has no children yet and carries a function of the right shape
pub open spec fn item_ok<const K: usize>(al: AArena<K>, a: AArena<K>, it: (usize, usize), in_dim: usize) -> bool {
    &&& al.dom().contains(it.0) && a.dom().contains(it.1)
    &&& a[it.1].isleaf && no_kids(a[it.1])
    &&& a[it.1].value.aff.ok() && a[it.1].value.aff.mat.ncols() == in_dim && a[it.1].value.aff.mat.nrows() == al[it.0].value.aff.mat.nrows()
}

impl<const K: usize> AffTree<K> {
//@fn src/pwl/impl_composition.rs | impl<const K: usize> AffTree<K> | generic_composition_inplace
//@attr #[verifier::exec_allows_no_decreases_clause]
//@sigsub <I, C, V> =>
//@sigsub terminals: I, => terminals: Vec<TreeIndex>,
//@sigsub _schema: C, =>
//@sigsub mut visitor: V, =>
//@sigsub where I: IntoIterator<Item = TreeIndex>, C: CompositionSchema, V: CompositionVisitor, =>
//@bodysub let iter = terminals.into_iter(); =>
//@bodysub visitor.start_composition(iter.size_hint().0); =>
//@bodysub for terminal_idx in iter { => let mut __t: usize = 0; while __t < terminals.len() { let terminal_idx = terminals[__t]; __t += 1;
//@bodysub terminal.value.aff.clone() => terminal.value.aff.clone_aff()
//@bodysub ndarray::OwnedRepr<f64> => OwnedRepr<f64>
//@bodysub C::update_terminal( => function_composition_update_terminal(
//@bodysub C::update_decision( => function_composition_update_decision(
//@bodysub visitor.start_subtree(terminal_idx); =>
//@bodysub visitor.finish_subtree(n_nodes); =>
//@bodysub visitor.finish_composition(); =>
//@bodysub let mut n_nodes = 0; =>
//@bodysub n_nodes += 1; =>
//@bodysub let child0 = edg.target_value; => let child0 = &lhs.tree.tree_node(child0_idx).unwrap().value;
//@bodysub lhs.tree.is_leaf(child0_idx).unwrap() => lhs.tree.tree_node(child0_idx).unwrap().isleaf
//@bodysub C::explore(rhs, parent1_idx, child1_idx) => true
//@spec
    requires K >= 2, K < usize::MAX,
        lhs.tree.wf(), lhs.tree.root is Some, aff_shape_ok(lhs.a(), lhs.in_dim),
        old(rhs).tree.wf(), aff_shape_ok(old(rhs).a(), old(rhs).in_dim),
        terminals_ok(old(rhs).a(), terminals@, lhs.in_dim),
    ensures
        // C04 (for the un-pruned composition): the result is a well-formed tree of the same input dimension
        final(rhs).tree.wf(), final(rhs).tree.root == old(rhs).tree.root, final(rhs).in_dim == old(rhs).in_dim,
        aff_shape_ok(final(rhs).a(), final(rhs).in_dim),
        // C02: the surviving nodes of the receiving tree keep their indices, its decisions are untouched
        old_nodes_kept(old(rhs).a(), final(rhs).a()),
//@loop 1
            invariant
                K >= 2, K < usize::MAX, lhs.tree.wf(), lhs.tree.root is Some, aff_shape_ok(lhs.a(), lhs.in_dim),
                terminals_ok(old(rhs).a(), terminals@, lhs.in_dim), 0 <= __t <= terminals@.len(),
                rhs.tree.wf(), rhs.tree.root == old(rhs).tree.root, rhs.in_dim == old(rhs).in_dim, aff_shape_ok(rhs.a(), rhs.in_dim),
                old_nodes_kept(old(rhs).a(), rhs.a()),
                // terminals still to come are untouched
                forall|j: int| __t <= j < terminals@.len() ==> rhs.a()[#[trigger] terminals@[j]] == old(rhs).a()[terminals@[j]],
//@hint loop 1 start
            let ghost a_start = rhs.a();
            proof { assert(terminals@[__t as int] == terminals@[__t as int]); }
//@loop 2
                invariant
                    K >= 2, K < usize::MAX, lhs.tree.wf(), lhs.tree.root is Some, aff_shape_ok(lhs.a(), lhs.in_dim),
                    terminals_ok(old(rhs).a(), terminals@, lhs.in_dim), 0 < __t <= terminals@.len(), terminal_idx == terminals@[__t - 1],
                    rhs.tree.wf(), rhs.tree.root == old(rhs).tree.root, rhs.in_dim == old(rhs).in_dim, aff_shape_ok(rhs.a(), rhs.in_dim),
                    old_nodes_kept(old(rhs).a(), rhs.a()),
                    forall|j: int| __t <= j < terminals@.len() ==> rhs.a()[#[trigger] terminals@[j]] == old(rhs).a()[terminals@[j]],
                    terminal_aff.ok(), terminal_aff.mat.ncols() == rhs.in_dim, terminal_aff.mat.nrows() == lhs.in_dim,
                    // work items
                    forall|j: int| 0 <= j < stack@.len() ==> item_ok(lhs.a(), rhs.a(), #[trigger] stack@[j], rhs.in_dim),
                    forall|j1: int, j2: int| 0 <= j1 < j2 < stack@.len() ==> stack@[j1].1 != stack@[j2].1,
                    // copies are either the terminal itself or fresh nodes
                    forall|j: int| 0 <= j < stack@.len() ==> (#[trigger] stack@[j]).1 == terminal_idx || !old(rhs).a().dom().contains(stack@[j].1),
//@hint loop 2 start
                let ghost a_pop = rhs.a();
                let ghost rest = stack@;
                proof {
                    // facts about the popped item
                    assert(item_ok(lhs.a(), rhs.a(), (parent0_idx, parent1_idx), rhs.in_dim));
                }
//@loop 3
                    invariant
                        K >= 2, K < usize::MAX, lhs.tree.wf(), lhs.tree.root is Some, aff_shape_ok(lhs.a(), lhs.in_dim),
                        terminals_ok(old(rhs).a(), terminals@, lhs.in_dim), 0 < __t <= terminals@.len(), terminal_idx == terminals@[__t - 1],
                        rhs.tree.wf(), rhs.tree.root == old(rhs).tree.root, rhs.in_dim == old(rhs).in_dim, aff_shape_ok(rhs.a(), rhs.in_dim),
                        old_nodes_kept(old(rhs).a(), rhs.a()),
                        forall|j: int| __t <= j < terminals@.len() ==> rhs.a()[#[trigger] terminals@[j]] == old(rhs).a()[terminals@[j]],
                        terminal_aff.ok(), terminal_aff.mat.ncols() == rhs.in_dim, terminal_aff.mat.nrows() == lhs.in_dim,
                        forall|j: int| 0 <= j < stack@.len() ==> item_ok(lhs.a(), rhs.a(), #[trigger] stack@[j], rhs.in_dim),
                        forall|j1: int, j2: int| 0 <= j1 < j2 < stack@.len() ==> stack@[j1].1 != stack@[j2].1,
                        forall|j: int| 0 <= j < stack@.len() ==> (#[trigger] stack@[j]).1 == terminal_idx || !old(rhs).a().dom().contains(stack@[j].1),
                        // the node being expanded
                        lhs.a().dom().contains(parent0_idx), rhs.a().dom().contains(parent1_idx),
                        parent1_idx == terminal_idx || !old(rhs).a().dom().contains(parent1_idx),
                        forall|j: int| 0 <= j < stack@.len() ==> (#[trigger] stack@[j]).1 != parent1_idx,
                        rhs.a()[parent1_idx].value.aff.ok() && rhs.a()[parent1_idx].value.aff.mat.ncols() == rhs.in_dim
                            && rhs.a()[parent1_idx].value.aff.mat.nrows() == lhs.a()[parent0_idx].value.aff.mat.nrows(),
                        0 <= __i <= __kids@.len(), __kids@.len() == kid_seq(lhs.a()[parent0_idx].children, 0).len(), __kids@.len() <= K,
                        n_children0 == __kids@.len(),
                        forall|j: int| 0 <= j < __kids@.len() ==> (#[trigger] __kids@[j]).source_idx == parent0_idx
                            && __kids@[j].label == kid_seq(lhs.a()[parent0_idx].children, 0)[j].0 && __kids@[j].target_idx == kid_seq(lhs.a()[parent0_idx].children, 0)[j].1,
                        created_children == __i, skipped_children == 0,
                        // slots of the labels still to come are empty; the node is a leaf until its first child arrives
                        forall|j: int| __i <= j < __kids@.len() ==> rhs.a()[parent1_idx].children[(#[trigger] __kids@[j]).label as int].is_none(),
                        __i == 0 ==> rhs.a()[parent1_idx].isleaf && no_kids(rhs.a()[parent1_idx]),
//@hint loop 3 start
                    proof {
                        lemma_kid_seq_members(lhs.a()[parent0_idx].children, 0);
                        lemma_kid_seq_len(lhs.a()[parent0_idx].children, 0);
                    }
//@end
}

} // verus!
fn main() {}
