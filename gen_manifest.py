#!/usr/bin/env python3
"""Regenerate MANIFEST.json from checks.py (single source of truth)."""
import json, os, sys
HERE = os.path.dirname(os.path.abspath(__file__))
sys.path.insert(0, HERE)
import checks

props = [json.loads(l) for l in open(os.path.join(HERE, 'properties.jsonl'))]
ids = [p['id'] for p in props]
cat = {'proof': 'proof', 'other': 'other', 'exploration': 'exploration', 'fault_enumeration': 'fault_enumeration'}
m = {
    'version': 1,
    'setup_cmd': 'cd /verif && ./setup.sh',
    'hooks': {
        'guard': 'affinitree_verif',
        'enable': "RUSTFLAGS='--cfg affinitree_verif' (set by ./check when it builds the bc harness against /repo)",
        'baseline_off_cmd': 'cd /repo && cargo test --workspace --no-fail-fast --offline',
        'source_commits': checks.HOOK_COMMITS if hasattr(checks, 'HOOK_COMMITS') else [],
        'add_only': True,
    },
    'engines': [
        {'name': 'vx+verus', 'path': '/verif/vx /verif/vxlib /verif/units /verif/prelude',
         'serves_properties': [p for p in ids if p in checks.PROPS and checks.PROPS[p]['units']],
         'kind_free_text': 'mechanical extraction of the real function text from /repo + contract templates, discharged by Verus 0.2026.09.13 (Z3), vacuity canaries on every run'},
        {'name': 'bc', 'path': '/verif/bc',
         'serves_properties': [p for p in ids if p in checks.PROPS and checks.PROPS[p].get('bounded')],
         'kind_free_text': 'native Rust harness linked against /repo: executable form of the contracts on exhaustively enumerated small cases with an exact rational oracle; bounded stand-in and counterexample search, never counted as proof'},
    ],
    'checks': [],
    'not_applicable': [],
    'notes': 'exit 2 from a check means UNDECIDED (lost anchor / unsupported construct / solver resource limit / vacuity guard), never a violation. Known findings: known_findings.txt.',
}
for pid in ids:
    if pid in checks.PROPS:
        c = checks.PROPS[pid]
        m['checks'].append({
            'property_id': pid,
            'quick_cmd': f'./check {pid} --tier quick',
            'thorough_cmd': f'./check {pid} --tier thorough',
            'evidence_file': f'/verif/evidence/{pid}.json',
            'replay_cmd_template': './check --replay {path}',
            'engine': 'vx+verus' + ('+bc' if c.get('bounded') else '') if c['units'] else 'bc',
            'level_claimed': {'category': cat[c['level']], 'text': c['level_text'], 'design_ref': c['design_ref']},
            'level_note': '; '.join(c['assumptions']),
            'technique': c['technique'],
        })
    else:
        m['not_applicable'].append({'property_id': pid, 'reason': checks.NOT_APPLICABLE.get(pid, 'check not built yet (work in progress)')})
json.dump(m, open(os.path.join(HERE, 'MANIFEST.json'), 'w'), indent=1)
print('checks:', [c['property_id'] for c in m['checks']], 'n/a:', [n['property_id'] for n in m['not_applicable']])
