// unit arch — C18: Architecture shape tracking (src/distill/arch.rs)
use vstd::prelude::*;
verus! {

// assumed shim: AffFunc as far as this unit needs it (its dimensions); the real indim()/outdim() are
// verified against the ndarray shim in unit aff_algebra
#[verifier::external_body]
#[derive(Debug)]
pub struct AffFunc { _p: () }
impl AffFunc {
    pub uninterp spec fn sp_indim(&self) -> usize;
    pub uninterp spec fn sp_outdim(&self) -> usize;
    #[verifier::external_body]
    pub fn indim(&self) -> (r: usize) ensures r == self.sp_indim() { unimplemented!() }
    #[verifier::external_body]
    pub fn outdim(&self) -> (r: usize) ensures r == self.sp_outdim() { unimplemented!() }
}

//@item src/distill/builder.rs | enum Layer
//@item src/distill/arch.rs | enum TensorShape | derive=Clone,Copy
//@item src/distill/arch.rs | enum ShapeError
//@item src/distill/arch.rs | struct Architecture

//@include prelude/net_spec.rs

impl TensorShape {
//@fn src/distill/arch.rs | impl TensorShape | max_dim
//@spec
    ensures r == flat(*self)
//@end

//@fn src/distill/arch.rs | impl TensorShape | compatible_dim
//@spec
    ensures r is Ok <==> flat(*self) == dim
//@end

//@fn src/distill/arch.rs | impl TensorShape | valid_index
//@spec
    ensures r is Ok <==> idx < flat(*self)
//@end
}

impl Architecture {
//@fn src/distill/arch.rs | impl Architecture | new
//@spec
    ensures arch_ok(r), r.input_shape == input_shape, r.current_shape == input_shape, r.operators@.len() == 0
//@hint end
        proof { assert(layers_of(Seq::<(Layer, TensorShape)>::empty()) =~= Seq::<Layer>::empty()); }
//@end

//@fn src/distill/arch.rs | impl Architecture | linear
//@spec
    requires arch_ok(*old(self))
    ensures
        // accepted exactly when dimension-compatible; an error leaves the architecture unchanged;
        // on success the layer is queued and the tracked shape is its output width
        queued(*old(self), *final(self), Layer::Linear(aff), r is Ok),
        queued(*old(self), *final(self), Layer::Linear(aff), r is Ok) ==> arch_ok(*final(self)),
//@hint start
        proof { assert forall|a1: Architecture, l: Layer, ok: bool| #[trigger] queued(*old(self), a1, l, ok) implies arch_ok(a1) by { lemma_queued_ok(*old(self), a1, l, ok); } }
//@end

//@fn src/distill/arch.rs | impl Architecture | partial_relu
//@spec
    requires arch_ok(*old(self))
    ensures
        queued(*old(self), *final(self), Layer::ReLU(idx), r is Ok),
        queued(*old(self), *final(self), Layer::ReLU(idx), r is Ok) ==> arch_ok(*final(self)),
//@hint start
        proof { assert forall|a1: Architecture, l: Layer, ok: bool| #[trigger] queued(*old(self), a1, l, ok) implies arch_ok(a1) by { lemma_queued_ok(*old(self), a1, l, ok); } }
//@end

//@fn src/distill/arch.rs | impl Architecture | partial_leaky_relu
//@spec
    requires arch_ok(*old(self))
    ensures
        queued(*old(self), *final(self), Layer::LeakyReLU(idx, alpha), r is Ok),
        queued(*old(self), *final(self), Layer::LeakyReLU(idx, alpha), r is Ok) ==> arch_ok(*final(self)),
//@hint start
        proof { assert forall|a1: Architecture, l: Layer, ok: bool| #[trigger] queued(*old(self), a1, l, ok) implies arch_ok(a1) by { lemma_queued_ok(*old(self), a1, l, ok); } }
//@end

//@fn src/distill/arch.rs | impl Architecture | partial_hard_tanh
//@spec
    requires arch_ok(*old(self))
    ensures
        queued(*old(self), *final(self), Layer::HardTanh(idx), r is Ok),
        queued(*old(self), *final(self), Layer::HardTanh(idx), r is Ok) ==> arch_ok(*final(self)),
//@hint start
        proof { assert forall|a1: Architecture, l: Layer, ok: bool| #[trigger] queued(*old(self), a1, l, ok) implies arch_ok(a1) by { lemma_queued_ok(*old(self), a1, l, ok); } }
//@end

//@fn src/distill/arch.rs | impl Architecture | partial_hard_sigmoid
//@spec
    requires arch_ok(*old(self))
    ensures
        queued(*old(self), *final(self), Layer::HardSigmoid(idx), r is Ok),
        queued(*old(self), *final(self), Layer::HardSigmoid(idx), r is Ok) ==> arch_ok(*final(self)),
//@hint start
        proof { assert forall|a1: Architecture, l: Layer, ok: bool| #[trigger] queued(*old(self), a1, l, ok) implies arch_ok(a1) by { lemma_queued_ok(*old(self), a1, l, ok); } }
//@end


//@fn src/distill/arch.rs | impl Architecture | relu
//@spec
    requires arch_ok(*old(self))
    ensures
        // one activation per neuron of the current width, in index order; always accepted; shape unchanged
        r is Ok, arch_ok(*final(self)),
        final(self).input_shape == old(self).input_shape, final(self).current_shape == old(self).current_shape,
        final(self).operators@ == old(self).operators@ + Seq::new(flat(old(self).current_shape) as nat, |i: int| (Layer::ReLU(i as usize), old(self).current_shape)),
//@loop 1
            invariant
                arch_ok(*self), self.input_shape == old(self).input_shape, self.current_shape == old(self).current_shape,
                self.operators@ == old(self).operators@ + Seq::new(idx as nat, |i: int| (Layer::ReLU(i as usize), old(self).current_shape)),
//@hint loop 1 end
            proof {
                assert(self.operators@ =~= old(self).operators@ + Seq::new((idx + 1) as nat, |i: int| (Layer::ReLU(i as usize), old(self).current_shape)));
            }
//@end

//@fn src/distill/arch.rs | impl Architecture | leaky_relu
//@spec
    requires arch_ok(*old(self))
    ensures
        // one activation per neuron of the current width, in index order; always accepted; shape unchanged
        r is Ok, arch_ok(*final(self)),
        final(self).input_shape == old(self).input_shape, final(self).current_shape == old(self).current_shape,
        final(self).operators@ == old(self).operators@ + Seq::new(flat(old(self).current_shape) as nat, |i: int| (Layer::LeakyReLU(i as usize, alpha), old(self).current_shape)),
//@loop 1
            invariant
                arch_ok(*self), self.input_shape == old(self).input_shape, self.current_shape == old(self).current_shape,
                self.operators@ == old(self).operators@ + Seq::new(idx as nat, |i: int| (Layer::LeakyReLU(i as usize, alpha), old(self).current_shape)),
//@hint loop 1 end
            proof {
                assert(self.operators@ =~= old(self).operators@ + Seq::new((idx + 1) as nat, |i: int| (Layer::LeakyReLU(i as usize, alpha), old(self).current_shape)));
            }
//@end

//@fn src/distill/arch.rs | impl Architecture | hard_tanh
//@spec
    requires arch_ok(*old(self))
    ensures
        // one activation per neuron of the current width, in index order; always accepted; shape unchanged
        r is Ok, arch_ok(*final(self)),
        final(self).input_shape == old(self).input_shape, final(self).current_shape == old(self).current_shape,
        final(self).operators@ == old(self).operators@ + Seq::new(flat(old(self).current_shape) as nat, |i: int| (Layer::HardTanh(i as usize), old(self).current_shape)),
//@loop 1
            invariant
                arch_ok(*self), self.input_shape == old(self).input_shape, self.current_shape == old(self).current_shape,
                self.operators@ == old(self).operators@ + Seq::new(idx as nat, |i: int| (Layer::HardTanh(i as usize), old(self).current_shape)),
//@hint loop 1 end
            proof {
                assert(self.operators@ =~= old(self).operators@ + Seq::new((idx + 1) as nat, |i: int| (Layer::HardTanh(i as usize), old(self).current_shape)));
            }
//@end

//@fn src/distill/arch.rs | impl Architecture | hard_sigmoid
//@spec
    requires arch_ok(*old(self))
    ensures
        // one activation per neuron of the current width, in index order; always accepted; shape unchanged
        r is Ok, arch_ok(*final(self)),
        final(self).input_shape == old(self).input_shape, final(self).current_shape == old(self).current_shape,
        final(self).operators@ == old(self).operators@ + Seq::new(flat(old(self).current_shape) as nat, |i: int| (Layer::HardSigmoid(i as usize), old(self).current_shape)),
//@loop 1
            invariant
                arch_ok(*self), self.input_shape == old(self).input_shape, self.current_shape == old(self).current_shape,
                self.operators@ == old(self).operators@ + Seq::new(idx as nat, |i: int| (Layer::HardSigmoid(i as usize), old(self).current_shape)),
//@hint loop 1 end
            proof {
                assert(self.operators@ =~= old(self).operators@ + Seq::new((idx + 1) as nat, |i: int| (Layer::HardSigmoid(i as usize), old(self).current_shape)));
            }
//@end

//@fn src/distill/arch.rs | impl Architecture | argmax
//@spec
    requires arch_ok(*old(self))
    ensures
        queued(*old(self), *final(self), Layer::Argmax, r is Ok),
        queued(*old(self), *final(self), Layer::Argmax, r is Ok) ==> arch_ok(*final(self)),
//@hint start
        proof { assert forall|a1: Architecture, l: Layer, ok: bool| #[trigger] queued(*old(self), a1, l, ok) implies arch_ok(a1) by { lemma_queued_ok(*old(self), a1, l, ok); } }
//@end
}

} // verus!
fn main() {}
