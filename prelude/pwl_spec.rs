// ---- prelude/pwl_spec.rs : what a piece-wise linear tree denotes ----
pub type AffNode<const K: usize> = TreeNode<AffContent, K>;
pub type AArena<const K: usize> = Map<usize, TreeNode<AffContent, K>>;

// value of the decision bits: sum over rows i < n of 2^i [row i holds at x]
pub open spec fn label_val(aff: &AffFunc, x: V, n: int) -> int
    decreases n
{
    if n <= 0 { 0 } else { label_val(aff, x, n - 1) + (if aff.row_sat(n - 1, x) { (1usize << ((n - 1) as usize)) as int } else { 0 }) }
}
pub open spec fn decide(aff: &AffFunc, x: V) -> int { label_val(aff, x, aff.mat.nrows()) }

// the partial function denoted by the subtree below idx (None = undefined)
pub open spec fn tree_fn<const K: usize>(a: AArena<K>, h: Map<usize, nat>, idx: usize, x: V) -> Option<V>
    decreases h[idx]
{
    let nd = a[idx];
    if nd.isleaf { Some(nd.value.aff.ap(x)) }
    else {
        let l = decide(&nd.value.aff, x);
        if 0 <= l < K && nd.children[l].is_some() && h[nd.children[l].unwrap()] < h[idx] {
            tree_fn(a, h, nd.children[l].unwrap(), x)
        } else { None }
    }
}

// follow the given labels from node nd; every label must be the one the decision selects for x
pub open spec fn follows<const K: usize>(a: AArena<K>, nd: AffNode<K>, x: V, ls: Seq<usize>) -> Option<AffNode<K>>
    decreases ls.len()
{
    if ls.len() == 0 { Some(nd) }
    else if !nd.isleaf && decide(&nd.value.aff, x) == ls[0] && ls[0] < K && nd.children[ls[0] as int].is_some() && a.dom().contains(nd.children[ls[0] as int].unwrap()) {
        follows(a, a[nd.children[ls[0] as int].unwrap()], x, ls.drop_first())
    } else { None }
}
pub proof fn lemma_follows_push<const K: usize>(a: AArena<K>, nd: AffNode<K>, x: V, ls: Seq<usize>, l: usize)
    requires follows(a, nd, x, ls).is_some()
    ensures follows(a, nd, x, ls.push(l)) == follows(a, follows(a, nd, x, ls).unwrap(), x, seq![l])
    decreases ls.len()
{
    if ls.len() == 0 {
        assert(ls.push(l) =~= seq![l]);
    } else {
        let c = nd.children[ls[0] as int].unwrap();
        assert(ls.push(l).drop_first() =~= ls.drop_first().push(l));
        assert(ls.push(l)[0] == ls[0]);
        lemma_follows_push(a, a[c], x, ls.drop_first(), l);
    }
}

// the path found by following decisions determines the denoted value
pub proof fn lemma_follows_tree_fn<const K: usize>(a: AArena<K>, h: Map<usize, nat>, idx: usize, x: V, ls: Seq<usize>)
    requires ranked_down(a, h), kids_ok(a), a.dom().contains(idx), follows(a, a[idx], x, ls).is_some()
    ensures
        follows(a, a[idx], x, ls).unwrap().isleaf ==> tree_fn(a, h, idx, x) == Some(follows(a, a[idx], x, ls).unwrap().value.aff.ap(x)),
        !follows(a, a[idx], x, ls).unwrap().isleaf && 0 <= decide(&follows(a, a[idx], x, ls).unwrap().value.aff, x) < K
            && follows(a, a[idx], x, ls).unwrap().children[decide(&follows(a, a[idx], x, ls).unwrap().value.aff, x)].is_none() ==> tree_fn(a, h, idx, x).is_none(),
    decreases ls.len()
{
    if ls.len() > 0 {
        let nd = a[idx];
        let c = nd.children[ls[0] as int].unwrap();
        assert(h[c] < h[idx]);
        lemma_follows_tree_fn(a, h, c, x, ls.drop_first());
    }
}

// shape invariant of C04: input dimensions, decision row counts
pub open spec fn aff_shape_ok<const K: usize>(a: AArena<K>, in_dim: usize) -> bool {
    forall|i: usize| #![trigger a[i].value] a.dom().contains(i) ==> a[i].value.aff.ok() && a[i].value.aff.mat.ncols() == in_dim
        && (!a[i].isleaf ==> 1 <= a[i].value.aff.mat.nrows() < 16 && (1usize << (a[i].value.aff.mat.nrows() as usize)) <= K)
}
// both trees denote the same partial function on inputs of the tree's dimension
#[verifier::opaque]
pub open spec fn same_denotation<const K: usize>(a0: AArena<K>, a1: AArena<K>, root: usize, in_dim: usize) -> bool {
    forall|h0: Map<usize, nat>, h1: Map<usize, nat>, x: V| #![trigger tree_fn(a0, h0, root, x), tree_fn(a1, h1, root, x)]
        ranked_down(a0, h0) && ranked_down(a1, h1) && x.len() == in_dim ==> tree_fn(a1, h1, root, x) == tree_fn(a0, h0, root, x)
}

pub proof fn lemma_same_denotation_refl<const K: usize>(a: AArena<K>, root: usize, in_dim: usize)
    requires kids_ok(a), a.dom().contains(root)
    ensures same_denotation(a, a, root, in_dim)
{
    reveal(same_denotation);
    assert forall|h0: Map<usize, nat>, h1: Map<usize, nat>, x: V| #![trigger tree_fn(a, h0, root, x), tree_fn(a, h1, root, x)]
        ranked_down(a, h0) && ranked_down(a, h1) implies tree_fn(a, h1, root, x) == tree_fn(a, h0, root, x) by {
        lemma_tree_fn_rank_indep(a, h0, h1, root, x);
    }
}
// the denoted value does not depend on which height map witnesses acyclicity
pub proof fn lemma_tree_fn_rank_indep<const K: usize>(a: AArena<K>, h0: Map<usize, nat>, h1: Map<usize, nat>, idx: usize, x: V)
    requires ranked_down(a, h0), ranked_down(a, h1), kids_ok(a), a.dom().contains(idx)
    ensures tree_fn(a, h1, idx, x) == tree_fn(a, h0, idx, x)
    decreases h0[idx]
{
    let nd = a[idx];
    if !nd.isleaf {
        let l = decide(&nd.value.aff, x);
        if 0 <= l < K && nd.children[l].is_some() {
            assert(h0[nd.children[l].unwrap()] < h0[idx]);
            assert(h1[nd.children[l].unwrap()] < h1[idx]);
            lemma_tree_fn_rank_indep(a, h0, h1, nd.children[l].unwrap(), x);
        }
    }
}

// ---- effect of apply_func (proved in unit pwl_tree) ----
pub open spec fn r_ok_leaf<const K: usize>(a: AArena<K>, i: usize) -> bool { a.dom().contains(i) && a[i].isleaf }
pub open spec fn leaf_done<const K: usize>(a0: AArena<K>, a1: AArena<K>, i: usize, f: &AffFunc) -> bool {
    a1[i].value.state == a0[i].value.state && a1[i].value.aff.ok() && a1[i].value.aff.mat.ncols() == a0[i].value.aff.mat.ncols() && a1[i].value.aff.mat.nrows() == f.mat.nrows()
        && forall|x: V| x.len() == a0[i].value.aff.mat.ncols() ==> #[trigger] a1[i].value.aff.ap(x) =~= f.ap(a0[i].value.aff.ap(x))
}

// node `node` got its function replaced by `f` after it; nothing else changed
pub open spec fn composed_at<const K: usize>(a0: AArena<K>, a1: AArena<K>, node: usize, f: &AffFunc) -> bool {
    &&& same_shape(a0, a1) && a0.dom().contains(node)
    &&& a1[node].value.state == a0[node].value.state
    &&& a1[node].value.aff.ok() && a1[node].value.aff.mat.ncols() == a0[node].value.aff.mat.ncols() && a1[node].value.aff.mat.nrows() == f.mat.nrows()
    &&& forall|x: V| x.len() == a0[node].value.aff.mat.ncols() ==> #[trigger] a1[node].value.aff.ap(x) =~= f.ap(a0[node].value.aff.ap(x))
    &&& forall|i: usize| a0.dom().contains(i) && i != node ==> #[trigger] a1[i] == a0[i]
}

// effect of apply_func: every terminal composed with f, decisions untouched
pub open spec fn all_leaves_composed<const K: usize>(a0: AArena<K>, a1: AArena<K>, f: &AffFunc) -> bool {
    &&& same_shape(a0, a1)
    &&& forall|i: usize| #![trigger a1[i]] a0.dom().contains(i) && !a0[i].isleaf ==> a1[i] == a0[i]
    &&& forall|i: usize| #![trigger a1[i]] a0.dom().contains(i) && a0[i].isleaf ==> a1[i].value.state == a0[i].value.state
            && a1[i].value.aff.ok() && a1[i].value.aff.mat.ncols() == a0[i].value.aff.mat.ncols() && a1[i].value.aff.mat.nrows() == f.mat.nrows()
            && forall|x: V| x.len() == a0[i].value.aff.mat.ncols() ==> #[trigger] a1[i].value.aff.ap(x) =~= f.ap(a0[i].value.aff.ap(x))
}

// apply_func(a) is the special case of composition with an affine g:  h(x) == a(f(x)), undefined where f is
pub proof fn lemma_apply_func_tree_fn<const K: usize>(a0: AArena<K>, a1: AArena<K>, h: Map<usize, nat>, f: &AffFunc, idx: usize, x: V, in_dim: usize)
    requires all_leaves_composed(a0, a1, f), ranked_down(a0, h), kids_ok(a0), a0.dom().contains(idx), aff_shape_ok(a0, in_dim), x.len() == in_dim
    ensures tree_fn(a1, h, idx, x) == (match tree_fn(a0, h, idx, x) { Some(y) => Some(f.ap(y)), None => None })
    decreases h[idx]
{
    let nd = a0[idx];
    if nd.isleaf {
        assert(a1[idx].isleaf);
    } else {
        assert(a1[idx] == a0[idx]);
        let l = decide(&nd.value.aff, x);
        if 0 <= l < K && nd.children[l].is_some() && h[nd.children[l].unwrap()] < h[idx] {
            lemma_apply_func_tree_fn(a0, a1, h, f, nd.children[l].unwrap(), x, in_dim);
        }
    }
}


// g after f as partial functions
pub open spec fn and_then_fn<const K: usize>(a0: AArena<K>, h0: Map<usize, nat>, al: AArena<K>, hl: Map<usize, nat>, rl: usize, idx: usize, x: V) -> Option<V> {
    match tree_fn(a0, h0, idx, x) { None => None, Some(y) => tree_fn(al, hl, rl, y) }
}

// ---- end pwl_spec ----
