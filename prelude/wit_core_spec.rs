// ---- prelude/wit_core_spec.rs : C05 at tree level - every cached witness satisfies, up to the containment tolerance, every half-space of its node's path ----
// ---------------------------------------------------------------- specification
// the point w satisfies, up to the tolerance, the half-space reported for the edge (decision f --l--> child): the rows of f for label 1, the negated rows
// for label 0 (this is the polytope PolyhedraGen / polyhedral_path_characterization report for the edge, see edge_poly)
pub open spec fn wit_edge(f: AffFunc, l: int, w: V) -> bool {
    let s = if l == 1 { 1real } else { 0real - 1real };
    tol_sat(mscale(f.mat.m(), s), vscale(f.bias.v(), s), w)
}
// the edge leaving p under label l lies on the path from the root to c (its target is c or a proper ancestor of c)
pub open spec fn edge_above<const K: usize>(a: AArena<K>, p: usize, l: int, c: usize) -> bool {
    a.dom().contains(p) && 0 <= l < K && a[p].children[l] is Some && (a[p].children[l].unwrap() == c || desc(a, a[p].children[l].unwrap(), c))
}
pub open spec fn wit_on_path<const K: usize>(a0: AArena<K>, c: usize, w: V) -> bool {
    forall|p: usize, l: int| #[trigger] edge_above(a0, p, l, c) ==> wit_edge(a0[p].value.aff, l, w)
}
pub open spec fn wits_ok<const K: usize>(a0: AArena<K>, c: usize, st: NodeState) -> bool {
    st matches NodeState::FeasibleWitness(v) ==> forall|i: int| 0 <= i < v@.len() ==> wit_on_path(a0, c, (#[trigger] v@[i]).v())
}
// the cache contract for witnesses: the witnesses stored in arena a are right for the paths of arena a0 (a0 == a: the property itself;
// during the elimination: a0 is the tree at entry, whose paths are supersets of the current ones)
#[verifier::opaque]
pub open spec fn wit_inv<const K: usize>(a0: AArena<K>, a: AArena<K>) -> bool {
    forall|c: usize| #![trigger a[c].value] a.dom().contains(c) ==> wits_ok(a0, c, a[c].value.state)
}
// the current tree is the original one with decisions spliced out and subtrees removed: every current edge (p --l--> k) comes from the original edge
// leaving p under l, whose target is k or an ancestor of k
#[verifier::opaque]
pub open spec fn emb_inv<const K: usize>(a0: AArena<K>, a: AArena<K>) -> bool {
    forall|p: usize, l: int| #![trigger a[p].children[l]] a.dom().contains(p) && 0 <= l < K && a[p].children[l] is Some ==> edge_above(a0, p, l, a[p].children[l].unwrap())
}

// ---------------------------------------------------------------- descendants
pub proof fn lemma_desc_trans<const K: usize>(a: AArena<K>, x: usize, y: usize, z: usize, f: nat)
    requires desc(a, x, y), is_desc(a, y, z, f)
    ensures desc(a, x, z)
    decreases f
{
    let p = a[z].parent.unwrap();
    if p != y { lemma_desc_trans(a, x, y, p, (f - 1) as nat); }
    lemma_desc_via_parent(a, x, z);
}
// an edge above k is above everything below k
pub proof fn lemma_edge_above_down<const K: usize>(a: AArena<K>, p: usize, l: int, k: usize, c: usize)
    requires edge_above(a, p, l, k), k == c || desc(a, k, c)
    ensures edge_above(a, p, l, c)
{
    let k0 = a[p].children[l].unwrap();
    if k != c && k0 != k {
        let f = choose|f: nat| is_desc(a, k, c, f);
        lemma_desc_trans(a, k0, k, c, f);
    }
}
// the source of an edge above c is a proper ancestor of c
pub proof fn lemma_edge_above_desc<const K: usize>(a: AArena<K>, p: usize, l: int, c: usize)
    requires edge_above(a, p, l, c), kids_ok(a)
    ensures desc(a, p, c)
{
    let k0 = a[p].children[l].unwrap();
    assert(a.dom().contains(k0) && a[k0].parent == Some(p));
    lemma_desc_child(a, p, k0);
    if k0 != c { let f = choose|f: nat| is_desc(a, k0, c, f); lemma_desc_trans(a, p, k0, c, f); }
}
// ---- end wit_core_spec ----
