use vstd::prelude::*;
verus! {

pub type TreeIndex = usize;

// ---- minimal tree stand-in for the prototype (the real unit uses the Slab shim)
pub struct TreeNode<const K: usize> {
    pub parent: Option<TreeIndex>,
    pub children: [Option<TreeIndex>; K],
    pub isleaf: bool,
}
#[verifier::external_body]
pub struct Tree<const K: usize> { x: usize }
impl<const K: usize> Tree<K> {
    pub uninterp spec fn a(&self) -> Map<usize, TreeNode<K>>;
    #[verifier::external_body]
    pub fn tree_node(&self, idx: TreeIndex) -> (r: Option<&TreeNode<K>>)
        ensures r == (if self.a().dom().contains(idx) { Some(&self.a()[idx]) } else { None })
    { unimplemented!() }
}

#[derive(Clone, Copy)]
pub struct DfsNodeData {
    pub depth: usize,
    pub index: TreeIndex,
    pub n_remaining: usize,
}

pub struct DfsPre {
    pub stack: Vec<DfsNodeData>,
    pub last_push: usize,
    pub size_lb: usize,
    pub size_ub: usize,
}

// ---------- spec vocabulary
pub open spec fn count_some<const K: usize>(ch: [Option<usize>; K], lo: int) -> nat
    decreases K - lo
{
    if lo >= K || lo < 0 { 0 } else { (if ch[lo].is_some() { 1nat } else { 0nat }) + count_some(ch, lo + 1) }
}

pub open spec fn kid_items<const K: usize>(ch: [Option<usize>; K], lo: int, depth: usize) -> Seq<DfsNodeData>
    decreases K - lo
{
    if lo >= K || lo < 0 { Seq::empty() }
    else if ch[lo].is_some() {
        seq![DfsNodeData { depth, index: ch[lo].unwrap(), n_remaining: count_some(ch, lo + 1) as usize }] + kid_items(ch, lo + 1, depth)
    } else { kid_items(ch, lo + 1, depth) }
}

// height map h: strictly decreasing along child edges, children in dom
pub open spec fn ranked<const K: usize>(t: &Tree<K>, h: Map<usize, nat>) -> bool {
    forall|i: usize, l: int| #![trigger t.a()[i].children[l]] t.a().dom().contains(i) && 0 <= l < K && t.a()[i].children[l].is_some() ==>
        t.a().dom().contains(t.a()[i].children[l].unwrap()) && h[t.a()[i].children[l].unwrap()] < h[i]
}

pub open spec fn pre_items<const K: usize>(t: &Tree<K>, h: Map<usize, nat>, it: DfsNodeData) -> Seq<DfsNodeData>
    decreases h[it.index] + 1, 0nat
{
    seq![it] + concat_pre(t, h, kid_items(t.a()[it.index].children, 0, (it.depth + 1) as usize), h[it.index])
}

pub open spec fn concat_pre<const K: usize>(t: &Tree<K>, h: Map<usize, nat>, xs: Seq<DfsNodeData>, bound: nat) -> Seq<DfsNodeData>
    decreases bound, xs.len() + 1
{
    if xs.len() == 0 { Seq::empty() }
    else {
        (if h[xs[0].index] < bound { pre_items(t, h, xs[0]) } else { Seq::empty() })
        + concat_pre(t, h, xs.drop_first(), bound)
    }
}


pub open spec fn rem<const K: usize>(t: &Tree<K>, h: Map<usize, nat>, s: Seq<DfsNodeData>) -> Seq<DfsNodeData>
    decreases s.len()
{
    if s.len() == 0 { Seq::empty() } else { pre_items(t, h, s.last()) + rem(t, h, s.drop_last()) }
}

pub open spec fn all_below(h: Map<usize, nat>, xs: Seq<DfsNodeData>, bound: nat) -> bool {
    forall|j: int| 0 <= j < xs.len() ==> h[(#[trigger] xs[j]).index] < bound
}

// rem(rest + reverse(xs)) == concat_pre(xs) + rem(rest)
pub proof fn lemma_rem_push_rev<const K: usize>(t: &Tree<K>, h: Map<usize, nat>, rest: Seq<DfsNodeData>, xs: Seq<DfsNodeData>, bound: nat)
    requires all_below(h, xs, bound)
    ensures rem(t, h, rest + xs.reverse()) == concat_pre(t, h, xs, bound) + rem(t, h, rest)
    decreases xs.len()
{
    if xs.len() == 0 {
        assert(rest + xs.reverse() =~= rest);
    } else {
        let s = rest + xs.reverse();
        let tail = xs.drop_first();
        assert(s.last() == xs[0]);
        assert(s.drop_last() =~= rest + tail.reverse());
        assert(all_below(h, tail, bound)) by {
            assert forall|j: int| 0 <= j < tail.len() implies h[(#[trigger] tail[j]).index] < bound by {
                assert(tail[j] == xs[j + 1]);
            }
        }
        lemma_rem_push_rev(t, h, rest, tail, bound);
        assert(h[xs[0].index] < bound);
    }
}

pub proof fn lemma_kid_items_below<const K: usize>(t: &Tree<K>, h: Map<usize, nat>, i: usize, lo: int, depth: usize)
    requires ranked(t, h), t.a().dom().contains(i), 0 <= lo
    ensures all_below(h, kid_items(t.a()[i].children, lo, depth), h[i]),
        forall|j: int| 0 <= j < kid_items(t.a()[i].children, lo, depth).len() ==> t.a().dom().contains((#[trigger] kid_items(t.a()[i].children, lo, depth)[j]).index)
    decreases K - lo
{
    if lo < K {
        lemma_kid_items_below(t, h, i, lo + 1, depth);
        let ch = t.a()[i].children;
        if ch[lo].is_some() {
            let rest = kid_items(ch, lo + 1, depth);
            let all = kid_items(ch, lo, depth);
            assert(all.len() == rest.len() + 1);
            assert forall|j: int| 0 <= j < all.len() implies h[(#[trigger] all[j]).index] < h[i] && t.a().dom().contains(all[j].index) by {
                if j == 0 { assert(all[0].index == ch[lo].unwrap()); } else { assert(all[j] == rest[j - 1]); }
            }
        }
    }
}

pub open spec fn stack_ok<const K: usize>(t: &Tree<K>, s: Seq<DfsNodeData>) -> bool {
    forall|j: int| 0 <= j < s.len() ==> t.a().dom().contains((#[trigger] s[j]).index) && s[j].depth < usize::MAX
}

impl DfsPre {
    fn next<const K: usize>(&mut self, tree: &Tree<K>) -> (r: Option<DfsNodeData>)
        requires stack_ok(tree, old(self).stack@)
        ensures
            r.is_none() ==> old(self).stack@.len() == 0,
            r.is_some() ==> forall|h: Map<usize, nat>| ranked(tree, h) ==> #[trigger] rem(tree, h, old(self).stack@) == seq![r.unwrap()] + rem(tree, h, final(self).stack@),
            r.is_some() ==> r.unwrap() == old(self).stack@.last(),
    {
        let data = self.stack.pop()?;
        let node = tree
            .tree_node(data.index)
            .expect("node indicies should stay valid while traversing the tree");

        self.last_push = 0;
        let ghost rest = self.stack@;
        let ghost ch = node.children;
        let ghost dp = (data.depth + 1) as usize;
        let mut __n: usize = 0;
        let mut __i: usize = K;
        while __i > 0
            invariant
                0 <= __i <= K,
                node.children == ch,
                __n == count_some(ch, __i as int),
                self.stack@ == rest + kid_items(ch, __i as int, dp).reverse(),
                self.last_push == __n,
                __n + __i <= K,
                data.depth < usize::MAX, dp == data.depth + 1, rest == old(self).stack@.drop_last(),
            decreases __i
        {
            __i -= 1;
            let ghost st0 = self.stack@;
            assert(st0 == rest + kid_items(ch, __i as int + 1, dp).reverse());
            if let Some(child) = &node.children[__i] {
                let n_remaining = __n;
                self.stack.push(DfsNodeData {
                    depth: data.depth + 1,
                    index: *child,
                    n_remaining,
                });
                self.last_push += 1;
                __n += 1;
                proof {
                    let ki = kid_items(ch, __i as int, dp);
                    let kj = kid_items(ch, __i as int + 1, dp);
                    assert(ki == seq![DfsNodeData { depth: dp, index: *child, n_remaining }] + kj);
                    assert(ki.reverse() =~= kj.reverse().push(ki[0]));
                    let item = DfsNodeData { depth: dp, index: *child, n_remaining };
                    assert(self.stack@.len() == st0.len() + 1);
                    assert(self.stack@.last().index == item.index);
                    assert(self.stack@.last().depth == item.depth);
                    assert(self.stack@.last().n_remaining == item.n_remaining);
                    assert(self.stack@.last() == item);
                    assert(self.stack@ =~= st0.push(item));
                    assert(ki[0] == item);
                    assert((rest + kj.reverse()).push(item) =~= rest + kj.reverse().push(item));
                    assert(self.stack@ =~= rest + ki.reverse());
                }
            } else {
                proof {
                    assert(kid_items(ch, __i as int, dp) == kid_items(ch, __i as int + 1, dp));
                }
            }
        }
        proof {
            let kids = kid_items(ch, 0, dp);
            assert(old(self).stack@.drop_last() == rest);
            assert forall|h: Map<usize, nat>| ranked(tree, h) implies #[trigger] rem(tree, h, old(self).stack@) == seq![data] + rem(tree, h, self.stack@) by {
                lemma_kid_items_below(tree, h, data.index, 0, dp);
                lemma_rem_push_rev(tree, h, rest, kids, h[data.index]);
            }
        }

        self.size_lb = self.size_lb.saturating_sub(1);
        self.size_ub = self.size_ub.saturating_sub(1);
        Some(data)
    }
}

} // verus!
fn main() {}
