//! bc — bounded contract replay on the real affinitree crate (DESIGN.md §2.5).
//! Every sub-command evaluates the executable form of a contract on a finite, stated space of
//! cases and prints one JSON report as the last stdout line.  Bounded: never counted as proof.
mod c_lin;
mod c_more;
mod c_pwl;
mod c_tree;
mod fm;
mod gen;
mod q;
mod report;
mod xtree;

use report::{Report, Tier};

fn main() {
    std::panic::set_hook(Box::new(|_| {}));
    let args: Vec<String> = std::env::args().skip(1).collect();
    if args.is_empty() {
        eprintln!("usage: bc <cmd> [--tier quick|thorough] [--seed N] [--replay JSON-or-case_id]");
        std::process::exit(2);
    }
    let cmd = args[0].clone();
    let mut tier = Tier::Quick;
    let mut seed = 0u64;
    let mut only = None;
    let mut i = 1;
    while i < args.len() {
        match args[i].as_str() {
            "--tier" => {
                tier = if args[i + 1] == "thorough" { Tier::Thorough } else { Tier::Quick };
                i += 1;
            }
            "--seed" => {
                seed = args[i + 1].parse().unwrap_or(0);
                i += 1;
            }
            "--replay" => {
                // accepts the case descriptor JSON or a bare case_id "cmd:seed:idx"
                let s = &args[i + 1];
                let id = match s.find("\"case_id\"") {
                    Some(p) => {
                        let rest = &s[p + 9..];
                        let a = rest.find('"').unwrap();
                        let b = rest[a + 1..].find('"').unwrap();
                        rest[a + 1..a + 1 + b].to_string()
                    }
                    None => s.clone(),
                };
                let parts: Vec<&str> = id.split(':').collect();
                seed = parts[1].parse().unwrap();
                only = Some(parts[2].parse().unwrap());
                i += 1;
            }
            _ => {}
        }
        i += 1;
    }
    let mut rep = Report::new(&cmd, seed, only);
    match cmd.as_str() {
        "compose" => c_pwl::compose(&mut rep, tier),
        "ops" => c_pwl::ops(&mut rep, tier),
        "prune" => c_pwl::prune(&mut rep, tier),
        "reduce" => c_pwl::reduce(&mut rep, tier),
        "histories" => c_pwl::histories(&mut rep, tier),
        "lp-debug" => { lp_debug(); return; }
        "aff" => c_lin::aff_algebra(&mut rep, tier),
        "poly" => c_lin::poly_ops(&mut rep, tier),
        "schema" => c_lin::schemas(&mut rep, tier),
        "distill" => c_lin::distill(&mut rep, tier),
        "arch" => c_lin::arch(&mut rep, tier),
        "regions" => c_more::regions(&mut rep, tier),
        "cleanup" => c_more::cleanup(&mut rep, tier),
        "faults" => c_more::faults(&mut rep, tier),
        "traversal" => c_tree::traversal(&mut rep, tier),
        "tree-ops" => c_tree::tree_ops(&mut rep, tier),
        _ => {
            eprintln!("unknown command {cmd}");
            std::process::exit(2);
        }
    }
    rep.print();
}

#[allow(dead_code)]
pub fn lp_debug() {
    use affinitree::linalg::affine::Polytope;
    use ndarray::{arr1, arr2};
    let p = Polytope::from_mats(arr2(&[[0.0, 1.0]]), arr1(&[0.0]));
    println!("min -y s.t. y<=0 : {:?}", p.solve_linprog(arr1(&[0.0, -1.0]), false));
    println!("status: {:?}", p.status());
    let lp = p.as_linprog(arr1(&[0.0, -1.0]));
    match lp.solver.solve() {
        Ok(sol) => println!("raw: obj={} x={:?}", sol.objective(), lp.vars.iter().map(|v| sol[*v]).collect::<Vec<_>>()),
        Err(e) => println!("raw err {e:?}"),
    }
    let p = Polytope::from_mats(arr2(&[[1.0, -1.0], [1.0, -1.0], [1.0, 1.0], [1.0, -1.0]]), arr1(&[-2.0, 0.0, -2.0, -2.0]));
    println!("result {:?}", p.remove_redundant_row_constraints());
    for (keep, obj) in [(vec![0usize, 2], [-1.0, 1.0]), (vec![1, 2], [-1.0, 1.0]), (vec![0, 1, 2], [-1.0, 1.0])] {
        let drop: Vec<usize> = (0..4).filter(|i| !keep.contains(i)).collect();
        let q = p.remove_rows(drop);
        println!("keep {keep:?} min {obj:?}: {:?}", q.solve_linprog(arr1(&obj), false));
    }
    let p = Polytope::from_mats(arr2(&[[0.0, 1.0], [1.0, 0.0]]), arr1(&[0.0, 5.0]));
    println!("min -y s.t. y<=0, x<=5 : {:?}", p.solve_linprog(arr1(&[0.0, -1.0]), false));
}
