// unit pwl_schema — C02 / C07 node level: the composition schemas (src/pwl/impl_composition.rs, src/pwl/impl_ops.rs)
use vstd::prelude::*;
use std::marker::PhantomData;
use std::ops::{Add, Sub, Mul, Div, Neg};
verus! {

//@include prelude/math.rs
//@include prelude/nd_shim.rs
//@include prelude/nd_shim_ops.rs

//@item src/linalg/affine.rs | struct AffFuncBase
//@item src/linalg/affine.rs | struct FunctionT
pub type AffFunc = AffFuncBase<FunctionT, OwnedRepr<f64>>;

impl<I, S: Data<Elem = A>, A: Float> AffFuncBase<I, S> {
    pub open spec fn ok(&self) -> bool { self.mat.nrows() == self.bias.v().len() }
    pub open spec fn ap(&self, x: V) -> V { vadd(mv(self.mat.m(), x), self.bias.v()) }
    // half-space i of the predicate reading {x | M x <= b}
    pub open spec fn row_sat(&self, i: int, x: V) -> bool { dotp(self.mat.m()[i], x, x.len() as int) <= self.bias.v()[i] }
}

impl<I, D: Data<Elem = A>, A: Float> AffFuncBase<I, D> {
//@fn src/linalg/affine.rs | impl<I, D: Data<Elem = A>, A: Float> AffFuncBase<I, D> | from_mats
//@spec
    requires mat.nrows() == bias.v().len()
    ensures r.mat == mat, r.bias == bias, r.ok()
//@end
//@fn src/linalg/affine.rs | impl<I, D: Data<Elem = A>, A: Float> AffFuncBase<I, D> | indim
//@spec
    ensures r == self.mat.ncols()
//@end
//@fn src/linalg/affine.rs | impl<I, D: Data<Elem = A>, A: Float> AffFuncBase<I, D> | outdim
//@spec
    ensures r == self.mat.nrows()
//@end
}
impl<I, S: Data<Elem = A>, A: Float> AffFuncBase<I, S> {
//@fn src/linalg/affine.rs | impl<I, S: Data<Elem = A>, A: Float> AffFuncBase<I, S> | to_owned
//@spec
    ensures r.mat.m() == self.mat.m(), r.bias.v() == self.bias.v(), r.mat.nrows() == self.mat.nrows(), r.mat.ncols() == self.mat.ncols()
//@end
}
// rule T1: the body of `impl Clone for AffFuncBase` verified as an inherent method
impl<I, D: Data<Elem = A> + RawDataClone, A: Float + Clone> AffFuncBase<I, D> {
//@fn src/linalg/affine.rs | impl<I, D: Data<Elem = A> + RawDataClone, A: Float + Clone> Clone for AffFuncBase<I, D> | clone | as=clone_aff
//@spec
    ensures r.mat.m() == self.mat.m(), r.bias.v() == self.bias.v(), r.mat.nrows() == self.mat.nrows(), r.mat.ncols() == self.mat.ncols()
//@end
}
impl<D: Data<Elem = A>, A: Float + LinalgScalar> AffFuncBase<FunctionT, D> {
//@fn src/linalg/affine.rs | impl<D: Data<Elem = A>, A: Float + LinalgScalar> AffFuncBase<FunctionT, D> | apply
//@spec
    requires self.ok(), input.v().len() == self.mat.ncols()
    ensures r.v() == self.ap(input.v())
//@hint start
        broadcast use axiom_array2_shape;
//@end
//@fn src/linalg/affine.rs | impl<D: Data<Elem = A>, A: Float + LinalgScalar> AffFuncBase<FunctionT, D> | compose
//@spec
    requires self.ok(), other.ok(), self.mat.ncols() == other.mat.nrows()
    ensures r.ok(), r.mat.ncols() == other.mat.ncols(), r.mat.nrows() == self.mat.nrows(),
        forall|x: V| x.len() == other.mat.ncols() ==> #[trigger] r.ap(x) =~= self.ap(other.ap(x)),
//@hint start
        broadcast use axiom_array2_shape;
        proof {
            assert forall|x: V| x.len() == other.mat.ncols() implies
                #[trigger] vadd(mv(mm(self.mat.m(), other.mat.m(), other.mat.ncols()), x), vadd(mv(self.mat.m(), other.bias.v()), self.bias.v()))
                    =~= vadd(mv(self.mat.m(), vadd(mv(other.mat.m(), x), other.bias.v())), self.bias.v()) by {
                lemma_mm_mv(self.mat.m(), other.mat.m(), x, other.mat.ncols());
                lemma_mv_add_right(self.mat.m(), mv(other.mat.m(), x), other.bias.v());
            }
        }
//@end
}

// the element-wise operators in their owned form (as used by the arithmetic schemas)
impl<S: DataOwned<Elem = A> + DataMut, A: Float> AffFuncBase<FunctionT, S> {

//@fn src/linalg/impl_ops.rs | impl<S: DataOwned<Elem = A> + DataMut, A: Float, S2: Data<Elem = A>> $trt<&AffFuncBase<FunctionT, S2>> for AffFuncBase<FunctionT, S> | $mth | as=add_owned
//@sigsub fn add_owned(self, => fn add_owned<S2: Data<Elem = A>>(self,
//@sigsub Self::Output => AffFuncBase<FunctionT, S>
//@bodysub $mth => add
//@spec
    requires self.ok(), rhs.ok(), self.mat.nrows() == rhs.mat.nrows(), self.mat.ncols() == rhs.mat.ncols()
    ensures r.ok(), r.mat.nrows() == self.mat.nrows(), r.mat.ncols() == self.mat.ncols(),
        r.mat.m() == madd(self.mat.m(), rhs.mat.m()), r.bias.v() == vadd(self.bias.v(), rhs.bias.v()),
//@end

//@fn src/linalg/impl_ops.rs | impl<S: DataOwned<Elem = A> + DataMut, A: Float, S2: Data<Elem = A>> $trt<&AffFuncBase<FunctionT, S2>> for AffFuncBase<FunctionT, S> | $mth | as=sub_owned
//@sigsub fn sub_owned(self, => fn sub_owned<S2: Data<Elem = A>>(self,
//@sigsub Self::Output => AffFuncBase<FunctionT, S>
//@bodysub $mth => sub
//@spec
    requires self.ok(), rhs.ok(), self.mat.nrows() == rhs.mat.nrows(), self.mat.ncols() == rhs.mat.ncols()
    ensures r.ok(), r.mat.nrows() == self.mat.nrows(), r.mat.ncols() == self.mat.ncols(),
        r.mat.m() == msub(self.mat.m(), rhs.mat.m()), r.bias.v() == vsub(self.bias.v(), rhs.bias.v()),
//@end

//@fn src/linalg/impl_ops.rs | impl<S: DataOwned<Elem = A> + DataMut, A: Float, S2: Data<Elem = A>> $trt<&AffFuncBase<FunctionT, S2>> for AffFuncBase<FunctionT, S> | $mth | as=mul_owned
//@sigsub fn mul_owned(self, => fn mul_owned<S2: Data<Elem = A>>(self,
//@sigsub Self::Output => AffFuncBase<FunctionT, S>
//@bodysub $mth => mul
//@spec
    requires self.ok(), rhs.ok(), self.mat.nrows() == rhs.mat.nrows(), self.mat.ncols() == rhs.mat.ncols()
    ensures r.ok(), r.mat.nrows() == self.mat.nrows(), r.mat.ncols() == self.mat.ncols(),
        r.mat.m() == mmul(self.mat.m(), rhs.mat.m()), r.bias.v() == vmul(self.bias.v(), rhs.bias.v()),
//@end

//@fn src/linalg/impl_ops.rs | impl<S: DataOwned<Elem = A> + DataMut, A: Float, S2: Data<Elem = A>> $trt<&AffFuncBase<FunctionT, S2>> for AffFuncBase<FunctionT, S> | $mth | as=div_owned
//@sigsub fn div_owned(self, => fn div_owned<S2: Data<Elem = A>>(self,
//@sigsub Self::Output => AffFuncBase<FunctionT, S>
//@bodysub $mth => div
//@spec
    requires self.ok(), rhs.ok(), self.mat.nrows() == rhs.mat.nrows(), self.mat.ncols() == rhs.mat.ncols(),
        forall|i: int, j: int| 0 <= i < rhs.mat.nrows() && 0 <= j < rhs.mat.ncols() ==> rhs.mat.m()[i][j] != 0real,
        forall|i: int| 0 <= i < rhs.bias.v().len() ==> rhs.bias.v()[i] != 0real
    ensures r.ok(), r.mat.nrows() == self.mat.nrows(), r.mat.ncols() == self.mat.ncols(),
        r.mat.m() == mdiv(self.mat.m(), rhs.mat.m()), r.bias.v() == vdiv(self.bias.v(), rhs.bias.v()),
//@end

}

// A (F x + c) <= b   <=>   (A F) x <= b - A c, row by row
pub proof fn lemma_update_decision_raw(m: M, b: V, f: M, cb: V, k: int, n: int, x: V, i: int)
    requires m_ok(m, m.len() as int, k), m_ok(f, k, n), cb.len() == k, b.len() == m.len(), x.len() == n, n >= 0, 0 <= i < m.len()
    ensures dotp(mm(m, f, n)[i], x, n) <= vadd(vneg(mv(m, cb)), b)[i] <==> dotp(m[i], vadd(mv(f, x), cb), k) <= b[i]
{
    lemma_mm_mv(m, f, x, n);
    lemma_mv_add_right(m, mv(f, x), cb);
    let y = vadd(mv(f, x), cb);
    assert(mv(mm(m, f, n), x)[i] == dotp(mm(m, f, n)[i], x, n));
    assert(mv(m, y)[i] == dotp(m[i], y, y.len() as int));
    assert(mv(m, y)[i] == vadd(mv(m, mv(f, x)), mv(m, cb))[i]);
}

// rule T1: `impl CompositionSchema for X { fn f(..) }` is verified as the free function X_f
//@fn src/pwl/impl_composition.rs | impl CompositionSchema for FunctionComposition | update_decision | as=function_composition_update_decision
//@spec
    requires original.ok(), context.ok(), original.mat.ncols() == context.mat.nrows()
    ensures r.ok(), r.mat.ncols() == context.mat.ncols(), r.mat.nrows() == original.mat.nrows(),
        // the new predicate holds at x exactly when the old one holds at context(x)
        forall|x: V, i: int| x.len() == context.mat.ncols() && 0 <= i < original.mat.nrows() ==> (#[trigger] r.row_sat(i, x) <==> original.row_sat(i, context.ap(x))),
//@hint start
        broadcast use axiom_array2_shape;
//@hint end
        proof {
            let rm = mm(original.mat.m(), context.mat.m(), context.mat.ncols());
            let rb = vadd(vneg(mv(original.mat.m(), context.bias.v())), original.bias.v());
            assert forall|x: V, i: int| x.len() == context.mat.ncols() && 0 <= i < original.mat.nrows() implies
                (#[trigger] dotp(rm[i], x, x.len() as int) <= rb[i] <==> original.row_sat(i, context.ap(x))) by {
                lemma_update_decision_raw(original.mat.m(), original.bias.v(), context.mat.m(), context.bias.v(), original.mat.ncols(), context.mat.ncols(), x, i);
            }
        }
//@end

//@fn src/pwl/impl_composition.rs | impl CompositionSchema for FunctionComposition | update_terminal | as=function_composition_update_terminal
//@spec
    requires original.ok(), context.ok(), original.mat.ncols() == context.mat.nrows()
    ensures r.ok(), r.mat.ncols() == context.mat.ncols(), r.mat.nrows() == original.mat.nrows(),
        // the new terminal is original after context
        forall|x: V| x.len() == context.mat.ncols() ==> #[trigger] r.ap(x) =~= original.ap(context.ap(x)),
//@end

//@fn src/pwl/impl_composition.rs | impl CompositionSchema for FunctionCompositionInfeasible | update_decision | as=function_composition_infeasible_update_decision
//@spec
    requires original.ok(), context.ok(), original.mat.ncols() == context.mat.nrows()
    ensures r.ok(), r.mat.ncols() == context.mat.ncols(), r.mat.nrows() == original.mat.nrows(),
        forall|x: V, i: int| x.len() == context.mat.ncols() && 0 <= i < original.mat.nrows() ==> (#[trigger] r.row_sat(i, x) <==> original.row_sat(i, context.ap(x))),
//@hint start
        broadcast use axiom_array2_shape;
//@hint end
        proof {
            let rm = mm(original.mat.m(), context.mat.m(), context.mat.ncols());
            let rb = vadd(vneg(mv(original.mat.m(), context.bias.v())), original.bias.v());
            assert forall|x: V, i: int| x.len() == context.mat.ncols() && 0 <= i < original.mat.nrows() implies
                (#[trigger] dotp(rm[i], x, x.len() as int) <= rb[i] <==> original.row_sat(i, context.ap(x))) by {
                lemma_update_decision_raw(original.mat.m(), original.bias.v(), context.mat.m(), context.bias.v(), original.mat.ncols(), context.mat.ncols(), x, i);
            }
        }
//@end

//@fn src/pwl/impl_composition.rs | impl CompositionSchema for FunctionCompositionInfeasible | update_terminal | as=function_composition_infeasible_update_terminal
//@spec
    requires original.ok(), context.ok(), original.mat.ncols() == context.mat.nrows()
    ensures r.ok(), r.mat.ncols() == context.mat.ncols(), r.mat.nrows() == original.mat.nrows(),
        forall|x: V| x.len() == context.mat.ncols() ==> #[trigger] r.ap(x) =~= original.ap(context.ap(x)),
//@end


// impl_op_schema!(Add, add, ..): rule M1 ($op := add), rule T1 (free functions), rule O2 (`x.clone().add(y)` is the
// trait call of the operator verified above as add_owned; clone is the verified clone_aff)
//@fn src/pwl/impl_ops.rs | impl CompositionSchema for $name | update_decision | as=addition_schema_update_decision
//@sigsub _: &AffFunc => _context: &AffFunc
//@spec
    ensures r.mat.m() == original.mat.m(), r.bias.v() == original.bias.v(), r.mat.nrows() == original.mat.nrows(), r.mat.ncols() == original.mat.ncols(),
//@end
//@fn src/pwl/impl_ops.rs | impl CompositionSchema for $name | update_terminal | as=addition_schema_update_terminal
//@bodysub .clone().$op( => .clone_aff().add_owned(
//@spec
    requires original.ok(), context.ok(), original.mat.nrows() == context.mat.nrows(), original.mat.ncols() == context.mat.ncols()
    ensures r.ok(), r.mat.nrows() == context.mat.nrows(), r.mat.ncols() == context.mat.ncols(),
        // terminals: context op original, coefficient-wise and in that order (context = terminal of the tree operated on)
        r.mat.m() == madd(context.mat.m(), original.mat.m()), r.bias.v() == vadd(context.bias.v(), original.bias.v()),
//@end

// impl_op_schema!(Sub, sub, ..): rule M1 ($op := sub), rule T1 (free functions), rule O2 (`x.clone().sub(y)` is the
// trait call of the operator verified above as sub_owned; clone is the verified clone_aff)
//@fn src/pwl/impl_ops.rs | impl CompositionSchema for $name | update_decision | as=subtraction_schema_update_decision
//@sigsub _: &AffFunc => _context: &AffFunc
//@spec
    ensures r.mat.m() == original.mat.m(), r.bias.v() == original.bias.v(), r.mat.nrows() == original.mat.nrows(), r.mat.ncols() == original.mat.ncols(),
//@end
//@fn src/pwl/impl_ops.rs | impl CompositionSchema for $name | update_terminal | as=subtraction_schema_update_terminal
//@bodysub .clone().$op( => .clone_aff().sub_owned(
//@spec
    requires original.ok(), context.ok(), original.mat.nrows() == context.mat.nrows(), original.mat.ncols() == context.mat.ncols()
    ensures r.ok(), r.mat.nrows() == context.mat.nrows(), r.mat.ncols() == context.mat.ncols(),
        // terminals: context op original, coefficient-wise and in that order (context = terminal of the tree operated on)
        r.mat.m() == msub(context.mat.m(), original.mat.m()), r.bias.v() == vsub(context.bias.v(), original.bias.v()),
//@end

// impl_op_schema!(Mul, mul, ..): rule M1 ($op := mul), rule T1 (free functions), rule O2 (`x.clone().mul(y)` is the
// trait call of the operator verified above as mul_owned; clone is the verified clone_aff)
//@fn src/pwl/impl_ops.rs | impl CompositionSchema for $name | update_decision | as=multiplication_schema_update_decision
//@sigsub _: &AffFunc => _context: &AffFunc
//@spec
    ensures r.mat.m() == original.mat.m(), r.bias.v() == original.bias.v(), r.mat.nrows() == original.mat.nrows(), r.mat.ncols() == original.mat.ncols(),
//@end
//@fn src/pwl/impl_ops.rs | impl CompositionSchema for $name | update_terminal | as=multiplication_schema_update_terminal
//@bodysub .clone().$op( => .clone_aff().mul_owned(
//@spec
    requires original.ok(), context.ok(), original.mat.nrows() == context.mat.nrows(), original.mat.ncols() == context.mat.ncols()
    ensures r.ok(), r.mat.nrows() == context.mat.nrows(), r.mat.ncols() == context.mat.ncols(),
        // terminals: context op original, coefficient-wise and in that order (context = terminal of the tree operated on)
        r.mat.m() == mmul(context.mat.m(), original.mat.m()), r.bias.v() == vmul(context.bias.v(), original.bias.v()),
//@end

// impl_op_schema!(Div, div, ..): rule M1 ($op := div), rule T1 (free functions), rule O2 (`x.clone().div(y)` is the
// trait call of the operator verified above as div_owned; clone is the verified clone_aff)
//@fn src/pwl/impl_ops.rs | impl CompositionSchema for $name | update_decision | as=division_schema_update_decision
//@sigsub _: &AffFunc => _context: &AffFunc
//@spec
    ensures r.mat.m() == original.mat.m(), r.bias.v() == original.bias.v(), r.mat.nrows() == original.mat.nrows(), r.mat.ncols() == original.mat.ncols(),
//@end
//@fn src/pwl/impl_ops.rs | impl CompositionSchema for $name | update_terminal | as=division_schema_update_terminal
//@bodysub .clone().$op( => .clone_aff().div_owned(
//@spec
    requires original.ok(), context.ok(), original.mat.nrows() == context.mat.nrows(), original.mat.ncols() == context.mat.ncols(),
        forall|i: int, j: int| 0 <= i < original.mat.nrows() && 0 <= j < original.mat.ncols() ==> original.mat.m()[i][j] != 0real,
        forall|i: int| 0 <= i < original.bias.v().len() ==> original.bias.v()[i] != 0real
    ensures r.ok(), r.mat.nrows() == context.mat.nrows(), r.mat.ncols() == context.mat.ncols(),
        // terminals: context op original, coefficient-wise and in that order (context = terminal of the tree operated on)
        r.mat.m() == mdiv(context.mat.m(), original.mat.m()), r.bias.v() == vdiv(context.bias.v(), original.bias.v()),
//@end


} // verus!
fn main() {}
