//! Bounded contract replay for the tree-level properties (C02, C03, C04, C05, C06, C07, C08).
#![allow(deprecated)]
use affinitree::distill::schema;
use affinitree::linalg::affine::{AffFunc, Polytope};
use affinitree::pwl::afftree::AffTree;

use crate::fm::{feasible, interior_nonempty, Row};
use crate::gen::*;
use crate::q::{qs, Q};
use crate::report::*;
use crate::xtree::*;

fn x_of<const K: usize>(t: &AffTree<K>) -> Result<XTree, String> {
    xtree(t)
}

/// Compare two readings of a function on a lattice.  A difference is tolerated only when the input
/// lies in a region of `before` (the routing region of the node where its route ends) that has an empty
/// interior — the "thinner than the LP tolerance" clause of C03.
pub fn same_function(
    before: &dyn Fn(&[Q]) -> Option<Vec<Q>>,
    before_region: &dyn Fn(&[Q]) -> Vec<Row>,
    after: &XTree,
    dim: usize,
    tolerate_thin: bool,
    tolerated: &mut u64,
) -> Result<(), String> {
    for x in lattice(dim) {
        let a = before(&x);
        let b = after.eval(&x);
        if a != b {
            if tolerate_thin {
                let reg = before_region(&x);
                if !interior_nonempty(&reg, dim) {
                    *tolerated += 1;
                    continue;
                }
            }
            return Err(format!(
                "at x={} expected {} got {}",
                qs(&x),
                a.map_or("undefined".into(), |v| qs(&v)),
                b.map_or("undefined".into(), |v| qs(&v))
            ));
        }
    }
    Ok(())
}

pub fn closed_route_region(t: &XTree, x: &[Q]) -> Vec<Row> {
    let (seen, _) = t.route(x);
    let last = *seen.last().unwrap();
    let mut reg = t.closed_region(last);
    // if the route ends at a decision with a missing child, add the half-space of the chosen label
    let nd = &t.nodes[&last];
    if !nd.isleaf {
        let l = XTree::decide(nd, x);
        for i in 0..nd.aff.mat.len() {
            let r = Row::le(nd.aff.mat[i].clone(), nd.aff.bias[i]);
            reg.push(if (l >> i) & 1 == 1 { r } else { Row { strict: false, ..r.negated() } });
        }
    }
    reg
}

// ------------------------------------------------------------------------------------------ C02

pub fn compose(rep: &mut Report, tier: Tier) {
    let (n, reps) = if tier == Tier::Quick { (3, 1) } else { (3, 5) };
    rep.rule = "pairs of shapes (partial allowed) x seeded predicates/terminals from the pools; contract: h(x)==g(f(x)) incl. undefinedness on the half-integer lattice, g unchanged, nodes of f keep index, aff_wf(h); plus apply_func; non-trivial: at least one operand has a decision".into();
    rep.bound = format!("K=2: shapes with <= {n} decisions each, {reps} assignment(s) per pair; K=4: <= 1 decision; dims in {{1,2}}; lattice [-3,3]^d step 1/2");
    let sh = shapes(2, n, true);
    let mut idx = 0u64;
    for sf in &sh {
        for sg in &sh {
            for r in 0..reps {
                idx += 1;
                if rep.skip(idx) {
                    continue;
                }
                let mut rng = Rng::new(rep.seed ^ (idx * 7919 + r as u64));
                let d = 1 + rng.below(2);
                let m = 1 + rng.below(2);
                let k = 1 + rng.below(2);
                let f = build::<2>(&mut rng, sf, d, m, false, true);
                let g = build::<2>(&mut rng, sg, m, k, false, true);
                compose_case::<2>(rep, idx, &f, &g, &mut rng, d, m, k);
            }
        }
    }
    // K = 4
    let sh4 = shapes(4, 1, true);
    for sf in &sh4 {
        for sg in &sh4 {
            idx += 1;
            if rep.skip(idx) {
                continue;
            }
            let mut rng = Rng::new(rep.seed ^ (idx * 7919));
            let d = 1 + rng.below(2);
            let m = 1 + rng.below(2);
            let k = 1 + rng.below(2);
            let f = build::<4>(&mut rng, sf, d, m, false, true);
            let g = build::<4>(&mut rng, sg, m, k, false, false);
            compose_case::<4>(rep, idx, &f, &g, &mut rng, d, m, k);
        }
    }
}

fn compose_case<const K: usize>(rep: &mut Report, idx: u64, f: &AffTree<K>, g: &AffTree<K>, rng: &mut Rng, d: usize, m: usize, k: usize) {
    let xf = x_of(f).unwrap();
    let xg = x_of(g).unwrap();
    let descr = format!("f: {} | g: {}", xf.descr(), xg.descr());
    rep.evaluations += 1;
    if xf.nodes.len() > 1 || xg.nodes.len() > 1 {
        rep.nontrivial(&descr);
    }
    rep.sample(descr.clone());
    let res = guarded(|| {
        let mut h = f.clone();
        h.compose::<false, false>(g);
        h
    });
    let h = match res {
        Ok(h) => h,
        Err(p) => {
            rep.viol(idx, "panic", format!("compose::<false,_> panicked: {p} | {descr}"));
            return;
        }
    };
    let xh = match x_of(&h) {
        Ok(x) => x,
        Err(e) => {
            rep.viol(idx, "nonfinite", format!("{e} | {descr}"));
            return;
        }
    };
    if let Err(e) = xh.aff_wf() {
        rep.viol(idx, "wf", format!("result not well-formed: {e} | {descr}"));
    }
    let expect = |x: &[Q]| xf.eval(x).and_then(|y| xg.eval(&y));
    if let Err(e) = same_function(&expect, &|_| vec![], &xh, d, false, &mut 0) {
        rep.viol(idx, "law", format!("h != g∘f: {e} | {descr}"));
    }
    if x_of(g).unwrap() != xg {
        rep.viol(idx, "rhs-changed", format!("right operand changed | {descr}"));
    }
    for (i, nd) in &xf.nodes {
        match xh.nodes.get(i) {
            None => rep.viol(idx, "index", format!("node {i} of f disappeared | {descr}")),
            Some(hn) => {
                if !nd.isleaf && (hn.aff != nd.aff || hn.children != nd.children || hn.isleaf) {
                    rep.viol(idx, "index", format!("decision {i} of f was altered | {descr}"));
                }
                if hn.parent != nd.parent {
                    rep.viol(idx, "index", format!("node {i} of f moved | {descr}"));
                }
            }
        }
    }
    // apply_func: the affine special case
    let a = term(rng, m, k, false);
    let xa = XAff::from_aff(&a).unwrap();
    let res = guarded(|| {
        let mut h2 = f.clone();
        h2.apply_func(&a);
        h2
    });
    rep.evaluations += 1;
    match res {
        Err(p) => rep.viol(idx, "panic", format!("apply_func panicked: {p} | {descr}")),
        Ok(h2) => {
            let xh2 = x_of(&h2).unwrap();
            let expect = |x: &[Q]| xf.eval(x).map(|y| xa.apply(&y));
            if let Err(e) = same_function(&expect, &|_| vec![], &xh2, d, false, &mut 0) {
                rep.viol(idx, "apply_func", format!("apply_func(a) != a∘f: {e} | a={:?} | {descr}", xa));
            }
            if xh2.nodes.keys().ne(xf.nodes.keys()) {
                rep.viol(idx, "apply_func", format!("apply_func changed the node set | {descr}"));
            }
            for (i, nd) in &xf.nodes {
                if !nd.isleaf && xh2.nodes[i].aff != nd.aff {
                    rep.viol(idx, "apply_func", format!("apply_func altered decision {i} | {descr}"));
                }
            }
        }
    }
}

// ------------------------------------------------------------------------------------------ C07

fn coeff_op(op: char, a: &XAff, b: &XAff) -> Option<XAff> {
    let f = |x: Q, y: Q| -> Option<Q> {
        Some(match op {
            '+' => x + y,
            '-' => x - y,
            '*' => x * y,
            '/' => {
                if y.is_zero() {
                    return None;
                }
                x / y
            }
            _ => unreachable!(),
        })
    };
    let mut mat = vec![];
    for i in 0..a.mat.len() {
        let mut row = vec![];
        for j in 0..a.indim {
            row.push(f(a.mat[i][j], b.mat[i][j])?);
        }
        mat.push(row);
    }
    let mut bias = vec![];
    for i in 0..a.bias.len() {
        bias.push(f(a.bias[i], b.bias[i])?);
    }
    Some(XAff { mat, bias, indim: a.indim })
}

fn nonzero_terms<const K: usize>(t: &mut AffTree<K>, rng: &mut Rng) {
    // replace zero coefficients of terminals by +-1/2 so that coefficient-wise division is defined
    let c = [1.0, -1.0, 2.0, 0.5];
    for idx in t.tree.terminal_indices().collect::<Vec<_>>() {
        let nd = t.tree.node_value_mut(idx).unwrap();
        nd.aff.mat.mapv_inplace(|v| if v == 0.0 { *rng.pick(&c) } else { v });
        nd.aff.bias.mapv_inplace(|v| if v == 0.0 { *rng.pick(&c) } else { v });
    }
}

pub fn ops(rep: &mut Report, tier: Tier) {
    let (n, reps) = if tier == Tier::Quick { (3, 1) } else { (3, 5) };
    rep.rule = "pairs of trees over the same input space (fresh, or with cached feasibility states from a previous infeasible_elimination) x {+,-,*,/} x ownership variants (&a op &b, a op &b, a op b, &a op b), negation, and tree/affine mixed forms in both operand orders; contract: defined iff both operands defined, value = coefficient-wise op of the two reached terminals evaluated at x (differences tolerated only on regions with empty interior: operators prune on the fly); non-trivial: both operands have a decision".into();
    rep.bound = format!("K=2 shapes with <= {n} decisions, {reps} assignment(s) per pair, dims in {{1,2}}, lattice [-3,3]^d step 1/2");
    let sh = shapes(2, n, true);
    let mut idx = 0u64;
    for sa in &sh {
        for sb in &sh {
            for r in 0..reps {
                idx += 1;
                if rep.skip(idx) {
                    continue;
                }
                let mut rng = Rng::new(rep.seed ^ (idx * 104729 + r as u64));
                let d = 1 + rng.below(2);
                let m = 1 + rng.below(2);
                let mut a = build::<2>(&mut rng, sa, d, m, false, true);
                let mut b = build::<2>(&mut rng, sb, d, m, false, false);
                // operands coming out of a distillation pipeline carry cached feasibility states / witnesses: the on-the-fly pruning of
                // the operators must not trust them beyond what they say
                let pre_a = rng.chance(1, 2);
                let pre_b = rng.chance(1, 3);
                if pre_a {
                    let _ = guarded(|| a.infeasible_elimination());
                }
                if pre_b {
                    let _ = guarded(|| b.infeasible_elimination());
                }
                let opi = rng.below(4);
                let op = ['+', '-', '*', '/'][opi];
                if op == '/' {
                    nonzero_terms(&mut b, &mut rng);
                }
                let variant = rng.below(4);
                let xa = x_of(&a).unwrap();
                let xb = x_of(&b).unwrap();
                let descr = format!("a{}: {} | b{}: {} | op {} variant {}", if pre_a { " (eliminated first)" } else { "" }, xa.descr(), if pre_b { " (eliminated first)" } else { "" }, xb.descr(), op, variant);
                rep.evaluations += 1;
                if xa.nodes.len() > 1 && xb.nodes.len() > 1 {
                    rep.nontrivial(&descr);
                }
                rep.sample(descr.clone());
                let res = guarded(|| {
                    let (a2, b2) = (a.clone(), b.clone());
                    match (op, variant) {
                        ('+', 0) => &a2 + &b2,
                        ('+', 1) => a2 + &b2,
                        ('+', 2) => a2 + b2,
                        ('+', _) => &a2 + b2,
                        ('-', 0) => &a2 - &b2,
                        ('-', 1) => a2 - &b2,
                        ('-', 2) => a2 - b2,
                        ('-', _) => &a2 - b2,
                        ('*', 0) => &a2 * &b2,
                        ('*', 1) => a2 * &b2,
                        ('*', 2) => a2 * b2,
                        ('*', _) => &a2 * b2,
                        ('/', 0) => &a2 / &b2,
                        ('/', 1) => a2 / &b2,
                        ('/', 2) => a2 / b2,
                        (_, _) => &a2 / b2,
                    }
                });
                let r = match res {
                    Ok(r) => r,
                    Err(p) => {
                        rep.viol(idx, "panic", format!("operator panicked: {p} | {descr}"));
                        continue;
                    }
                };
                let xr = match x_of(&r) {
                    Ok(x) => x,
                    Err(e) => {
                        rep.viol(idx, "nonfinite", format!("{e} | {descr}"));
                        continue;
                    }
                };
                if let Err(e) = xr.aff_wf() {
                    rep.viol(idx, "wf", format!("result not well-formed: {e} | {descr}"));
                }
                let expect = |x: &[Q]| match (xa.leaf_fn_at(x), xb.leaf_fn_at(x)) {
                    (Some(fa), Some(fb)) => coeff_op(op, fa, fb).map(|f| f.apply(x)),
                    _ => None,
                };
                let region = |x: &[Q]| {
                    let mut r = closed_route_region(&xa, x);
                    r.extend(closed_route_region(&xb, x));
                    r
                };
                let mut tol = 0;
                if let Err(e) = same_function(&expect, &region, &xr, d, true, &mut tol) {
                    rep.viol(idx, "lifting", format!("a {op} b is not the point-wise lifting: {e} | {descr}"));
                }
                rep.tolerated += tol;

                // negation and mixed forms
                let fa = term(&mut rng, d, m, false);
                let xfa = XAff::from_aff(&fa).unwrap();
                let mix = rng.below(9);
                let res = guarded(|| {
                    let a2 = a.clone();
                    match mix {
                        0 => -a2,
                        1 => a2 + fa.clone(),
                        2 => a2 + &fa,
                        3 => fa.clone() + a2,
                        4 => &fa + a2,
                        5 => a2 - &fa,
                        6 => &fa - a2,
                        7 => fa.clone() - a2,
                        _ => a2 * &fa,
                    }
                });
                rep.evaluations += 1;
                match res {
                    Err(p) => rep.viol(idx, "panic", format!("mixed operator {mix} panicked: {p} | {descr}")),
                    Ok(r) => {
                        let xr = x_of(&r).unwrap();
                        let expect = |x: &[Q]| {
                            xa.leaf_fn_at(x).map(|l| {
                                let f = match mix {
                                    0 => XAff { mat: l.mat.iter().map(|r| r.iter().map(|v| -*v).collect()).collect(), bias: l.bias.iter().map(|v| -*v).collect(), indim: l.indim },
                                    1 | 2 | 3 | 4 => coeff_op('+', l, &xfa).unwrap(),
                                    5 => coeff_op('-', l, &xfa).unwrap(),
                                    6 | 7 => coeff_op('-', &xfa, l).unwrap(),
                                    _ => coeff_op('*', l, &xfa).unwrap(),
                                };
                                f.apply(x)
                            })
                        };
                        if let Err(e) = same_function(&expect, &|_| vec![], &xr, d, false, &mut 0) {
                            rep.viol(idx, "mixed", format!("mixed form {mix} wrong: {e} | f={:?} | {descr}", xfa));
                        }
                    }
                }
            }
        }
    }
}

// ------------------------------------------------------------------------------------------ C03 / C05 / C06

fn check_caches(rep: &mut Report, idx: u64, t: &XTree, descr: &str, step: &str) {
    let tol = Q::new(1, 100_000_000);
    for (i, nd) in &t.nodes {
        match &nd.state {
            XState::Witness(ws) => {
                if ws.is_empty() {
                    rep.viol(idx, "cache", format!("{step}: node {i} FeasibleWitness with no witness | {descr}"));
                }
                let reg = t.closed_region(*i);
                for w in ws {
                    let wq: Option<Vec<Q>> = w.iter().map(|v| Q::from_f64(*v)).collect();
                    let Some(wq) = wq else {
                        rep.viol(idx, "cache", format!("{step}: node {i} witness not finite | {descr}"));
                        continue;
                    };
                    if wq.len() != t.in_dim {
                        rep.viol(idx, "cache", format!("{step}: node {i} witness has dimension {} | {descr}", wq.len()));
                        continue;
                    }
                    for r in &reg {
                        if r.b - crate::q::dot(&r.a, &wq) < -tol {
                            rep.viol(idx, "cache", format!("{step}: witness {:?} of node {i} violates a path condition by more than 1e-8 | {descr}", w));
                        }
                    }
                }
            }
            XState::Infeasible => {
                if interior_nonempty(&t.closed_region(*i), t.in_dim) {
                    rep.viol(idx, "cache", format!("{step}: node {i} marked infeasible but its path region has an interior | {descr}"));
                }
            }
            _ => {}
        }
    }
}

fn eliminate_and_check(rep: &mut Report, idx: u64, t: &mut AffTree<2>, descr: &str, step: &str, total: bool) -> bool {
    let before = x_of(t).unwrap();
    let had_empty = before.nodes.keys().any(|i| *i != before.root && !feasible(&before.closed_region(*i), before.in_dim));
    let res = guarded(|| t.infeasible_elimination());
    if let Err(p) = res {
        rep.viol(idx, "panic", format!("{step}: infeasible_elimination panicked: {p} | {descr}"));
        return false;
    }
    let after = match x_of(t) {
        Ok(x) => x,
        Err(e) => {
            rep.viol(idx, "nonfinite", format!("{step}: {e} | {descr}"));
            return false;
        }
    };
    if let Err(e) = after.aff_wf() {
        rep.viol(idx, "wf", format!("{step}: tree not well-formed after elimination: {e} | {descr}"));
        return false;
    }
    for (i, nd) in &after.nodes {
        match before.nodes.get(i) {
            None => rep.viol(idx, "wf", format!("{step}: node {i} appeared during elimination | {descr}")),
            Some(o) => {
                if o.isleaf != nd.isleaf {
                    rep.viol(idx, "wf", format!("{step}: node {i} changed its kind (decision <-> terminal) during elimination | {descr}"));
                }
            }
        }
    }
    let mut tol = 0;
    if let Err(e) = same_function(&|x| before.eval(x), &|x| closed_route_region(&before, x), &after, before.in_dim, true, &mut tol) {
        rep.viol(idx, "function", format!("{step}: elimination changed the function: {e} | {descr}"));
    }
    rep.tolerated += tol;
    check_caches(rep, idx, &after, descr, step);
    if total {
        for (i, nd) in &after.nodes {
            if *i == after.root {
                continue;
            }
            if !feasible(&after.closed_region(*i), after.in_dim) {
                rep.viol(idx, "effective", format!("{step}: node {i} with an empty path region survived | {descr} | after: {}", after.descr()));
            }
            if !nd.isleaf && nd.children.iter().flatten().count() == 1 {
                rep.viol(idx, "effective", format!("{step}: decision {i} left with a single branch | {descr} | after: {}", after.descr()));
            }
        }
        let res = guarded(|| t.infeasible_elimination());
        match res {
            Err(p) => rep.viol(idx, "panic", format!("{step}: second elimination panicked: {p} | {descr}")),
            Ok(_) => {
                let again = x_of(t).unwrap();
                let strip = |x: &XTree| x.nodes.iter().map(|(i, n)| (*i, n.aff.clone(), n.children.clone(), n.parent)).collect::<Vec<_>>();
                if strip(&again) != strip(&after) {
                    rep.viol(idx, "idempotent", format!("{step}: a second elimination changed the tree | {descr}"));
                }
            }
        }
    }
    had_empty
}

fn small_schema(rng: &mut Rng, dim: usize) -> AffTree<2> {
    let row = rng.below(dim);
    match rng.below(5) {
        0 => schema::partial_ReLU(dim, row),
        1 => schema::partial_leaky_ReLU(dim, row, 0.5),
        2 => schema::partial_hard_tanh(dim, row, -1.0, 1.0),
        3 => schema::partial_threshold(dim, row, 0.5, 2.0),
        _ => schema::partial_hard_shrink(dim, row, 1.0),
    }
}

pub fn prune(rep: &mut Report, tier: Tier) {
    let (n, reps) = if tier == Tier::Quick { (4, 1) } else { (4, 6) };
    rep.rule = "binary trees (total and partial) with predicates from the pool (contradictory, redundant, boundary-touching and zero rows occur) ; fresh states, then compose/eliminate/compose/eliminate pipelines (cached states); contracts: function preserved (exact oracle, differences tolerated only on regions without interior), witnesses satisfy their path conditions within 1e-8, infeasible marks only on regions without interior, and on total trees: no empty-region node, no single-branch decision, idempotent; mirror_points results lie in the polytope; non-trivial: the tree had an exactly-empty path region".into();
    rep.bound = format!("shapes with <= {n} decisions x {reps} seeded assignment(s), dims in {{1,2}}, exact Fourier–Motzkin oracle, lattice [-3,3]^d step 1/2");
    let sh = shapes(2, n, true);
    let mut idx = 0u64;
    for s in &sh {
        for r in 0..reps {
            idx += 1;
            if rep.skip(idx) {
                continue;
            }
            let mut rng = Rng::new(rep.seed ^ (idx * 15485863 + r as u64));
            let d = 1 + rng.below(2);
            let m = 1 + rng.below(2);
            let mut t = build::<2>(&mut rng, s, d, m, false, true);
            let t_fresh = t.clone();
            let descr = format!("{}", x_of(&t).unwrap().descr());
            rep.evaluations += 1;
            rep.sample(descr.clone());
            let total = s.is_total();
            let had = eliminate_and_check(rep, idx, &mut t, &descr, "fresh", total);
            if had {
                rep.nontrivial(&descr);
            }
            // sound cached states on an arbitrary subset of nodes (exact oracle: Infeasible only on exactly-empty closed regions, Feasible only on
            // non-empty ones), in any position - also on a sibling that is still waiting on the traversal stack when its parent is examined:
            // no panic, well-formed, same function (effectiveness / idempotence are NOT demanded here: such states need not come from a pipeline)
            {
                let mut t2 = t_fresh.clone();
                let x2 = x_of(&t2).unwrap();
                let mut marks = vec![];
                for i in x2.nodes.keys() {
                    if *i != x2.root && rng.chance(1, 2) {
                        let st = if feasible(&x2.closed_region(*i), x2.in_dim) { affinitree::pwl::node::NodeState::Feasible } else { affinitree::pwl::node::NodeState::Infeasible };
                        marks.push((*i, matches!(st, affinitree::pwl::node::NodeState::Infeasible)));
                        t2.tree.node_value_mut(*i).unwrap().state = st;
                    }
                }
                let d3 = format!("{descr} || preset states (node, infeasible): {:?}", marks);
                rep.evaluations += 1;
                if eliminate_and_check(rep, idx, &mut t2, &d3, "preset", false) && !marks.is_empty() {
                    rep.nontrivial(&d3);
                }
            }
            // pipeline with cached states: compose with a schema / tree, eliminate, twice
            for round in 0..2 {
                let pick = rng.below(sh.len().min(16)); let mut g = if rng.chance(1, 2) { small_schema(&mut rng, m) } else { build::<2>(&mut rng, &sh[pick], m, m, false, false) };
                // the operand may carry cached feasibility states of its own (it went through an elimination before)
                if rng.chance(1, 2) {
                    let _ = guarded(|| g.infeasible_elimination());
                }
                let before = x_of(&t).unwrap();
                let xg = x_of(&g).unwrap();
                let res = guarded(|| t.compose::<false, false>(&g));
                if let Err(p) = res {
                    rep.viol(idx, "panic", format!("pipeline round {round}: compose panicked: {p} | {descr}"));
                    break;
                }
                let mid = x_of(&t).unwrap();
                if let Err(e) = same_function(&|x| before.eval(x).and_then(|y| xg.eval(&y)), &|_| vec![], &mid, d, false, &mut 0) {
                    rep.viol(idx, "law", format!("pipeline round {round}: compose law broken: {e} | {descr}"));
                }
                check_caches(rep, idx, &mid, &descr, &format!("pipeline round {round} after compose"));
                let d2 = format!("{descr} || round {round} g: {}", xg.descr());
                rep.evaluations += 1;
                let total_now = mid.nodes.values().all(|n| n.isleaf || n.children.iter().all(|c| c.is_some()));
                if eliminate_and_check(rep, idx, &mut t, &d2, &format!("pipeline round {round}"), total_now) {
                    rep.nontrivial(&d2);
                }
            }
        }
    }
    // pruned composition vs un-pruned composition (C03)
    for sf in &sh {
        for r in 0..reps {
            idx += 1;
            if rep.skip(idx) {
                continue;
            }
            let mut rng = Rng::new(rep.seed ^ (idx * 32452843 + r as u64));
            let d = 1 + rng.below(2);
            let m = 1 + rng.below(2);
            let f = build::<2>(&mut rng, sf, d, m, false, true);
            let pick = rng.below(sh.len()); let g = if rng.chance(1, 2) { small_schema(&mut rng, m) } else { build::<2>(&mut rng, &sh[pick], m, 1, false, false) };
            let xf = x_of(&f).unwrap();
            let xg = x_of(&g).unwrap();
            let descr = format!("f: {} | g: {}", xf.descr(), xg.descr());
            rep.evaluations += 1;
            let res = guarded(|| {
                let mut h = f.clone();
                h.compose::<true, false>(&g);
                h
            });
            match res {
                Err(p) => rep.viol(idx, "panic", format!("compose::<true,_> panicked: {p} | {descr}")),
                Ok(h) => {
                    let xh = x_of(&h).unwrap();
                    let mut u = f.clone();
                    u.compose::<false, false>(&g);
                    let xu = x_of(&u).unwrap();
                    let mut tol = 0;
                    if let Err(e) = same_function(&|x| xu.eval(x), &|x| closed_route_region(&xu, x), &xh, d, true, &mut tol) {
                        rep.viol(idx, "function", format!("pruned composition differs from un-pruned: {e} | {descr}"));
                    }
                    rep.tolerated += tol;
                    if xh.nodes.len() < xu.nodes.len() {
                        rep.nontrivial(&descr);
                    }
                    check_caches(rep, idx, &xh, &descr, "compose<true>");
                }
            }
        }
    }
    // predicates given in large units (coefficients ~1e4..1e5): the LP answers carry rounding noise of the size of the
    // membership tolerance, a fat region must still never be pruned (C03)
    for k in 0..(if tier == Tier::Quick { 150u64 } else { 3000 }) {
        idx += 1;
        if rep.skip(idx) {
            continue;
        }
        let mut rng = Rng::new(rep.seed ^ (idx * 86028121 + k));
        let d = 2;
        let big_pred = |rng: &mut Rng| -> AffFunc {
            let sg = |rng: &mut Rng| if rng.chance(1, 2) { 1.0 } else { -1.0 };
            let a0 = sg(rng) * (10_000 + rng.below(90_000)) as f64;
            let a1 = sg(rng) * (10_000 + rng.below(90_000)) as f64;
            let b = sg(rng) * rng.below(800_000) as f64;
            aff(&[vec![a0, a1]], &[b], 2)
        };
        let stump = |rng: &mut Rng, out: usize| -> AffTree<2> {
            let mut t = AffTree::<2>::from_aff(big_pred(rng));
            let c0 = term(rng, 2, out, false);
            let c1 = term(rng, 2, out, false);
            t.add_child_node(0, 0, c0).unwrap();
            t.add_child_node(0, 1, c1).unwrap();
            t
        };
        // f keeps the point (identity terminals) half of the time so that both predicates cut the same plane
        let mut f = stump(&mut rng, 2);
        if rng.chance(1, 2) {
            for i in f.tree.terminal_indices().collect::<Vec<_>>() {
                f.tree.node_value_mut(i).unwrap().aff = AffFunc::identity(2);
            }
        }
        let g = stump(&mut rng, 1);
        let xf = x_of(&f).unwrap();
        let xg = x_of(&g).unwrap();
        let descr = format!("large units | f: {} | g: {}", xf.descr(), xg.descr());
        rep.evaluations += 1;
        let res = guarded(|| {
            let mut h = f.clone();
            h.compose::<true, false>(&g);
            let s = &f + &{ let mut g2 = g.clone(); g2.apply_func(&aff(&[vec![1.0], vec![1.0]], &[0.0, 0.0], 1)); g2 };
            (h, s)
        });
        match res {
            Err(p) => rep.viol(idx, "panic", format!("compose::<true,_> / + panicked: {p} | {descr}")),
            Ok((h, s)) => {
                let xh = x_of(&h).unwrap();
                let mut u = f.clone();
                u.compose::<false, false>(&g);
                let xu = x_of(&u).unwrap();
                let xs = x_of(&s).unwrap();
                // a difference is tolerated only where the route region of the point contains no box of half-width 1/1000
                let fat = |t: &XTree, x: &[Q]| -> bool {
                    let rows: Vec<Row> = closed_route_region(t, x).into_iter().map(|r| {
                        let l1 = r.a.iter().fold(Q::int(0), |acc, v| acc + if *v < Q::int(0) { Q::int(0) - *v } else { *v });
                        Row { b: r.b - l1 * Q::new(1, 1000), ..r }
                    }).collect();
                    interior_nonempty(&rows, d)
                };
                for x in lattice(d) {
                    if xh.eval(&x) != xu.eval(&x) && fat(&xu, &x) {
                        rep.viol(idx, "function", format!("pruned composition differs from un-pruned at x={} (fat region) | {descr}", qs(&x)));
                        break;
                    }
                }
                let want = |x: &[Q]| -> Option<Vec<Q>> {
                    let a = xf.eval(x)?;
                    let b = xg.eval(x)?;
                    Some(vec![a[0] + b[0], a[1] + b[0]])
                };
                for x in lattice(d) {
                    // route regions of the sum: intersect the operands' regions
                    if xs.eval(&x) != want(&x) {
                        let mut rows = closed_route_region(&xf, &x);
                        rows.extend(closed_route_region(&xg, &x));
                        let rows: Vec<Row> = rows.into_iter().map(|r| {
                            let l1 = r.a.iter().fold(Q::int(0), |acc, v| acc + if *v < Q::int(0) { Q::int(0) - *v } else { *v });
                            Row { b: r.b - l1 * Q::new(1, 1000), ..r }
                        }).collect();
                        if interior_nonempty(&rows, d) {
                            rep.viol(idx, "function", format!("f + g differs from the point-wise sum at x={} (fat region) | {descr}", qs(&x)));
                            break;
                        }
                    }
                }
                if xh.nodes.len() < xu.nodes.len() {
                    rep.nontrivial(&descr);
                }
            }
        }
    }
    // mirror_points (witness repair heuristic)
    for k in 0..(if tier == Tier::Quick { 2000 } else { 40000 }) {
        idx += 1;
        if rep.skip(idx) {
            continue;
        }
        let mut rng = Rng::new(rep.seed ^ (idx * 49979687 + k));
        let d = 1 + rng.below(2);
        let nrows = 1 + rng.below(4);
        let mut rows = vec![];
        let mut bias = vec![];
        for _ in 0..nrows {
            let (r, b) = pred_row(&mut rng, d);
            rows.push(r);
            bias.push(b);
        }
        let p = poly(&rows, &bias, d);
        let npts = 1 + rng.below(3);
        let mut pts = ndarray::Array2::<f64>::zeros((d, npts));
        for i in 0..d {
            for j in 0..npts {
                pts[[i, j]] = (rng.below(13) as f64 - 6.0) / 2.0;
            }
        }
        rep.evaluations += 1;
        let res = guarded(|| AffTree::<2>::mirror_points(&p, &pts, 8));
        match res {
            Err(msg) => rep.viol(idx, "panic", format!("mirror_points panicked: {msg} | rows={rows:?} bias={bias:?} pts={pts:?}")),
            Ok(None) => {}
            Ok(Some((sol, _))) => {
                let tol = Q::new(1, 100_000_000);
                for c in 0..sol.shape()[1] {
                    let w: Option<Vec<Q>> = (0..d).map(|i| Q::from_f64(sol[[i, c]])).collect();
                    let Some(w) = w else {
                        rep.viol(idx, "mirror", format!("mirror_points returned a non-finite point | rows={rows:?} bias={bias:?}"));
                        continue;
                    };
                    for i in 0..nrows {
                        let a: Vec<Q> = rows[i].iter().map(|v| Q::from_f64(*v).unwrap()).collect();
                        if Q::from_f64(bias[i]).unwrap() - crate::q::dot(&a, &w) < -tol {
                            rep.viol(idx, "mirror", format!("mirror_points returned {:?} outside the polytope rows={rows:?} bias={bias:?} start={pts:?}", sol.column(c).to_vec()));
                        }
                    }
                }
                rep.nontrivial(&format!("{rows:?}{bias:?}{pts:?}"));
            }
        }
    }
}

// ------------------------------------------------------------------------------------------ C08

pub fn reduce(rep: &mut Report, tier: Tier) {
    let (n, reps) = if tier == Tier::Quick { (4, 6) } else { (5, 8) };
    rep.rule = "binary trees with terminals from a tiny pool (equal siblings at several levels, siblings differing only in bias or in one coefficient; two-output terminals in row-major / column-major / strided memory layouts); contract: function unchanged at every lattice point (no tolerance), node count does not grow, idempotent, afterwards no decision below the root has two equal terminal children, decisions with differing terminal children are kept; non-trivial: reduce removed at least one node".into();
    rep.bound = format!("shapes with <= {n} decisions (partial allowed) x {reps} seeded assignment(s), dims in {{1,2}}");
    let sh = shapes(2, n, true);
    let mut idx = 0u64;
    for s in &sh {
        for r in 0..reps {
            idx += 1;
            if rep.skip(idx) {
                continue;
            }
            let mut rng = Rng::new(rep.seed ^ (idx * 86028121 + r as u64));
            // every third case has two outputs and two inputs, so that terminal matrices can come in different memory layouts
            let wide = r % 3 == 2;
            let d = if wide { 2 } else { 1 + rng.below(2) };
            let mut t = build::<2>(&mut rng, s, d, if wide { 2 } else { 1 }, true, true);
            // every second case: make all terminals below a random node equal, so that merges cascade over several levels
            if r % 2 == 1 {
                let nodes: Vec<usize> = t.tree.node_indices().collect();
                let top = *rng.pick(&nodes);
                let f = term(&mut rng, d, if wide { 2 } else { 1 }, true);
                let leaves: Vec<usize> = t.tree.terminal_indices().collect();
                for l in leaves {
                    let under = l == top || t.tree.path_to_node(l).unwrap().iter().any(|(p, _)| *p == top);
                    if under {
                        t.tree.node_value_mut(l).unwrap().aff = f.clone();
                    }
                }
            }
            // same logical terminals, different memory layouts (column-major matrices as produced by transposition or
            // concatenation along axis 1, strided bias vectors): equality of terminals must not depend on the layout
            let mut layouts = String::new();
            if wide {
                let leaves: Vec<usize> = t.tree.terminal_indices().collect();
                for l in leaves {
                    let nd = t.tree.node_value_mut(l).unwrap();
                    let (m, b) = (nd.aff.mat.clone(), nd.aff.bias.clone());
                    let colmajor = rng.chance(1, 2);
                    let strided = rng.chance(1, 2);
                    let m2 = if colmajor { m.t().to_owned().reversed_axes() } else { m };
                    let b2 = if strided {
                        let mut v = vec![];
                        for x in b.iter() {
                            v.push(*x);
                            v.push(7.0);
                        }
                        ndarray::Array1::from(v).slice_move(ndarray::s![..;2])
                    } else {
                        b
                    };
                    nd.aff = AffFunc::from_mats(m2, b2);
                    layouts.push_str(&format!(" {l}:{}{}", if colmajor { "c" } else { "r" }, if strided { "s" } else { "-" }));
                }
            }
            let before = x_of(&t).unwrap();
            let descr = if wide { format!("{} | layouts (c=column-major matrix, s=strided bias):{layouts}", before.descr()) } else { before.descr() };
            rep.evaluations += 1;
            rep.sample(descr.clone());
            let res = guarded(|| {
                let mut u = t.clone();
                u.reduce();
                u
            });
            let u = match res {
                Ok(u) => u,
                Err(p) => {
                    rep.viol(idx, "panic", format!("reduce panicked: {p} | {descr}"));
                    continue;
                }
            };
            let after = x_of(&u).unwrap();
            if let Err(e) = after.aff_wf() {
                rep.viol(idx, "wf", format!("not well-formed after reduce: {e} | {descr}"));
                continue;
            }
            if after.nodes.len() < before.nodes.len() {
                rep.nontrivial(&descr);
            }
            if after.nodes.len() > before.nodes.len() {
                rep.viol(idx, "size", format!("reduce increased the node count | {descr}"));
            }
            if let Err(e) = same_function(&|x| before.eval(x), &|_| vec![], &after, d, false, &mut 0) {
                rep.viol(idx, "function", format!("reduce changed the function: {e} | {descr} | after: {}", after.descr()));
            }
            for (i, nd) in &after.nodes {
                if *i == after.root || nd.isleaf {
                    continue;
                }
                if let (Some(l), Some(r)) = (nd.children[0], nd.children[1]) {
                    let (ln, rn) = (&after.nodes[&l], &after.nodes[&r]);
                    if ln.isleaf && rn.isleaf && ln.aff == rn.aff {
                        rep.viol(idx, "left-over", format!("decision {i} still has two equal terminal children | {descr} | after: {}", after.descr()));
                    }
                }
            }
            for (i, nd) in &before.nodes {
                if *i == before.root || nd.isleaf {
                    continue;
                }
                if let (Some(l), Some(r)) = (nd.children[0], nd.children[1]) {
                    let (ln, rn) = (&before.nodes[&l], &before.nodes[&r]);
                    if ln.isleaf && rn.isleaf && ln.aff != rn.aff {
                        let kept = after.nodes.get(i).map_or(false, |a| !a.isleaf && a.aff == nd.aff && a.children == nd.children);
                        if !kept {
                            rep.viol(idx, "over-merge", format!("decision {i} with differing terminal children was not kept | {descr} | after: {}", after.descr()));
                        }
                    }
                }
            }
            let mut w = u.clone();
            w.reduce();
            if x_of(&w).unwrap() != after {
                rep.viol(idx, "idempotent", format!("second reduce changed the tree | {descr}"));
            }
        }
    }
}

// ------------------------------------------------------------------------------------------ C04

#[derive(Debug, Clone)]
enum Op {
    ApplyFunc,
    Compose(bool),
    ComposeSchema(bool),
    Eliminate,
    Reduce,
    AddTree,
    SubTree,
    Neg,
    AddAff,
}

fn start_tree(rng: &mut Rng, d: usize) -> (AffTree<2>, String) {
    match rng.below(6) {
        0 => (AffTree::<2>::new(d), "new".into()),
        1 => { let o = 1 + rng.below(2); (AffTree::<2>::from_aff(term(rng, d, o, false)), "from_aff".into()) }
        2 | 3 => {
            let nrows = 1 + rng.below(2);
            let mut rows = vec![];
            let mut bias = vec![];
            for _ in 0..nrows {
                let (r, b) = pred_row(rng, d);
                rows.push(r);
                bias.push(b);
            }
            let p: Polytope = poly(&rows, &bias, d);
            let m = 1 + rng.below(2);
            let ft = term(rng, d, m, false);
            let ff = term(rng, d, m, false);
            let with_else = rng.chance(1, 2);
            (AffTree::<2>::from_poly(p, ft, if with_else { Some(&ff) } else { None }).unwrap(), format!("from_poly(else={with_else})"))
        }
        _ => (small_schema(rng, d), "schema".into()),
    }
}

fn out_dim(t: &XTree) -> usize {
    t.nodes.values().find(|n| n.isleaf).map(|n| n.aff.outdim()).unwrap()
}

pub fn histories(rep: &mut Report, tier: Tier) {
    let (cases, len) = if tier == Tier::Quick { (8000, 4) } else { (150000, 5) };
    rep.rule = "random operation histories from every constructor (new, from_aff, from_poly with/without else-branch, schemas) over {apply_func (output widths 1-3), compose<prune on/off>(tree|activation schema|argmax|class_characterization), infeasible_elimination, reduce, +tree, -tree, neg, +affine} with dimension-compatible arguments; after each step: aff_wf (node input dims, common terminal output dim, decision row counts, leaf flag) and no panic; non-trivial: history contains a pruning step and a composition".into();
    rep.bound = format!("{cases} seeded histories of length <= {len}, dims in {{1,2}}, operand trees with <= 2 decisions");
    let sh = shapes(2, 2, true);
    for idx in 1..=cases as u64 {
        if rep.skip(idx) {
            continue;
        }
        let mut rng = Rng::new(rep.seed ^ (idx * 2654435761));
        let d = 1 + rng.below(2);
        let (mut t, start) = start_tree(&mut rng, d);
        let mut hist = vec![start];
        rep.evaluations += 1;
        let mut interesting = (false, false);
        for step in 0..len {
            let xt = match x_of(&t) {
                Ok(x) => x,
                Err(e) => {
                    rep.viol(idx, "nonfinite", format!("{e} | history {hist:?}"));
                    break;
                }
            };
            if let Err(e) = xt.aff_wf() {
                rep.viol(idx, "wf", format!("after step {step}: {e} | history {hist:?} | tree {}", xt.descr()));
                break;
            }
            let m = out_dim(&xt);
            let op = match rng.below(10) {
                0 => Op::ApplyFunc,
                1 => Op::Compose(false),
                2 | 3 => Op::Compose(true),
                4 => Op::ComposeSchema(rng.chance(1, 2)),
                5 => Op::Eliminate,
                6 => Op::Reduce,
                7 => Op::AddTree,
                8 => if rng.chance(1, 2) { Op::SubTree } else { Op::Neg },
                _ => Op::AddAff,
            };
            hist.push(format!("{op:?}"));
            // output widths up to 3, so that the head schemas (argmax, class characterisation) get more than two inputs
            let o2 = 1 + rng.below(3);
            let pick = rng.below(sh.len());
            let res = guarded(|| match &op {
                Op::ApplyFunc => {
                    let a = term(&mut rng, m, o2, false);
                    t.apply_func(&a);
                }
                Op::Compose(p) => {
                    let g = build::<2>(&mut rng, &sh[pick], m, o2, false, false);
                    if *p { t.compose::<true, false>(&g) } else { t.compose::<false, false>(&g) }
                }
                Op::ComposeSchema(p) => {
                    let g = if m >= 2 && rng.chance(1, 3) {
                        if rng.chance(1, 2) { schema::argmax(m) } else { schema::class_characterization(m, rng.below(m)) }
                    } else {
                        small_schema(&mut rng, m)
                    };
                    if *p { t.compose::<true, false>(&g) } else { t.compose::<false, false>(&g) }
                }
                Op::Eliminate => {
                    t.infeasible_elimination();
                }
                Op::Reduce => t.reduce(),
                Op::AddTree => {
                    let g = build::<2>(&mut rng, &sh[pick], d, m, false, false);
                    t = t.clone() + &g;
                }
                Op::SubTree => {
                    let g = build::<2>(&mut rng, &sh[pick], d, m, false, false);
                    t = &t - &g;
                }
                Op::Neg => t = -t.clone(),
                Op::AddAff => {
                    let a = term(&mut rng, d, m, false);
                    t = t.clone() + &a;
                }
            });
            match &op {
                Op::Compose(true) | Op::ComposeSchema(true) | Op::Eliminate | Op::AddTree | Op::SubTree => interesting.0 = true,
                _ => {}
            }
            if matches!(op, Op::Compose(_) | Op::ComposeSchema(_)) {
                interesting.1 = true;
            }
            if let Err(p) = res {
                rep.viol(idx, "panic", format!("step {step} panicked: {p} | history {hist:?} | tree before: {}", xt.descr()));
                break;
            }
        }
        if let Ok(xt) = x_of(&t) {
            if let Err(e) = xt.aff_wf() {
                if !rep.violations.iter().any(|v| v.case_id == rep.case_id(idx)) {
                    rep.viol(idx, "wf", format!("at end: {e} | history {hist:?} | tree {}", xt.descr()));
                }
            }
        }
        if interesting.0 && interesting.1 {
            rep.nontrivial(&format!("{hist:?}{idx}"));
        }
        if idx < 4 {
            rep.sample(format!("{hist:?}"));
        }
    }
}

#[allow(dead_code)]
pub fn unused(_: AffFunc) {}
