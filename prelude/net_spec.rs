// ---- prelude/net_spec.rs : shapes of layer sequences (C18 / C01) ----
// a layer is dimension-compatible with an input of `dim` components
pub open spec fn layer_ok(dim: usize, l: Layer) -> bool {
    match l {
        Layer::Linear(f) => f.sp_indim() == dim,
        Layer::ReLU(i) => i < dim,
        Layer::LeakyReLU(i, _) => i < dim,
        Layer::HardTanh(i) => i < dim,
        Layer::HardSigmoid(i) => i < dim,
        Layer::Argmax => dim >= 2,
        Layer::ClassChar(c) => c < dim && dim >= 2,
    }
}
// number of components it produces
pub open spec fn layer_out(dim: usize, l: Layer) -> usize {
    match l {
        Layer::Linear(f) => f.sp_outdim(),
        Layer::Argmax => 1,
        Layer::ClassChar(_) => 1,
        _ => dim,
    }
}
pub open spec fn net_out(dim: usize, ls: Seq<Layer>) -> usize
    decreases ls.len()
{
    if ls.len() == 0 { dim } else { layer_out(net_out(dim, ls.drop_last()), ls.last()) }
}
pub open spec fn net_ok(dim: usize, ls: Seq<Layer>) -> bool
    decreases ls.len()
{
    ls.len() == 0 || (net_ok(dim, ls.drop_last()) && layer_ok(net_out(dim, ls.drop_last()), ls.last()))
}

pub open spec fn flat(s: TensorShape) -> usize { match s { TensorShape::Flat { in_dim } => in_dim } }

pub open spec fn layers_of(ops: Seq<(Layer, TensorShape)>) -> Seq<Layer> { ops.map_values(|p: (Layer, TensorShape)| p.0) }

// the tracked shapes describe the real network: every queued layer is compatible with what precedes it,
// the recorded shape after each layer is the output width of that prefix, and current_shape is the width of the whole
pub open spec fn arch_ok(a: Architecture) -> bool {
    let ls = layers_of(a.operators@);
    &&& net_ok(flat(a.input_shape), ls)
    &&& forall|i: int| 0 <= i < ls.len() ==> flat(#[trigger] a.operators@[i].1) == net_out(flat(a.input_shape), ls.take(i + 1))
    &&& flat(a.current_shape) == net_out(flat(a.input_shape), ls)
}

// effect of one builder call that tries to queue layer l
pub open spec fn queued(a0: Architecture, a1: Architecture, l: Layer, ok: bool) -> bool {
    &&& ok == layer_ok(flat(a0.current_shape), l)
    &&& a1.input_shape == a0.input_shape
    &&& !ok ==> a1.operators@ == a0.operators@ && a1.current_shape == a0.current_shape
    &&& ok ==> a1.operators@ == a0.operators@.push((l, a1.current_shape))
            && flat(a1.current_shape) == layer_out(flat(a0.current_shape), l)
}

pub proof fn lemma_queued_ok(a0: Architecture, a1: Architecture, l: Layer, ok: bool)
    requires arch_ok(a0), queued(a0, a1, l, ok)
    ensures arch_ok(a1)
{
    if ok {
        let ls0 = layers_of(a0.operators@);
        let ls1 = layers_of(a1.operators@);
        assert(ls1 =~= ls0.push(l));
        assert(ls1.drop_last() =~= ls0);
        assert forall|i: int| 0 <= i < ls1.len() implies flat(#[trigger] a1.operators@[i].1) == net_out(flat(a1.input_shape), ls1.take(i + 1)) by {
            if i < ls0.len() {
                assert(a1.operators@[i] == a0.operators@[i]);
                assert(ls1.take(i + 1) =~= ls0.take(i + 1));
            } else {
                assert(ls1.take(i + 1) =~= ls1);
            }
        }
    } else {
        assert(a1.operators@ == a0.operators@);
    }
}
// ---- end net_spec ----
