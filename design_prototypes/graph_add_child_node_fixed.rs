use vstd::prelude::*;
verus! {

pub type TreeIndex = usize;
pub type Label = usize;

pub assume_specification<T> [core::mem::replace] (dest: &mut T, src: T) -> (r: T)
    ensures r == *old(dest), *final(dest) == src;

// ---- shim for slab::Slab
#[verifier::external_body]
#[verifier::accept_recursive_types(T)]
pub struct Slab<T> { v: Vec<T> }

impl<T> View for Slab<T> { type V = Map<usize, T>; uninterp spec fn view(&self) -> Map<usize, T>; }

impl<T> Slab<T> {
    #[verifier::external_body]
    pub fn contains(&self, key: usize) -> (r: bool)
        ensures r == self@.dom().contains(key)
    { unimplemented!() }

    #[verifier::external_body]
    pub fn get(&self, key: usize) -> (r: Option<&T>)
        ensures r == (if self@.dom().contains(key) { Some(&self@[key]) } else { None })
    { unimplemented!() }

    #[verifier::external_body]
    pub fn get_mut(&mut self, key: usize) -> (r: Option<&mut T>)
        ensures
            !old(self)@.dom().contains(key) ==> r.is_none() && final(self)@ == old(self)@,
            old(self)@.dom().contains(key) ==> r.is_some() && *r.unwrap() == old(self)@[key]
                && final(self)@ == old(self)@.insert(key, *final(r.unwrap())),
    { unimplemented!() }

    #[verifier::external_body]
    pub fn insert(&mut self, val: T) -> (key: usize)
        ensures !old(self)@.dom().contains(key), final(self)@ == old(self)@.insert(key, val)
    { unimplemented!() }

    #[verifier::external_body]
    pub fn idx(&self, key: usize) -> (r: &T)
        requires self@.dom().contains(key)
        ensures *r == self@[key]
    { unimplemented!() }

    #[verifier::external_body]
    pub fn remove(&mut self, key: usize) -> (r: T)
        requires old(self)@.dom().contains(key)
        ensures r == old(self)@[key], final(self)@ == old(self)@.remove(key)
    { unimplemented!() }
}

#[derive(Debug)]
pub struct InvalidTreeIndexError {
    pub index: TreeIndex,
}

pub struct TreeNode<T, const K: usize> {
    pub value: T,
    pub parent: Option<TreeIndex>,
    pub children: [Option<TreeIndex>; K],
    pub isleaf: bool,
}

impl<T, const K: usize> TreeNode<T, K> {
    pub fn new(value: T, parent: Option<TreeIndex>) -> (r: TreeNode<T, K>)
        ensures r.isleaf, r.parent == parent, r.value == value, forall|i:int| 0<=i<K ==> r.children[i].is_none()
    {
        TreeNode {
            value,
            parent,
            children: [None; K],
            isleaf: true,
        }
    }
}

pub struct Tree<N, const K: usize> {
    pub arena: Slab<TreeNode<N, K>>,
    pub root: Option<TreeIndex>,
}

#[derive(Debug)]
pub enum NodeError {
    InvalidIndex(InvalidTreeIndexError),
    MissingChild { parent: TreeIndex, label: Label },
    MissingParent { index: TreeIndex },
    ChildExists { parent: TreeIndex, label: Label },
    RootNode,
}

impl From<InvalidTreeIndexError> for NodeError {
    fn from(e: InvalidTreeIndexError) -> (r: Self) ensures r == NodeError::InvalidIndex(e) { NodeError::InvalidIndex(e) }
}

impl<N, const K: usize> Tree<N, K> {
    pub open spec fn links_ok(&self) -> bool {
        let a = self.arena@;
        &&& forall|i: usize, l: int| #![trigger a[i].children[l]] a.dom().contains(i) && 0 <= l < K && a[i].children[l].is_some() ==>
              a.dom().contains(a[i].children[l].unwrap()) && a[a[i].children[l].unwrap()].parent == Some(i)
        &&& forall|c: usize| #![trigger a[c].parent] a.dom().contains(c) && a[c].parent.is_some() ==>
              a.dom().contains(a[c].parent.unwrap()) && exists|l: int| 0 <= l < K && a[a[c].parent.unwrap()].children[l] == Some(c)
        &&& forall|i: usize| #![trigger a[i].isleaf] a.dom().contains(i) ==> (a[i].isleaf <==> forall|l: int| 0 <= l < K ==> a[i].children[l].is_none())
    }

    pub fn tree_node_mut(
        &mut self,
        idx: TreeIndex,
    ) -> (r: Result<&mut TreeNode<N, K>, InvalidTreeIndexError>)
        ensures
            !old(self).arena@.dom().contains(idx) ==> r.is_err() && final(self).arena@ == old(self).arena@,
            old(self).arena@.dom().contains(idx) ==> r.is_ok() && *r.unwrap() == old(self).arena@[idx]
                && final(self).arena@ == old(self).arena@.insert(idx, *final(r.unwrap())),
            final(self).root == old(self).root,
    {
        self.arena
            .get_mut(idx)
            .ok_or(InvalidTreeIndexError { index: idx })
    }

    pub fn add_child_node(
        &mut self,
        parent: TreeIndex,
        label: Label,
        value: N,
    ) -> (r: Result<TreeIndex, NodeError>)
        requires old(self).links_ok(), label < K
        ensures final(self).links_ok(),
            r.is_err() ==> final(self).arena@ == old(self).arena@,
    {
        if !self.arena.contains(parent) {
            return Err(NodeError::InvalidIndex(InvalidTreeIndexError {
                index: parent,
            }));
        }

        if self.arena.idx(parent).children[label].is_some() {
            return Err(NodeError::ChildExists { parent, label });
        }

        let childnode = TreeNode::new(value, Some(parent));
        let node_idx = self.arena.insert(childnode);

        let parent_node = self.tree_node_mut(parent).expect(
            "invalid state: tree node should be available when index is contained in arena",
        );
        parent_node.isleaf = false;
        parent_node.children[label] = Some(node_idx);
        proof {
            let a0 = old(self).arena@;
            let a = self.arena@;
            assert(a.dom() =~= a0.dom().insert(node_idx));
            assert(a[node_idx].parent == Some(parent));
            assert(a[parent].children[label as int] == Some(node_idx));
            assert forall|i: usize, l: int| a.dom().contains(i) && 0 <= l < K && #[trigger] a[i].children[l].is_some() implies
              a.dom().contains(a[i].children[l].unwrap()) && a[a[i].children[l].unwrap()].parent == Some(i) by {
                if i == parent { if l == label as int {} else { assert(a0[i].children[l] == a[i].children[l]); } }
                else if i == node_idx {} else { assert(a0[i].children[l] == a[i].children[l]); }
            }
            assert forall|c: usize| a.dom().contains(c) && #[trigger] a[c].parent.is_some() implies
              a.dom().contains(a[c].parent.unwrap()) && exists|l: int| 0 <= l < K && a[a[c].parent.unwrap()].children[l] == Some(c) by {
                if c == node_idx { assert(a[parent].children[label as int] == Some(c)); }
                else {
                    assert(a0[c].parent == a[c].parent);
                    let p = a0[c].parent.unwrap();
                    let l = choose|l: int| 0 <= l < K && a0[p].children[l] == Some(c);
                    assert(a[p].children[l] == Some(c));
                }
            }
            assert forall|i: usize| a.dom().contains(i) implies (#[trigger] a[i].isleaf <==> forall|l: int| 0 <= l < K ==> a[i].children[l].is_none()) by {
                if i == parent { assert(a[i].children[label as int].is_some()); }
                else if i == node_idx {}
                else { assert(a[i] == a0[i]); }
            }
        }
        Ok(node_idx)
    }
}

} // verus!
fn main() {}
