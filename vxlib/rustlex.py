"""Minimal Rust lexing helpers: comment/string masking, brace matching, item lookup.

Everything here works on a *masked* copy of the source (same length, comments and literal contents
blanked) so that braces and keywords inside strings/comments are never seen, while text is always
copied from the original.
"""
import re


class LostAnchor(Exception):
    """An item / statement the contracts are anchored on is no longer in the source."""


def mask(src: str) -> str:
    out = list(src)
    i, n = 0, len(src)

    def blank(a, b):
        for k in range(a, b):
            if out[k] != '\n':
                out[k] = ' '

    while i < n:
        c = src[i]
        if src.startswith('//', i):
            j = src.find('\n', i)
            j = n if j < 0 else j
            blank(i, j)
            i = j
        elif src.startswith('/*', i):
            depth, j = 1, i + 2
            while j < n and depth:
                if src.startswith('/*', j):
                    depth += 1
                    j += 2
                elif src.startswith('*/', j):
                    depth -= 1
                    j += 2
                else:
                    j += 1
            blank(i, j)
            i = j
        elif c == '"' or (c in 'rb' and re.match(r'(br|rb|r|b)#*"', src[i:i + 12]) and (i == 0 or not (src[i - 1].isalnum() or src[i - 1] == '_'))):
            m = re.match(r'(br|rb|r|b)?(#*)"', src[i:])
            raw = m.group(1) and 'r' in m.group(1)
            hashes = m.group(2)
            j = i + m.end()
            if raw:
                close = '"' + hashes
                k = src.find(close, j)
                k = n if k < 0 else k
                blank(j, k)
                i = k + len(close)
            else:
                k = j
                while k < n and src[k] != '"':
                    k += 2 if src[k] == '\\' else 1
                blank(j, k)
                i = k + 1
        elif c == "'":
            # char literal or lifetime
            m = re.match(r"'(\\.[^']*|[^'\\])'", src[i:])
            if m:
                blank(i + 1, i + m.end() - 1)
                i += m.end()
            else:
                i += 1
        else:
            i += 1
    return ''.join(out)


OPEN = {'{': '}', '(': ')', '[': ']'}
CLOSE = {v: k for k, v in OPEN.items()}


def match_close(m: str, i: int) -> int:
    """m[i] is an opening bracket; return index of the matching closing bracket."""
    stack = []
    n = len(m)
    while i < n:
        c = m[i]
        if c in OPEN:
            stack.append(c)
        elif c in CLOSE:
            if not stack or stack[-1] != CLOSE[c]:
                raise LostAnchor('unbalanced brackets')
            stack.pop()
            if not stack:
                return i
        i += 1
    raise LostAnchor('unbalanced brackets (eof)')


def norm_ws(s: str) -> str:
    s = re.sub(r'\s+', ' ', s.strip())
    s = re.sub(r'\s*([<>,:(){}\[\]&=+;])\s*', r'\1', s)
    return s


def depth_at(m: str, pos: int, start: int = 0) -> int:
    d = 0
    for k in range(start, pos):
        if m[k] == '{':
            d += 1
        elif m[k] == '}':
            d -= 1
    return d


def skip_angle(m: str, i: int) -> int:
    """m[i] == '<' (generics); return index just past the matching '>'."""
    d = 0
    n = len(m)
    while i < n:
        c = m[i]
        if c == '<':
            d += 1
        elif c == '>' and m[i - 1] != '-' and m[i - 1] != '=':
            d -= 1
            if d == 0:
                return i + 1
        i += 1
    raise LostAnchor('unbalanced generics')


def find_block_open(m: str, i: int) -> int:
    """From position i (start of an item header) find the '{' that opens its body,
    skipping bracketed groups in the header (argument lists, array types)."""
    n = len(m)
    while i < n:
        c = m[i]
        if c in '([':
            i = match_close(m, i) + 1
            continue
        if c == '{':
            return i
        if c == ';':
            return -1
        i += 1
    return -1


def iter_impls(src: str, m: str):
    """Yield (header_text_normalised, body_open, body_close) for every impl block."""
    for mt in re.finditer(r'(?<![A-Za-z0-9_])impl\b', m):
        # must be at item position: previous non-space char is one of  } ; ] { or start
        k = mt.start() - 1
        while k >= 0 and m[k] in ' \t\n':
            k -= 1
        if k >= 0 and m[k] not in '};]{()':
            continue
        o = find_block_open(m, mt.start())
        if o < 0:
            continue
        c = match_close(m, o)
        yield norm_ws(src[mt.start():o]), o, c


def find_fns(src: str, m: str, lo: int, hi: int, name: str):
    """All `fn name` items whose header lies directly (depth 0) inside m[lo:hi]."""
    res = []
    for mt in re.finditer(r'(?<![A-Za-z0-9_])fn\s+' + re.escape(name) + r'(?![A-Za-z0-9_])', m[lo:hi]):
        p = lo + mt.start()
        if depth_at(m, p, lo) != 0:
            continue
        o = find_block_open(m, p)
        if o < 0:
            continue
        c = match_close(m, o)
        # extend start backwards over visibility/qualifiers
        s = p
        pre = m[max(lo, p - 60):p]
        q = re.search(r'((pub(\s*\([^)]*\))?|const|unsafe|default)\s+)+$', pre)
        if q:
            s = p - (len(pre) - q.start())
        res.append((s, o, c))
    return res


def find_item(src: str, m: str, kind: str, name: str):
    """struct/enum/trait/type/macro_rules item at any depth -> (start, end_exclusive)."""
    if kind == 'macro_rules':
        pat = r'macro_rules!\s*' + re.escape(name) + r'(?![A-Za-z0-9_])'
    else:
        pat = r'((pub(\s*\([^)]*\))?)\s+)?' + kind + r'\s+' + re.escape(name) + r'(?![A-Za-z0-9_])'
    for mt in re.finditer(pat, m):
        k = mt.start() - 1
        while k >= 0 and m[k] in ' \t\n':
            k -= 1
        if k >= 0 and m[k] not in '};]{':
            continue
        i = mt.end()
        n = len(m)
        while i < n:
            c = m[i]
            if c in '([{':
                j = match_close(m, i)
                if c == '{' and kind != 'type':
                    return mt.start(), j + 1
                if c == '(' and kind == 'macro_rules':
                    # macro_rules! name ( ... );
                    e = m.find(';', j)
                    return mt.start(), (e + 1 if e >= 0 else j + 1)
                i = j + 1
                continue
            if c == ';':
                return mt.start(), i + 1
            i += 1
    raise LostAnchor(f'{kind} {name} not found')
