// ---- prelude/wit_spec.rs : C05 at tree level - every cached witness satisfies, up to the containment tolerance, every half-space of its node's path ----
// ---------------------------------------------------------------- specification
// the point w satisfies, up to the tolerance, the half-space reported for the edge (decision f --l--> child): the rows of f for label 1, the negated rows
// for label 0 (this is the polytope PolyhedraGen / polyhedral_path_characterization report for the edge, see edge_poly)
pub open spec fn wit_edge(f: AffFunc, l: int, w: V) -> bool {
    let s = if l == 1 { 1real } else { 0real - 1real };
    tol_sat(mscale(f.mat.m(), s), vscale(f.bias.v(), s), w)
}
// the edge leaving p under label l lies on the path from the root to c (its target is c or a proper ancestor of c)
pub open spec fn edge_above<const K: usize>(a: AArena<K>, p: usize, l: int, c: usize) -> bool {
    a.dom().contains(p) && 0 <= l < K && a[p].children[l] is Some && (a[p].children[l].unwrap() == c || desc(a, a[p].children[l].unwrap(), c))
}
pub open spec fn wit_on_path<const K: usize>(a0: AArena<K>, c: usize, w: V) -> bool {
    forall|p: usize, l: int| #[trigger] edge_above(a0, p, l, c) ==> wit_edge(a0[p].value.aff, l, w)
}
pub open spec fn wits_ok<const K: usize>(a0: AArena<K>, c: usize, st: NodeState) -> bool {
    st matches NodeState::FeasibleWitness(v) ==> forall|i: int| 0 <= i < v@.len() ==> wit_on_path(a0, c, (#[trigger] v@[i]).v())
}
// the cache contract for witnesses: the witnesses stored in arena a are right for the paths of arena a0 (a0 == a: the property itself;
// during the elimination: a0 is the tree at entry, whose paths are supersets of the current ones)
#[verifier::opaque]
pub open spec fn wit_inv<const K: usize>(a0: AArena<K>, a: AArena<K>) -> bool {
    forall|c: usize| #![trigger a[c].value] a.dom().contains(c) ==> wits_ok(a0, c, a[c].value.state)
}
// the current tree is the original one with decisions spliced out and subtrees removed: every current edge (p --l--> k) comes from the original edge
// leaving p under l, whose target is k or an ancestor of k
#[verifier::opaque]
pub open spec fn emb_inv<const K: usize>(a0: AArena<K>, a: AArena<K>) -> bool {
    forall|p: usize, l: int| #![trigger a[p].children[l]] a.dom().contains(p) && 0 <= l < K && a[p].children[l] is Some ==> edge_above(a0, p, l, a[p].children[l].unwrap())
}

// ---------------------------------------------------------------- descendants
pub proof fn lemma_desc_trans<const K: usize>(a: AArena<K>, x: usize, y: usize, z: usize, f: nat)
    requires desc(a, x, y), is_desc(a, y, z, f)
    ensures desc(a, x, z)
    decreases f
{
    let p = a[z].parent.unwrap();
    if p != y { lemma_desc_trans(a, x, y, p, (f - 1) as nat); }
    lemma_desc_via_parent(a, x, z);
}
// an edge above k is above everything below k
pub proof fn lemma_edge_above_down<const K: usize>(a: AArena<K>, p: usize, l: int, k: usize, c: usize)
    requires edge_above(a, p, l, k), k == c || desc(a, k, c)
    ensures edge_above(a, p, l, c)
{
    let k0 = a[p].children[l].unwrap();
    if k != c && k0 != k {
        let f = choose|f: nat| is_desc(a, k, c, f);
        lemma_desc_trans(a, k0, k, c, f);
    }
}
// the source of an edge above c is a proper ancestor of c
pub proof fn lemma_edge_above_desc<const K: usize>(a: AArena<K>, p: usize, l: int, c: usize)
    requires edge_above(a, p, l, c), kids_ok(a)
    ensures desc(a, p, c)
{
    let k0 = a[p].children[l].unwrap();
    assert(a.dom().contains(k0) && a[k0].parent == Some(p));
    lemma_desc_child(a, p, k0);
    if k0 != c { let f = choose|f: nat| is_desc(a, k0, c, f); lemma_desc_trans(a, p, k0, c, f); }
}

// ---------------------------------------------------------------- witnesses along a path
// no half-space above the root
pub proof fn lemma_wit_root<const K: usize>(a0: AArena<K>, root: usize, w: V)
    requires wf_at(a0, Some(root))
    ensures wit_on_path(a0, root, w)
{
    assert forall|p: usize, l: int| #[trigger] edge_above(a0, p, l, root) implies wit_edge(a0[p].value.aff, l, w) by {
        let k = a0[p].children[l].unwrap();
        assert(a0.dom().contains(k) && a0[k].parent == Some(p));
        if k != root { let f = choose|f: nat| is_desc(a0, k, root, f); assert(a0[root].parent is Some); }
    }
}
// one more edge: the path of c is the path of its parent pp plus the edge (pp --lb--> c)
pub proof fn lemma_wit_step<const K: usize>(a0: AArena<K>, pp: usize, lb: int, c: usize, w: V)
    requires kids_ok(a0), kids_unique(a0), a0.dom().contains(pp), 0 <= lb < K, a0[pp].children[lb] == Some(c),
        wit_on_path(a0, pp, w), wit_edge(a0[pp].value.aff, lb, w)
    ensures wit_on_path(a0, c, w)
{
    assert(a0.dom().contains(c) && a0[c].parent == Some(pp));
    assert forall|p: usize, l: int| #[trigger] edge_above(a0, p, l, c) implies wit_edge(a0[p].value.aff, l, w) by {
        let k = a0[p].children[l].unwrap();
        assert(a0.dom().contains(k) && a0[k].parent == Some(p));
        if k == c {
            assert(p == pp);
            if l != lb { assert(a0[pp].children[l] != a0[pp].children[lb]); }
        } else {
            let f = choose|f: nat| is_desc(a0, k, c, f);
            if pp != k { assert(is_desc(a0, k, pp, (f - 1) as nat)); }
            assert(edge_above(a0, p, l, pp));
        }
    }
}
// a polytope reported for an edge tolerates w  <=>  w is a witness for that edge
pub proof fn lemma_edge_poly_tol(f: AffFunc, label: usize, q: Polytope, w: Array1<f64>)
    requires edge_poly(f, label, q)
    ensures contains_tol(q, w) <==> wit_edge(f, label as int, w.v())
{
    reveal(contains_tol);
}
// a point tolerated by every half-space the generator reports for path.last() is a witness for every node of the path
pub proof fn lemma_wit_path(a0: AArena<2>, g: PolyhedraGen, path: Seq<usize>, root: usize, w: Array1<f64>, j: int)
    requires gen_inv(a0, g, path), wf_at(a0, Some(root)), path.len() > 0, path[0] == root, 0 <= j < path.len(),
        forall|k: int| 0 <= k < g.predicates@.len() ==> contains_tol(#[trigger] g.predicates@[k], w),
    ensures wit_on_path(a0, path[j], w.v())
    decreases j
{
    if j == 0 { lemma_wit_root(a0, root, w.v()); }
    else {
        lemma_wit_path(a0, g, path, root, w, j - 1);
        reveal(gen_inv);
        let k = j - 1;
        let l = choose|l: usize| l < 2 && l < 2 && a0[path[k]].children[l as int] == Some(path[k + 1]) && #[trigger] edge_poly(a0[path[k]].value.aff, l, g.predicates@[k]);
        lemma_edge_poly_tol(a0[path[k]].value.aff, l, g.predicates@[k], w);
        lemma_wit_step(a0, path[k], l as int, path[j], w.v());
    }
}
// intersection_n (unit aff_algebra): a point its result tolerates is tolerated by every part - in the vocabulary of `contains`
pub proof fn lemma_tol_parts(poly: Polytope, parts: Seq<Polytope>)
    requires forall|w: V| #[trigger] tol_sat(poly.mat.m(), poly.bias.v(), w) ==> forall|k: int| 0 <= k < parts.len() ==> tol_sat((#[trigger] parts[k]).mat.m(), parts[k].bias.v(), w),
    ensures forall|w: Array1<f64>| #[trigger] contains_tol(poly, w) ==> forall|k: int| 0 <= k < parts.len() ==> contains_tol(#[trigger] parts[k], w),
{
    reveal(contains_tol);
    assert forall|w: Array1<f64>| #[trigger] contains_tol(poly, w) implies forall|k: int| 0 <= k < parts.len() ==> contains_tol(#[trigger] parts[k], w) by {
        assert(tol_sat(poly.mat.m(), poly.bias.v(), w.v()));
    }
}
// phases one / two: the new witnesses are tolerated by the intersection of the reported half-spaces, hence by each of them
pub proof fn lemma_wit_poly(a0: AArena<2>, g: PolyhedraGen, path: Seq<usize>, root: usize, poly: Polytope, st: NodeState)
    requires gen_inv(a0, g, path), wf_at(a0, Some(root)), path.len() > 0, path[0] == root,
        forall|w: Array1<f64>| #[trigger] contains_tol(poly, w) ==> forall|k: int| 0 <= k < g.predicates@.len() ==> contains_tol(#[trigger] g.predicates@[k], w),
        st matches NodeState::FeasibleWitness(v) ==> forall|i: int| 0 <= i < v@.len() ==> contains_tol(poly, #[trigger] v@[i]),
    ensures wits_ok(a0, path.last(), st)
{
    if let NodeState::FeasibleWitness(v) = st {
        assert forall|i: int| 0 <= i < v@.len() implies wit_on_path(a0, path.last(), (#[trigger] v@[i]).v()) by {
            assert(contains_tol(poly, v@[i]));
            lemma_wit_path(a0, g, path, root, v@[i], path.len() - 1);
        }
    }
}
// phase inh: the new witnesses are witnesses of the parent that the half-space of the incoming edge tolerates
pub proof fn lemma_wit_inh(a0: AArena<2>, a: AArena<2>, g: PolyhedraGen, path: Seq<usize>, parent: usize, hyperplane: Polytope, st: NodeState)
    requires gen_inv(a0, g, path), kids_ok(a0), kids_unique(a0), path.len() >= 2, wit_inv(a0, a), a.dom().contains(parent),
        a0[path.last()].parent == Some(parent), g.predicates@.len() >= 1, hyperplane == g.predicates@.last(),
        st matches NodeState::FeasibleWitness(v) ==> forall|i: int| 0 <= i < v@.len() ==> contains_tol(hyperplane, #[trigger] v@[i])
            && a[parent].value.state is FeasibleWitness && a[parent].value.state->FeasibleWitness_0@.contains(v@[i]),
    ensures wits_ok(a0, path.last(), st)
{
    reveal(gen_inv); reveal(wit_inv);
    let n = path.len();
    let k = n - 2;
    let l = choose|l: usize| l < 2 && l < 2 && a0[path[k]].children[l as int] == Some(path[k + 1]) && #[trigger] edge_poly(a0[path[k]].value.aff, l, g.predicates@[k]);
    assert(a0.dom().contains(path[k + 1]) && a0[path[k + 1]].parent == Some(path[k]));
    assert(path[k] == parent);
    if let NodeState::FeasibleWitness(v) = st {
        let pv = a[parent].value.state->FeasibleWitness_0;
        assert(wits_ok(a0, parent, a[parent].value.state));
        assert forall|i: int| 0 <= i < v@.len() implies wit_on_path(a0, path.last(), (#[trigger] v@[i]).v()) by {
            assert(pv@.contains(v@[i]));
            let j = choose|j: int| 0 <= j < pv@.len() && pv@[j] == v@[i];
            assert(wit_on_path(a0, parent, pv@[j].v()));
            lemma_edge_poly_tol(a0[parent].value.aff, l, hyperplane, v@[i]);
            lemma_wit_step(a0, parent, l as int, path.last(), v@[i].v());
        }
    }
}

// ---------------------------------------------------------------- the tree edits keep both invariants
pub proof fn lemma_wit_write<const K: usize>(a0: AArena<K>, a1: AArena<K>, a2: AArena<K>, n: usize)
    requires wit_inv(a0, a1), value_written(a1, a2, n), wits_ok(a0, n, a2[n].value.state)
    ensures wit_inv(a0, a2)
{
    reveal(wit_inv);
    assert forall|c: usize| #![trigger a2[c].value] a2.dom().contains(c) implies wits_ok(a0, c, a2[c].value.state) by {
        if c != n { assert(a2[c] == a1[c]); assert(wits_ok(a0, c, a1[c].value.state)); }
    }
}
// values of surviving nodes are untouched (forward_if_redundant: pruned_step; try_remove_child)
pub proof fn lemma_wit_kept<const K: usize>(a0: AArena<K>, a1: AArena<K>, a2: AArena<K>)
    requires wit_inv(a0, a1), a2.dom().subset_of(a1.dom()), forall|i: usize| #![trigger a2[i]] a2.dom().contains(i) ==> a2[i].value == a1[i].value
    ensures wit_inv(a0, a2)
{
    reveal(wit_inv);
    assert forall|c: usize| #![trigger a2[c].value] a2.dom().contains(c) implies wits_ok(a0, c, a2[c].value.state) by {
        assert(a1.dom().contains(c)); assert(a2[c].value == a1[c].value); assert(wits_ok(a0, c, a1[c].value.state));
    }
}
pub proof fn lemma_wit_removed<const K: usize>(a0: AArena<K>, a1: AArena<K>, a2: AArena<K>, parent: usize, label: usize, e: bool)
    requires wit_inv(a0, a1), remove_child_post(a1, a2, parent, label, e)
    ensures wit_inv(a0, a2)
{
    if !e {
        assert forall|i: usize| #![trigger a2[i]] a2.dom().contains(i) implies a2[i].value == a1[i].value by { if i != parent { assert(a2[i] == a1[i]); } }
        assert(a2.dom().subset_of(a1.dom()));
        lemma_wit_kept(a0, a1, a2);
    }
}
pub proof fn lemma_emb_init<const K: usize>(a0: AArena<K>)
    ensures emb_inv(a0, a0)
{ reveal(emb_inv); }
// child slots only change to None or stay
pub proof fn lemma_emb_shrink<const K: usize>(a0: AArena<K>, a1: AArena<K>, a2: AArena<K>)
    requires emb_inv(a0, a1), a2.dom().subset_of(a1.dom()),
        forall|p: usize, l: int| #![trigger a2[p].children[l]] a2.dom().contains(p) && 0 <= l < K && a2[p].children[l] is Some ==> a2[p].children[l] == a1[p].children[l]
    ensures emb_inv(a0, a2)
{
    reveal(emb_inv);
    assert forall|p: usize, l: int| #![trigger a2[p].children[l]] a2.dom().contains(p) && 0 <= l < K && a2[p].children[l] is Some implies edge_above(a0, p, l, a2[p].children[l].unwrap()) by {
        assert(a1.dom().contains(p)); assert(a1[p].children[l] == a2[p].children[l]);
    }
}
pub proof fn lemma_emb_write<const K: usize>(a0: AArena<K>, a1: AArena<K>, a2: AArena<K>, n: usize)
    requires emb_inv(a0, a1), value_written(a1, a2, n)
    ensures emb_inv(a0, a2)
{
    assert forall|p: usize, l: int| #![trigger a2[p].children[l]] a2.dom().contains(p) && 0 <= l < K && a2[p].children[l] is Some implies a2[p].children[l] == a1[p].children[l] by {
        if p != n { assert(a2[p] == a1[p]); }
    }
    lemma_emb_shrink(a0, a1, a2);
}
pub proof fn lemma_emb_removed<const K: usize>(a0: AArena<K>, a1: AArena<K>, a2: AArena<K>, parent: usize, label: usize, e: bool)
    requires emb_inv(a0, a1), remove_child_post(a1, a2, parent, label, e)
    ensures emb_inv(a0, a2)
{
    if !e {
        assert forall|p: usize, l: int| #![trigger a2[p].children[l]] a2.dom().contains(p) && 0 <= l < K && a2[p].children[l] is Some implies a2[p].children[l] == a1[p].children[l] by {
            if p != parent { assert(a2[p] == a1[p]); } else { assert(a2[p].children@[l] == a1[p].children@.update(label as int, None)[l]); }
        }
        assert(a2.dom().subset_of(a1.dom()));
        lemma_emb_shrink(a0, a1, a2);
    }
}
pub proof fn lemma_emb_removed_set<const K: usize>(a0: AArena<K>, a1: AArena<K>, am: AArena<K>, p: usize, ls: ISet<int>)
    requires emb_inv(a0, a1), removed_set(a1, am, p, ls)
    ensures emb_inv(a0, am)
{
    reveal(removed_set);
    assert forall|q: usize, l: int| #![trigger am[q].children[l]] am.dom().contains(q) && 0 <= l < K && am[q].children[l] is Some implies am[q].children[l] == a1[q].children[l] by {
        if q != p { assert(am[q] == a1[q]); }
    }
    assert(am.dom().subset_of(a1.dom()));
    lemma_emb_shrink(a0, a1, am);
}
// splicing out p: the child c of p now hangs at p's slot under p's parent g - the original edge of that slot had p (at or) below its target, and c below p
pub proof fn lemma_emb_merged<const K: usize>(a0: AArena<K>, am: AArena<K>, a2: AArena<K>, p: usize, f: usize, gl: int)
    requires emb_inv(a0, am), merged(am, a2, p, f, gl), kids_ok(a0), kids_ok(am), parents_ok(am)
    ensures emb_inv(a0, a2)
{
    reveal(emb_inv);
    let c = am[p].children[f as int].unwrap();
    let g = am[p].parent.unwrap();
    assert(am.dom().contains(g));
    assert(am.dom().contains(c) && am[c].parent == Some(p));
    assert forall|q: usize, l: int| #![trigger a2[q].children[l]] a2.dom().contains(q) && 0 <= l < K && a2[q].children[l] is Some implies edge_above(a0, q, l, a2[q].children[l].unwrap()) by {
        if q == g && l == gl {
            assert(a2[g].children@[gl] == Some(c));
            assert(am[g].children[gl] == Some(p));
            assert(edge_above(a0, g, gl, p));
            assert(am[p].children[f as int] == Some(c));
            assert(edge_above(a0, p, f as int, c));
            lemma_edge_above_desc(a0, p, f as int, c);
            lemma_edge_above_down(a0, g, gl, p, c);
        } else if q == g {
            assert(a2[g].children@[l] == am[g].children@[l]);
            assert(am[g].children[l] is Some);
        } else if q == c {
            assert(a2[c].children == am[c].children);
            assert(am[c].children[l] is Some);
        } else {
            assert(a2[q] == am[q]);
            assert(am[q].children[l] is Some);
        }
    }
}
pub proof fn lemma_emb_forward(a0: AArena<2>, a1: AArena<2>, a2: AArena<2>, root: usize, p: usize)
    requires emb_inv(a0, a1), kids_ok(a0), wf_at(a1, Some(root)), a1.dom().contains(p), forward_post(a1, a2, p, Some(root))
    ensures emb_inv(a0, a2)
{
    if count_state(a1, p, 0, true) == 1 && count_state(a1, p, 0, false) == 2 - 1 {
        let ls = infeasible_slots(a1, p);
        let am = choose|am: AArena<2>| #[trigger] removed_set(a1, am, p, ls) && wf_at(am, Some(root))
            && (forall|f: int| #[trigger] kid_in_state(a1, p, f, true) ==> merge_post(am, a2, p, f as usize, Some(root) == Some(p)));
        lemma_count_exists(a1, p, 0, true);
        let f = choose|f: int| 0 <= f < 2 && kid_in_state(a1, p, f, true);
        assert(merge_post(am, a2, p, f as usize, Some(root) == Some(p)));
        lemma_emb_removed_set(a0, a1, am, p, ls);
        if root != p {
            let gl = choose|gl: int| #[trigger] merged(am, a2, p, f as usize, gl);
            lemma_emb_merged(a0, am, a2, p, f as usize, gl);
        }
    }
}

// ---------------------------------------------------------------- from the original paths to the paths of the resulting tree
// a current ancestor is an original ancestor
pub proof fn lemma_emb_desc<const K: usize>(a0: AArena<K>, a: AArena<K>, k: usize, c: usize, f: nat)
    requires emb_inv(a0, a), parents_ok(a), kids_ok(a0), is_desc(a, k, c, f)
    ensures desc(a0, k, c)
    decreases f
{
    reveal(emb_inv);
    let pp = a[c].parent.unwrap();
    assert(a.dom().contains(pp));
    let l = choose|l: int| 0 <= l < K && #[trigger] a[pp].children[l] == Some(c);
    assert(edge_above(a0, pp, l, c));
    lemma_edge_above_desc(a0, pp, l, c);
    if pp != k {
        lemma_emb_desc(a0, a, k, pp, (f - 1) as nat);
        let f2 = choose|f2: nat| is_desc(a0, pp, c, f2);
        lemma_desc_trans(a0, k, pp, c, f2);
    }
}
// every half-space on the path of c in the resulting tree is one of the half-spaces on its path in the original tree (same decision, same label)
pub proof fn lemma_wit_final<const K: usize>(a0: AArena<K>, a: AArena<K>)
    requires wit_inv(a0, a), emb_inv(a0, a), parents_ok(a), kids_ok(a0), a.dom().subset_of(a0.dom()),
        forall|i: usize| #![trigger a[i].value] a.dom().contains(i) ==> a[i].value.aff == a0[i].value.aff,
    ensures wit_inv(a, a)
{
    reveal(wit_inv);
    assert forall|c: usize| #![trigger a[c].value] a.dom().contains(c) implies wits_ok(a, c, a[c].value.state) by {
        assert(wits_ok(a0, c, a[c].value.state));
        if let NodeState::FeasibleWitness(v) = a[c].value.state {
            assert forall|i: int| 0 <= i < v@.len() implies wit_on_path(a, c, (#[trigger] v@[i]).v()) by {
                let w = v@[i].v();
                assert(wit_on_path(a0, c, w));
                assert forall|p: usize, l: int| #[trigger] edge_above(a, p, l, c) implies wit_edge(a[p].value.aff, l, w) by {
                    let k = a[p].children[l].unwrap();
                    assert(edge_above(a0, p, l, k)) by { reveal(emb_inv); }
                    if k != c { let f = choose|f: nat| is_desc(a, k, c, f); lemma_emb_desc(a0, a, k, c, f); }
                    lemma_edge_above_down(a0, p, l, k, c);
                    assert(a[p].value.aff == a0[p].value.aff);
                }
            }
        }
    }
}
// ---------------------------------------------------------------- the same steps under the entry hypothesis "the caches of the original tree are right"
// (one opaque predicate and hypothesis-free lemma calls keep the loop body of infeasible_elimination free of case splits)
#[verifier::opaque]
pub open spec fn wit_cond<const K: usize>(a0: AArena<K>, a: AArena<K>) -> bool { wit_inv(a0, a0) ==> wit_inv(a0, a) }
pub open spec fn wits_cond<const K: usize>(a0: AArena<K>, c: usize, st: NodeState) -> bool { wit_inv(a0, a0) ==> wits_ok(a0, c, st) }
pub proof fn lemma_wc_init<const K: usize>(a0: AArena<K>)
    ensures wit_cond(a0, a0), emb_inv(a0, a0)
{ reveal(wit_cond); lemma_emb_init(a0); }
pub proof fn lemma_wc_inh(a0: AArena<2>, a: AArena<2>, g: PolyhedraGen, path: Seq<usize>, parent: usize, hyperplane: Polytope, st: NodeState)
    requires gen_inv(a0, g, path), kids_ok(a0), kids_unique(a0), path.len() >= 2, wit_cond(a0, a), a.dom().contains(parent),
        a0[path.last()].parent == Some(parent), g.predicates@.len() >= 1, hyperplane == g.predicates@.last(),
        st matches NodeState::FeasibleWitness(v) ==> forall|i: int| 0 <= i < v@.len() ==> contains_tol(hyperplane, #[trigger] v@[i])
            && a[parent].value.state is FeasibleWitness && a[parent].value.state->FeasibleWitness_0@.contains(v@[i]),
    ensures wits_cond(a0, path.last(), st)
{ reveal(wit_cond); if wit_inv(a0, a0) { lemma_wit_inh(a0, a, g, path, parent, hyperplane, st); } }
pub proof fn lemma_wc_write<const K: usize>(a0: AArena<K>, a1: AArena<K>, a2: AArena<K>, n: usize)
    requires wit_cond(a0, a1), emb_inv(a0, a1), value_written(a1, a2, n), wits_cond(a0, n, a2[n].value.state)
    ensures wit_cond(a0, a2), emb_inv(a0, a2)
{ reveal(wit_cond); lemma_emb_write(a0, a1, a2, n); if wit_inv(a0, a0) { lemma_wit_write(a0, a1, a2, n); } }
pub proof fn lemma_wc_forward(a0: AArena<2>, a1: AArena<2>, a2: AArena<2>, root: usize, p: usize)
    requires wit_cond(a0, a1), emb_inv(a0, a1), kids_ok(a0), wf_at(a1, Some(root)), a1.dom().contains(p), forward_post(a1, a2, p, Some(root)), pruned_step(a1, a2, p, root)
    ensures wit_cond(a0, a2), emb_inv(a0, a2)
{ reveal(wit_cond); lemma_emb_forward(a0, a1, a2, root, p); if wit_inv(a0, a0) { lemma_wit_kept(a0, a1, a2); } }
pub proof fn lemma_wc_removed<const K: usize>(a0: AArena<K>, a1: AArena<K>, a2: AArena<K>, parent: usize, label: usize, e: bool)
    requires wit_cond(a0, a1), emb_inv(a0, a1), remove_child_post(a1, a2, parent, label, e)
    ensures wit_cond(a0, a2), emb_inv(a0, a2)
{ reveal(wit_cond); lemma_emb_removed(a0, a1, a2, parent, label, e); if wit_inv(a0, a0) { lemma_wit_removed(a0, a1, a2, parent, label, e); } }
pub proof fn lemma_wc_final<const K: usize>(a0: AArena<K>, a: AArena<K>)
    requires wit_cond(a0, a), emb_inv(a0, a), parents_ok(a), kids_ok(a0), a.dom().subset_of(a0.dom()),
        forall|i: usize| #![trigger a[i].value] a.dom().contains(i) ==> a[i].value.aff == a0[i].value.aff,
    ensures wit_inv(a0, a0) ==> wit_inv(a, a)
{ reveal(wit_cond); if wit_inv(a0, a0) { lemma_wit_final(a0, a); } }
// ---- end wit_spec ----
