// ---- prelude/wit_spec.rs : the witness invariant through infeasible_elimination (specification: prelude/wit_core_spec.rs) ----
// ---------------------------------------------------------------- witnesses along a path
// no half-space above the root
pub proof fn lemma_wit_root<const K: usize>(a0: AArena<K>, root: usize, w: V)
    requires wf_at(a0, Some(root))
    ensures wit_on_path(a0, root, w)
{
    assert forall|p: usize, l: int| #[trigger] edge_above(a0, p, l, root) implies wit_edge(a0[p].value.aff, l, w) by {
        let k = a0[p].children[l].unwrap();
        assert(a0.dom().contains(k) && a0[k].parent == Some(p));
        if k != root { let f = choose|f: nat| is_desc(a0, k, root, f); assert(a0[root].parent is Some); }
    }
}
// one more edge: the path of c is the path of its parent pp plus the edge (pp --lb--> c)
pub proof fn lemma_wit_step<const K: usize>(a0: AArena<K>, pp: usize, lb: int, c: usize, w: V)
    requires kids_ok(a0), kids_unique(a0), a0.dom().contains(pp), 0 <= lb < K, a0[pp].children[lb] == Some(c),
        wit_on_path(a0, pp, w), wit_edge(a0[pp].value.aff, lb, w)
    ensures wit_on_path(a0, c, w)
{
    assert(a0.dom().contains(c) && a0[c].parent == Some(pp));
    assert forall|p: usize, l: int| #[trigger] edge_above(a0, p, l, c) implies wit_edge(a0[p].value.aff, l, w) by {
        let k = a0[p].children[l].unwrap();
        assert(a0.dom().contains(k) && a0[k].parent == Some(p));
        if k == c {
            assert(p == pp);
            if l != lb { assert(a0[pp].children[l] != a0[pp].children[lb]); }
        } else {
            let f = choose|f: nat| is_desc(a0, k, c, f);
            if pp != k { assert(is_desc(a0, k, pp, (f - 1) as nat)); }
            assert(edge_above(a0, p, l, pp));
        }
    }
}
// a polytope reported for an edge tolerates w  <=>  w is a witness for that edge
pub proof fn lemma_edge_poly_tol(f: AffFunc, label: usize, q: Polytope, w: Array1<f64>)
    requires edge_poly(f, label, q)
    ensures contains_tol(q, w) <==> wit_edge(f, label as int, w.v())
{
    reveal(contains_tol);
}
// a point tolerated by every half-space the generator reports for path.last() is a witness for every node of the path
pub proof fn lemma_wit_path(a0: AArena<2>, g: PolyhedraGen, path: Seq<usize>, root: usize, w: Array1<f64>, j: int)
    requires gen_inv(a0, g, path), wf_at(a0, Some(root)), path.len() > 0, path[0] == root, 0 <= j < path.len(),
        forall|k: int| 0 <= k < g.predicates@.len() ==> contains_tol(#[trigger] g.predicates@[k], w),
    ensures wit_on_path(a0, path[j], w.v())
    decreases j
{
    if j == 0 { lemma_wit_root(a0, root, w.v()); }
    else {
        lemma_wit_path(a0, g, path, root, w, j - 1);
        reveal(gen_inv);
        let k = j - 1;
        let l = choose|l: usize| l < 2 && l < 2 && a0[path[k]].children[l as int] == Some(path[k + 1]) && #[trigger] edge_poly(a0[path[k]].value.aff, l, g.predicates@[k]);
        lemma_edge_poly_tol(a0[path[k]].value.aff, l, g.predicates@[k], w);
        lemma_wit_step(a0, path[k], l as int, path[j], w.v());
    }
}
// intersection_n (unit aff_algebra): a point its result tolerates is tolerated by every part - in the vocabulary of `contains`
pub proof fn lemma_tol_parts(poly: Polytope, parts: Seq<Polytope>)
    requires forall|w: V| #[trigger] tol_sat(poly.mat.m(), poly.bias.v(), w) ==> forall|k: int| 0 <= k < parts.len() ==> tol_sat((#[trigger] parts[k]).mat.m(), parts[k].bias.v(), w),
    ensures forall|w: Array1<f64>| #[trigger] contains_tol(poly, w) ==> forall|k: int| 0 <= k < parts.len() ==> contains_tol(#[trigger] parts[k], w),
{
    reveal(contains_tol);
    assert forall|w: Array1<f64>| #[trigger] contains_tol(poly, w) implies forall|k: int| 0 <= k < parts.len() ==> contains_tol(#[trigger] parts[k], w) by {
        assert(tol_sat(poly.mat.m(), poly.bias.v(), w.v()));
    }
}
// phases one / two: the new witnesses are tolerated by the intersection of the reported half-spaces, hence by each of them
pub proof fn lemma_wit_poly(a0: AArena<2>, g: PolyhedraGen, path: Seq<usize>, root: usize, poly: Polytope, st: NodeState)
    requires gen_inv(a0, g, path), wf_at(a0, Some(root)), path.len() > 0, path[0] == root,
        forall|w: Array1<f64>| #[trigger] contains_tol(poly, w) ==> forall|k: int| 0 <= k < g.predicates@.len() ==> contains_tol(#[trigger] g.predicates@[k], w),
        st matches NodeState::FeasibleWitness(v) ==> forall|i: int| 0 <= i < v@.len() ==> contains_tol(poly, #[trigger] v@[i]),
    ensures wits_ok(a0, path.last(), st)
{
    if let NodeState::FeasibleWitness(v) = st {
        assert forall|i: int| 0 <= i < v@.len() implies wit_on_path(a0, path.last(), (#[trigger] v@[i]).v()) by {
            assert(contains_tol(poly, v@[i]));
            lemma_wit_path(a0, g, path, root, v@[i], path.len() - 1);
        }
    }
}
// phase inh: the new witnesses are witnesses of the parent that the half-space of the incoming edge tolerates
pub proof fn lemma_wit_inh(a0: AArena<2>, a: AArena<2>, g: PolyhedraGen, path: Seq<usize>, parent: usize, hyperplane: Polytope, st: NodeState)
    requires gen_inv(a0, g, path), kids_ok(a0), kids_unique(a0), path.len() >= 2, wit_inv(a0, a), a.dom().contains(parent),
        a0[path.last()].parent == Some(parent), g.predicates@.len() >= 1, hyperplane == g.predicates@.last(),
        st matches NodeState::FeasibleWitness(v) ==> forall|i: int| 0 <= i < v@.len() ==> contains_tol(hyperplane, #[trigger] v@[i])
            && a[parent].value.state is FeasibleWitness && a[parent].value.state->FeasibleWitness_0@.contains(v@[i]),
    ensures wits_ok(a0, path.last(), st)
{
    reveal(gen_inv); reveal(wit_inv);
    let n = path.len();
    let k = n - 2;
    let l = choose|l: usize| l < 2 && l < 2 && a0[path[k]].children[l as int] == Some(path[k + 1]) && #[trigger] edge_poly(a0[path[k]].value.aff, l, g.predicates@[k]);
    assert(a0.dom().contains(path[k + 1]) && a0[path[k + 1]].parent == Some(path[k]));
    assert(path[k] == parent);
    if let NodeState::FeasibleWitness(v) = st {
        let pv = a[parent].value.state->FeasibleWitness_0;
        assert(wits_ok(a0, parent, a[parent].value.state));
        assert forall|i: int| 0 <= i < v@.len() implies wit_on_path(a0, path.last(), (#[trigger] v@[i]).v()) by {
            assert(pv@.contains(v@[i]));
            let j = choose|j: int| 0 <= j < pv@.len() && pv@[j] == v@[i];
            assert(wit_on_path(a0, parent, pv@[j].v()));
            lemma_edge_poly_tol(a0[parent].value.aff, l, hyperplane, v@[i]);
            lemma_wit_step(a0, parent, l as int, path.last(), v@[i].v());
        }
    }
}

// ---------------------------------------------------------------- the tree edits keep both invariants
pub proof fn lemma_wit_write<const K: usize>(a0: AArena<K>, a1: AArena<K>, a2: AArena<K>, n: usize)
    requires wit_inv(a0, a1), value_written(a1, a2, n), wits_ok(a0, n, a2[n].value.state)
    ensures wit_inv(a0, a2)
{
    reveal(wit_inv);
    assert forall|c: usize| #![trigger a2[c].value] a2.dom().contains(c) implies wits_ok(a0, c, a2[c].value.state) by {
        if c != n { assert(a2[c] == a1[c]); assert(wits_ok(a0, c, a1[c].value.state)); }
    }
}
pub proof fn lemma_emb_write<const K: usize>(a0: AArena<K>, a1: AArena<K>, a2: AArena<K>, n: usize)
    requires emb_inv(a0, a1), value_written(a1, a2, n)
    ensures emb_inv(a0, a2)
{
    assert forall|p: usize, l: int| #![trigger a2[p].children[l]] a2.dom().contains(p) && 0 <= l < K && a2[p].children[l] is Some implies a2[p].children[l] == a1[p].children[l] by {
        if p != n { assert(a2[p] == a1[p]); }
    }
    lemma_emb_shrink(a0, a1, a2);
}
pub proof fn lemma_emb_removed_set<const K: usize>(a0: AArena<K>, a1: AArena<K>, am: AArena<K>, p: usize, ls: ISet<int>)
    requires emb_inv(a0, a1), removed_set(a1, am, p, ls)
    ensures emb_inv(a0, am)
{
    reveal(removed_set);
    assert forall|q: usize, l: int| #![trigger am[q].children[l]] am.dom().contains(q) && 0 <= l < K && am[q].children[l] is Some implies am[q].children[l] == a1[q].children[l] by {
        if q != p { assert(am[q] == a1[q]); }
    }
    assert(am.dom().subset_of(a1.dom()));
    lemma_emb_shrink(a0, a1, am);
}
pub proof fn lemma_emb_forward(a0: AArena<2>, a1: AArena<2>, a2: AArena<2>, root: usize, p: usize)
    requires emb_inv(a0, a1), kids_ok(a0), wf_at(a1, Some(root)), a1.dom().contains(p), forward_post(a1, a2, p, Some(root))
    ensures emb_inv(a0, a2)
{
    if count_state(a1, p, 0, true) == 1 && count_state(a1, p, 0, false) == 2 - 1 {
        let ls = infeasible_slots(a1, p);
        let am = choose|am: AArena<2>| #[trigger] removed_set(a1, am, p, ls) && wf_at(am, Some(root))
            && (forall|f: int| #[trigger] kid_in_state(a1, p, f, true) ==> merge_post(am, a2, p, f as usize, Some(root) == Some(p)));
        lemma_count_exists(a1, p, 0, true);
        let f = choose|f: int| 0 <= f < 2 && kid_in_state(a1, p, f, true);
        assert(merge_post(am, a2, p, f as usize, Some(root) == Some(p)));
        lemma_emb_removed_set(a0, a1, am, p, ls);
        if root != p {
            let gl = choose|gl: int| #[trigger] merged(am, a2, p, f as usize, gl);
            lemma_emb_merged(a0, am, a2, p, f as usize, gl);
        }
    }
}

// ---------------------------------------------------------------- from the original paths to the paths of the resulting tree
// ---------------------------------------------------------------- the same steps under the entry hypothesis "the caches of the original tree are right"
// (one opaque predicate and hypothesis-free lemma calls keep the loop body of infeasible_elimination free of case splits)
#[verifier::opaque]
pub open spec fn wit_cond<const K: usize>(a0: AArena<K>, a: AArena<K>) -> bool { wit_inv(a0, a0) ==> wit_inv(a0, a) }
pub open spec fn wits_cond<const K: usize>(a0: AArena<K>, c: usize, st: NodeState) -> bool { wit_inv(a0, a0) ==> wits_ok(a0, c, st) }
pub proof fn lemma_wc_init<const K: usize>(a0: AArena<K>)
    ensures wit_cond(a0, a0), emb_inv(a0, a0)
{ reveal(wit_cond); lemma_emb_init(a0); }
pub proof fn lemma_wc_inh(a0: AArena<2>, a: AArena<2>, g: PolyhedraGen, path: Seq<usize>, parent: usize, hyperplane: Polytope, st: NodeState)
    requires gen_inv(a0, g, path), kids_ok(a0), kids_unique(a0), path.len() >= 2, wit_cond(a0, a), a.dom().contains(parent),
        a0[path.last()].parent == Some(parent), g.predicates@.len() >= 1, hyperplane == g.predicates@.last(),
        st matches NodeState::FeasibleWitness(v) ==> forall|i: int| 0 <= i < v@.len() ==> contains_tol(hyperplane, #[trigger] v@[i])
            && a[parent].value.state is FeasibleWitness && a[parent].value.state->FeasibleWitness_0@.contains(v@[i]),
    ensures wits_cond(a0, path.last(), st)
{ reveal(wit_cond); if wit_inv(a0, a0) { lemma_wit_inh(a0, a, g, path, parent, hyperplane, st); } }
pub proof fn lemma_wc_write<const K: usize>(a0: AArena<K>, a1: AArena<K>, a2: AArena<K>, n: usize)
    requires wit_cond(a0, a1), emb_inv(a0, a1), value_written(a1, a2, n), wits_cond(a0, n, a2[n].value.state)
    ensures wit_cond(a0, a2), emb_inv(a0, a2)
{ reveal(wit_cond); lemma_emb_write(a0, a1, a2, n); if wit_inv(a0, a0) { lemma_wit_write(a0, a1, a2, n); } }
pub proof fn lemma_wc_forward(a0: AArena<2>, a1: AArena<2>, a2: AArena<2>, root: usize, p: usize)
    requires wit_cond(a0, a1), emb_inv(a0, a1), kids_ok(a0), wf_at(a1, Some(root)), a1.dom().contains(p), forward_post(a1, a2, p, Some(root)), pruned_step(a1, a2, p, root)
    ensures wit_cond(a0, a2), emb_inv(a0, a2)
{ reveal(wit_cond); lemma_emb_forward(a0, a1, a2, root, p); if wit_inv(a0, a0) { lemma_wit_kept(a0, a1, a2); } }
pub proof fn lemma_wc_removed<const K: usize>(a0: AArena<K>, a1: AArena<K>, a2: AArena<K>, parent: usize, label: usize, e: bool)
    requires wit_cond(a0, a1), emb_inv(a0, a1), remove_child_post(a1, a2, parent, label, e)
    ensures wit_cond(a0, a2), emb_inv(a0, a2)
{ reveal(wit_cond); lemma_emb_removed(a0, a1, a2, parent, label, e); if wit_inv(a0, a0) { lemma_wit_removed(a0, a1, a2, parent, label, e); } }
pub proof fn lemma_wc_final<const K: usize>(a0: AArena<K>, a: AArena<K>)
    requires wit_cond(a0, a), emb_inv(a0, a), parents_ok(a), kids_ok(a0), a.dom().subset_of(a0.dom()),
        forall|i: usize| #![trigger a[i].value] a.dom().contains(i) ==> a[i].value.aff == a0[i].value.aff,
    ensures wit_inv(a0, a0) ==> wit_inv(a, a)
{ reveal(wit_cond); if wit_inv(a0, a0) { lemma_wit_final(a0, a); } }
// ---- end wit_spec ----
