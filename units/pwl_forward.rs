// unit pwl_forward — C06 (mechanism) / C03: AffTree::forward_if_redundant (src/pwl/impl_infeasible_elim.rs), the step of infeasible_elimination that
// deletes the infeasible children of a decision and splices the decision out when a single feasible branch is left.
// Proved for every tree and every node-state labelling: the step acts only when exactly one child is cached feasible and the other K-1 are cached
// infeasible; it then removes exactly those K-1 subtrees (nothing else), keeps the tree well-formed, and replaces the decision by its feasible child
// (unless the decision is the root, which stays with the single child); in every other case the tree is left untouched.
use vstd::prelude::*;
use std::marker::PhantomData;
use std::mem;
use std::ops::{Add, Sub, Mul, Div, Neg};
verus! {
global size_of usize == 8;

//@include prelude/inc_pwl_core.rs

impl<N, const K: usize> Tree<N, K> {
// contracts proved in unit tree_graph (prelude/inc_tree_edit.rs)
//@assumed prelude/inc_tree_edit.rs | remove_child
//@assumed prelude/inc_tree_edit.rs | merge_child_with_parent
}

impl NodeState {
//@assumed units/pwl_feasible.rs | is_feasible | impl NodeState
//@assumed units/pwl_feasible.rs | is_infeasible | impl NodeState
}

//@include prelude/forward_spec.rs
//@include prelude/reach_spec.rs
//@include prelude/sem_spec.rs

// rule I17: `T.children(I).filter(|child| child.target_value.state.is_feasible() / is_infeasible()).[map(|x| x.edge()).]collect_vec()` (verified helper):
// the edges to the existing children whose cached state is feasible (want) / infeasible (!want), in ascending label order
pub fn edges_in_state<const K: usize>(t: &Tree<AffContent, K>, idx: usize, want: bool) -> (r: Vec<Edge>)
    requires t.wf(), t.arena@.dom().contains(idx)       // `children` unwraps the node
    ensures
        r@.len() == count_state(t.arena@, idx, 0, want),
        forall|j: int| 0 <= j < r@.len() ==> (#[trigger] r@[j]).source_idx == idx && kid_in_state(t.arena@, idx, r@[j].label as int, want)
            && t.arena@[idx].children[r@[j].label as int] == Some(r@[j].target_idx),
        forall|j1: int, j2: int| 0 <= j1 < j2 < r@.len() ==> r@[j1].label < r@[j2].label,
        forall|l: int| kid_in_state(t.arena@, idx, l, want) ==> exists|j: int| 0 <= j < r@.len() && (#[trigger] r@[j]).label == l,
{
    let node = t.arena.get(idx).unwrap();
    let mut v: Vec<Edge> = Vec::new();
    let mut i: usize = 0;
    let ghost a = t.arena@;
    while i < K
        invariant 0 <= i <= K, t.wf(), a == t.arena@, a.dom().contains(idx), *node == a[idx],
            v@.len() + count_state(a, idx, i as int, want) == count_state(a, idx, 0, want),
            forall|j: int| 0 <= j < v@.len() ==> (#[trigger] v@[j]).source_idx == idx && kid_in_state(a, idx, v@[j].label as int, want)
                && a[idx].children[v@[j].label as int] == Some(v@[j].target_idx) && v@[j].label < i,
            forall|j1: int, j2: int| 0 <= j1 < j2 < v@.len() ==> v@[j1].label < v@[j2].label,
            forall|l: int| 0 <= l < i && kid_in_state(a, idx, l, want) ==> exists|j: int| 0 <= j < v@.len() && (#[trigger] v@[j]).label == l,
        decreases K - i
    {
        let ghost v0 = v@;
        if let Some(c) = node.children[i] {
            assert(a.dom().contains(c));
            let st = &t.arena.get(c).unwrap().value.state;
            let hit = if want { st.is_feasible() } else { st.is_infeasible() };
            if hit {
                v.push(Edge { source_idx: idx, label: i, target_idx: c });
                proof {
                    assert(v@[v0.len() as int].label == i);
                    assert forall|l: int| 0 <= l < i + 1 && kid_in_state(a, idx, l, want) implies exists|j: int| 0 <= j < v@.len() && (#[trigger] v@[j]).label == l by {
                        if l < i { let j = choose|j: int| 0 <= j < v0.len() && (#[trigger] v0[j]).label == l; assert(v@[j] == v0[j]); } else { assert(v@[v0.len() as int].label == l); }
                    }
                }
            }
        }
        i += 1;
    }
    v
}

impl<const K: usize> AffTree<K> {
//@fn src/pwl/impl_infeasible_elim.rs | impl<const K: usize> AffTree<K> | forward_if_redundant
//@bodysub self .tree .children(parent_idx) .filter(|child| child.target_value.state.is_feasible()) .collect_vec() => edges_in_state(&self.tree, parent_idx, true)
//@bodysub self .tree .children(parent_idx) .filter(|child| child.target_value.state.is_infeasible()) .map(|x| x.edge()) .collect_vec() => edges_in_state(&self.tree, parent_idx, false)
//@bodysub feasible_children.pop().unwrap().edge() => feasible_children.pop().unwrap()
//@bodysub for edg in &infeasible_children { => let mut __i: usize = 0; while __i < infeasible_children.len() { let edg = &infeasible_children[__i]; __i += 1;
//@spec
    requires old(self).tree.wf(), K >= 2, old(self).a().dom().len() <= i32::MAX,      // remove_all_descendants counts deletions in an i32
        old(self).a().dom().contains(parent_idx),       // `children` unwraps the node
    ensures
        final(self).tree.wf(), final(self).tree.root == old(self).tree.root, final(self).in_dim == old(self).in_dim,
        // the step acts only on a decision with exactly one feasible child whose K-1 siblings are all cached infeasible: otherwise nothing changes
        !(count_state(old(self).a(), parent_idx, 0, true) == 1 && count_state(old(self).a(), parent_idx, 0, false) == K - 1)
            ==> r is None && final(self).a() == old(self).a(),
        // it then removes exactly the infeasible children with their subtrees and splices the decision out in favour of its feasible child
        // (the root cannot be spliced out: it stays, with the feasible child as its only child)
        count_state(old(self).a(), parent_idx, 0, true) == 1 && count_state(old(self).a(), parent_idx, 0, false) == K - 1
            ==> exists|am: AArena<K>| #[trigger] removed_set(old(self).a(), am, parent_idx, infeasible_slots(old(self).a(), parent_idx))
                && (forall|f: int| #[trigger] kid_in_state(old(self).a(), parent_idx, f, true)
                        ==> merge_post(am, final(self).a(), parent_idx, f as usize, old(self).tree.root == Some(parent_idx)))
                && (r is None <==> old(self).tree.root == Some(parent_idx))
                && (r matches Some(nd) ==> nd.value == old(self).a()[parent_idx].value && nd.parent == old(self).a()[parent_idx].parent),
        // (the two clauses above as one predicate, for callers)
        forward_post(old(self).a(), final(self).a(), parent_idx, old(self).tree.root),
        // C03 / C06 (meaning): the denoted function changes at most for inputs whose evaluation reaches the decision and leaves it through a child
        // that is not the one cached feasible - i.e. through a branch cached infeasible; every other input keeps its value (and its undefinedness)
        old(self).tree.root matches Some(rt) ==> forall|h0: Map<usize, nat>, h1: Map<usize, nat>, x: V| #![trigger tree_fn(old(self).a(), h0, rt, x), tree_fn(final(self).a(), h1, rt, x)]
            ranked_down(old(self).a(), h0) && ranked_down(final(self).a(), h1) && fwd_unaffected(old(self).a(), h0, rt, parent_idx, x)
                ==> tree_fn(final(self).a(), h1, rt, x) == tree_fn(old(self).a(), h0, rt, x),
//@hint start
        proof {
            if self.tree.root is Some {
                let rt = self.tree.root.unwrap();
                let a0 = self.a();
                assert forall|a2: AArena<K>, h0: Map<usize, nat>, h1: Map<usize, nat>, x: V| #![trigger tree_fn(a0, h0, rt, x), tree_fn(a2, h1, rt, x)]
                    wf_at(a2, Some(rt)) && forward_post(a0, a2, parent_idx, Some(rt)) && ranked_down(a0, h0) && ranked_down(a2, h1) && fwd_unaffected(a0, h0, rt, parent_idx, x)
                    implies tree_fn(a2, h1, rt, x) == tree_fn(a0, h0, rt, x) by {
                    lemma_fwd_sem(a0, a2, h0, h1, rt, parent_idx, x);
                }
            }
        }
//@loop 1
            invariant
                0 <= __i <= infeasible_children@.len(), self.tree.wf(), old(self).tree.wf(), old(self).a().dom().len() <= i32::MAX, self.tree.root == old(self).tree.root, self.in_dim == old(self).in_dim,
                removed_set(old(self).a(), self.a(), parent_idx, edge_labels(infeasible_children@, __i as int)),
                forall|j: int| 0 <= j < infeasible_children@.len() ==> kid_in_state(old(self).a(), parent_idx, (#[trigger] infeasible_children@[j]).label as int, false),
                forall|j1: int, j2: int| 0 <= j1 < j2 < infeasible_children@.len() ==> infeasible_children@[j1].label < infeasible_children@[j2].label,
            decreases infeasible_children@.len() - __i
//@hint loop 1 before
        proof {
            lemma_removed_init(self.a(), parent_idx);
            assert(edge_labels(infeasible_children@, 0) =~= ISet::<int>::empty());
        }
//@hint before self.tree.remove_child(parent_idx, edg.label);
            let ghost a1 = self.a();
            let ghost ls = edge_labels(infeasible_children@, __i as int - 1);
            proof {
                lemma_removed_facts(old(self).a(), a1, parent_idx, ls);
                assert(!ls.contains(edg.label as int)) by {
                    if ls.contains(edg.label as int) { let j = choose|j: int| 0 <= j < __i - 1 && (#[trigger] infeasible_children@[j]).label == edg.label as int; }
                }
                assert(kid_in_state(old(self).a(), parent_idx, edg.label as int, false));
                assert(a1[parent_idx].children[edg.label as int] == old(self).a()[parent_idx].children[edg.label as int]);
            }
//@hint after self.tree.remove_child(parent_idx, edg.label);
            proof {
                lemma_removed_step(old(self).a(), a1, self.a(), self.tree.root, parent_idx, ls, edg.label);
                assert(ls.insert(edg.label as int) =~= edge_labels(infeasible_children@, __i as int)) by {
                    assert(infeasible_children@[__i as int - 1].label == edg.label);
                }
            }
//@hint loop 1 after
        proof {
            let a0 = old(self).a();
            lemma_labels_all(a0, parent_idx, infeasible_children@);
            lemma_counts_partition(a0, parent_idx, 0);
            let f = feasible_child.label as int;
            assert(kid_in_state(a0, parent_idx, f, true));
            // f is the only feasible slot
            assert forall|g: int| kid_in_state(a0, parent_idx, g, true) implies g == f by {
                if g < f { lemma_count_one(a0, parent_idx, 0, g, f, true); } else if f < g { lemma_count_one(a0, parent_idx, 0, f, g, true); }
            }
            // after the removals f is the only occupied slot
            let am = self.a();
            lemma_removed_facts(a0, am, parent_idx, edge_labels(infeasible_children@, infeasible_children@.len() as int));
            assert(am[parent_idx].children[f] == a0[parent_idx].children[f]);
            assert forall|l: int| 0 <= l < K && l != f implies (#[trigger] am[parent_idx].children[l]) is None by {
                assert(kid_in_state(a0, parent_idx, l, true) || kid_in_state(a0, parent_idx, l, false));
                assert(infeasible_slots(a0, parent_idx).contains(l));
            }
            lemma_only_slot(am[parent_idx], 0, f);
        }
//@end
}

} // verus!
fn main() {}
