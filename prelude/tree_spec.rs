// ---- prelude/tree_spec.rs : spec vocabulary for the arena tree (DESIGN.md §3) ----

pub type Arena<N, const K: usize> = Map<usize, TreeNode<N, K>>;

// (L1) every listed child exists and points back
pub open spec fn kids_ok<N, const K: usize>(a: Arena<N, K>) -> bool {
    forall|i: usize, l: int| #![trigger a[i].children[l]]
        a.dom().contains(i) && 0 <= l < K && a[i].children[l].is_some() ==>
            a.dom().contains(a[i].children[l].unwrap()) && a[a[i].children[l].unwrap()].parent == Some(i)
}

// (L2) every parent pointer is mirrored by a child slot of that parent
pub open spec fn parents_ok<N, const K: usize>(a: Arena<N, K>) -> bool {
    forall|c: usize| #![trigger a[c].parent]
        a.dom().contains(c) && a[c].parent.is_some() ==>
            a.dom().contains(a[c].parent.unwrap())
            && exists|l: int| 0 <= l < K && #[trigger] a[a[c].parent.unwrap()].children[l] == Some(c)
}

// (L2u) a parent lists a child at most once
pub open spec fn kids_unique<N, const K: usize>(a: Arena<N, K>) -> bool {
    forall|i: usize, l1: int, l2: int| #![trigger a[i].children[l1], a[i].children[l2]]
        a.dom().contains(i) && 0 <= l1 < K && 0 <= l2 < K && l1 != l2 && a[i].children[l1].is_some()
            ==> a[i].children[l1] != a[i].children[l2]
}

// (L3) leaf flag <=> no children
pub open spec fn no_kids<N, const K: usize>(nd: TreeNode<N, K>) -> bool {
    forall|l: int| 0 <= l < K ==> (#[trigger] nd.children[l]).is_none()
}
pub open spec fn leaf_ok<N, const K: usize>(a: Arena<N, K>) -> bool {
    forall|i: usize| #![trigger a[i].isleaf] a.dom().contains(i) ==> (a[i].isleaf <==> no_kids(a[i]))
}

// exactly one parent-less node, the root
pub open spec fn root_ok<N, const K: usize>(a: Arena<N, K>, root: Option<usize>) -> bool {
    &&& root.is_some() ==> a.dom().contains(root.unwrap()) && a[root.unwrap()].parent.is_none()
    &&& forall|i: usize| #![trigger a[i].parent] a.dom().contains(i) && a[i].parent.is_none() ==> root == Some(i)
    &&& root.is_none() ==> a.dom() =~= Set::<usize>::empty()
}

// ghost rank map, strictly increasing along child edges: existence == acyclic, and (with root_ok)
// every node reaches the root by following parent links (lemma_reaches_root)
pub open spec fn ranked<N, const K: usize>(a: Arena<N, K>, d: Map<usize, nat>) -> bool {
    forall|c: usize| #![trigger a[c].parent]
        a.dom().contains(c) && a[c].parent.is_some() ==> d[a[c].parent.unwrap()] < d[c]
}

// ghost height map, strictly decreasing along child edges (used as termination measure by the
// traversal specifications; its existence follows from acyclicity of a finite arena and is kept
// as part of the invariant)
pub open spec fn ranked_down<N, const K: usize>(a: Arena<N, K>, h: Map<usize, nat>) -> bool {
    forall|i: usize, l: int| #![trigger a[i].children[l]]
        a.dom().contains(i) && 0 <= l < K && a[i].children[l].is_some() ==> h[a[i].children[l].unwrap()] < h[i]
}

pub open spec fn links_ok<N, const K: usize>(a: Arena<N, K>) -> bool {
    kids_ok(a) && parents_ok(a) && kids_unique(a) && leaf_ok(a)
}

pub open spec fn wf_at<N, const K: usize>(a: Arena<N, K>, root: Option<usize>) -> bool {
    links_ok(a) && root_ok(a, root) && (exists|d: Map<usize, nat>| ranked(a, d)) && (exists|h: Map<usize, nat>| ranked_down(a, h))
}

// n-th ancestor relation (fuel = number of parent steps, >= 1): `anc` is a proper ancestor of `i`
pub open spec fn is_desc<N, const K: usize>(a: Arena<N, K>, anc: usize, i: usize, fuel: nat) -> bool
    decreases fuel
{
    fuel > 0 && a.dom().contains(i) && a[i].parent.is_some()
        && (a[i].parent.unwrap() == anc || is_desc(a, anc, a[i].parent.unwrap(), (fuel - 1) as nat))
}
pub open spec fn desc<N, const K: usize>(a: Arena<N, K>, anc: usize, i: usize) -> bool {
    exists|fuel: nat| is_desc(a, anc, i, fuel)
}

// number of occupied child slots from position lo on
pub open spec fn count_some_from<const K: usize>(ch: [Option<usize>; K], lo: int) -> nat
    decreases K - lo
{
    if lo >= K || lo < 0 { 0 } else { (if ch[lo].is_some() { 1nat } else { 0nat }) + count_some_from(ch, lo + 1) }
}

// (label, child index) pairs in ascending label order, starting at slot lo
pub open spec fn kid_seq<const K: usize>(ch: [Option<usize>; K], lo: int) -> Seq<(usize, usize)>
    decreases K - lo
{
    if lo >= K || lo < 0 { Seq::empty() }
    else if ch[lo].is_some() { seq![(lo as usize, ch[lo].unwrap())] + kid_seq(ch, lo + 1) }
    else { kid_seq(ch, lo + 1) }
}

pub proof fn lemma_count_zero_no_kids<N, const K: usize>(nd: TreeNode<N, K>, lo: int)
    requires 0 <= lo <= K
    ensures count_some_from(nd.children, lo) == 0 <==> (forall|l: int| lo <= l < K ==> (#[trigger] nd.children[l]).is_none())
    decreases K - lo
{
    if lo < K { lemma_count_zero_no_kids(nd, lo + 1); }
}

pub proof fn lemma_kid_seq_len<const K: usize>(ch: [Option<usize>; K], lo: int)
    requires 0 <= lo <= K
    ensures kid_seq(ch, lo).len() == count_some_from(ch, lo), kid_seq(ch, lo).len() <= K - lo
    decreases K - lo
{
    if lo < K { lemma_kid_seq_len(ch, lo + 1); }
}

// members of kid_seq are exactly the occupied slots >= lo
pub proof fn lemma_kid_seq_members<const K: usize>(ch: [Option<usize>; K], lo: int)
    requires 0 <= lo <= K
    ensures
        forall|j: int| 0 <= j < kid_seq(ch, lo).len() ==> {
            let p = #[trigger] kid_seq(ch, lo)[j];
            lo <= p.0 < K && ch[p.0 as int] == Some(p.1) },
        forall|l: int| lo <= l < K && (#[trigger] ch[l]).is_some() ==>
            exists|j: int| 0 <= j < kid_seq(ch, lo).len() && kid_seq(ch, lo)[j] == (l as usize, ch[l].unwrap()),
        forall|j1: int, j2: int| 0 <= j1 < j2 < kid_seq(ch, lo).len() ==> (#[trigger] kid_seq(ch, lo)[j1]).0 < (#[trigger] kid_seq(ch, lo)[j2]).0,
    decreases K - lo
{
    if lo < K {
        lemma_kid_seq_members(ch, lo + 1);
        let rest = kid_seq(ch, lo + 1);
        let all = kid_seq(ch, lo);
        if ch[lo].is_some() {
            assert(all == seq![(lo as usize, ch[lo].unwrap())] + rest);
            assert forall|j: int| 0 <= j < all.len() implies ({
                let p = #[trigger] all[j];
                lo <= p.0 < K && ch[p.0 as int] == Some(p.1) }) by {
                if j > 0 { assert(all[j] == rest[j - 1]); }
            }
            assert forall|l: int| lo <= l < K && (#[trigger] ch[l]).is_some() implies
                exists|j: int| 0 <= j < all.len() && all[j] == (l as usize, ch[l].unwrap()) by {
                if l == lo { assert(all[0] == (l as usize, ch[l].unwrap())); }
                else {
                    let j = choose|j: int| 0 <= j < rest.len() && rest[j] == (l as usize, ch[l].unwrap());
                    assert(all[j + 1] == rest[j]);
                }
            }
            assert forall|j1: int, j2: int| 0 <= j1 < j2 < all.len() implies (#[trigger] all[j1]).0 < (#[trigger] all[j2]).0 by {
                assert(all[j2] == rest[j2 - 1]);
                if j1 > 0 { assert(all[j1] == rest[j1 - 1]); }
            }
        } else {
            assert(all == rest);
            assert forall|l: int| lo <= l < K && (#[trigger] ch[l]).is_some() implies
                exists|j: int| 0 <= j < all.len() && all[j] == (l as usize, ch[l].unwrap()) by {
                assert(l != lo);
            }
        }
    }
}

// rule I6 helper: what `E.iter().filter(|&&x| x.is_some()).count()` computes
pub fn count_some<const K: usize>(ch: &[Option<usize>; K]) -> (r: usize)
    ensures r == count_some_from(*ch, 0), r <= K
{
    let mut n: usize = 0;
    let mut i: usize = K;
    while i > 0
        invariant 0 <= i <= K, n == count_some_from(*ch, i as int), n + i <= K
        decreases i
    {
        i -= 1;
        if ch[i].is_some() { n += 1; }
    }
    n
}
// ---- end tree_spec ----
