// ---- prelude/inc_tree_edit.rs : removal operations of Tree (remove_all_descendants, try_remove_child, remove_child, merge_child_with_parent); navigation is in inc_tree_nav.rs ----
//@include prelude/inc_tree_nav.rs
impl<N, const K: usize> Tree<N, K> {
//@fn src/tree/graph.rs | impl<N, const K: usize> Tree<N, K> | remove_all_descendants
//@spec
    requires old(self).wf(), old(self).arena@.dom().len() <= i32::MAX
    ensures
        final(self).root == old(self).root,
        // error (unknown index) leaves the tree unchanged; success removes exactly the proper
        // descendants of subtree_root, turns it into a leaf and keeps every other node as it was
        remove_desc_post(old(self).arena@, final(self).arena@, subtree_root, r),
        r is Err <==> !old(self).arena@.dom().contains(subtree_root),
        r matches Err(e) ==> e.index == subtree_root,
        r matches Ok(k) ==> k as int == old(self).arena@.dom().len() - final(self).arena@.dom().len(),
        remove_desc_post(old(self).arena@, final(self).arena@, subtree_root, r) ==> final(self).wf(),
//@hint start
        proof {
            lemma_remove_desc_wf_all(old(self).arena@, old(self).root, subtree_root);
            if old(self).arena@.dom().contains(subtree_root) { lemma_rd_init(old(self).arena@, old(self).root, subtree_root); }
        }
//@loop 1
            invariant
                self.root == old(self).root, old(self).wf(), old(self).arena@.dom().len() <= i32::MAX,
                rd_inv(old(self).arena@, self.arena@, stack@, subtree_root),
                num_deleted as int == old(self).arena@.dom().len() - self.arena@.dom().len(),
                0 <= num_deleted,
            ensures stack@.len() == 0
            decreases self.arena@.dom().len()
//@hint loop 1 start
            proof { lemma_rd_pop_ex(old(self).arena@, old(self).root, self.arena@, stack@, node_idx, subtree_root); }
//@loop 2
                invariant
                    0 <= __i <= K, current_node.children.len() == K,
                    self.arena@.dom().contains(node_idx), *current_node == self.arena@[node_idx],
                    self.arena@[node_idx] == old(self).arena@[node_idx],
                    old(self).wf(), desc(old(self).arena@, subtree_root, node_idx),
                    rd_inv_i(old(self).arena@, self.arena@.remove(node_idx), stack@, subtree_root, node_idx, __i as int),
                decreases K - __i
//@hint loop 2 start
                proof { lemma_rd_push(old(self).arena@, old(self).root, self.arena@.remove(node_idx), stack@, subtree_root, node_idx, __i as int); }
//@hint loop 2 after
            proof {
                lemma_rd_done(old(self).arena@, self.arena@.remove(node_idx), stack@, subtree_root, node_idx);
                
            }
//@hint loop 1 after
        proof {
            assert(stack@ =~= Seq::<usize>::empty());
            lemma_rd_exit(old(self).arena@, self.arena@, subtree_root);
        }
        let ghost a_mid = self.arena@;
//@loop 3
            invariant
                0 <= __i <= K, node.children.len() == K, node.isleaf,
                node.value == a_mid[subtree_root].value, node.parent == a_mid[subtree_root].parent,
                forall|l: int| 0 <= l < __i ==> (#[trigger] node.children[l]).is_none(),
            decreases K - __i
//@end

//@fn src/tree/graph.rs | impl<N, const K: usize> Tree<N, K> | try_remove_child
//@spec
    requires old(self).wf(), label < K, old(self).arena@.dom().len() <= i32::MAX
    ensures
        final(self).root == old(self).root,
        // error leaves the tree unchanged; success removes the child and exactly its descendants,
        // re-flags a child-less parent as leaf, keeps every other node
        remove_child_post(old(self).arena@, final(self).arena@, parent, label, r is Err),
        r is Err <==> !old(self).arena@.dom().contains(parent) || old(self).arena@[parent].children[label as int] is None,
        r matches Ok(v) ==> v == old(self).arena@[old(self).arena@[parent].children[label as int].unwrap()].value,
        remove_child_post(old(self).arena@, final(self).arena@, parent, label, r is Err) ==> final(self).wf(),
//@hint start
        proof {
            lemma_remove_child_wf_all(old(self).arena@, old(self).root, parent, label);
            if old(self).arena@.dom().contains(parent) { lemma_count_zero_no_kids(old(self).arena@[parent], 0); }
        }
//@hint after self.remove_all_descendants(child_idx)?;
        proof { lemma_try_remove_mid(old(self).arena@, self.arena@, old(self).root, parent, label); }
//@hint after self.arena[parent].children[label] = None;
        proof { lemma_count_zero_no_kids(self.arena@[parent], 0); }
//@end

//@fn src/tree/graph.rs | impl<N, const K: usize> Tree<N, K> | remove_child
//@spec
    requires old(self).wf(), label < K, old(self).arena@.dom().len() <= i32::MAX,
        // documented panic: the child must exist
        old(self).arena@.dom().contains(parent), old(self).arena@[parent].children[label as int] is Some,
    ensures
        final(self).root == old(self).root,
        child_removed(old(self).arena@, final(self).arena@, parent, label),
        r == old(self).arena@[old(self).arena@[parent].children[label as int].unwrap()].value,
        final(self).wf(),
//@end

//@fn src/tree/graph.rs | impl<N, const K: usize> Tree<N, K> | merge_child_with_parent
//@spec
    requires old(self).wf(), label < K,
        // the code asserts this (panics otherwise)
        old(self).arena@.dom().contains(parent_idx), count_some_from(old(self).arena@[parent_idx].children, 0) == 1,
    ensures
        final(self).root == old(self).root,
        // error leaves the tree unchanged; success splices parent_idx out of the tree
        merge_post(old(self).arena@, final(self).arena@, parent_idx, label, r is Err),
        r is Err <==> old(self).root == Some(parent_idx) || old(self).arena@[parent_idx].children[label as int] is None,
        r matches Ok(nd) ==> nd == old(self).arena@[parent_idx],
        merge_post(old(self).arena@, final(self).arena@, parent_idx, label, r is Err) ==> final(self).wf(),
//@hint start
        proof { lemma_merge_wf_all(old(self).arena@, old(self).root, parent_idx, label); }
//@hint end
        proof {
            let ghost a0 = old(self).arena@;
            assert(merged(a0, self.arena@.remove(parent_idx), parent_idx, label, grandparent_label as int)) by {
                let d = choose|d: Map<usize, nat>| ranked(a0, d);
                assert(a0[child_idx].parent == Some(parent_idx));
                assert(d[grandparent_idx] < d[parent_idx] && d[parent_idx] < d[child_idx]);
            }
        }
//@end

}
// ---- end inc_tree_edit ----
