use vstd::prelude::*;
use std::marker::PhantomData;
verus! {

pub type V = Seq<real>;
pub type M = Seq<Seq<real>>;
pub open spec fn m_ok(a: M, r: int, c: int) -> bool {
    a.len() == r && forall|i: int| 0 <= i < r ==> (#[trigger] a[i]).len() == c
}
pub open spec fn eye(n: int) -> M { Seq::new(n as nat, |i: int| Seq::new(n as nat, |j: int| if i == j { 1real } else { 0real })) }
pub open spec fn mzeros(r: int, c: int) -> M { Seq::new(r as nat, |i: int| Seq::new(c as nat, |j: int| 0real)) }
pub open spec fn vzeros(n: int) -> V { Seq::new(n as nat, |i: int| 0real) }
pub open spec fn mset(a: M, i: int, j: int, v: real) -> M { a.update(i, a[i].update(j, v)) }

// ---------- ndarray / num_traits shim (generic)
pub trait Data { type Elem; }
pub trait Float: Sized + Copy {
    spec fn rv(self) -> real;
    fn one() -> (r: Self) ensures r.rv() == 1real;
    fn zero() -> (r: Self) ensures r.rv() == 0real;
}
pub struct OwnedRepr<A> { _a: PhantomData<A> }
impl<A> Data for OwnedRepr<A> { type Elem = A; }
pub struct Ix1; pub struct Ix2;
pub struct Axis(pub usize);

#[verifier::external_body]
#[verifier::accept_recursive_types(S)]
#[verifier::accept_recursive_types(D)]
pub struct ArrayBase<S: Data, D> { _s: PhantomData<S>, _d: PhantomData<D> }
pub type Array1<A> = ArrayBase<OwnedRepr<A>, Ix1>;
pub type Array2<A> = ArrayBase<OwnedRepr<A>, Ix2>;

impl<S: Data> ArrayBase<S, Ix2> {
    pub uninterp spec fn m(&self) -> M;
    pub uninterp spec fn nrows(&self) -> int;
    pub uninterp spec fn ncols(&self) -> int;
    pub open spec fn ok(&self) -> bool { m_ok(self.m(), self.nrows(), self.ncols()) && self.nrows() >= 0 && self.ncols() >= 0 }
    #[verifier::external_body]
    pub fn len_of(&self, axis: Axis) -> (r: usize)
        requires axis.0 < 2
        ensures r == (if axis.0 == 0 { self.nrows() } else { self.ncols() })
    { unimplemented!() }
}
impl<S: Data> ArrayBase<S, Ix1> {
    pub uninterp spec fn v(&self) -> V;
    #[verifier::external_body]
    pub fn len_of(&self, axis: Axis) -> (r: usize)
        requires axis.0 < 1
        ensures r == self.v().len()
    { unimplemented!() }
}
impl<A: Float> ArrayBase<OwnedRepr<A>, Ix2> {
    #[verifier::external_body]
    pub fn eye(n: usize) -> (r: Self) ensures r.ok(), r.nrows() == n, r.ncols() == n, r.m() == eye(n as int)
    { unimplemented!() }
    #[verifier::external_body]
    pub fn zeros(sh: (usize, usize)) -> (r: Self) ensures r.ok(), r.nrows() == sh.0, r.ncols() == sh.1, r.m() == mzeros(sh.0 as int, sh.1 as int)
    { unimplemented!() }
}
impl<A: Float> ArrayBase<OwnedRepr<A>, Ix1> {
    #[verifier::external_body]
    pub fn zeros(n: usize) -> (r: Self) ensures r.v() == vzeros(n as int)
    { unimplemented!() }
}

impl<A: Float> vstd::std_specs::core::IndexSpecImpl<[usize; 2]> for ArrayBase<OwnedRepr<A>, Ix2> {
    open spec fn index_req(&self, ix: &[usize; 2]) -> bool { self.ok() && ix[0] < self.nrows() && ix[1] < self.ncols() }
}
impl<A: Float> core::ops::Index<[usize; 2]> for ArrayBase<OwnedRepr<A>, Ix2> {
    type Output = A;
    #[verifier::external_body]
    fn index(&self, ix: [usize; 2]) -> (r: &A) ensures r.rv() == self.m()[ix[0] as int][ix[1] as int] { unimplemented!() }
}
impl<A: Float> core::ops::IndexMut<[usize; 2]> for ArrayBase<OwnedRepr<A>, Ix2> {
    #[verifier::external_body]
    fn index_mut(&mut self, ix: [usize; 2]) -> (r: &mut A)
        ensures r.rv() == old(self).m()[ix[0] as int][ix[1] as int],
            final(self).m() == mset(old(self).m(), ix[0] as int, ix[1] as int, final(r).rv()),
            final(self).nrows() == old(self).nrows(), final(self).ncols() == old(self).ncols(), final(self).ok()
    { unimplemented!() }
}
// ---------- extracted code
pub struct AffFuncBase<T, S>
where
    S: Data,
    S::Elem: Float,
{
    pub mat: ArrayBase<S, Ix2>,
    pub bias: ArrayBase<S, Ix1>,
    pub _phantom: PhantomData<T>,
}
pub struct FunctionT;
type AffFuncG<A> = AffFuncBase<FunctionT, OwnedRepr<A>>;

impl<I, D: Data<Elem = A>, A: Float> AffFuncBase<I, D> {
    pub fn from_mats(mat: ArrayBase<D, Ix2>, bias: ArrayBase<D, Ix1>) -> (r: AffFuncBase<I, D>)
        requires mat.nrows() == bias.v().len()
        ensures r.mat == mat, r.bias == bias
    {
        assert!(mat.len_of(Axis(0)) == bias.len_of(Axis(0)));

        AffFuncBase {
            mat,
            bias,
            _phantom: PhantomData,
        }
    }
}

impl<A: Float> AffFuncG<A> {
    pub fn identity(dim: usize) -> (r: AffFuncG<A>)
        ensures r.mat.m() == eye(dim as int), r.bias.v() == vzeros(dim as int)
    {
        AffFuncG::<A>::from_mats(
            Array2::eye(dim),
            Array1::zeros(dim)
        )
    }

    pub fn unit(dim: usize, index: usize) -> (r: AffFuncG<A>)
        requires index < dim
        ensures r.mat.m() == mset(mzeros(1, dim as int), 0, index as int, 1real), r.bias.v() == vzeros(1)
    {
        let mut mat = Array2::zeros((1, dim));
        mat[[0, index]] = A::one();

        AffFuncG::<A>::from_mats(
            mat,
            Array1::zeros(1)
        )
    }
}

} // verus!
fn main() {}
