// unit tree_path — C13 / C09: Tree::path_to_node (src/tree/graph.rs)
use vstd::prelude::*;
use std::mem;
verus! {

pub type TreeIndex = usize;
pub type Label = usize;

//@include prelude/slab_shim.rs

//@item src/tree/graph.rs | struct TreeNode
//@item src/tree/graph.rs | struct InvalidTreeIndexError | pub-fields
//@item src/tree/graph.rs | enum NodeError
//@item src/tree/graph.rs | struct Tree | pub-fields
//@item src/tree/graph.rs | struct Edge
//@item src/tree/graph.rs | struct EdgeReference

// rule D4: what `#[from]` on NodeError::InvalidIndex expands to
impl From<InvalidTreeIndexError> for NodeError {
    fn from(e: InvalidTreeIndexError) -> (r: Self) ensures r == NodeError::InvalidIndex(e) { NodeError::InvalidIndex(e) }
}
impl vstd::std_specs::convert::FromSpecImpl<InvalidTreeIndexError> for NodeError {
    open spec fn obeys_from_spec() -> bool { true }
    open spec fn from_spec(e: InvalidTreeIndexError) -> NodeError { NodeError::InvalidIndex(e) }
}

// assumption A-from: the error conversion performed by `?` is the `From` impl above
pub mod ax {
    use super::*;
    pub broadcast axiom fn axiom_from_invalid_index(e: InvalidTreeIndexError, r: NodeError)
        ensures #[trigger] vstd::std_specs::control_flow::spec_from::<NodeError, InvalidTreeIndexError>(e, r) ==> r == NodeError::InvalidIndex(e);
}
broadcast use ax::axiom_from_invalid_index;

//@include prelude/tree_spec.rs
//@include prelude/tree_helpers.rs

//@include prelude/tree_lemmas.rs

//@include prelude/inc_tree_core.rs


//@include prelude/inc_tree_nav.rs

// `path.reverse()` on the vector of (node, label) pairs (ASSUMED: std Vec::reverse)
#[verifier::external_body]
pub fn vec_reverse_pairs(v: &mut Vec<(usize, usize)>)
    ensures final(v)@ == old(v)@.reverse()
{ unimplemented!() }

//@include prelude/path_spec.rs

impl<N, const K: usize> Tree<N, K> {
//@fn src/tree/graph.rs | impl<N, const K: usize> Tree<N, K> | path_to_node
//@bodysub? let capacity = (self.len() as f64).log(K as f64).ceil() as usize; =>
//@bodysub? Vec::with_capacity(capacity) => Vec::new()
//@bodysub path.reverse(); => vec_reverse_pairs(&mut path);
//@spec
    requires self.wf()
    ensures
        // unknown index: error; otherwise the unique sequence of (node, label) steps from the root down to node_idx
        r is Err <==> !self.arena@.dom().contains(node_idx),
        r matches Ok(p) ==> path_ok(self.arena@, p@, node_idx),
//@hint loop 1 before
        let ghost d = choose|d: Map<usize, nat>| ranked(self.arena@, d);
//@loop 1
            invariant
                self.wf(), ranked(self.arena@, d), self.arena@.dom().contains(node_idx), self.arena@.dom().contains(current_node_idx),
                up_ok(self.arena@, path@, node_idx, current_node_idx),
            ensures self.arena@[current_node_idx].parent is None, up_ok(self.arena@, path@, node_idx, current_node_idx),
            decreases d[current_node_idx]
//@hint loop 1 after
        proof { lemma_up_reverse(self.arena@, path@, node_idx, current_node_idx); }
//@end
}

} // verus!
fn main() {}
