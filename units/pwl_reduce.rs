// unit pwl_reduce — redundancy elimination (src/pwl/impl_reduction.rs: AffTree::<2>::reduce) and the equality of affine functions it relies on
use vstd::prelude::*;
use std::marker::PhantomData;
use std::mem;
use std::ops::{Add, Sub, Mul, Div, Neg};
verus! {
global size_of usize == 8;

//@include prelude/inc_pwl_core.rs
//@item src/tree/graph.rs | struct EdgeReference
//@include prelude/inc_tree_edit.rs
//@include prelude/tol_spec.rs
//@include prelude/wit_core_spec.rs
//@include prelude/wit_edit_spec.rs
//@item src/tree/iter.rs | struct DfsNodeData | derive=Clone,Copy

// ndarray's `==` on arrays: same shape and same elements (assumed; f64 equality read as equality of reals)
impl<A, S: Data<Elem = A>> ArrayBase<S, Ix2> {
    #[verifier::external_body]
    pub fn eq(&self, other: &ArrayBase<S, Ix2>) -> (r: bool)
        ensures r == (self.nrows() == other.nrows() && self.ncols() == other.ncols() && self.m() == other.m())
    { unimplemented!() }
}
impl<A, S: Data<Elem = A>> ArrayBase<S, Ix1> {
    #[verifier::external_body]
    pub fn eq(&self, other: &ArrayBase<S, Ix1>) -> (r: bool)
        ensures r == (self.v() == other.v())
    { unimplemented!() }
}

// rule I11: `Vec::from_iter(Bfs::iter(&tree, root))` — the breadth-first item list. TRUSTED and deliberately unspecified:
// nothing proved below depends on which items it contains or in which order (only the bounded check of C08 does).
#[verifier::external_body]
pub fn bfs_items_vec<N, const K: usize>(t: &Tree<N, K>, root: usize) -> (r: Vec<DfsNodeData>)
{ unimplemented!() }
// `elements.reverse()` (order is irrelevant for what is proved here)
#[verifier::external_body]
pub fn vec_reverse(v: &mut Vec<DfsNodeData>)
{ unimplemented!() }

pub open spec fn same_aff(f: AffFunc, g: AffFunc) -> bool {
    f.mat.nrows() == g.mat.nrows() && f.mat.ncols() == g.mat.ncols() && f.mat.m() == g.mat.m() && f.bias.v() == g.bias.v()
}

impl<I, D: Data<Elem = A>, A: Float> AffFuncBase<I, D> {
//@fn src/linalg/affine.rs | impl<I, D: Data<Elem = A>, A: Float> core::cmp::PartialEq for AffFuncBase<I, D> | eq | as=aff_eq
//@spec
    ensures r == (self.mat.nrows() == other.mat.nrows() && self.mat.ncols() == other.mat.ncols() && self.mat.m() == other.mat.m() && self.bias.v() == other.bias.v())
//@end
}

// ---------------------------------------------------------------- specification
// no decision below the root has two terminal children carrying the same affine function (nothing for reduce to do)
pub open spec fn no_mergeable(a: AArena<2>, root: usize) -> bool {
    forall|p: usize| #![trigger a[p].children] a.dom().contains(p) && p != root && a[p].children[0] is Some && a[p].children[1] is Some
        && no_kids(a[a[p].children[0].unwrap()]) && no_kids(a[a[p].children[1].unwrap()])
        ==> !same_aff(a[a[p].children[0].unwrap()].value.aff, a[a[p].children[1].unwrap()].value.aff)
}
// one merge: decision p (below g at slot gl) with the terminal children l (slot 0) and r (slot 1) is replaced by l
pub open spec fn merge_step<const K: usize>(a0: AArena<K>, a1: AArena<K>, p: usize, l: usize, r: usize, g: usize, gl: int) -> bool {
    &&& a0.dom().contains(p) && a0.dom().contains(l) && a0.dom().contains(r) && a0.dom().contains(g) && l != r && p != l && p != r && g != p && g != l && g != r
    &&& a0[p].children[0] == Some(l) && a0[p].children[1] == Some(r) && !a0[p].isleaf && a0[p].parent == Some(g)
    &&& a0[l].isleaf && a0[r].isleaf && same_aff(a0[l].value.aff, a0[r].value.aff)
    &&& 0 <= gl < K && a0[g].children[gl] == Some(p)
    &&& a1.dom() =~= a0.dom().remove(p).remove(r)
    &&& a1[g].children@ == a0[g].children@.update(gl, Some(l)) && a1[g].value == a0[g].value && a1[g].isleaf == a0[g].isleaf
    &&& a1[l].value == a0[l].value && a1[l].isleaf
    &&& forall|i: usize| #![trigger a1[i]] a1.dom().contains(i) && i != g && i != l ==> a1[i] == a0[i]
}

pub proof fn lemma_label_val_one(aff: &AffFunc, x: V)
    requires aff.mat.nrows() == 1
    ensures decide(aff, x) == 0 || decide(aff, x) == 1
{
    assert(label_val(aff, x, 0) == 0);
    assert((1usize << 0usize) == 1usize) by (bit_vector);
    assert(label_val(aff, x, 1) == label_val(aff, x, 0) + (if aff.row_sat(0, x) { (1usize << (0 as usize)) as int } else { 0 }));
}

// below every node that survives, the denoted value is unchanged
pub proof fn lemma_merge_step_fn(a0: AArena<2>, h0: Map<usize, nat>, a1: AArena<2>, h1: Map<usize, nat>, p: usize, l: usize, r: usize, g: usize, gl: int, in_dim: usize, idx: usize, x: V)
    requires merge_step(a0, a1, p, l, r, g, gl), kids_ok(a0), kids_unique(a0), aff_shape_ok(a0, in_dim), ranked_down(a0, h0), ranked_down(a1, h1),
        a1.dom().contains(idx), x.len() == in_dim
    ensures tree_fn(a1, h1, idx, x) == tree_fn(a0, h0, idx, x)
    decreases h0[idx]
{
    let nd0 = a0[idx];
    let nd1 = a1[idx];
    if idx == l {
    } else if nd0.isleaf {
    } else {
        let lab = decide(&nd0.value.aff, x);
        assert(nd1.value == nd0.value && nd1.isleaf == nd0.isleaf);
        if 0 <= lab < 2 && nd0.children[lab].is_some() {
            let c = nd0.children[lab].unwrap();
            assert(h0[c] < h0[idx]);
            if idx == g && lab == gl {
                // a0: through p to l or r; a1: directly to l
                assert(c == p);
                assert(nd1.children[lab] == Some(l)) by { assert(nd1.children@[lab] == Some(l)); }
                assert(h1[l] < h1[idx]);
                assert(a0[p].value.aff.mat.nrows() == 1) by {
                    let n = a0[p].value.aff.mat.nrows() as usize;
                    assert(1 <= n < 16 && (1usize << n) <= 2usize ==> n == 1) by (bit_vector);
                }
                lemma_label_val_one(&a0[p].value.aff, x);
                let lp = decide(&a0[p].value.aff, x);
                assert(h0[l] < h0[p] && h0[r] < h0[p]);
                assert(tree_fn(a0, h0, l, x) == Some(a0[l].value.aff.ap(x)));
                assert(tree_fn(a0, h0, r, x) == Some(a0[r].value.aff.ap(x)));
                assert(a0[r].value.aff.ap(x) == a0[l].value.aff.ap(x));
                if lp == 0 { assert(tree_fn(a0, h0, p, x) == tree_fn(a0, h0, l, x)); } else { assert(tree_fn(a0, h0, p, x) == tree_fn(a0, h0, r, x)); }
                assert(tree_fn(a0, h0, p, x) == Some(a0[l].value.aff.ap(x)));
                assert(tree_fn(a1, h1, l, x) == Some(a0[l].value.aff.ap(x)));
            } else {
                // the selected child is neither p (only g lists p, at gl) nor r (only p lists r)
                assert(c != p) by {
                    if c == p { assert(a0[p].parent == Some(idx)); }
                }
                assert(c != r) by {
                    if c == r { assert(a0[r].parent == Some(idx)); assert(a0[r].parent == Some(p)); }
                }
                if idx == g {
                    assert(nd1.children[lab] == nd0.children[lab]) by { assert(nd1.children@[lab] == nd0.children@[lab]); }
                }
                assert(a1.dom().contains(c));
                assert(h1[c] < h1[idx]);
                lemma_merge_step_fn(a0, h0, a1, h1, p, l, r, g, gl, in_dim, c, x);
            }
        } else if 0 <= lab < 2 {
            if idx == g {
                assert(lab != gl);
                assert(nd1.children[lab] == nd0.children[lab]) by { assert(nd1.children@[lab] == nd0.children@[lab]); }
            }
        }
    }
}

// the two tree operations of one reduction step amount to merge_step
pub proof fn lemma_two_ops_merge_step(a0: AArena<2>, am: AArena<2>, a1: AArena<2>, root: Option<usize>, p: usize, l: usize, r: usize)
    requires wf_at(a0, root), root != Some(p), a0.dom().contains(p), a0[p].children[0] == Some(l), a0[p].children[1] == Some(r),
        no_kids(a0[l]), no_kids(a0[r]), same_aff(a0[l].value.aff, a0[r].value.aff),
        child_removed(a0, am, p, 1), merge_post(am, a1, p, 0, false),
    ensures exists|g: usize, gl: int| merge_step(a0, a1, p, l, r, g, gl)
{
    assert(a0.dom().contains(l) && a0[l].parent == Some(p));
    assert(a0.dom().contains(r) && a0[r].parent == Some(p));
    let d = choose|d: Map<usize, nat>| ranked(a0, d);
    assert(d[p] < d[l] && d[p] < d[r]);
    assert(l != r) by { if l == r { assert(a0[p].children[0] != a0[p].children[1]); } }
    // r is a leaf: it has no descendants
    assert forall|i: usize| !desc(a0, r, i) by {
        if desc(a0, r, i) { lemma_desc_has_kid(a0, r, i); }
    }
    assert(am.dom() =~= a0.dom().remove(r));
    assert(a0[p].parent.is_some()) by { if a0[p].parent.is_none() { assert(root == Some(p)); } }
    let g = a0[p].parent.unwrap();
    assert(a0.dom().contains(g));
    assert(d[g] < d[p]);
    assert(am[p].children[0] == Some(l)) by { assert(am[p].children@[0] == a0[p].children@[0]); }
    let gl = choose|gl: int| merged(am, a1, p, 0, gl);
    assert(am[g] == a0[g]);
    assert(am[l] == a0[l]);
    assert(!a0[p].isleaf) by { if a0[p].isleaf { assert(no_kids(a0[p])); } }
    assert(a0[l].isleaf && a0[r].isleaf);
    assert(a1.dom() =~= a0.dom().remove(p).remove(r));
    assert forall|i: usize| #![trigger a1[i]] a1.dom().contains(i) && i != g && i != l implies a1[i] == a0[i] by {
        assert(a1[i] == am[i]);
        assert(am.dom().contains(i));
    }
    assert(merge_step(a0, a1, p, l, r, g, gl));
}

// one step keeps the denotation and the shape invariant
pub proof fn lemma_reduce_step(a_old: AArena<2>, a0: AArena<2>, am: AArena<2>, a1: AArena<2>, rt: usize, in_dim: usize, p: usize, l: usize, r: usize)
    requires wf_at(a0, Some(rt)), wf_at(a1, Some(rt)), rt != p, a0.dom().contains(p), a0[p].children[0] == Some(l), a0[p].children[1] == Some(r),
        no_kids(a0[l]), no_kids(a0[r]), same_aff(a0[l].value.aff, a0[r].value.aff),
        child_removed(a0, am, p, 1), merge_post(am, a1, p, 0, false),
        aff_shape_ok(a0, in_dim), same_denotation(a_old, a0, rt, in_dim),
    ensures aff_shape_ok(a1, in_dim), same_denotation(a_old, a1, rt, in_dim),
        forall|i: usize| a1.dom().contains(i) ==> #[trigger] a0.dom().contains(i), a1.dom().len() < a0.dom().len(),
{
    reveal(same_denotation);
    lemma_two_ops_merge_step(a0, am, a1, Some(rt), p, l, r);
    let (g, gl) = choose|g: usize, gl: int| merge_step(a0, a1, p, l, r, g, gl);
    assert forall|i: usize| #![trigger a1[i].value] a1.dom().contains(i) implies a1[i].value.aff.ok() && a1[i].value.aff.mat.ncols() == in_dim
        && (!a1[i].isleaf ==> 1 <= a1[i].value.aff.mat.nrows() < 16 && (1usize << (a1[i].value.aff.mat.nrows() as usize)) <= 2) by {
        assert(a0.dom().contains(i));
        if i != g && i != l { assert(a1[i] == a0[i]); }
    }
    let hh = choose|h: Map<usize, nat>| ranked_down(a0, h);
    assert(a1.dom().contains(rt));
    assert forall|h0: Map<usize, nat>, h1: Map<usize, nat>, x: V| #![trigger tree_fn(a_old, h0, rt, x), tree_fn(a1, h1, rt, x)]
        ranked_down(a_old, h0) && ranked_down(a1, h1) && x.len() == in_dim implies tree_fn(a1, h1, rt, x) == tree_fn(a_old, h0, rt, x) by {
        lemma_merge_step_fn(a0, hh, a1, h1, p, l, r, g, gl, in_dim, rt, x);
        assert(tree_fn(a0, hh, rt, x) == tree_fn(a_old, h0, rt, x));
    }
    assert(a0.dom().remove(p).len() == a0.dom().len() - 1);
    assert(a0.dom().remove(p).remove(r).len() == a0.dom().len() - 2);
}

impl AffTree<2> {
//@fn src/pwl/impl_reduction.rs | impl AffTree<2> | reduce
//@bodysub Vec::from_iter(Bfs::iter(&self.tree, self.tree.get_root_idx())) => bfs_items_vec(&self.tree, self.tree.get_root_idx())
//@bodysub elements.reverse(); => vec_reverse(&mut elements);
//@bodysub for value in elements.into_iter() { => let mut __e: usize = 0; while __e < elements.len() { let value = elements[__e]; __e += 1;
//@bodysub node.children_iter().count() == 0 => count_some(&node.children) == 0
//@bodysub left.children_iter().count() != 0 || right.children_iter().count() != 0 => count_some(&left.children) != 0 || count_some(&right.children) != 0
//@bodysub left.value.aff == right.value.aff => left.value.aff.aff_eq(&right.value.aff)
//@spec
    requires old(self).tree.wf(), old(self).tree.root is Some, aff_shape_ok(old(self).a(), old(self).in_dim), old(self).a().dom().len() <= i32::MAX
    ensures
        final(self).tree.wf(), final(self).tree.root == old(self).tree.root, final(self).in_dim == old(self).in_dim, aff_shape_ok(final(self).a(), final(self).in_dim),
        // C08: the function is unchanged (for every input, undefinedness included) ...
        same_denotation(old(self).a(), final(self).a(), old(self).tree.root.unwrap(), old(self).in_dim),
        // ... and the tree never grows; surviving nodes keep their index
        forall|i: usize| final(self).a().dom().contains(i) ==> #[trigger] old(self).a().dom().contains(i),
        final(self).a().dom().len() <= old(self).a().dom().len(),
        // C05 (caches through reduce): surviving nodes keep their values; a merged decision disappears from the paths below it, so witnesses that satisfied
        // their path conditions up to 1e-8 before still do - for the (shorter) paths of the resulting tree
        wit_inv(old(self).a(), old(self).a()) ==> wit_inv(final(self).a(), final(self).a()),
        // C08 (idempotence): a tree in which no decision below the root has two equal terminal children - what a run of reduce aims at - is left exactly as it is
        no_mergeable(old(self).a(), old(self).tree.root.unwrap()) ==> final(self).a() == old(self).a(),
//@hint start
        let ghost rt = self.tree.root.unwrap();
        proof { lemma_same_denotation_refl(self.a(), rt, self.in_dim); lemma_emb_init(self.a()); }
//@loop 1
            invariant
                old(self).tree.wf(), old(self).tree.root == Some(rt), old(self).a().dom().len() <= i32::MAX,
                self.tree.wf(), self.tree.root == Some(rt), self.in_dim == old(self).in_dim, aff_shape_ok(self.a(), self.in_dim),
                same_denotation(old(self).a(), self.a(), rt, self.in_dim),
                forall|i: usize| self.a().dom().contains(i) ==> #[trigger] old(self).a().dom().contains(i),
                self.a().dom().len() <= old(self).a().dom().len(),
                no_mergeable(old(self).a(), rt) ==> self.a() == old(self).a(),
                wit_inv(old(self).a(), old(self).a()) ==> wit_inv(old(self).a(), self.a()), emb_inv(old(self).a(), self.a()),
                forall|i: usize| #![trigger self.a()[i].value] self.a().dom().contains(i) ==> self.a()[i].value == old(self).a()[i].value,
                0 <= __e <= elements@.len(),
            decreases elements@.len() - __e
//@hint loop 1 start
            let ghost a0 = self.a();
//@hint after self.tree.remove_child(value.index, 1);
                        let ghost am = self.a();
                        proof {
                            lemma_count_zero_no_kids(a0[left_idx], 0);
                            lemma_count_zero_no_kids(a0[right_idx], 0);
                            assert(!desc(a0, right_idx, value.index)) by { if desc(a0, right_idx, value.index) { lemma_desc_has_kid(a0, right_idx, value.index); } }
                            assert(am.dom().contains(value.index));
                            assert(am[value.index].children[0] == Some(left_idx)) by { assert(am[value.index].children@[0] == a0[value.index].children@[0]); }
                            assert(am[value.index].children[1].is_none()) by { assert(am[value.index].children@[1].is_none()); }
                            assert(count_some_from(am[value.index].children, 2) == 0);
                            assert(count_some_from(am[value.index].children, 1) == 0);
                            assert(count_some_from(am[value.index].children, 0) == 1);
                            assert(remove_child_post(a0, am, value.index, 1, false));
                            lemma_emb_removed(old(self).a(), a0, am, value.index, 1, false);
                            if wit_inv(old(self).a(), old(self).a()) { lemma_wit_removed(old(self).a(), a0, am, value.index, 1, false); }
                            assert forall|i: usize| #![trigger am[i].value] am.dom().contains(i) implies am[i].value == old(self).a()[i].value by { if i != value.index { assert(am[i] == a0[i]); } }
                        }
//@hint after self.tree.merge_child_with_parent(value.index, 0).unwrap();
                        proof {
                            lemma_reduce_step(old(self).a(), a0, am, self.a(), rt, self.in_dim, value.index, left_idx, right_idx);
                            let gl = choose|gl: int| merged(am, self.a(), value.index, 0, gl);
                            lemma_emb_merged(old(self).a(), am, self.a(), value.index, 0, gl);
                            if wit_inv(old(self).a(), old(self).a()) { lemma_wit_merged(old(self).a(), am, self.a(), value.index, 0, gl); }
                            assert forall|i: usize| #![trigger self.a()[i].value] self.a().dom().contains(i) implies self.a()[i].value == old(self).a()[i].value by {
                                let g = am[value.index].parent.unwrap();
                                if i != g && i != left_idx { assert(self.a()[i] == am[i]); }
                                assert(am.dom().contains(i));
                            }
                        }
//@hint loop 1 after
        proof { if wit_inv(old(self).a(), old(self).a()) { lemma_wit_final(old(self).a(), self.a()); } }
//@end
}

} // verus!
fn main() {}
