// ---- prelude/inc_pwl_core.rs : everything an AffTree unit starts from (shims, tree core, aff core, AffTree items and constructors) ----
pub type TreeIndex = usize;
pub type Label = usize;

//@include prelude/math.rs
//@include prelude/nd_shim.rs
//@include prelude/nd_shim_ops.rs
//@include prelude/slab_shim.rs

//@item src/tree/graph.rs | struct TreeNode
//@item src/tree/graph.rs | struct InvalidTreeIndexError | pub-fields
//@item src/tree/graph.rs | enum NodeError
//@item src/tree/graph.rs | struct Tree | pub-fields
//@item src/tree/graph.rs | struct Edge | derive=Clone,Copy
impl From<InvalidTreeIndexError> for NodeError {
    fn from(e: InvalidTreeIndexError) -> (r: Self) ensures r == NodeError::InvalidIndex(e) { NodeError::InvalidIndex(e) }
}
impl vstd::std_specs::convert::FromSpecImpl<InvalidTreeIndexError> for NodeError {
    open spec fn obeys_from_spec() -> bool { true }
    open spec fn from_spec(e: InvalidTreeIndexError) -> NodeError { NodeError::InvalidIndex(e) }
}
pub mod ax {
    use super::*;
    pub broadcast axiom fn axiom_from_invalid_index(e: InvalidTreeIndexError, r: NodeError)
        ensures #[trigger] vstd::std_specs::control_flow::spec_from::<NodeError, InvalidTreeIndexError>(e, r) ==> r == NodeError::InvalidIndex(e);
}
broadcast use ax::axiom_from_invalid_index;

//@include prelude/tree_spec.rs
//@include prelude/tree_helpers.rs
//@include prelude/tree_lemmas.rs
//@include prelude/inc_tree_core.rs
//@include prelude/inc_aff_core.rs

//@item src/pwl/node.rs | enum NodeState | no-debug
//@item src/pwl/node.rs | struct AffContent | no-debug
//@item src/pwl/afftree.rs | struct AffTree | drop-field=polytope_cache

//@include prelude/pwl_spec.rs

impl AffContent {
//@fn src/pwl/node.rs | impl AffContent | new
//@spec
    ensures r.aff == aff, r.state is Indeterminate
//@end
}

impl<const K: usize> AffTree<K> {
    pub open spec fn a(&self) -> AArena<K> { self.tree.arena@ }

//@fn src/pwl/afftree.rs | impl<const K: usize> AffTree<K> | from_aff
//@bodysub polytope_cache: RefCell::new(Vec::new()), =>
//@spec
    requires K >= 2, K < usize::MAX, func.ok()
    ensures r.tree.wf(), r.tree.root == Some(0usize), r.a().dom() =~= set![0usize], r.in_dim == func.mat.ncols(),
        r.a()[0].value.aff == func, r.a()[0].isleaf,
//@end

//@fn src/pwl/afftree.rs | impl<const K: usize> AffTree<K> | in_dim
//@spec
    ensures r == self.in_dim
//@end

//@fn src/pwl/afftree.rs | impl<const K: usize> AffTree<K> | add_child_node
//@spec
    requires old(self).tree.wf(), label < K
    ensures
        add_child_post(old(self).a(), final(self).a(), node, label, r),
        r matches Ok(c) ==> final(self).a()[c].value.aff == aff && final(self).a()[c].value.state is Indeterminate
            && final(self).a()[node].value == old(self).a()[node].value,
        r is Err <==> !old(self).a().dom().contains(node) || old(self).a()[node].children[label as int] is Some,
        final(self).tree.root == old(self).tree.root, final(self).in_dim == old(self).in_dim,
        add_child_post(old(self).a(), final(self).a(), node, label, r) ==> final(self).tree.wf(),
//@hint start
        proof { lemma_add_child_wf_all(old(self).a(), old(self).tree.root, node, label); }
//@end
}

// ---- end inc_pwl_core ----
