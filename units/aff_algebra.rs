// unit aff_algebra — C16 / C14: affine functions and polytopes (src/linalg/affine.rs, src/linalg/impl_ops.rs)
use vstd::prelude::*;
use std::marker::PhantomData;
use std::ops::{Add, Sub, Mul, Div, Neg};
// what ndarray's `concatenate!` macro expands to, for two operands (rule M2)
macro_rules! concatenate { ($axis:expr, $a:expr, $b:expr) => { NdConcat::concat(&$a, $axis, &$b) }; }
verus! {

//@include prelude/math.rs
//@include prelude/nd_shim.rs
//@include prelude/nd_shim_ops.rs
//@include prelude/tol_spec.rs
// rule I18: `<array1>.into_iter().all(|x| x >= A::from(<literal>).unwrap())` is replaced by this helper: every element is at least the literal num/den
// (exact-real comparison, like every float operation of these units)
#[verifier::external_body]
pub fn all_ge_lit<S: Data<Elem = A>, A: Float>(d: ArrayBase<S, Ix1>, num: i64, den: u64) -> (r: bool)
    requires den > 0
    ensures r == forall|i: int| 0 <= i < d.v().len() ==> #[trigger] d.v()[i] >= (num as real) / (den as real)
{ unimplemented!() }
// rule I19: the closure pipelines `polys.iter().map(|poly| poly.mat.view()).collect()` / `.bias.view()` of intersection_n are these helpers: the views of the parts, in order
#[verifier::external_body]
pub fn mat_views<'a, D: Data<Elem = A>, A: Float>(polys: &'a [AffFuncBase<PolytopeT, D>]) -> (r: Vec<ArrayView2<'a, A>>)
    ensures r@.len() == polys@.len(),
        forall|k: int| 0 <= k < polys@.len() ==> (#[trigger] r@[k]).m() == polys@[k].mat.m() && r@[k].nrows() == polys@[k].mat.nrows() && r@[k].ncols() == polys@[k].mat.ncols()
{ unimplemented!() }
#[verifier::external_body]
pub fn bias_views<'a, D: Data<Elem = A>, A: Float>(polys: &'a [AffFuncBase<PolytopeT, D>]) -> (r: Vec<ArrayView1<'a, A>>)
    ensures r@.len() == polys@.len(), forall|k: int| 0 <= k < polys@.len() ==> (#[trigger] r@[k]).v() == polys@[k].bias.v()
{ unimplemented!() }
// ndarray::concatenate(Axis(0), &[views]) (ASSUMED library contract): Err iff the list is empty or the column counts differ; otherwise the rows of the operands in order
pub struct ShapeError { _p: () }
impl std::fmt::Debug for ShapeError { #[verifier::external_body] fn fmt(&self, f: &mut std::fmt::Formatter<'_>) -> std::fmt::Result { unimplemented!() } }
#[verifier::external_body]
pub fn nd_concatenate2<'a, A>(axis: Axis, arrays: &[ArrayView2<'a, A>]) -> (r: Result<Array2<A>, ShapeError>)
    requires axis.0 == 0
    ensures r is Ok <==> arrays@.len() > 0 && (forall|k: int| 0 <= k < arrays@.len() ==> (#[trigger] arrays@[k]).ncols() == arrays@[0].ncols()),
        r matches Ok(out) ==> out.ncols() == arrays@[0].ncols() && out.m() == cat_rows(Seq::new(arrays@.len(), |k: int| arrays@[k].m()), arrays@.len() as int)
{ unimplemented!() }
#[verifier::external_body]
pub fn nd_concatenate1<'a, A>(axis: Axis, arrays: &[ArrayView1<'a, A>]) -> (r: Result<Array1<A>, ShapeError>)
    requires axis.0 == 0
    ensures r is Ok <==> arrays@.len() > 0,
        r matches Ok(out) ==> out.v() == cat_vals(Seq::new(arrays@.len(), |k: int| arrays@[k].v()), arrays@.len() as int)
{ unimplemented!() }

//@item src/linalg/affine.rs | struct AffFuncBase
//@item src/linalg/affine.rs | struct FunctionT
//@item src/linalg/affine.rs | struct PolytopeT
type AffFuncG<A> = AffFuncBase<FunctionT, OwnedRepr<A>>;
type PolytopeG<A> = AffFuncBase<PolytopeT, OwnedRepr<A>>;
//@include prelude/cat_spec.rs


// ---- spec vocabulary: an AffFuncBase read as a function x |-> M x + b, or as a polytope {x | M x <= b}
impl<I, S: Data<Elem = A>, A: Float> AffFuncBase<I, S> {
    pub open spec fn ok(&self) -> bool { self.mat.nrows() == self.bias.v().len() }
    pub open spec fn ap(&self, x: V) -> V { vadd(mv(self.mat.m(), x), self.bias.v()) }
    pub open spec fn sat(&self, x: V) -> bool {
        forall|i: int| 0 <= i < self.mat.nrows() ==> dotp(#[trigger] self.mat.m()[i], x, x.len() as int) <= self.bias.v()[i]
    }
}
pub open spec fn unit_vec(n: int, i: int, s: real) -> V { Seq::new(n as nat, |j: int| if j == i { s } else { 0real }) }

impl<I, D: Data<Elem = A>, A: Float> AffFuncBase<I, D> {
//@fn src/linalg/affine.rs | impl<I, D: Data<Elem = A>, A: Float> AffFuncBase<I, D> | from_mats
//@spec
    requires mat.nrows() == bias.v().len()
    ensures r.mat == mat, r.bias == bias, r.ok()
//@end

//@fn src/linalg/affine.rs | impl<I, D: Data<Elem = A>, A: Float> AffFuncBase<I, D> | indim
//@spec
    ensures r == self.mat.ncols()
//@end

//@fn src/linalg/affine.rs | impl<I, D: Data<Elem = A>, A: Float> AffFuncBase<I, D> | outdim
//@spec
    ensures r == self.mat.nrows()
//@end
}

impl<A: Float> AffFuncG<A> {
//@fn src/linalg/affine.rs | impl<A: Float> AffFuncG<A> | identity
//@spec
    ensures r.ok(), r.mat.ncols() == dim, r.mat.nrows() == dim,
        forall|x: V| x.len() == dim ==> #[trigger] r.ap(x) =~= x,
//@hint start
        proof { assert forall|x: V| x.len() == dim implies #[trigger] vadd(mv(eye(dim as int), x), vconst(dim as int, 0real)) =~= x by { lemma_mv_eye(dim as int, x); } }
//@end

//@fn src/linalg/affine.rs | impl<A: Float> AffFuncG<A> | zeros
//@spec
    ensures r.ok(), r.mat.ncols() == dim, r.mat.nrows() == dim,
        forall|x: V| x.len() == dim ==> #[trigger] r.ap(x) =~= vconst(dim as int, 0real),
//@hint start
        proof { assert forall|x: V| x.len() == dim implies #[trigger] vadd(mv(mconst(dim as int, dim as int, 0real), x), vconst(dim as int, 0real)) =~= vconst(dim as int, 0real) by { lemma_mv_zero(dim as int, dim as int, x); } }
//@end

//@fn src/linalg/affine.rs | impl<A: Float> AffFuncG<A> | constant
//@spec
    ensures r.ok(), r.mat.ncols() == dim, r.mat.nrows() == 1,
        forall|x: V| x.len() == dim ==> #[trigger] r.ap(x) =~= seq![value.rv()],
//@hint start
        proof { assert forall|x: V| x.len() == dim implies #[trigger] mv(mconst(1, dim as int, 0real), x) =~= vconst(1, 0real) by { lemma_mv_zero(1, dim as int, x); } }
//@end

//@fn src/linalg/affine.rs | impl<A: Float> AffFuncG<A> | unit
//@spec
    requires index < dim
    ensures r.ok(), r.mat.ncols() == dim, r.mat.nrows() == 1,
        forall|x: V| x.len() == dim ==> #[trigger] r.ap(x) =~= seq![x[index as int]],
//@hint start
        proof {
            assert forall|x: V| x.len() == dim implies #[trigger] mv(mset(mconst(1, dim as int, 0real), 0, index as int, 1real), x) =~= seq![x[index as int]] by {
                let row = mset(mconst(1, dim as int, 0real), 0, index as int, 1real)[0];
                lemma_dotp_unit(row, x, dim as int, index as int, 1real);
                assert(1real * x[index as int] == x[index as int]) by(nonlinear_arith);
            }
        }
//@end

//@fn src/linalg/affine.rs | impl<A: Float> AffFuncG<A> | zero_idx
//@spec
    requires index < dim
    ensures r.ok(), r.mat.ncols() == dim, r.mat.nrows() == dim,
        forall|x: V| x.len() == dim ==> #[trigger] r.ap(x) =~= x.update(index as int, 0real),
//@hint start
        proof {
            assert forall|x: V| x.len() == dim implies #[trigger] mv(mset(eye(dim as int), index as int, index as int, 0real), x) =~= x.update(index as int, 0real) by {
                let mm0 = mset(eye(dim as int), index as int, index as int, 0real);
                assert forall|i: int| 0 <= i < dim implies mv(mm0, x)[i] == x.update(index as int, 0real)[i] by {
                    if i == index {
                        lemma_dotp_zero_left(mm0[i], x, dim as int);
                    } else {
                        lemma_dotp_unit(mm0[i], x, dim as int, i, 1real);
                        assert(1real * x[i] == x[i]) by(nonlinear_arith);
                    }
                }
            }
        }
//@end

//@fn src/linalg/affine.rs | impl<A: Float> AffFuncG<A> | sum
//@spec
    ensures r.ok(), r.mat.ncols() == dim, r.mat.nrows() == 1,
        forall|x: V| x.len() == dim ==> #[trigger] r.ap(x) =~= seq![dotp(vconst(dim as int, 1real), x, dim as int)],
//@end

//@fn src/linalg/affine.rs | impl<A: Float> AffFuncG<A> | translation
//@spec
    requires offset.v().len() == dim
    ensures r.ok(), r.mat.ncols() == dim, r.mat.nrows() == dim,
        forall|x: V| x.len() == dim ==> #[trigger] r.ap(x) =~= vadd(x, offset.v()),
//@hint start
        proof { assert forall|x: V| x.len() == dim implies #[trigger] mv(eye(dim as int), x) =~= x by { lemma_mv_eye(dim as int, x); } }
//@end

//@fn src/linalg/affine.rs | impl<A: Float> AffFuncG<A> | scaling
//@spec
    ensures r.ok(), r.mat.ncols() == scalars.v().len(), r.mat.nrows() == scalars.v().len(),
        forall|x: V| x.len() == scalars.v().len() ==> #[trigger] r.ap(x) =~= vmul(scalars.v(), x),
//@hint start
        proof { assert forall|x: V| x.len() == scalars.v().len() implies #[trigger] mv(diag(scalars.v()), x) =~= vmul(scalars.v(), x) by { lemma_mv_diag(scalars.v(), x); } }
//@end

//@fn src/linalg/affine.rs | impl<A: Float> AffFuncG<A> | uniform_scaling
//@spec
    ensures r.ok(), r.mat.ncols() == dim, r.mat.nrows() == dim,
        forall|x: V| x.len() == dim ==> #[trigger] r.ap(x) =~= vscale(x, scalar.rv()),
//@hint end
        proof {
            assert forall|x: V| x.len() == dim implies #[trigger] vmul(vconst(dim as int, scalar.rv()), x) =~= vscale(x, scalar.rv()) by {
                assert forall|i: int| 0 <= i < dim implies vmul(vconst(dim as int, scalar.rv()), x)[i] == vscale(x, scalar.rv())[i] by {
                    assert(scalar.rv() * x[i] == x[i] * scalar.rv()) by(nonlinear_arith);
                }
            }
        }
//@end

//@fn src/linalg/affine.rs | impl<A: Float> AffFuncG<A> | rotation
//@spec
    requires rotator.nrows() == rotator.ncols()
    ensures r.ok(), r.mat.ncols() == rotator.ncols(), r.mat.nrows() == rotator.nrows(),
        forall|x: V| x.len() == rotator.ncols() ==> #[trigger] r.ap(x) =~= mv(rotator.m(), x),
//@hint start
        broadcast use axiom_array2_shape;
//@end
}

impl<A: Float> AffFuncG<A> {
//@fn src/linalg/affine.rs | impl<A: Float> AffFuncG<A> | subtraction
//@bodysub? matrix[[0, right]] - A::one() => fsub(matrix[[0, right]], A::one())
//@bodysub? -A::one() => fneg(A::one())
//@spec
    requires left < dim, right < dim
    ensures r.ok(), r.mat.ncols() == dim, r.mat.nrows() == 1, r.bias.v() =~= seq![0real],
        forall|x: V| x.len() == dim ==> #[trigger] r.ap(x) =~= seq![x[left as int] - x[right as int]],
//@hint start
        proof {
            let c = if left == right { 0real } else { 0real - 1real };
            let mat2 = mset(mset(mconst(1, dim as int, 0real), 0, left as int, 1real), 0, right as int, c);
            assert forall|x: V| x.len() == dim implies #[trigger] mv(mat2, x) =~= seq![x[left as int] - x[right as int]] by {
                let row = mat2[0];
                if left == right {
                    lemma_dotp_zero_left(row, x, dim as int);
                } else {
                    lemma_dotp_two(row, x, dim as int, left as int, 1real, right as int, 0real - 1real);
                    assert(1real * x[left as int] + (0real - 1real) * x[right as int] == x[left as int] - x[right as int]) by(nonlinear_arith);
                }
            }
        }
//@end
}

/// # Evaluation
impl<D: Data<Elem = A>, A: Float + LinalgScalar> AffFuncBase<FunctionT, D> {
//@fn src/linalg/affine.rs | impl<D: Data<Elem = A>, A: Float + LinalgScalar> AffFuncBase<FunctionT, D> | apply
//@spec
    requires self.ok(), input.v().len() == self.mat.ncols()
    ensures r.v() == self.ap(input.v())
//@hint start
        broadcast use axiom_array2_shape;
//@end

//@fn src/linalg/affine.rs | impl<D: Data<Elem = A>, A: Float + LinalgScalar> AffFuncBase<FunctionT, D> | apply_transpose
//@bodysub input - &self.bias => Sub::sub(input, &self.bias)
//@spec
    requires self.ok(), input.v().len() == self.mat.nrows()
    ensures r.v() == mv(transpose(self.mat.m(), self.mat.ncols()), vsub(input.v(), self.bias.v()))
//@hint start
        broadcast use axiom_array2_shape;
//@end

//@fn src/linalg/affine.rs | impl<D: Data<Elem = A>, A: Float + LinalgScalar> AffFuncBase<FunctionT, D> | compose
//@spec
    requires self.ok(), other.ok(), self.mat.ncols() == other.mat.nrows()
    ensures r.ok(), r.mat.ncols() == other.mat.ncols(), r.mat.nrows() == self.mat.nrows(),
        // compose(f, g)(x) == f(g(x))
        forall|x: V| x.len() == other.mat.ncols() ==> #[trigger] r.ap(x) =~= self.ap(other.ap(x)),
//@hint start
        broadcast use axiom_array2_shape;
        proof {
            assert forall|x: V| x.len() == other.mat.ncols() implies
                #[trigger] vadd(mv(mm(self.mat.m(), other.mat.m(), other.mat.ncols()), x), vadd(mv(self.mat.m(), other.bias.v()), self.bias.v()))
                    =~= vadd(mv(self.mat.m(), vadd(mv(other.mat.m(), x), other.bias.v())), self.bias.v()) by {
                lemma_mm_mv(self.mat.m(), other.mat.m(), x, other.mat.ncols());
                lemma_mv_add_right(self.mat.m(), mv(other.mat.m(), x), other.bias.v());
            }
        }
//@end

//@fn src/linalg/affine.rs | impl<D: Data<Elem = A>, A: Float + LinalgScalar> AffFuncBase<FunctionT, D> | stack
//@spec
    requires self.ok(), other.ok(), self.mat.ncols() == other.mat.ncols()
    ensures r.ok(), r.mat.ncols() == self.mat.ncols(), r.mat.nrows() == self.mat.nrows() + other.mat.nrows(),
        // stack concatenates outputs
        forall|x: V| x.len() == self.mat.ncols() ==> #[trigger] r.ap(x) =~= self.ap(x) + other.ap(x),
//@hint start
        broadcast use axiom_array2_shape;
        proof {
            assert forall|x: V| x.len() == self.mat.ncols() implies
                #[trigger] vadd(mv(self.mat.m() + other.mat.m(), x), self.bias.v() + other.bias.v()) =~= vadd(mv(self.mat.m(), x), self.bias.v()) + vadd(mv(other.mat.m(), x), other.bias.v()) by {
                lemma_mv_stack(self.mat.m(), other.mat.m(), x);
            }
        }
//@end
}

// ---- element-wise operators (macro impl_ops!, rule M1: $trt / $mth substituted; rule T1: trait impl methods
// are verified as inherent methods <op>_ref / <op>_owned)
impl<S: Data<Elem = A>, A: Float> AffFuncBase<FunctionT, S> {

//@fn src/linalg/impl_ops.rs | impl<S: Data<Elem = A>, A: Float, S2: Data<Elem = A>> $trt<&AffFuncBase<FunctionT, S2>> for &AffFuncBase<FunctionT, S> | $mth | as=add_ref
//@sigsub fn add_ref(self, => fn add_ref<S2: Data<Elem = A>>(&self,
//@sigsub Self::Output => AffFuncBase<FunctionT, OwnedRepr<A>>
//@bodysub $mth => add
//@spec
    requires self.ok(), rhs.ok(), self.mat.nrows() == rhs.mat.nrows(), self.mat.ncols() == rhs.mat.ncols()
    ensures r.ok(), r.mat.nrows() == self.mat.nrows(), r.mat.ncols() == self.mat.ncols(),
        // coefficient-wise
        r.mat.m() == madd(self.mat.m(), rhs.mat.m()), r.bias.v() == vadd(self.bias.v(), rhs.bias.v()),
        forall|x: V| x.len() == self.mat.ncols() ==> #[trigger] r.ap(x) =~= vadd(self.ap(x), rhs.ap(x))
//@hint start
        broadcast use axiom_array2_shape;
        proof {
            assert forall|x: V| x.len() == self.mat.ncols() implies
                #[trigger] vadd(mv(madd(self.mat.m(), rhs.mat.m()), x), vadd(self.bias.v(), rhs.bias.v())) =~= vadd(vadd(mv(self.mat.m(), x), self.bias.v()), vadd(mv(rhs.mat.m(), x), rhs.bias.v())) by {
                lemma_mv_madd(self.mat.m(), rhs.mat.m(), x, self.mat.ncols());
            }
        }
//@end

//@fn src/linalg/impl_ops.rs | impl<S: Data<Elem = A>, A: Float, S2: Data<Elem = A>> $trt<&AffFuncBase<FunctionT, S2>> for &AffFuncBase<FunctionT, S> | $mth | as=sub_ref
//@sigsub fn sub_ref(self, => fn sub_ref<S2: Data<Elem = A>>(&self,
//@sigsub Self::Output => AffFuncBase<FunctionT, OwnedRepr<A>>
//@bodysub $mth => sub
//@spec
    requires self.ok(), rhs.ok(), self.mat.nrows() == rhs.mat.nrows(), self.mat.ncols() == rhs.mat.ncols()
    ensures r.ok(), r.mat.nrows() == self.mat.nrows(), r.mat.ncols() == self.mat.ncols(),
        // coefficient-wise
        r.mat.m() == msub(self.mat.m(), rhs.mat.m()), r.bias.v() == vsub(self.bias.v(), rhs.bias.v()),
        forall|x: V| x.len() == self.mat.ncols() ==> #[trigger] r.ap(x) =~= vsub(self.ap(x), rhs.ap(x))
//@hint start
        broadcast use axiom_array2_shape;
        proof {
            assert forall|x: V| x.len() == self.mat.ncols() implies
                #[trigger] vadd(mv(msub(self.mat.m(), rhs.mat.m()), x), vsub(self.bias.v(), rhs.bias.v())) =~= vsub(vadd(mv(self.mat.m(), x), self.bias.v()), vadd(mv(rhs.mat.m(), x), rhs.bias.v())) by {
                lemma_mv_msub(self.mat.m(), rhs.mat.m(), x, self.mat.ncols());
            }
        }
//@end

//@fn src/linalg/impl_ops.rs | impl<S: Data<Elem = A>, A: Float, S2: Data<Elem = A>> $trt<&AffFuncBase<FunctionT, S2>> for &AffFuncBase<FunctionT, S> | $mth | as=mul_ref
//@sigsub fn mul_ref(self, => fn mul_ref<S2: Data<Elem = A>>(&self,
//@sigsub Self::Output => AffFuncBase<FunctionT, OwnedRepr<A>>
//@bodysub $mth => mul
//@spec
    requires self.ok(), rhs.ok(), self.mat.nrows() == rhs.mat.nrows(), self.mat.ncols() == rhs.mat.ncols()
    ensures r.ok(), r.mat.nrows() == self.mat.nrows(), r.mat.ncols() == self.mat.ncols(),
        // coefficient-wise
        r.mat.m() == mmul(self.mat.m(), rhs.mat.m()), r.bias.v() == vmul(self.bias.v(), rhs.bias.v())
//@end

//@fn src/linalg/impl_ops.rs | impl<S: Data<Elem = A>, A: Float, S2: Data<Elem = A>> $trt<&AffFuncBase<FunctionT, S2>> for &AffFuncBase<FunctionT, S> | $mth | as=div_ref
//@sigsub fn div_ref(self, => fn div_ref<S2: Data<Elem = A>>(&self,
//@sigsub Self::Output => AffFuncBase<FunctionT, OwnedRepr<A>>
//@bodysub $mth => div
//@spec
    requires self.ok(), rhs.ok(), self.mat.nrows() == rhs.mat.nrows(), self.mat.ncols() == rhs.mat.ncols(),
        forall|i: int, j: int| 0 <= i < rhs.mat.nrows() && 0 <= j < rhs.mat.ncols() ==> rhs.mat.m()[i][j] != 0real,
        forall|i: int| 0 <= i < rhs.bias.v().len() ==> rhs.bias.v()[i] != 0real
    ensures r.ok(), r.mat.nrows() == self.mat.nrows(), r.mat.ncols() == self.mat.ncols(),
        // coefficient-wise
        r.mat.m() == mdiv(self.mat.m(), rhs.mat.m()), r.bias.v() == vdiv(self.bias.v(), rhs.bias.v())
//@end
}

impl<S: DataOwned<Elem = A> + DataMut, A: Float> AffFuncBase<FunctionT, S> {

//@fn src/linalg/impl_ops.rs | impl<S: DataOwned<Elem = A> + DataMut, A: Float, S2: Data<Elem = A>> $trt<&AffFuncBase<FunctionT, S2>> for AffFuncBase<FunctionT, S> | $mth | as=add_owned
//@sigsub fn add_owned(self, => fn add_owned<S2: Data<Elem = A>>(self,
//@sigsub Self::Output => AffFuncBase<FunctionT, S>
//@bodysub $mth => add
//@spec
    requires self.ok(), rhs.ok(), self.mat.nrows() == rhs.mat.nrows(), self.mat.ncols() == rhs.mat.ncols()
    ensures r.ok(), r.mat.nrows() == self.mat.nrows(), r.mat.ncols() == self.mat.ncols(),
        r.mat.m() == madd(self.mat.m(), rhs.mat.m()), r.bias.v() == vadd(self.bias.v(), rhs.bias.v()),
//@end

//@fn src/linalg/impl_ops.rs | impl<S: DataOwned<Elem = A> + DataMut, A: Float, S2: Data<Elem = A>> $trt<&AffFuncBase<FunctionT, S2>> for AffFuncBase<FunctionT, S> | $mth | as=sub_owned
//@sigsub fn sub_owned(self, => fn sub_owned<S2: Data<Elem = A>>(self,
//@sigsub Self::Output => AffFuncBase<FunctionT, S>
//@bodysub $mth => sub
//@spec
    requires self.ok(), rhs.ok(), self.mat.nrows() == rhs.mat.nrows(), self.mat.ncols() == rhs.mat.ncols()
    ensures r.ok(), r.mat.nrows() == self.mat.nrows(), r.mat.ncols() == self.mat.ncols(),
        r.mat.m() == msub(self.mat.m(), rhs.mat.m()), r.bias.v() == vsub(self.bias.v(), rhs.bias.v()),
//@end

//@fn src/linalg/impl_ops.rs | impl<S: DataOwned<Elem = A> + DataMut, A: Float, S2: Data<Elem = A>> $trt<&AffFuncBase<FunctionT, S2>> for AffFuncBase<FunctionT, S> | $mth | as=mul_owned
//@sigsub fn mul_owned(self, => fn mul_owned<S2: Data<Elem = A>>(self,
//@sigsub Self::Output => AffFuncBase<FunctionT, S>
//@bodysub $mth => mul
//@spec
    requires self.ok(), rhs.ok(), self.mat.nrows() == rhs.mat.nrows(), self.mat.ncols() == rhs.mat.ncols()
    ensures r.ok(), r.mat.nrows() == self.mat.nrows(), r.mat.ncols() == self.mat.ncols(),
        r.mat.m() == mmul(self.mat.m(), rhs.mat.m()), r.bias.v() == vmul(self.bias.v(), rhs.bias.v()),
//@end

//@fn src/linalg/impl_ops.rs | impl<S: DataOwned<Elem = A> + DataMut, A: Float, S2: Data<Elem = A>> $trt<&AffFuncBase<FunctionT, S2>> for AffFuncBase<FunctionT, S> | $mth | as=div_owned
//@sigsub fn div_owned(self, => fn div_owned<S2: Data<Elem = A>>(self,
//@sigsub Self::Output => AffFuncBase<FunctionT, S>
//@bodysub $mth => div
//@spec
    requires self.ok(), rhs.ok(), self.mat.nrows() == rhs.mat.nrows(), self.mat.ncols() == rhs.mat.ncols(),
        forall|i: int, j: int| 0 <= i < rhs.mat.nrows() && 0 <= j < rhs.mat.ncols() ==> rhs.mat.m()[i][j] != 0real,
        forall|i: int| 0 <= i < rhs.bias.v().len() ==> rhs.bias.v()[i] != 0real
    ensures r.ok(), r.mat.nrows() == self.mat.nrows(), r.mat.ncols() == self.mat.ncols(),
        r.mat.m() == mdiv(self.mat.m(), rhs.mat.m()), r.bias.v() == vdiv(self.bias.v(), rhs.bias.v()),
//@end

//@fn src/linalg/impl_ops.rs | impl<S: DataOwned<Elem = A> + DataMut, A: Float> Neg for AffFuncBase<FunctionT, S> | neg | as=neg_owned
//@sigsub Self::Output => AffFuncBase<FunctionT, S>
//@spec
    requires self.ok()
    ensures r.ok(), r.mat.nrows() == self.mat.nrows(), r.mat.ncols() == self.mat.ncols(),
        r.mat.m() == mneg(self.mat.m()), r.bias.v() == vneg(self.bias.v()),
        // -f is the point-wise negation
        forall|x: V| x.len() == self.mat.ncols() ==> #[trigger] r.ap(x) =~= vneg(self.ap(x)),
//@hint start
        broadcast use axiom_array2_shape;
        proof {
            assert forall|x: V| x.len() == self.mat.ncols() implies
                #[trigger] vadd(mv(mneg(self.mat.m()), x), vneg(self.bias.v())) =~= vneg(vadd(mv(self.mat.m(), x), self.bias.v())) by {
                lemma_mv_neg(self.mat.m(), x, self.mat.ncols());
            }
        }
//@end
}

impl<D: Data<Elem = A> + DataOwned + RawDataClone + DataMut, A: Float + LinalgScalar + Neg> AffFuncBase<FunctionT, D> {
//@fn src/linalg/affine.rs | impl<D: Data<Elem = A> + DataOwned + RawDataClone + DataMut, A: Float + LinalgScalar + Neg> AffFuncBase<FunctionT, D> | negate
//@spec
    requires self.ok()
    ensures r.ok(), r.mat.nrows() == self.mat.nrows(), r.mat.ncols() == self.mat.ncols(),
        forall|x: V| x.len() == self.mat.ncols() ==> #[trigger] r.ap(x) =~= vneg(self.ap(x)),
//@hint start
        broadcast use axiom_array2_shape;
        proof {
            assert forall|x: V| x.len() == self.mat.ncols() implies
                #[trigger] vadd(mv(mneg(self.mat.m()), x), vneg(self.bias.v())) =~= vneg(vadd(mv(self.mat.m(), x), self.bias.v())) by {
                lemma_mv_neg(self.mat.m(), x, self.mat.ncols());
            }
        }
//@end
}

// ---- ownership / type switches keep the coefficients (hence the denoted function / half-spaces)
impl<I, S: Data<Elem = A>, A: Float> AffFuncBase<I, S> {
//@fn src/linalg/affine.rs | impl<I, S: Data<Elem = A>, A: Float> AffFuncBase<I, S> | view
//@spec
    ensures r.mat.m() == self.mat.m(), r.bias.v() == self.bias.v(), r.mat.nrows() == self.mat.nrows(), r.mat.ncols() == self.mat.ncols()
//@end
//@fn src/linalg/affine.rs | impl<I, S: Data<Elem = A>, A: Float> AffFuncBase<I, S> | to_owned
//@spec
    ensures r.mat.m() == self.mat.m(), r.bias.v() == self.bias.v(), r.mat.nrows() == self.mat.nrows(), r.mat.ncols() == self.mat.ncols()
//@end
}
impl<D: Data<Elem = A> + RawDataClone, A: Float> AffFuncBase<FunctionT, D> {
//@fn src/linalg/affine.rs | impl<D: Data<Elem = A> + RawDataClone, A: Float> AffFuncBase<FunctionT, D> | as_polytope
//@spec
    ensures r.mat.m() == self.mat.m(), r.bias.v() == self.bias.v(), r.mat.nrows() == self.mat.nrows(), r.mat.ncols() == self.mat.ncols()
//@end
}
impl<D: Data<Elem = A> + RawDataClone, A: Float> AffFuncBase<PolytopeT, D> {
//@fn src/linalg/affine.rs | impl<D: Data<Elem = A> + RawDataClone, A: Float> AffFuncBase<PolytopeT, D> | as_function
//@spec
    ensures r.mat.m() == self.mat.m(), r.bias.v() == self.bias.v(), r.mat.nrows() == self.mat.nrows(), r.mat.ncols() == self.mat.ncols()
//@end
//@fn src/linalg/affine.rs | impl<D: Data<Elem = A> + RawDataClone, A: Float> AffFuncBase<PolytopeT, D> | new
//@spec
    ensures r.mat == aff.mat, r.bias == aff.bias
//@end
}

//@item src/linalg/affine.rs | enum PolyRepr | derive=Clone,Copy

impl<A: Float> AffFuncBase<PolytopeT, OwnedRepr<A>> {
//@fn src/linalg/affine.rs | impl<A: Float> AffFuncBase<PolytopeT, OwnedRepr<A>> | convert_to
//@spec
    requires self.ok()
    ensures r.ok(), r.mat.nrows() == self.mat.nrows(), r.mat.ncols() == self.mat.ncols(),
        // every representation describes the same half-spaces {x | M x <= b}, row by row
        repr == PolyRepr::MatrixLeqBias ==> r.mat.m() == self.mat.m() && r.bias.v() == self.bias.v(),
        repr == PolyRepr::MatrixBiasLeqZero ==> forall|x: V, i: int| x.len() == self.mat.ncols() && 0 <= i < self.mat.nrows() ==>
            (#[trigger] r.ap(x)[i] <= 0real <==> dotp(self.mat.m()[i], x, x.len() as int) <= self.bias.v()[i]),
        repr == PolyRepr::MatrixGeqBias ==> forall|x: V, i: int| x.len() == self.mat.ncols() && 0 <= i < self.mat.nrows() ==>
            (#[trigger] dotp(r.mat.m()[i], x, x.len() as int) >= r.bias.v()[i] <==> dotp(self.mat.m()[i], x, x.len() as int) <= self.bias.v()[i]),
        repr == PolyRepr::MatrixBiasGeqZero ==> forall|x: V, i: int| x.len() == self.mat.ncols() && 0 <= i < self.mat.nrows() ==>
            (#[trigger] r.ap(x)[i] >= 0real <==> dotp(self.mat.m()[i], x, x.len() as int) <= self.bias.v()[i]),
//@hint start
        broadcast use axiom_array2_shape;
        proof {
            assert forall|x: V, i: int| x.len() == self.mat.ncols() && 0 <= i < self.mat.nrows() implies
                #[trigger] dotp(mneg(self.mat.m())[i], x, x.len() as int) == -dotp(self.mat.m()[i], x, x.len() as int) by {
                lemma_dotp_neg_left(self.mat.m()[i], x, x.len() as int);
            }
        }
//@end
}

// =================================================================== polytopes (C14)
pub proof fn lemma_hypercube_rows(dim: int, x: V, i: int)
    requires x.len() == dim, 0 <= i < dim
    ensures dotp((eye(dim) + mneg(eye(dim)))[i], x, dim) == x[i], dotp((eye(dim) + mneg(eye(dim)))[i + dim], x, dim) == -x[i]
{
    let big = eye(dim) + mneg(eye(dim));
    lemma_dotp_unit(eye(dim)[i], x, dim, i, 1real);
    lemma_dotp_neg_left(eye(dim)[i], x, dim);
    assert(1real * x[i] == x[i]) by(nonlinear_arith);
    assert(big[i] == eye(dim)[i]);
    assert(big[i + dim] == mneg(eye(dim))[i]);
}

// half-space reading of the two rows written by place_axis_bounds
pub open spec fn axis_row_ok(row: V, b: real, dim: int, axis: int, sign: real, bound: real, unbounded: bool) -> bool {
    if unbounded { row == vconst(dim, 0real) && b == 1real } else { row == unit_vec(dim, axis, sign) && b == sign * bound }
}

pub proof fn lemma_axis_row(row: V, b: real, dim: int, axis: int, sign: real, bound: real, unbounded: bool, x: V)
    requires axis_row_ok(row, b, dim, axis, sign, bound, unbounded), x.len() == dim, 0 <= axis < dim
    ensures dotp(row, x, dim) <= b <==> (unbounded || sign * x[axis] <= sign * bound)
{
    if unbounded { lemma_dotp_zero_left(row, x, dim); }
    else { lemma_dotp_unit(row, x, dim, axis, sign); }
}

pub proof fn lemma_sat_rows<I, S: Data<Elem = A>, A: Float, I2, S2: Data<Elem = A>>(p: &AffFuncBase<I, S>, q: &AffFuncBase<I2, S2>, x: V, y: V)
    requires p.mat.nrows() == q.mat.nrows(),
        forall|i: int| 0 <= i < p.mat.nrows() ==> (dotp(#[trigger] p.mat.m()[i], x, x.len() as int) <= p.bias.v()[i] <==> dotp(q.mat.m()[i], y, y.len() as int) <= q.bias.v()[i])
    ensures p.sat(x) <==> q.sat(y)
{
    if p.sat(x) {
        assert forall|i: int| 0 <= i < q.mat.nrows() implies dotp(#[trigger] q.mat.m()[i], y, y.len() as int) <= q.bias.v()[i] by { assert(dotp(p.mat.m()[i], x, x.len() as int) <= p.bias.v()[i]); }
    }
    if q.sat(y) {
        assert forall|i: int| 0 <= i < p.mat.nrows() implies dotp(#[trigger] p.mat.m()[i], x, x.len() as int) <= p.bias.v()[i] by { assert(dotp(q.mat.m()[i], y, y.len() as int) <= q.bias.v()[i]); }
    }
}

impl<A: Float> PolytopeG<A> {
//@fn src/linalg/affine.rs | impl<A: Float> PolytopeG<A> | unbounded
//@spec
    ensures r.ok(), r.mat.ncols() == dim, forall|x: V| x.len() == dim ==> #[trigger] r.sat(x),
//@hint start
        proof { assert forall|x: V| x.len() == dim implies #[trigger] dotp(mconst(1, dim as int, 0real)[0], x, x.len() as int) == 0real by { lemma_dotp_zero_left(mconst(1, dim as int, 0real)[0], x, dim as int); } }
//@end

//@fn src/linalg/affine.rs | impl<A: Float> PolytopeG<A> | empty
//@spec
    ensures r.ok(), r.mat.ncols() == dim, forall|x: V| x.len() == dim ==> !#[trigger] r.sat(x),
//@hint start
        proof { assert forall|x: V| x.len() == dim implies #[trigger] dotp(mconst(1, dim as int, 0real)[0], x, x.len() as int) == 0real by { lemma_dotp_zero_left(mconst(1, dim as int, 0real)[0], x, dim as int); } }
//@end
}

impl<A: Float> PolytopeG<A> {
//@fn src/linalg/affine.rs | impl<A: Float> PolytopeG<A> | hypercube
//@spec
    requires 2 * dim <= usize::MAX
    ensures r.ok(), r.mat.ncols() == dim,
        forall|x: V| x.len() == dim ==> (#[trigger] r.sat(x) <==> forall|i: int| 0 <= i < dim ==> -radius.rv() <= #[trigger] x[i] <= radius.rv()),
//@hint start
        broadcast use axiom_array2_shape;
//@hint end
        proof {
            let big = eye(dim as int) + mneg(eye(dim as int));
            assert forall|x: V| x.len() == dim implies
                ((forall|i: int| 0 <= i < 2 * dim ==> dotp(#[trigger] big[i], x, x.len() as int) <= radius.rv())
                    <==> forall|i: int| 0 <= i < dim ==> -radius.rv() <= #[trigger] x[i] <= radius.rv()) by {
                if forall|i: int| 0 <= i < 2 * dim ==> dotp(#[trigger] big[i], x, x.len() as int) <= radius.rv() {
                    assert forall|i: int| 0 <= i < dim implies -radius.rv() <= #[trigger] x[i] <= radius.rv() by {
                        lemma_hypercube_rows(dim as int, x, i);
                        assert(dotp(big[i], x, x.len() as int) <= radius.rv());
                        assert(dotp(big[i + dim], x, x.len() as int) <= radius.rv());
                    }
                }
                if forall|i: int| 0 <= i < dim ==> -radius.rv() <= #[trigger] x[i] <= radius.rv() {
                    assert forall|i: int| 0 <= i < 2 * dim implies dotp(#[trigger] big[i], x, x.len() as int) <= radius.rv() by {
                        if i < dim { lemma_hypercube_rows(dim as int, x, i); assert(-radius.rv() <= x[i] <= radius.rv()); }
                        else { let k = i - dim; lemma_hypercube_rows(dim as int, x, k); assert(-radius.rv() <= x[k] <= radius.rv()); }
                    }
                }
            }
        }
//@end
}

/// # Distances
impl<D: Data<Elem = A>, A: Float + LinalgScalar> AffFuncBase<PolytopeT, D> {
//@fn src/linalg/affine.rs | impl<D: Data<Elem = A>, A: Float + LinalgScalar> AffFuncBase<PolytopeT, D> | distance_raw
//@bodysub &self.bias - self.mat.dot(point) => Sub::sub(&self.bias, self.mat.dot(point))
//@spec
    requires self.ok(), point.v().len() == self.mat.ncols()
    ensures r.v() == vsub(self.bias.v(), mv(self.mat.m(), point.v()))
//@hint start
        broadcast use axiom_array2_shape;
//@end
}

// the membership test used by every witness cache (C05): every row within the documented tolerance 1e-8, on the un-normalised rows
impl<D: Data<Elem = A>, A: Float + LinalgScalar> AffFuncBase<PolytopeT, D> {
//@fn src/linalg/affine.rs | impl<D: Data<Elem = A>, A: Float + LinalgScalar> AffFuncBase<PolytopeT, D> | contains
//@bodysub self.distance_raw(point) .into_iter() .all(|x| x >= A::from(-1e-8).unwrap()) => all_ge_lit(self.distance_raw(point), -1, 100000000)
//@spec
    requires self.ok(), point.v().len() == self.mat.ncols()
    ensures r == tol_sat(self.mat.m(), self.bias.v(), point.v())
//@hint start
        broadcast use axiom_array2_shape;
        proof {
            let d = vsub(self.bias.v(), mv(self.mat.m(), point.v()));
            assert(-(1real / 100000000real) == ((-1i64) as real) / (100000000u64 as real));
            assert forall|i: int| 0 <= i < self.mat.nrows() implies (#[trigger] tol_row(self.mat.m(), self.bias.v(), point.v(), i) <==> d[i] >= -tol()) by {}
            if tol_sat(self.mat.m(), self.bias.v(), point.v()) {
                assert forall|i: int| 0 <= i < d.len() implies #[trigger] d[i] >= -tol() by { assert(tol_row(self.mat.m(), self.bias.v(), point.v(), i)); }
            }
        }
//@end
}

/// # Combination of Polytopes
impl<D: Data<Elem = A>, A: Float + LinalgScalar> AffFuncBase<PolytopeT, D> {
//@fn src/linalg/affine.rs | impl<D: Data<Elem = A>, A: Float + LinalgScalar> AffFuncBase<PolytopeT, D> | translate
//@bodysub &self.bias + self.mat.dot(direction) => Add::add(&self.bias, self.mat.dot(direction))
//@spec
    requires self.ok(), direction.v().len() == self.mat.ncols()
    ensures r.ok(), r.mat.ncols() == self.mat.ncols(),
        // x in P.translate(d)  <=>  x - d in P
        forall|x: V| x.len() == self.mat.ncols() ==> (#[trigger] r.sat(x) <==> self.sat(vsub(x, direction.v()))),
//@hint start
        broadcast use axiom_array2_shape;
//@hint end
        proof {
            let m = self.mat.m(); let b = self.bias.v(); let d = direction.v();
            let nb = vadd(b, mv(m, d));
            assert forall|x: V| x.len() == self.mat.ncols() implies
                ((forall|i: int| 0 <= i < self.mat.nrows() ==> dotp(#[trigger] m[i], x, x.len() as int) <= nb[i]) <==> self.sat(vsub(x, d))) by {
                assert forall|i: int| 0 <= i < self.mat.nrows() implies
                    (dotp(#[trigger] m[i], x, x.len() as int) <= nb[i] <==> dotp(m[i], vsub(x, d), vsub(x, d).len() as int) <= b[i]) by {
                    lemma_dotp_sub_right(m[i], x, d, x.len() as int);
                }
                if forall|i: int| 0 <= i < self.mat.nrows() ==> dotp(#[trigger] m[i], x, x.len() as int) <= nb[i] {
                    assert forall|i: int| 0 <= i < self.mat.nrows() implies dotp(#[trigger] m[i], vsub(x, d), vsub(x, d).len() as int) <= b[i] by { assert(dotp(m[i], x, x.len() as int) <= nb[i]); }
                }
                if self.sat(vsub(x, d)) {
                    assert forall|i: int| 0 <= i < self.mat.nrows() implies dotp(#[trigger] m[i], x, x.len() as int) <= nb[i] by { assert(dotp(m[i], vsub(x, d), vsub(x, d).len() as int) <= b[i]); }
                }
            }
        }
//@end

//@fn src/linalg/affine.rs | impl<D: Data<Elem = A>, A: Float + LinalgScalar> AffFuncBase<PolytopeT, D> | intersection
//@spec
    requires self.ok(), other.ok(), self.mat.ncols() == other.mat.ncols()
    ensures r.ok(), r.mat.ncols() == self.mat.ncols(),
        // x in the intersection  <=>  x in both operands
        forall|x: V| x.len() == self.mat.ncols() ==> (#[trigger] r.sat(x) <==> self.sat(x) && other.sat(x)),
//@hint start
        broadcast use axiom_array2_shape;
//@hint end
        proof {
            let m1 = self.mat.m(); let m2 = other.mat.m(); let b1 = self.bias.v(); let b2 = other.bias.v();
            let n1 = self.mat.nrows(); let n2 = other.mat.nrows();
            assert forall|x: V| x.len() == self.mat.ncols() implies
                ((forall|i: int| 0 <= i < n1 + n2 ==> dotp(#[trigger] (m1 + m2)[i], x, x.len() as int) <= (b1 + b2)[i]) <==> self.sat(x) && other.sat(x)) by {
                if forall|i: int| 0 <= i < n1 + n2 ==> dotp(#[trigger] (m1 + m2)[i], x, x.len() as int) <= (b1 + b2)[i] {
                    assert forall|i: int| 0 <= i < n1 implies dotp(#[trigger] m1[i], x, x.len() as int) <= b1[i] by { assert((m1 + m2)[i] == m1[i]); assert(dotp((m1 + m2)[i], x, x.len() as int) <= (b1 + b2)[i]); }
                    assert forall|i: int| 0 <= i < n2 implies dotp(#[trigger] m2[i], x, x.len() as int) <= b2[i] by { assert((m1 + m2)[i + n1] == m2[i]); assert(dotp((m1 + m2)[i + n1], x, x.len() as int) <= (b1 + b2)[i + n1]); }
                }
                if self.sat(x) && other.sat(x) {
                    assert forall|i: int| 0 <= i < n1 + n2 implies dotp(#[trigger] (m1 + m2)[i], x, x.len() as int) <= (b1 + b2)[i] by {
                        if i < n1 { assert((m1 + m2)[i] == m1[i]); assert(dotp(m1[i], x, x.len() as int) <= b1[i]); }
                        else { assert((m1 + m2)[i] == m2[i - n1]); assert(dotp(m2[i - n1], x, x.len() as int) <= b2[i - n1]); }
                    }
                }
            }
        }
//@end

//@fn src/linalg/affine.rs | impl<D: Data<Elem = A>, A: Float + LinalgScalar> AffFuncBase<PolytopeT, D> | intersection_n
//@bodysub polys.is_empty() => polys.len() == 0
//@bodysub polys.iter() .map(|poly| poly.mat.view()) .collect(); => mat_views(polys);
//@bodysub polys .iter() .map(|poly| poly.bias.view()) .collect(); => bias_views(polys);
//@bodysub ndarray::concatenate(Axis(0), mat_view.as_slice()) => nd_concatenate2(Axis(0), mat_view.as_slice())
//@bodysub ndarray::concatenate(Axis(0), bias_view.as_slice()) => nd_concatenate1(Axis(0), bias_view.as_slice())
//@spec
    // (the two panics "mismatch in dimensions" are unreachable exactly under this precondition)
    requires forall|k: int| 0 <= k < polys@.len() ==> (#[trigger] polys@[k]).ok() && polys@[k].mat.ncols() == dim
    ensures r.ok(), r.mat.ncols() == dim,
        // the rows of the parts, in order
        polys@.len() > 0 ==> r.mat.m() == cat_rows(part_ms(polys@), polys@.len() as int) && r.bias.v() == cat_vals(part_bs(polys@), polys@.len() as int),
        // x in the result  <=>  x in every part
        forall|x: V| x.len() == dim ==> (#[trigger] r.sat(x) <==> forall|k: int| 0 <= k < polys@.len() ==> (#[trigger] polys@[k]).sat(x)),
        // a point the result tolerates (Polytope::contains) is tolerated by every part
        forall|w: V| #[trigger] tol_sat(r.mat.m(), r.bias.v(), w) ==> forall|k: int| 0 <= k < polys@.len() ==> tol_sat((#[trigger] polys@[k]).mat.m(), polys@[k].bias.v(), w),
//@hint start
        broadcast use axiom_array2_shape;
        let ghost ms = part_ms(polys@);
        let ghost bs = part_bs(polys@);
        let ghost n = polys@.len() as int;
        proof { assert(parts_fit(ms, bs)); }
//@hint after let mat_concat =
        proof {
            assert(Seq::new(mat_view@.len(), |k: int| mat_view@[k].m()) =~= ms);
            assert forall|k: int| 0 <= k < mat_view@.len() implies (#[trigger] mat_view@[k]).ncols() == mat_view@[0].ncols() by { assert(polys@[k].mat.ncols() == dim); assert(polys@[0].mat.ncols() == dim); }
        }
//@hint after let bias_concat =
        proof { assert(Seq::new(bias_view@.len(), |k: int| bias_view@[k].v()) =~= bs); }
//@hint end
        proof {
            lemma_cat_len(ms, bs, n);
            assert(mat.m() == cat_rows(ms, n) && bias.v() == cat_vals(bs, n));
            assert forall|x: V| x.len() == dim implies
                ((forall|i: int| 0 <= i < mat.nrows() ==> dotp(#[trigger] mat.m()[i], x, x.len() as int) <= bias.v()[i]) <==> forall|k: int| 0 <= k < polys@.len() ==> (#[trigger] polys@[k]).sat(x)) by {
                let f = sat_row_fn(x);
                lemma_cat_rows_all(ms, bs, n, f);
                assert forall|k: int| 0 <= k < n implies ((#[trigger] polys@[k]).sat(x) <==> rows_all(ms[k], bs[k], f)) by {
                    if polys@[k].sat(x) { assert forall|i: int| 0 <= i < ms[k].len() implies #[trigger] f(ms[k][i], bs[k][i]) by { assert(dotp(polys@[k].mat.m()[i], x, x.len() as int) <= polys@[k].bias.v()[i]); } }
                    if rows_all(ms[k], bs[k], f) { assert forall|i: int| 0 <= i < polys@[k].mat.nrows() implies dotp(#[trigger] polys@[k].mat.m()[i], x, x.len() as int) <= polys@[k].bias.v()[i] by { assert(f(ms[k][i], bs[k][i])); } }
                }
                if forall|i: int| 0 <= i < mat.nrows() ==> dotp(#[trigger] mat.m()[i], x, x.len() as int) <= bias.v()[i] {
                    assert forall|i: int| 0 <= i < mat.m().len() implies #[trigger] f(mat.m()[i], bias.v()[i]) by { assert(dotp(mat.m()[i], x, x.len() as int) <= bias.v()[i]); }
                    assert(rows_all(mat.m(), bias.v(), f));
                    assert forall|k: int| 0 <= k < polys@.len() implies (#[trigger] polys@[k]).sat(x) by { assert(rows_all(ms[k], bs[k], f)); }
                }
                if forall|k: int| 0 <= k < polys@.len() ==> (#[trigger] polys@[k]).sat(x) {
                    assert forall|k: int| 0 <= k < n implies rows_all(#[trigger] ms[k], bs[k], f) by { assert(polys@[k].sat(x)); }
                    assert(rows_all(mat.m(), bias.v(), f));
                    assert forall|i: int| 0 <= i < mat.nrows() implies dotp(#[trigger] mat.m()[i], x, x.len() as int) <= bias.v()[i] by { assert(f(mat.m()[i], bias.v()[i])); }
                }
            }
            assert forall|w: V| #[trigger] tol_sat(mat.m(), bias.v(), w) implies forall|k: int| 0 <= k < polys@.len() ==> tol_sat((#[trigger] polys@[k]).mat.m(), polys@[k].bias.v(), w) by {
                let f = tol_row_fn(w);
                lemma_cat_rows_all(ms, bs, n, f);
                lemma_tol_rows_all(mat.m(), bias.v(), w);
                assert forall|k: int| 0 <= k < polys@.len() implies tol_sat((#[trigger] polys@[k]).mat.m(), polys@[k].bias.v(), w) by {
                    assert(rows_all(ms[k], bs[k], f));
                    lemma_tol_rows_all(ms[k], bs[k], w);
                }
            }
        }
//@end

//@fn src/linalg/affine.rs | impl<D: Data<Elem = A>, A: Float + LinalgScalar> AffFuncBase<PolytopeT, D> | apply_pre
//@spec
    requires self.ok(), func.ok(), self.mat.ncols() == func.mat.nrows()
    ensures r.ok(), r.mat.ncols() == func.mat.ncols(),
        // x in P.apply_pre(f)  <=>  f(x) in P
        forall|x: V| x.len() == func.mat.ncols() ==> (#[trigger] r.sat(x) <==> self.sat(func.ap(x))),
//@hint start
        broadcast use axiom_array2_shape;
//@hint end
        proof {
            let m = self.mat.m(); let b = self.bias.v(); let f = func.mat.m(); let c = func.bias.v();
            let nm = mm(m, f, func.mat.ncols()); let nb = vadd(vneg(mv(m, c)), b);
            assert forall|x: V| x.len() == func.mat.ncols() implies
                ((forall|i: int| 0 <= i < self.mat.nrows() ==> dotp(#[trigger] nm[i], x, x.len() as int) <= nb[i]) <==> self.sat(vadd(mv(f, x), c))) by {
                lemma_mm_mv(m, f, x, func.mat.ncols());
                lemma_mv_add_right(m, mv(f, x), c);
                let y = vadd(mv(f, x), c);
                assert forall|i: int| 0 <= i < self.mat.nrows() implies (dotp(#[trigger] nm[i], x, x.len() as int) <= nb[i] <==> dotp(m[i], y, y.len() as int) <= b[i]) by {
                    assert(mv(nm, x)[i] == dotp(nm[i], x, x.len() as int));
                    assert(mv(m, y)[i] == dotp(m[i], y, y.len() as int));
                    assert(mv(m, y)[i] == vadd(mv(m, mv(f, x)), mv(m, c))[i]);
                }
                if forall|i: int| 0 <= i < self.mat.nrows() ==> dotp(#[trigger] nm[i], x, x.len() as int) <= nb[i] {
                    assert forall|i: int| 0 <= i < self.mat.nrows() implies dotp(#[trigger] m[i], y, y.len() as int) <= b[i] by { assert(dotp(nm[i], x, x.len() as int) <= nb[i]); }
                }
                if self.sat(y) {
                    assert forall|i: int| 0 <= i < self.mat.nrows() implies dotp(#[trigger] nm[i], x, x.len() as int) <= nb[i] by { assert(dotp(m[i], y, y.len() as int) <= b[i]); }
                }
            }
        }
//@end

//@fn src/linalg/affine.rs | impl<D: Data<Elem = A>, A: Float + LinalgScalar> AffFuncBase<PolytopeT, D> | apply_post
//@spec
    requires self.ok(), self.mat.ncols() == inverse_mat.nrows(), inverse_mat.nrows() == bias.v().len(), inverse_mat.ncols() == bias.v().len()
    ensures r.ok(), r.mat.ncols() == inverse_mat.ncols(),
        // y in the image  <=>  inverse_mat (y - bias) in P   (exactly the image of P under x |-> inverse_mat^-1 x + bias)
        forall|y: V| y.len() == inverse_mat.ncols() ==> (#[trigger] r.sat(y) <==> self.sat(mv(inverse_mat.m(), vsub(y, bias.v())))),
//@hint start
        broadcast use axiom_array2_shape;
//@hint end
        proof {
            let m = self.mat.m(); let b = self.bias.v(); let g = inverse_mat.m(); let c = bias.v();
            let nm = mm(m, g, inverse_mat.ncols()); let nb = vadd(mv(m, mv(g, c)), b);
            assert forall|y: V| y.len() == inverse_mat.ncols() implies
                ((forall|i: int| 0 <= i < self.mat.nrows() ==> dotp(#[trigger] nm[i], y, y.len() as int) <= nb[i]) <==> self.sat(mv(g, vsub(y, c)))) by {
                lemma_mm_mv(m, g, y, inverse_mat.ncols());
                lemma_mv_sub_right(g, y, c);
                lemma_mv_sub_right(m, mv(g, y), mv(g, c));
                let z = mv(g, vsub(y, c));
                assert(z =~= vsub(mv(g, y), mv(g, c)));
                assert forall|i: int| 0 <= i < self.mat.nrows() implies (dotp(#[trigger] nm[i], y, y.len() as int) <= nb[i] <==> dotp(m[i], z, z.len() as int) <= b[i]) by {
                    assert(mv(nm, y)[i] == dotp(nm[i], y, y.len() as int));
                    assert(mv(m, z)[i] == dotp(m[i], z, z.len() as int));
                    assert(mv(m, z)[i] == vsub(mv(m, mv(g, y)), mv(m, mv(g, c)))[i]);
                }
                if forall|i: int| 0 <= i < self.mat.nrows() ==> dotp(#[trigger] nm[i], y, y.len() as int) <= nb[i] {
                    assert forall|i: int| 0 <= i < self.mat.nrows() implies dotp(#[trigger] m[i], z, z.len() as int) <= b[i] by { assert(dotp(nm[i], y, y.len() as int) <= nb[i]); }
                }
                if self.sat(z) {
                    assert forall|i: int| 0 <= i < self.mat.nrows() implies dotp(#[trigger] nm[i], y, y.len() as int) <= nb[i] by { assert(dotp(m[i], z, z.len() as int) <= b[i]); }
                }
            }
        }
//@end

//@fn src/linalg/affine.rs | impl<D: Data<Elem = A>, A: Float + LinalgScalar> AffFuncBase<PolytopeT, D> | rotate
//@spec
    requires self.ok(), orthogonal_mat.nrows() == self.mat.ncols(), orthogonal_mat.ncols() == self.mat.ncols()
    ensures r.ok(), r.mat.ncols() == self.mat.ncols(),
        // y in rotate(P, R)  <=>  R^T y in P
        forall|y: V| y.len() == self.mat.ncols() ==> (#[trigger] r.sat(y) <==> self.sat(mv(transpose(orthogonal_mat.m(), orthogonal_mat.ncols()), y))),
//@hint start
        broadcast use axiom_array2_shape;
//@hint end
        proof {
            let n = self.mat.ncols();
            assert forall|y: V| y.len() == n implies #[trigger] vsub(y, vconst(n, 0real)) =~= y by {}
        }
//@end
}


impl<A: Float> PolytopeG<A> {
//@fn src/linalg/affine.rs | impl<A: Float> PolytopeG<A> | place_axis_bounds
//@bodysub assert!(lower <= upper) => assert!(fle(lower, upper))
//@bodysub -B::one() => fneg(B::one())
//@bodysub -lower => fneg(lower)
//@spec
    requires
        idx + 1 < old(mat).nrows(), axis < old(mat).ncols(), old(bias).v().len() == old(mat).nrows(),
        fle_spec(lower, upper), !lower.nan(), !upper.nan(),
        old(mat).m()[idx as int] == vconst(old(mat).ncols(), 0real), old(mat).m()[idx + 1] == vconst(old(mat).ncols(), 0real),
    ensures
        final(mat).nrows() == old(mat).nrows(), final(mat).ncols() == old(mat).ncols(), final(bias).v().len() == old(bias).v().len(),
        // row idx:  -x[axis] <= -lower  (or the tautology 0 <= 1 for an infinite bound); row idx+1:  x[axis] <= upper
        axis_row_ok(final(mat).m()[idx as int], final(bias).v()[idx as int], old(mat).ncols(), axis as int, 0real - 1real, lower.rv(), lower.inf()),
        axis_row_ok(final(mat).m()[idx + 1], final(bias).v()[idx + 1], old(mat).ncols(), axis as int, 1real, upper.rv(), upper.inf()),
        forall|k: int| 0 <= k < old(mat).nrows() && k != idx && k != idx + 1 ==> final(mat).m()[k] == old(mat).m()[k] && final(bias).v()[k] == old(bias).v()[k],
//@hint start
        broadcast use axiom_array2_shape;
//@hint end
        proof {
            let n = old(mat).ncols();
            assert(vconst(n, 0real).update(axis as int, 0real - 1real) =~= unit_vec(n, axis as int, 0real - 1real));
            assert(vconst(n, 0real).update(axis as int, 1real) =~= unit_vec(n, axis as int, 1real));
            assert((0real - 1real) * lower.rv() == -lower.rv()) by(nonlinear_arith);
            assert(1real * upper.rv() == upper.rv()) by(nonlinear_arith);
        }
//@end

//@fn src/linalg/affine.rs | impl<A: Float> PolytopeG<A> | hyperrectangle
//@bodysub for (idx, (lower, upper)) in intervals.iter().enumerate() { => let mut idx: usize = 0; while idx < intervals.len() { let lower = &intervals[idx].0; let upper = &intervals[idx].1;
//@bodysub Self::place_axis_bounds(2 * idx, &mut mat, &mut bias, idx, *lower, *upper); => Self::place_axis_bounds(2 * idx, &mut mat, &mut bias, idx, *lower, *upper); idx += 1;
//@spec
    requires 2 * intervals@.len() <= usize::MAX,
        forall|i: int| 0 <= i < intervals@.len() ==> fle_spec((#[trigger] intervals@[i]).0, intervals@[i].1) && !intervals@[i].0.nan() && !intervals@[i].1.nan(),
    ensures r.ok(), r.mat.ncols() == intervals@.len(),
        // exactly the points whose every component lies between its (finite) bounds
        forall|x: V| x.len() == intervals@.len() ==> (#[trigger] r.sat(x) <==> forall|i: int| 0 <= i < intervals@.len() ==>
            ((#[trigger] intervals@[i]).0.inf() || intervals@[i].0.rv() <= x[i]) && (intervals@[i].1.inf() || x[i] <= intervals@[i].1.rv())),
//@hint start
        broadcast use axiom_array2_shape;
//@loop 1
            invariant
                dim == intervals@.len(), 2 * dim <= usize::MAX, 0 <= idx <= dim,
                mat.nrows() == 2 * dim, mat.ncols() == dim, bias.v().len() == 2 * dim,
                forall|i: int| 0 <= i < intervals@.len() ==> fle_spec((#[trigger] intervals@[i]).0, intervals@[i].1) && !intervals@[i].0.nan() && !intervals@[i].1.nan(),
                forall|k: int| 2 * idx <= k < 2 * dim ==> #[trigger] mat.m()[k] == vconst(dim as int, 0real),
                forall|i: int| 0 <= i < idx ==> axis_row_ok(#[trigger] mat.m()[2 * i], bias.v()[2 * i], dim as int, i, 0real - 1real, intervals@[i].0.rv(), intervals@[i].0.inf())
                    && axis_row_ok(mat.m()[2 * i + 1], bias.v()[2 * i + 1], dim as int, i, 1real, intervals@[i].1.rv(), intervals@[i].1.inf()),
            decreases dim - idx
//@hint loop 1 start
            let ghost m0 = mat.m();
            let ghost b0 = bias.v();
//@hint loop 1 end
            proof {
                assert forall|i: int| 0 <= i < idx implies axis_row_ok(#[trigger] mat.m()[2 * i], bias.v()[2 * i], dim as int, i, 0real - 1real, intervals@[i].0.rv(), intervals@[i].0.inf())
                    && axis_row_ok(mat.m()[2 * i + 1], bias.v()[2 * i + 1], dim as int, i, 1real, intervals@[i].1.rv(), intervals@[i].1.inf()) by {
                    if i < idx - 1 { assert(mat.m()[2 * i] == m0[2 * i] && mat.m()[2 * i + 1] == m0[2 * i + 1]); }
                }
            }
//@hint loop 1 after
        proof {
            let m = mat.m(); let b = bias.v();
            assert forall|x: V| x.len() == dim implies
                ((forall|k: int| 0 <= k < 2 * dim ==> dotp(#[trigger] m[k], x, x.len() as int) <= b[k]) <==>
                 forall|i: int| 0 <= i < dim ==> ((#[trigger] intervals@[i]).0.inf() || intervals@[i].0.rv() <= x[i]) && (intervals@[i].1.inf() || x[i] <= intervals@[i].1.rv())) by {
                if forall|k: int| 0 <= k < 2 * dim ==> dotp(#[trigger] m[k], x, x.len() as int) <= b[k] {
                    assert forall|i: int| 0 <= i < dim implies ((#[trigger] intervals@[i]).0.inf() || intervals@[i].0.rv() <= x[i]) && (intervals@[i].1.inf() || x[i] <= intervals@[i].1.rv()) by {
                        lemma_axis_row(m[2 * i], b[2 * i], dim as int, i, 0real - 1real, intervals@[i].0.rv(), intervals@[i].0.inf(), x);
                        lemma_axis_row(m[2 * i + 1], b[2 * i + 1], dim as int, i, 1real, intervals@[i].1.rv(), intervals@[i].1.inf(), x);
                        assert(dotp(m[2 * i], x, x.len() as int) <= b[2 * i]);
                        assert(dotp(m[2 * i + 1], x, x.len() as int) <= b[2 * i + 1]);
                        assert((0real - 1real) * x[i] == -x[i] && (0real - 1real) * intervals@[i].0.rv() == -intervals@[i].0.rv() && 1real * x[i] == x[i] && 1real * intervals@[i].1.rv() == intervals@[i].1.rv()) by(nonlinear_arith);
                    }
                }
                if forall|i: int| 0 <= i < dim ==> ((#[trigger] intervals@[i]).0.inf() || intervals@[i].0.rv() <= x[i]) && (intervals@[i].1.inf() || x[i] <= intervals@[i].1.rv()) {
                    assert forall|k: int| 0 <= k < 2 * dim implies dotp(#[trigger] m[k], x, x.len() as int) <= b[k] by {
                        let i = k / 2;
                        assert(((intervals@[i]).0.inf() || intervals@[i].0.rv() <= x[i]) && (intervals@[i].1.inf() || x[i] <= intervals@[i].1.rv()));
                        lemma_axis_row(m[2 * i], b[2 * i], dim as int, i, 0real - 1real, intervals@[i].0.rv(), intervals@[i].0.inf(), x);
                        lemma_axis_row(m[2 * i + 1], b[2 * i + 1], dim as int, i, 1real, intervals@[i].1.rv(), intervals@[i].1.inf(), x);
                        assert((0real - 1real) * x[i] == -x[i] && (0real - 1real) * intervals@[i].0.rv() == -intervals@[i].0.rv() && 1real * x[i] == x[i] && 1real * intervals@[i].1.rv() == intervals@[i].1.rv()) by(nonlinear_arith);
                        if k == 2 * i { } else { assert(k == 2 * i + 1); }
                    }
                }
            }
        }
//@end

//@fn src/linalg/affine.rs | impl<A: Float> PolytopeG<A> | axis_bounds
//@spec
    requires axis < dim, fle_spec(lower_bound, upper_bound), !lower_bound.nan(), !upper_bound.nan()
    ensures r.ok(), r.mat.ncols() == dim,
        // exactly the points whose `axis` component lies between the (finite) bounds
        forall|x: V| x.len() == dim ==> (#[trigger] r.sat(x) <==>
            (lower_bound.inf() || lower_bound.rv() <= x[axis as int]) && (upper_bound.inf() || x[axis as int] <= upper_bound.rv())),
//@hint start
        broadcast use axiom_array2_shape;
//@hint end
        proof {
            let m = mat.m(); let b = bias.v();
            assert forall|x: V| x.len() == dim implies
                ((forall|i: int| 0 <= i < 2 ==> dotp(#[trigger] m[i], x, x.len() as int) <= b[i]) <==>
                 (lower_bound.inf() || lower_bound.rv() <= x[axis as int]) && (upper_bound.inf() || x[axis as int] <= upper_bound.rv())) by {
                lemma_axis_row(m[0], b[0], dim as int, axis as int, 0real - 1real, lower_bound.rv(), lower_bound.inf(), x);
                lemma_axis_row(m[1], b[1], dim as int, axis as int, 1real, upper_bound.rv(), upper_bound.inf(), x);
                assert((0real - 1real) * x[axis as int] <= (0real - 1real) * lower_bound.rv() <==> lower_bound.rv() <= x[axis as int]) by(nonlinear_arith);
                assert(1real * x[axis as int] <= 1real * upper_bound.rv() <==> x[axis as int] <= upper_bound.rv()) by(nonlinear_arith);
                if forall|i: int| 0 <= i < 2 ==> dotp(#[trigger] m[i], x, x.len() as int) <= b[i] {
                    assert(dotp(m[0], x, x.len() as int) <= b[0]); assert(dotp(m[1], x, x.len() as int) <= b[1]);
                }
            }
        }
//@end
}

} // verus!
fn main() {}
