// ---- prelude/inc_tree_core.rs : extraction blocks shared by the units that build on the arena tree ----
impl<T, const K: usize> TreeNode<T, K> {
//@fn src/tree/graph.rs | impl<T, const K: usize> TreeNode<T, K> | new
//@spec
    ensures r.isleaf, r.parent == parent, r.value == value, no_kids(r)
//@end
}

impl<N, const K: usize> Tree<N, K> {
    pub open spec fn wf(&self) -> bool { wf_at(self.arena@, self.root) }

//@fn src/tree/graph.rs | impl<N, const K: usize> Tree<N, K> | with_capacity
//@spec
    requires K >= 2, K < usize::MAX
    ensures r.arena@ == Map::<usize, TreeNode<N, K>>::empty(), r.root is None, r.arena.fresh()
//@end

//@fn src/tree/graph.rs | impl<N, const K: usize> Tree<N, K> | with_root
//@bodysub capacity.max(1) => capacity
//@spec
    requires K >= 2, K < usize::MAX
    ensures
        // a single root node with index 0 (first key of a fresh slab)
        r.wf(), r.root == Some(0usize), r.arena@.dom() =~= set![0usize],
        r.arena@[0].value == root, r.arena@[0].isleaf, no_kids(r.arena@[0]), r.arena@[0].parent is None,
//@end

//@fn src/tree/graph.rs | impl<N, const K: usize> Tree<N, K> | len
//@spec
    ensures r == self.arena@.dom().len()
//@end
//@fn src/tree/graph.rs | impl<N, const K: usize> Tree<N, K> | is_empty
//@spec
    ensures r == (self.arena@.dom().len() == 0)
//@end
//@fn src/tree/graph.rs | impl<N, const K: usize> Tree<N, K> | tree_node
//@spec
    ensures
        self.arena@.dom().contains(idx) ==> r is Ok && *r->Ok_0 == self.arena@[idx],
        !self.arena@.dom().contains(idx) ==> r is Err && r->Err_0.index == idx,
//@end
//@fn src/tree/graph.rs | impl<N, const K: usize> Tree<N, K> | tree_node_mut
//@spec
    ensures
        !old(self).arena@.dom().contains(idx) ==> r is Err && r->Err_0.index == idx && final(self).arena@ == old(self).arena@,
        old(self).arena@.dom().contains(idx) ==> r is Ok && *r->Ok_0 == old(self).arena@[idx]
            && final(self).arena@ == old(self).arena@.insert(idx, *final(r->Ok_0)),
        final(self).root == old(self).root,
//@end
//@fn src/tree/graph.rs | impl<N, const K: usize> Tree<N, K> | contains
//@spec
    ensures r == self.arena@.dom().contains(node_idx)
//@end
//@fn src/tree/graph.rs | impl<N, const K: usize> Tree<N, K> | is_root
//@spec
    ensures r == (self.root == Some(idx))
//@end
//@fn src/tree/graph.rs | impl<N, const K: usize> Tree<N, K> | num_children
//@spec
    requires self.arena@.dom().contains(node)
    ensures r == count_some_from(self.arena@[node].children, 0), r <= K
//@end
//@fn src/tree/graph.rs | impl<N, const K: usize> Tree<N, K> | get_root_idx
//@spec
    requires self.root is Some
    ensures Some(r) == self.root
//@end
//@fn src/tree/graph.rs | impl<N, const K: usize> Tree<N, K> | add_root
//@spec
    ensures
        final(self).root == Some(r),
        old(self).arena.fresh() ==> r == 0,
        !old(self).arena@.dom().contains(r),
        final(self).arena@.dom() == old(self).arena@.dom().insert(r),
        forall|i: usize| old(self).arena@.dom().contains(i) ==> final(self).arena@[i] == old(self).arena@[i],
        final(self).arena@[r].value == value, final(self).arena@[r].parent is None,
        final(self).arena@[r].isleaf, no_kids(final(self).arena@[r]),
        // documented exception: only a previously empty tree stays well-formed
        old(self).arena@.dom() =~= Set::<usize>::empty() ==> final(self).wf(),
//@hint end
        proof {
            if old(self).arena@.dom() =~= Set::<usize>::empty() {
                let a = self.arena@;
                assert(a.dom() =~= set![idx]);
                assert(ranked(a, Map::<usize, nat>::empty().insert(idx, 0nat)));
                assert(ranked_down(a, Map::<usize, nat>::empty().insert(idx, 0nat))) by {
                    assert forall|i: usize, l: int| a.dom().contains(i) && 0 <= l < K && (#[trigger] a[i].children[l]).is_some() implies false by { assert(i == idx); }
                }
                assert(no_kids(a[idx]));
            }
        }
//@end
//@fn src/tree/graph.rs | impl<N, const K: usize> Tree<N, K> | add_child_node
//@spec
    requires old(self).wf(), label < K
    ensures
        // an operation that returns an error leaves the tree observably unchanged;
        // success: a fresh leaf under (parent, label), every other node keeps index and value
        add_child_post(old(self).arena@, final(self).arena@, parent, label, r),
        r matches Ok(c) ==> final(self).arena@[c].value == value
            && final(self).arena@[parent].value == old(self).arena@[parent].value,
        r is Err <==> !old(self).arena@.dom().contains(parent) || old(self).arena@[parent].children[label as int] is Some,
        !old(self).arena@.dom().contains(parent) ==> (r matches Err(NodeError::InvalidIndex(e)) && e.index == parent),
        final(self).root == old(self).root,
        // the structural invariant is preserved (follows from the effect clause by lemma_add_child_wf)
        add_child_post(old(self).arena@, final(self).arena@, parent, label, r) ==> final(self).wf(),
//@hint start
        proof { lemma_add_child_wf_all(old(self).arena@, old(self).root, parent, label); }
//@end
//@fn src/tree/graph.rs | impl<N, const K: usize> Tree<N, K> | update_node
//@spec
    requires old(self).wf()
    ensures
        final(self).root == old(self).root,
        same_shape(old(self).arena@, final(self).arena@),
        same_shape(old(self).arena@, final(self).arena@) ==> final(self).wf(),
        !old(self).arena@.dom().contains(idx) ==> (r matches Err(NodeError::InvalidIndex(e)) && e.index == idx
            && final(self).arena@ == old(self).arena@),
        old(self).arena@.dom().contains(idx) ==> (r matches Ok(v) && v == old(self).arena@[idx].value
            && same_shape(old(self).arena@, final(self).arena@)
            && final(self).arena@[idx].value == value
            && forall|i: usize| old(self).arena@.dom().contains(i) && i != idx ==> final(self).arena@[i] == old(self).arena@[i]),
//@hint start
        proof { lemma_same_shape_wf_all(old(self).arena@, old(self).root); }
//@end

//@fn src/tree/graph.rs | impl<N, const K: usize> Tree<N, K> | node_value_mut
//@trusted
//@spec
    ensures
        !old(self).arena@.dom().contains(idx) ==> r is Err && final(self).arena@ == old(self).arena@,
        old(self).arena@.dom().contains(idx) ==> r is Ok && *r->Ok_0 == old(self).arena@[idx].value
            && final(self).arena@.dom() == old(self).arena@.dom()
            && final(self).arena@[idx].value == *final(r->Ok_0)
            && final(self).arena@[idx].parent == old(self).arena@[idx].parent
            && final(self).arena@[idx].children == old(self).arena@[idx].children
            && final(self).arena@[idx].isleaf == old(self).arena@[idx].isleaf
            && forall|i: usize| old(self).arena@.dom().contains(i) && i != idx ==> final(self).arena@[i] == old(self).arena@[i],
        final(self).root == old(self).root,
//@end

//@fn src/tree/graph.rs | impl<N, const K: usize> Tree<N, K> | get_root
//@spec
    requires self.root is Some, self.arena@.dom().contains(self.root.unwrap())
    ensures *r == self.arena@[self.root.unwrap()]
//@end
}
// ---- end inc_tree_core ----
