// unit pwl_compose_pruned — C04 for the pruning composition: generic_composition_inplace instantiated for FunctionCompositionInfeasible + NoOpVis
// (compose::<true,false>), with the feasibility oracle (is_edge_feasible, LP based) left ARBITRARY except for its root shortcut.
// Proved: whatever the oracle answers, the result is a well-formed tree of the same input dimension whose terminals are untouched old terminals or
// copies of terminals of the left operand (no decision is ever left as a terminal), and none of the unwrap / assert panics is reachable.
use vstd::prelude::*;
use std::marker::PhantomData;
use std::mem;
use std::ops::{Add, Sub, Mul, Div, Neg};
verus! {
global size_of usize == 8;

//@include prelude/inc_pwl_core.rs

impl<N, const K: usize> Tree<N, K> {
// contracts proved in unit tree_graph (prelude/inc_tree_edit.rs).  remove_child is used WITHOUT its arena-size precondition (the i32 deletion counter of
// remove_all_descendants): assumed "fewer than 2^31 nodes".
#[verifier::external_body]
pub fn remove_child(&mut self, parent: TreeIndex, label: Label) -> (r: N)
    requires old(self).wf(), label < K,
        old(self).arena@.dom().contains(parent), old(self).arena@[parent].children[label as int] is Some,
    ensures
        final(self).root == old(self).root,
        child_removed(old(self).arena@, final(self).arena@, parent, label),
        final(self).wf(),
{ unimplemented!() }
//@assumed prelude/inc_tree_edit.rs | merge_child_with_parent
}

// the pruning schema: same node functions as FunctionComposition (verified in unit pwl_schema); explore is the LP-based edge test
//@fn src/pwl/impl_composition.rs | impl CompositionSchema for FunctionCompositionInfeasible | update_decision | as=fci_update_decision
//@spec
    requires original.ok(), context.ok(), original.mat.ncols() == context.mat.nrows()
    ensures r.ok(), r.mat.ncols() == context.mat.ncols(), r.mat.nrows() == original.mat.nrows(),
//@hint start
        broadcast use axiom_array2_shape;
//@end
//@fn src/pwl/impl_composition.rs | impl CompositionSchema for FunctionCompositionInfeasible | update_terminal | as=fci_update_terminal
//@spec
    requires original.ok(), context.ok(), original.mat.ncols() == context.mat.nrows()
    ensures r.ok(), r.mat.ncols() == context.mat.ncols(), r.mat.nrows() == original.mat.nrows(),
//@end

impl<const K: usize> AffTree<K> {
// ASSUMED (LP based, body not verified): edges leaving node 0 (the root of every tree built by the library) are reported feasible; otherwise ANY answer
#[verifier::external_body]
pub fn is_edge_feasible(&self, parent_idx: TreeIndex, node_idx: TreeIndex) -> (r: bool)
    ensures parent_idx == 0 ==> r
{ unimplemented!() }

//@fn src/pwl/afftree.rs | impl<const K: usize> AffTree<K> | update_node
//@spec
    requires old(self).tree.wf()
    ensures
        final(self).tree.root == old(self).tree.root, final(self).in_dim == old(self).in_dim,
        !old(self).a().dom().contains(node) ==> r is Err && final(self).a() == old(self).a(),
        old(self).a().dom().contains(node) ==> r is Ok && r->Ok_0 == old(self).a()[node].value.aff
            && same_shape(old(self).a(), final(self).a())
            && final(self).a()[node].value.aff == aff && final(self).a()[node].value.state == old(self).a()[node].value.state
            && forall|i: usize| old(self).a().dom().contains(i) && i != node ==> final(self).a()[i] == old(self).a()[i],
        same_shape(old(self).a(), final(self).a()) ==> final(self).tree.wf(),
//@hint start
        proof { lemma_same_shape_wf_all(old(self).a(), old(self).tree.root); }
//@end
}
//@fn src/pwl/impl_composition.rs | impl CompositionSchema for FunctionCompositionInfeasible | explore | as=fci_explore
//@spec
    ensures parent == 0 ==> r
//@end

// ---------------------------------------------------------------- specification
#[verifier::opaque]
pub open spec fn terminals_ok<const K: usize>(a: AArena<K>, ts: Seq<usize>, dl: usize) -> bool {
    &&& forall|j: int| 0 <= j < ts.len() ==> a.dom().contains(#[trigger] ts[j]) && a[ts[j]].isleaf && a[ts[j]].value.aff.mat.nrows() == dl
    &&& forall|j1: int, j2: int| 0 <= j1 < j2 < ts.len() ==> ts[j1] != ts[j2]
}
// ghost bookkeeping while one terminal t is expanded: kind maps every node created so far (and still present) to the lhs node it copies,
// pend are the copies waiting on the work stack, cur is the copy whose children are being created
#[verifier::opaque]
pub open spec fn pr_inv<const K: usize>(al: AArena<K>, a: AArena<K>, a_s: AArena<K>, kind: Map<usize, usize>, pend: Set<usize>, cur: Option<usize>, t: usize, in_dim: usize) -> bool {
    &&& forall|n: usize| #[trigger] kind.dom().contains(n) ==> a.dom().contains(n) && al.dom().contains(kind[n]) && (n == t || !a_s.dom().contains(n))
            && a[n].value.aff.ok() && a[n].value.aff.mat.ncols() == in_dim && a[n].value.aff.mat.nrows() == al[kind[n]].value.aff.mat.nrows()
            && (!a[n].isleaf ==> !al[kind[n]].isleaf)
    &&& forall|n: usize| #[trigger] pend.contains(n) ==> kind.dom().contains(n) && a[n].isleaf && no_kids(a[n])
    &&& forall|n: usize| #[trigger] kind.dom().contains(n) && !pend.contains(n) && Some(n) != cur ==> a[n].isleaf == al[kind[n]].isleaf
    &&& forall|i: usize| #[trigger] a.dom().contains(i) ==> kind.dom().contains(i) || (a_s.dom().contains(i) && i != t)
    &&& forall|i: usize| #[trigger] a_s.dom().contains(i) && i != t ==> a.dom().contains(i) && !kind.dom().contains(i) && a[i].value == a_s[i].value
            && a[i].isleaf == a_s[i].isleaf && (a_s[i].isleaf ==> a[i] == a_s[i])
}
#[verifier::opaque]
pub open spec fn pr_stack(kind: Map<usize, usize>, pend: Set<usize>, stack: Seq<(usize, usize)>) -> bool {
    &&& forall|j: int| 0 <= j < stack.len() ==> pend.contains((#[trigger] stack[j]).1) && kind[stack[j].1] == stack[j].0
    &&& forall|j1: int, j2: int| 0 <= j1 < j2 < stack.len() ==> (#[trigger] stack[j1]).1 != (#[trigger] stack[j2]).1
    &&& forall|n: usize| #[trigger] pend.contains(n) ==> exists|j: int| 0 <= j < stack.len() && (#[trigger] stack[j]).1 == n
}
// state between terminals: the listed terminals from position t on are untouched; every terminal of the tree is such a one, an unlisted old terminal,
// or has the output dimension of a terminal of the left operand; old nodes that are not processed terminals keep value and kind
#[verifier::opaque]
pub open spec fn pr_outer<const K: usize>(al: AArena<K>, a0: AArena<K>, a: AArena<K>, ts: Seq<usize>, t: int) -> bool {
    &&& forall|j: int| t <= j < ts.len() ==> a.dom().contains(#[trigger] ts[j]) && a[ts[j]] == a0[ts[j]]
    &&& forall|i: usize| a.dom().contains(i) && #[trigger] a[i].isleaf ==>
            (a0.dom().contains(i) && a0[i].isleaf && a[i] == a0[i] && (forall|j: int| 0 <= j < t && j < ts.len() ==> ts[j] != i))
            || (exists|p: usize| al.dom().contains(p) && (#[trigger] al[p]).isleaf && a[i].value.aff.mat.nrows() == al[p].value.aff.mat.nrows())
}

// ---------------------------------------------------------------- lemmas
pub proof fn lemma_pr_outer_init<const K: usize>(al: AArena<K>, a0: AArena<K>, ts: Seq<usize>, dl: usize)
    requires terminals_ok(a0, ts, dl)
    ensures pr_outer(al, a0, a0, ts, 0)
{
    reveal(pr_outer); reveal(terminals_ok);
}

pub proof fn lemma_pr_pick<const K: usize>(al: AArena<K>, a0: AArena<K>, a: AArena<K>, ts: Seq<usize>, t: int, dl: usize, in_dim: usize)
    requires terminals_ok(a0, ts, dl), pr_outer(al, a0, a, ts, t), 0 <= t < ts.len(), leaf_ok(a), aff_shape_ok(a, in_dim)
    ensures a.dom().contains(ts[t]), a[ts[t]] == a0[ts[t]], a[ts[t]].isleaf, no_kids(a[ts[t]]),
        a[ts[t]].value.aff.mat.nrows() == dl, a[ts[t]].value.aff.ok(), a[ts[t]].value.aff.mat.ncols() == in_dim,
{
    reveal(terminals_ok); reveal(pr_outer);
    assert(a[ts[t]] == a0[ts[t]]);
}

// the terminal received the composed root function
pub proof fn lemma_pr_start<const K: usize>(al: AArena<K>, a_s: AArena<K>, a: AArena<K>, rl: usize, t: usize, in_dim: usize)
    requires al.dom().contains(rl), a_s.dom().contains(t), a_s[t].isleaf, no_kids(a_s[t]), aff_shape_ok(a_s, in_dim),
        same_shape(a_s, a), forall|i: usize| a_s.dom().contains(i) && i != t ==> a[i] == a_s[i],
        a[t].value.aff.ok(), a[t].value.aff.mat.ncols() == in_dim, a[t].value.aff.mat.nrows() == al[rl].value.aff.mat.nrows(),
    ensures pr_inv(al, a, a_s, Map::<usize, usize>::empty().insert(t, rl), set![t], None, t, in_dim),
        pr_stack(Map::<usize, usize>::empty().insert(t, rl), set![t], seq![(rl, t)]),
{
    reveal(pr_inv); reveal(pr_stack);
    assert(a[t].isleaf && a[t].children == a_s[t].children);
    assert(no_kids(a[t]));
    let stk = seq![(rl, t)];
    assert forall|n: usize| #[trigger] set![t].contains(n) implies exists|j: int| 0 <= j < stk.len() && (#[trigger] stk[j]).1 == n by { assert(stk[0].1 == t); }
}

pub proof fn lemma_pr_pop<const K: usize>(al: AArena<K>, a: AArena<K>, a_s: AArena<K>, kind: Map<usize, usize>, pend: Set<usize>, t: usize, in_dim: usize,
    rest: Seq<(usize, usize)>, it: (usize, usize))
    requires pr_inv(al, a, a_s, kind, pend, None, t, in_dim),
        exists|s0: Seq<(usize, usize)>| #[trigger] pr_stack(kind, pend, s0) && s0.len() > 0 && s0.last() == it && s0.drop_last() == rest,
    ensures pr_inv(al, a, a_s, kind, pend.remove(it.1), Some(it.1), t, in_dim), pr_stack(kind, pend.remove(it.1), rest),
        kind.dom().contains(it.1), kind[it.1] == it.0, al.dom().contains(it.0), a.dom().contains(it.1), a[it.1].isleaf, no_kids(a[it.1]),
        a[it.1].value.aff.mat.nrows() == al[it.0].value.aff.mat.nrows(), !pend.remove(it.1).contains(it.1),
{
    reveal(pr_inv); reveal(pr_stack);
    let s0 = choose|s0: Seq<(usize, usize)>| #[trigger] pr_stack(kind, pend, s0) && s0.len() > 0 && s0.last() == it && s0.drop_last() == rest;
    assert(s0[s0.len() - 1] == it);
    let pend1 = pend.remove(it.1);
    assert forall|j: int| 0 <= j < rest.len() implies pend1.contains((#[trigger] rest[j]).1) && kind[rest[j].1] == rest[j].0 by { assert(rest[j] == s0[j]); }
    assert forall|j1: int, j2: int| 0 <= j1 < j2 < rest.len() implies (#[trigger] rest[j1]).1 != (#[trigger] rest[j2]).1 by { assert(rest[j1] == s0[j1] && rest[j2] == s0[j2]); }
    assert forall|n: usize| #[trigger] pend1.contains(n) implies exists|j: int| 0 <= j < rest.len() && (#[trigger] rest[j]).1 == n by {
        let j = choose|j: int| 0 <= j < s0.len() && (#[trigger] s0[j]).1 == n;
        assert(j < s0.len() - 1);
        assert(rest[j] == s0[j]);
    }
}

// a child copy c of lhs node c0 was attached below cur and is kept
pub proof fn lemma_pr_keep<const K: usize>(al: AArena<K>, a0: AArena<K>, a1: AArena<K>, a_s: AArena<K>, kind: Map<usize, usize>, pend: Set<usize>, t: usize, in_dim: usize,
    st: Seq<(usize, usize)>, p1: usize, label: usize, c0: usize, c: usize)
    requires pr_inv(al, a0, a_s, kind, pend, Some(p1), t, in_dim), pr_stack(kind, pend, st), kind.dom().contains(p1), !pend.contains(p1),
        al.dom().contains(c0), !al[kind[p1]].isleaf,
        child_added(a0, a1, p1, label, c), a1[p1].value == a0[p1].value,
        a1[c].value.aff.ok(), a1[c].value.aff.mat.ncols() == in_dim, a1[c].value.aff.mat.nrows() == al[c0].value.aff.mat.nrows(),
    ensures pr_inv(al, a1, a_s, kind.insert(c, c0), pend.insert(c), Some(p1), t, in_dim), pr_stack(kind.insert(c, c0), pend.insert(c), st.push((c0, c))),
{
    reveal(pr_inv); reveal(pr_stack);
    let kind1 = kind.insert(c, c0);
    let pend1 = pend.insert(c);
    let st1 = st.push((c0, c));
    assert(c != p1 && !a0.dom().contains(c));
    assert(!kind.dom().contains(c)) by { if kind.dom().contains(c) { assert(a0.dom().contains(c)); } }
    assert(!a_s.dom().contains(c) || c == t) by { if a_s.dom().contains(c) && c != t { assert(a0.dom().contains(c)); } }
    assert forall|i: usize| a0.dom().contains(i) && i != p1 implies a1[i] == a0[i] by {}
    assert forall|n: usize| #[trigger] kind1.dom().contains(n) implies a1.dom().contains(n) && al.dom().contains(kind1[n]) && (n == t || !a_s.dom().contains(n))
            && a1[n].value.aff.ok() && a1[n].value.aff.mat.ncols() == in_dim && a1[n].value.aff.mat.nrows() == al[kind1[n]].value.aff.mat.nrows()
            && (!a1[n].isleaf ==> !al[kind1[n]].isleaf) by {
        if n != c { assert(kind.dom().contains(n)); }
    }
    assert forall|n: usize| #[trigger] pend1.contains(n) implies kind1.dom().contains(n) && a1[n].isleaf && no_kids(a1[n]) by {
        if n != c { assert(pend.contains(n)); assert(n != p1); }
    }
    assert forall|n: usize| #[trigger] kind1.dom().contains(n) && !pend1.contains(n) && Some(n) != Some(p1) implies a1[n].isleaf == al[kind1[n]].isleaf by {
        assert(kind.dom().contains(n));
    }
    assert forall|i: usize| #[trigger] a1.dom().contains(i) implies kind1.dom().contains(i) || (a_s.dom().contains(i) && i != t) by {
        if i != c { assert(a0.dom().contains(i)); }
    }
    assert forall|i: usize| #[trigger] a_s.dom().contains(i) && i != t implies a1.dom().contains(i) && !kind1.dom().contains(i) && a1[i].value == a_s[i].value
            && a1[i].isleaf == a_s[i].isleaf && (a_s[i].isleaf ==> a1[i] == a_s[i]) by {
        assert(a0.dom().contains(i) && !kind.dom().contains(i));
        assert(i != p1);
    }
    assert forall|j: int| 0 <= j < st1.len() implies pend1.contains((#[trigger] st1[j]).1) && kind1[st1[j].1] == st1[j].0 by {
        if j < st.len() { assert(st1[j] == st[j]); assert(pend.contains(st[j].1)); assert(kind.dom().contains(st[j].1)); }
    }
    assert forall|j1: int, j2: int| 0 <= j1 < j2 < st1.len() implies (#[trigger] st1[j1]).1 != (#[trigger] st1[j2]).1 by {
        assert(st1[j1] == st[j1]); assert(pend.contains(st[j1].1)); assert(kind.dom().contains(st[j1].1));
        if j2 < st.len() { assert(st1[j2] == st[j2]); }
    }
    assert forall|n: usize| #[trigger] pend1.contains(n) implies exists|j: int| 0 <= j < st1.len() && (#[trigger] st1[j]).1 == n by {
        if n == c { assert(st1[st.len() as int].1 == c); }
        else { assert(pend.contains(n)); let j = choose|j: int| 0 <= j < st.len() && (#[trigger] st[j]).1 == n; assert(st1[j] == st[j]); }
    }
}

// a child that was attached and removed again leaves the arena as it was
pub proof fn lemma_prune_roundtrip<N, const K: usize>(a0: Arena<N, K>, a1: Arena<N, K>, a2: Arena<N, K>, root: Option<usize>, p: usize, label: usize, c: usize)
    requires wf_at(a0, root), wf_at(a1, root), child_added(a0, a1, p, label, c), a1[p].value == a0[p].value, child_removed(a1, a2, p, label)
    ensures a2 =~= a0
{
    assert(a1[p].children[label as int] == Some(c)) by { assert(a1[p].children@[label as int] == Some(c)); }
    // c is a leaf of a1: nothing hangs below it
    assert forall|i: usize| !desc(a1, c, i) by { if desc(a1, c, i) { lemma_desc_has_kid(a1, c, i); } }
    assert(a2.dom() =~= a0.dom());
    assert(a2[p].children@ =~= a0[p].children@);
    assert(a2[p].children == a0[p].children);
    lemma_count_zero_no_kids(a0[p], 0);
    assert(no_kids(a2[p]) == no_kids(a0[p])) by {
        assert forall|l: int| 0 <= l < K implies a2[p].children[l] == a0[p].children[l] by {}
    }
    assert(a2[p].parent == a0[p].parent);
    assert(a2[p].value == a0[p].value);
    assert(a0[p].isleaf == no_kids(a0[p]));
    assert(a2[p].isleaf == a0[p].isleaf);
    assert(a2[p] == a0[p]);
    assert forall|i: usize| a0.dom().contains(i) implies a2[i] == a0[i] by {
        if i != p { assert(a1[i] == a0[i]); assert(a2.dom().contains(i)); assert(a2[i] == a1[i]); }
    }
}

// all children of cur handled, no forwarding: cur is done
pub proof fn lemma_pr_done<const K: usize>(al: AArena<K>, a: AArena<K>, a_s: AArena<K>, kind: Map<usize, usize>, pend: Set<usize>, t: usize, in_dim: usize, p1: usize)
    requires pr_inv(al, a, a_s, kind, pend, Some(p1), t, in_dim), kind.dom().contains(p1), a[p1].isleaf == al[kind[p1]].isleaf
    ensures pr_inv(al, a, a_s, kind, pend, None, t, in_dim)
{
    reveal(pr_inv);
}

// forwarding: cur has exactly one child and is spliced out
pub proof fn lemma_pr_merge<const K: usize>(al: AArena<K>, a0: AArena<K>, a1: AArena<K>, a_s: AArena<K>, kind: Map<usize, usize>, pend: Set<usize>, t: usize, in_dim: usize,
    st: Seq<(usize, usize)>, p1: usize, label: usize, root: Option<usize>)
    requires pr_inv(al, a0, a_s, kind, pend, Some(p1), t, in_dim), pr_stack(kind, pend, st), kind.dom().contains(p1), !pend.contains(p1),
        wf_at(a0, root), merge_post(a0, a1, p1, label, false), a0[p1].children[label as int] is Some, pend.contains(a0[p1].children[label as int].unwrap()),
    ensures pr_inv(al, a1, a_s, kind.remove(p1), pend, None, t, in_dim), pr_stack(kind.remove(p1), pend, st),
{
    reveal(pr_inv); reveal(pr_stack);
    let gl = choose|gl: int| merged(a0, a1, p1, label, gl);
    let c = a0[p1].children[label as int].unwrap();
    let g = a0[p1].parent.unwrap();
    let kind1 = kind.remove(p1);
    assert(a0.dom().contains(g) && a0.dom().contains(c));
    assert(a0[c].parent == Some(p1));
    let d = choose|d: Map<usize, nat>| ranked(a0, d);
    assert(d[g] < d[p1] && d[p1] < d[c]);
    assert(g != p1 && c != p1 && g != c);
    assert forall|n: usize| #[trigger] kind1.dom().contains(n) implies a1.dom().contains(n) && al.dom().contains(kind1[n]) && (n == t || !a_s.dom().contains(n))
            && a1[n].value.aff.ok() && a1[n].value.aff.mat.ncols() == in_dim && a1[n].value.aff.mat.nrows() == al[kind1[n]].value.aff.mat.nrows()
            && (!a1[n].isleaf ==> !al[kind1[n]].isleaf) by {
        assert(kind.dom().contains(n));
        if n != g && n != c { assert(a1[n] == a0[n]); }
    }
    assert forall|n: usize| #[trigger] pend.contains(n) implies kind1.dom().contains(n) && a1[n].isleaf && no_kids(a1[n]) by {
        assert(n != p1);
        assert(kind.dom().contains(n));
        // a pending copy has no children, so it is not the grandparent
        assert(n != g) by { if n == g { assert(a0[g].children[gl].is_some()); } }
        if n != c { assert(a1[n] == a0[n]); }
    }
    assert forall|n: usize| #[trigger] kind1.dom().contains(n) && !pend.contains(n) implies a1[n].isleaf == al[kind1[n]].isleaf by {
        assert(kind.dom().contains(n) && n != p1);
        if n != g && n != c { assert(a1[n] == a0[n]); }
    }
    assert forall|i: usize| #[trigger] a1.dom().contains(i) implies kind1.dom().contains(i) || (a_s.dom().contains(i) && i != t) by {
        assert(a0.dom().contains(i) && i != p1);
    }
    assert forall|i: usize| #[trigger] a_s.dom().contains(i) && i != t implies a1.dom().contains(i) && !kind1.dom().contains(i) && a1[i].value == a_s[i].value
            && a1[i].isleaf == a_s[i].isleaf && (a_s[i].isleaf ==> a1[i] == a_s[i]) by {
        assert(a0.dom().contains(i) && !kind.dom().contains(i));
        assert(i != p1 && i != c);
        if i == g { assert(!a0[g].isleaf) by { if a0[g].isleaf { assert(no_kids(a0[g])); assert(a0[g].children[gl].is_some()); } } }
        else { assert(a1[i] == a0[i]); }
    }
    assert forall|j: int| 0 <= j < st.len() implies pend.contains((#[trigger] st[j]).1) && kind1[st[j].1] == st[j].0 by { assert(st[j].1 != p1); }
}

// the copy below terminal number t - 1 is finished
pub proof fn lemma_pr_terminal_done<const K: usize>(al: AArena<K>, a0: AArena<K>, a_s: AArena<K>, a: AArena<K>, ts: Seq<usize>, t: int, dl: usize,
    kind: Map<usize, usize>, pend: Set<usize>, in_dim: usize)
    requires 0 < t <= ts.len(), terminals_ok(a0, ts, dl), pr_outer(al, a0, a_s, ts, t - 1),
        pr_inv(al, a, a_s, kind, pend, None, ts[t - 1], in_dim), pr_stack(kind, pend, Seq::<(usize, usize)>::empty()),
    ensures pr_outer(al, a0, a, ts, t)
{
    reveal(pr_inv); reveal(pr_stack); reveal(pr_outer); reveal(terminals_ok);
    let tt = ts[t - 1];
    assert forall|n: usize| !pend.contains(n) by {
        if pend.contains(n) { let j = choose|j: int| 0 <= j < Seq::<(usize, usize)>::empty().len() && (#[trigger] Seq::<(usize, usize)>::empty()[j]).1 == n; }
    }
    assert forall|j: int| t <= j < ts.len() implies a.dom().contains(#[trigger] ts[j]) && a[ts[j]] == a0[ts[j]] by {
        assert(a_s.dom().contains(ts[j]) && a_s[ts[j]] == a0[ts[j]]);
        assert(ts[j] != tt);
        assert(a0[ts[j]].isleaf);
    }
    assert forall|i: usize| a.dom().contains(i) && #[trigger] a[i].isleaf implies
        (a0.dom().contains(i) && a0[i].isleaf && a[i] == a0[i] && (forall|j: int| 0 <= j < t && j < ts.len() ==> ts[j] != i))
        || (exists|p: usize| al.dom().contains(p) && (#[trigger] al[p]).isleaf && a[i].value.aff.mat.nrows() == al[p].value.aff.mat.nrows()) by {
        if kind.dom().contains(i) {
            assert(!pend.contains(i));
            assert(al.dom().contains(kind[i]) && al[kind[i]].isleaf);
        } else {
            assert(a_s.dom().contains(i) && i != tt);
            assert(a_s[i].isleaf && a[i] == a_s[i]);
            if a0.dom().contains(i) && a0[i].isleaf && a_s[i] == a0[i] && (forall|j: int| 0 <= j < t - 1 && j < ts.len() ==> ts[j] != i) {
                assert forall|j: int| 0 <= j < t && j < ts.len() implies ts[j] != i by {}
            }
        }
    }
}

// shape invariant from the bookkeeping
pub proof fn lemma_pr_shape<const K: usize>(al: AArena<K>, a: AArena<K>, a_s: AArena<K>, kind: Map<usize, usize>, pend: Set<usize>, cur: Option<usize>, t: usize, in_dim: usize, dl: usize)
    requires pr_inv(al, a, a_s, kind, pend, cur, t, in_dim), aff_shape_ok(a_s, in_dim), aff_shape_ok(al, dl)
    ensures aff_shape_ok(a, in_dim)
{
    reveal(pr_inv);
    assert forall|i: usize| #![trigger a[i].value] a.dom().contains(i) implies a[i].value.aff.ok() && a[i].value.aff.mat.ncols() == in_dim
        && (!a[i].isleaf ==> 1 <= a[i].value.aff.mat.nrows() < 16 && (1usize << (a[i].value.aff.mat.nrows() as usize)) <= K) by {
        if kind.dom().contains(i) { assert(al.dom().contains(kind[i])); }
        else { assert(a_s.dom().contains(i) && i != t); }
    }
}

// counting the children of a node when one slot changes
pub proof fn lemma_count_set<const K: usize>(ch0: [Option<usize>; K], ch1: [Option<usize>; K], l: int, lo: int)
    requires 0 <= lo <= K, 0 <= l < K, ch0[l].is_none(), ch1[l].is_some(), forall|k: int| 0 <= k < K && k != l ==> ch1[k] == ch0[k]
    ensures count_some_from(ch1, lo) == count_some_from(ch0, lo) + (if lo <= l { 1int } else { 0int })
    decreases K - lo
{
    if lo < K { lemma_count_set(ch0, ch1, l, lo + 1); }
}


// rule I8 + the facts compose needs about the list: all terminals, each once, each feeding the left operand
pub fn leaves_for<const K: usize>(t: &Tree<AffContent, K>, Ghost(dl): Ghost<usize>) -> (r: Vec<usize>)
    requires forall|i: usize| t.arena@.dom().contains(i) && #[trigger] t.arena@[i].isleaf ==> t.arena@[i].value.aff.mat.nrows() == dl
    ensures terminals_ok(t.arena@, r@, dl), forall|i: usize| t.arena@.dom().contains(i) && #[trigger] t.arena@[i].isleaf ==> r@.contains(i)
{
    let r = terminal_indices_vec(t);
    proof {
        reveal(terminals_ok);
        assert forall|j: int| 0 <= j < r@.len() implies t.arena@.dom().contains(#[trigger] r@[j]) && t.arena@[r@[j]].isleaf && t.arena@[r@[j]].value.aff.mat.nrows() == dl by {
            assert(r@.contains(r@[j]));
        }
    }
    r
}

impl<const K: usize> AffTree<K> {
//@fn src/pwl/impl_composition.rs | impl<const K: usize> AffTree<K> | generic_composition_inplace | as=generic_composition_inplace_pruned
//@attr #[verifier::exec_allows_no_decreases_clause]
//@sigsub <I, C, V> =>
//@sigsub terminals: I, => terminals: Vec<TreeIndex>,
//@sigsub _schema: C, =>
//@sigsub mut visitor: V, =>
//@sigsub where I: IntoIterator<Item = TreeIndex>, C: CompositionSchema, V: CompositionVisitor, =>
//@bodysub let iter = terminals.into_iter(); =>
//@bodysub visitor.start_composition(iter.size_hint().0); =>
//@bodysub for terminal_idx in iter { => let mut __t: usize = 0; while __t < terminals.len() { let terminal_idx = terminals[__t]; __t += 1;
//@bodysub terminal.value.aff.clone() => terminal.value.aff.clone_aff()
//@bodysub ndarray::OwnedRepr<f64> => OwnedRepr<f64>
//@bodysub C::update_terminal( => fci_update_terminal(
//@bodysub C::update_decision( => fci_update_decision(
//@bodysub C::explore( => fci_explore(
//@bodysub let mut label_created = None; => let mut label_created: Option<usize> = None;
//@bodysub let mut created_children = 0; => let mut created_children: usize = 0;
//@bodysub let mut skipped_children = 0; => let mut skipped_children: usize = 0;
//@bodysub visitor.start_subtree(terminal_idx); =>
//@bodysub visitor.finish_subtree(n_nodes); =>
//@bodysub visitor.finish_composition(); =>
//@bodysub let mut n_nodes = 0; =>
//@bodysub n_nodes += 1; =>
//@bodysub let child0 = edg.target_value; => let child0 = &lhs.tree.tree_node(child0_idx).unwrap().value;
//@bodysub lhs.tree.is_leaf(child0_idx).unwrap() => lhs.tree.tree_node(child0_idx).unwrap().isleaf
//@spec
    requires K >= 2, K < usize::MAX,
        lhs.tree.wf(), lhs.tree.root is Some, aff_shape_ok(lhs.a(), lhs.in_dim),
        old(rhs).tree.wf(), old(rhs).tree.root == Some(0usize), aff_shape_ok(old(rhs).a(), old(rhs).in_dim),
        terminals_ok(old(rhs).a(), terminals@, lhs.in_dim),
    ensures
        // C04 for the pruning composition, whatever the feasibility oracle answers:
        final(rhs).tree.wf(), final(rhs).tree.root == old(rhs).tree.root, final(rhs).in_dim == old(rhs).in_dim,
        aff_shape_ok(final(rhs).a(), final(rhs).in_dim),
        pr_outer(lhs.a(), old(rhs).a(), final(rhs).a(), terminals@, terminals@.len() as int),
//@hint start
        let ghost rl = lhs.tree.root.unwrap();
        proof { lemma_pr_outer_init(lhs.a(), rhs.a(), terminals@, lhs.in_dim); }
//@loop 1
            invariant
                K >= 2, K < usize::MAX, lhs.tree.wf(), lhs.tree.root is Some, aff_shape_ok(lhs.a(), lhs.in_dim),
                terminals_ok(old(rhs).a(), terminals@, lhs.in_dim),
                0 <= __t <= terminals@.len(), rl == lhs.tree.root.unwrap(),
                rhs.tree.wf(), rhs.tree.root == Some(0usize), rhs.in_dim == old(rhs).in_dim, aff_shape_ok(rhs.a(), rhs.in_dim),
                pr_outer(lhs.a(), old(rhs).a(), rhs.a(), terminals@, __t as int),
//@hint loop 1 start
            let ghost a_start = rhs.a();
            proof { lemma_pr_pick(lhs.a(), old(rhs).a(), a_start, terminals@, __t as int, lhs.in_dim, rhs.in_dim); }
//@hint after rhs.update_node(terminal_idx, new_root_aff).unwrap();
            let ghost mut kind: Map<usize, usize> = Map::<usize, usize>::empty().insert(terminal_idx, rl);
            let ghost mut pend: Set<usize> = set![terminal_idx];
            proof {
                broadcast use axiom_array2_shape;
                lemma_pr_start(lhs.a(), a_start, rhs.a(), rl, terminal_idx, rhs.in_dim);
            }
//@loop 2
                invariant
                    K >= 2, K < usize::MAX, lhs.tree.wf(), lhs.tree.root is Some, aff_shape_ok(lhs.a(), lhs.in_dim),
                terminals_ok(old(rhs).a(), terminals@, lhs.in_dim),
                    0 < __t <= terminals@.len(), terminal_idx == terminals@[__t - 1], rl == lhs.tree.root.unwrap(),
                    rhs.tree.wf(), rhs.tree.root == Some(0usize), rhs.in_dim == old(rhs).in_dim,
                    aff_shape_ok(a_start, rhs.in_dim), pr_outer(lhs.a(), old(rhs).a(), a_start, terminals@, __t - 1),
                    terminal_aff.ok(), terminal_aff.mat.ncols() == rhs.in_dim, terminal_aff.mat.nrows() == lhs.in_dim,
                    pr_inv(lhs.a(), rhs.a(), a_start, kind, pend, None, terminal_idx, rhs.in_dim), pr_stack(kind, pend, stack@),
                ensures stack@.len() == 0,
//@hint loop 2 start
                proof {
                    lemma_pr_pop(lhs.a(), rhs.a(), a_start, kind, pend, terminal_idx, rhs.in_dim, stack@, (parent0_idx, parent1_idx));
                    pend = pend.remove(parent1_idx);
                    lemma_kid_seq_len(lhs.a()[parent0_idx].children, 0);
                    lemma_kid_seq_members(lhs.a()[parent0_idx].children, 0);
                    lemma_count_zero_no_kids(rhs.a()[parent1_idx], 0);
                }
//@loop 3
                    invariant
                        K >= 2, K < usize::MAX, lhs.tree.wf(), lhs.tree.root is Some, aff_shape_ok(lhs.a(), lhs.in_dim),
                terminals_ok(old(rhs).a(), terminals@, lhs.in_dim),
                        0 < __t <= terminals@.len(), terminal_idx == terminals@[__t - 1], rl == lhs.tree.root.unwrap(),
                    rhs.tree.wf(), rhs.tree.root == Some(0usize), rhs.in_dim == old(rhs).in_dim,
                    aff_shape_ok(a_start, rhs.in_dim), pr_outer(lhs.a(), old(rhs).a(), a_start, terminals@, __t - 1),
                    terminal_aff.ok(), terminal_aff.mat.ncols() == rhs.in_dim, terminal_aff.mat.nrows() == lhs.in_dim,
                        pr_inv(lhs.a(), rhs.a(), a_start, kind, pend, Some(parent1_idx), terminal_idx, rhs.in_dim), pr_stack(kind, pend, stack@),
                        kind.dom().contains(parent1_idx), kind[parent1_idx] == parent0_idx, !pend.contains(parent1_idx),
                        lhs.a().dom().contains(parent0_idx), rhs.a().dom().contains(parent1_idx),
                        0 <= __i <= __kids@.len(), __kids@.len() == kid_seq(lhs.a()[parent0_idx].children, 0).len(), __kids@.len() <= K,
                        n_children0 == __kids@.len(),
                        forall|j: int| 0 <= j < __kids@.len() ==> (#[trigger] __kids@[j]).source_idx == parent0_idx
                            && __kids@[j].label == kid_seq(lhs.a()[parent0_idx].children, 0)[j].0 && __kids@[j].target_idx == kid_seq(lhs.a()[parent0_idx].children, 0)[j].1,
                        // bookkeeping of the pruning logic
                        created_children + skipped_children == __i, parent1_idx == 0 ==> skipped_children == 0,
                        count_some_from(rhs.a()[parent1_idx].children, 0) == created_children,
                        created_children == 0 ==> __i < __kids@.len() || __kids@.len() == 0,
                        created_children >= 1 ==> label_created is Some && label_created.unwrap() < K
                            && rhs.a()[parent1_idx].children[label_created.unwrap() as int] is Some
                            && pend.contains(rhs.a()[parent1_idx].children[label_created.unwrap() as int].unwrap()),
                        forall|j: int| __i <= j < __kids@.len() ==> rhs.a()[parent1_idx].children[(#[trigger] __kids@[j]).label as int].is_none(),
//@hint loop 3 start
                    let ghost a_pre = rhs.a();
                    let ghost st_pre = stack@;
                    proof {
                        lemma_kid_seq_members(lhs.a()[parent0_idx].children, 0);
                        lemma_kid_seq_len(lhs.a()[parent0_idx].children, 0);
                        lemma_count_zero_no_kids(lhs.a()[parent0_idx], 0);
                    }
//@hint after let child1_idx = rhs .tree .add_child_node(parent1_idx, label, AffContent::new(child1_aff)) .unwrap();
                    let ghost a_add = rhs.a();
                    proof {
                        broadcast use axiom_array2_shape;
                        assert forall|k: int| 0 <= k < K && k != label implies a_add[parent1_idx].children[k] == a_pre[parent1_idx].children[k] by {
                            assert(a_add[parent1_idx].children@[k] == a_pre[parent1_idx].children@[k]);
                        }
                        assert(a_add[parent1_idx].children[label as int] == Some(child1_idx)) by { assert(a_add[parent1_idx].children@[label as int] == Some(child1_idx)); }
                        lemma_count_set(a_pre[parent1_idx].children, a_add[parent1_idx].children, label as int, 0);
                    }
//@hint after label_created = Some(label);
                        proof {
                            lemma_pr_keep(lhs.a(), a_pre, a_add, a_start, kind, pend, terminal_idx, rhs.in_dim, st_pre, parent1_idx, label, child0_idx, child1_idx);
                            assert(st_pre.push((child0_idx, child1_idx)) =~= stack@);
                            kind = kind.insert(child1_idx, child0_idx);
                            pend = pend.insert(child1_idx);
                        }
//@hint after rhs.tree.remove_child(parent1_idx, label);
                        proof {
                            lemma_prune_roundtrip(a_pre, a_add, rhs.a(), Some(0usize), parent1_idx, label, child1_idx);
                            assert(rhs.a() == a_pre);
                        }
//@hint after rhs.tree .merge_child_with_parent(parent1_idx, label_created.unwrap()) .unwrap();
                    proof {
                        lemma_pr_merge(lhs.a(), a_fin, rhs.a(), a_start, kind, pend, terminal_idx, rhs.in_dim, stack@, parent1_idx, label_created.unwrap(), Some(0usize));
                        kind = kind.remove(parent1_idx);
                    }
//@hint loop 3 after
                let ghost a_fin = rhs.a();
                proof {
                    lemma_count_zero_no_kids(a_fin[parent1_idx], 0);
                    lemma_count_zero_no_kids(lhs.a()[parent0_idx], 0);
                    lemma_kid_seq_len(lhs.a()[parent0_idx].children, 0);
                    if !(created_children == 1 && created_children + skipped_children == K) {
                        lemma_pr_done(lhs.a(), a_fin, a_start, kind, pend, terminal_idx, rhs.in_dim, parent1_idx);
                    }
                }
//@hint loop 2 after
            proof {
                assert(stack@ =~= Seq::<(usize, usize)>::empty());
                lemma_pr_terminal_done(lhs.a(), old(rhs).a(), a_start, rhs.a(), terminals@, __t as int, lhs.in_dim, kind, pend, rhs.in_dim);
                lemma_pr_shape(lhs.a(), rhs.a(), a_start, kind, pend, None, terminal_idx, rhs.in_dim, lhs.in_dim);
            }
//@end

//@fn src/pwl/impl_composition.rs | impl<const K: usize> AffTree<K> | compose | as=compose_pruned
//@sigsub <const PRUNE: bool, const VERBOSE: bool> =>
//@bodysub if PRUNE && VERBOSE { AffTree::<K>::generic_composition_inplace( other, self, self.tree.terminal_indices().collect_vec(), FunctionCompositionInfeasible {}, CompositionConsole::new(), ); } else if PRUNE && !VERBOSE { => {
//@bodysub self.tree.terminal_indices().collect_vec(), FunctionCompositionInfeasible {}, NoOpVis {}, ); } else if !PRUNE && VERBOSE { AffTree::<K>::generic_composition_inplace( other, self, self.tree.terminal_indices().collect_vec(), FunctionComposition {}, CompositionConsole::new(), ); } else { AffTree::<K>::generic_composition_inplace( other, self, self.tree.terminal_indices().collect_vec(), FunctionComposition {}, NoOpVis {}, ); } => leaves_for(&self.tree, Ghost(other.in_dim)), ); }
//@bodysub AffTree::<K>::generic_composition_inplace( => AffTree::<K>::generic_composition_inplace_pruned(
//@spec
    requires K >= 2, K < usize::MAX,
        other.tree.wf(), other.tree.root is Some, aff_shape_ok(other.a(), other.in_dim),
        old(self).tree.wf(), old(self).tree.root == Some(0usize), aff_shape_ok(old(self).a(), old(self).in_dim),
        forall|i: usize| old(self).a().dom().contains(i) && #[trigger] old(self).a()[i].isleaf ==> old(self).a()[i].value.aff.mat.nrows() == other.in_dim,
    ensures
        // C04 for compose::<true,false>, for every answer pattern of the feasibility oracle: well-formed, same input dimension, every node shaped,
        // and every terminal has the output dimension of a terminal of `other` (in particular no decision is left behind as a terminal)
        final(self).tree.wf(), final(self).tree.root == old(self).tree.root, final(self).in_dim == old(self).in_dim,
        aff_shape_ok(final(self).a(), final(self).in_dim),
        forall|i: usize| final(self).a().dom().contains(i) && #[trigger] final(self).a()[i].isleaf ==>
            exists|p: usize| other.a().dom().contains(p) && (#[trigger] other.a()[p]).isleaf && final(self).a()[i].value.aff.mat.nrows() == other.a()[p].value.aff.mat.nrows(),
//@hint start
        proof { reveal(pr_outer); }
//@end
}

} // verus!
fn main() {}
