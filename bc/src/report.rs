use std::collections::hash_map::DefaultHasher;
use std::collections::HashSet;
use std::hash::{Hash, Hasher};

#[derive(Clone, Copy, PartialEq, Debug)]
pub enum Tier {
    Quick,
    Thorough,
}

pub struct Viol {
    pub case_id: String,
    pub class: String,
    pub descr: String,
}

pub struct Report {
    pub cmd: String,
    pub seed: u64,
    pub evaluations: u64,
    pub nontrivial: HashSet<u64>,
    pub samples: Vec<String>,
    pub violations: Vec<Viol>,
    pub tolerated: u64,
    pub rule: String,
    pub bound: String,
    pub exhaustive: bool,
    pub only: Option<u64>,
    pub notes: Vec<String>,
}

pub fn esc(s: &str) -> String {
    let mut o = String::new();
    for c in s.chars() {
        match c {
            '"' => o.push_str("\\\""),
            '\\' => o.push_str("\\\\"),
            '\n' => o.push_str("\\n"),
            '\t' => o.push_str(" "),
            c if (c as u32) < 0x20 => o.push(' '),
            c => o.push(c),
        }
    }
    o
}

pub fn hash_str(s: &str) -> u64 {
    let mut h = DefaultHasher::new();
    s.hash(&mut h);
    h.finish()
}

impl Report {
    pub fn new(cmd: &str, seed: u64, only: Option<u64>) -> Report {
        Report {
            cmd: cmd.to_string(),
            seed,
            evaluations: 0,
            nontrivial: HashSet::new(),
            samples: vec![],
            violations: vec![],
            tolerated: 0,
            rule: String::new(),
            bound: String::new(),
            exhaustive: false,
            only,
            notes: vec![],
        }
    }
    pub fn skip(&self, idx: u64) -> bool {
        self.only.map_or(false, |o| o != idx)
    }
    pub fn case_id(&self, idx: u64) -> String {
        format!("{}:{}:{}", self.cmd, self.seed, idx)
    }
    pub fn nontrivial(&mut self, descr: &str) {
        self.nontrivial.insert(hash_str(descr));
    }
    pub fn sample(&mut self, s: String) {
        if self.samples.len() < 6 {
            self.samples.push(s);
        }
    }
    pub fn viol(&mut self, idx: u64, class: &str, descr: String) {
        if self.violations.iter().filter(|v| v.class == class).count() < 12 {
            self.violations.push(Viol { case_id: self.case_id(idx), class: class.to_string(), descr });
        }
    }
    pub fn print(&self) {
        let mut s = String::from("{");
        s.push_str(&format!("\"cmd\":\"{}\",\"seed\":{},", esc(&self.cmd), self.seed));
        s.push_str(&format!("\"evaluations\":{},\"distinct_nontrivial\":{},", self.evaluations, self.nontrivial.len()));
        s.push_str(&format!("\"tolerated_thin_region_differences\":{},", self.tolerated));
        s.push_str(&format!("\"rule\":\"{}\",\"bound\":\"{}\",\"exhaustive\":{},", esc(&self.rule), esc(&self.bound), self.exhaustive));
        s.push_str("\"samples\":[");
        s.push_str(&self.samples.iter().map(|x| format!("\"{}\"", esc(x))).collect::<Vec<_>>().join(","));
        s.push_str("],\"notes\":[");
        s.push_str(&self.notes.iter().map(|x| format!("\"{}\"", esc(x))).collect::<Vec<_>>().join(","));
        s.push_str("],\"violations\":[");
        s.push_str(
            &self
                .violations
                .iter()
                .map(|v| format!("{{\"case_id\":\"{}\",\"class\":\"{}\",\"descr\":\"{}\"}}", esc(&v.case_id), esc(&v.class), esc(&v.descr)))
                .collect::<Vec<_>>()
                .join(","),
        );
        s.push_str("]}");
        println!("{}", s);
    }
}

/// run a closure, turning a panic into Err(message)
pub fn guarded<T>(f: impl FnOnce() -> T) -> Result<T, String> {
    match std::panic::catch_unwind(std::panic::AssertUnwindSafe(f)) {
        Ok(v) => Ok(v),
        Err(e) => {
            let msg = if let Some(s) = e.downcast_ref::<&str>() {
                s.to_string()
            } else if let Some(s) = e.downcast_ref::<String>() {
                s.clone()
            } else {
                "panic".to_string()
            };
            Err(msg)
        }
    }
}
