// unit pwl_feasible — C11 / C05 / C03: the decision logic around the LP solver in src/pwl/impl_infeasible_elim.rs
// (is_edge_feasible, phase_inh, phase_two) and NodeState's predicates.  The LP layer itself (Polytope::status, C10), the tolerance membership test
// (Polytope::contains) and the numeric repair heuristic (mirror_points) are ORACLES here: uninterpreted, any answer.  Proved about the real branching:
// an "infeasible" verdict is only ever produced from an Infeasible answer / cached state (faults — Error, Unbounded, displaced witnesses — never are),
// every witness that gets cached has passed `contains` for the polytope it is cached for, an LP Error leaves the state Indeterminate, and the root shortcut.
use vstd::prelude::*;
use std::marker::PhantomData;
use std::mem;
use std::ops::{Add, Sub, Mul, Div, Neg};
verus! {
global size_of usize == 8;

//@include prelude/inc_pwl_core.rs
//@item src/tree/graph.rs | struct EdgeReference
//@include prelude/inc_tree_nav.rs
//@include prelude/path_spec.rs
//@item src/pwl/impl_infeasible_elim.rs | struct PerformanceCounter | no-debug

//@include prelude/tol_spec.rs
//@include prelude/cat_spec.rs
//@include prelude/lp_oracle_tol_spec.rs
//@include prelude/reach_spec.rs

impl Polytope {
    // LP feasibility query (C10, external solver): any answer
    #[verifier::external_body]
    pub fn status(&self) -> (r: PolytopeStatus)
        ensures r == lp_status(*self)
    { unimplemented!() }
    // membership with the absolute tolerance 1e-8 on the raw residuals
    #[verifier::external_body]
    pub fn contains(&self, point: &Array1<f64>) -> (r: bool)
        ensures r == contains_tol(*self, *point)
    { unimplemented!() }
}
// `solution.clone().insert_axis(Axis(1))`: the point as a one-column matrix; `val.t().row(0).to_owned()`: the first column of the repaired points (no contract needed:
// whatever comes back is re-checked with `contains` before it is cached)
#[verifier::external_body]
pub fn as_column(x: &Array1<f64>) -> (r: Array2<f64>) { unimplemented!() }
#[verifier::external_body]
pub fn first_point(m: &Array2<f64>) -> (r: Array1<f64>) { unimplemented!() }
#[verifier::external_body]
pub fn clone_point(x: &Array1<f64>) -> (r: Array1<f64>) ensures r == *x { unimplemented!() }

// rule I15: `solution.iter().filter(|point| hyperplane.contains(point)).map(|point| point.to_owned()).collect_vec()` (verified helper)
pub fn filter_contained(hyperplane: &Polytope, solution: &Vec<Array1<f64>>) -> (r: Vec<Array1<f64>>)
    ensures forall|i: int| 0 <= i < r@.len() ==> contains_tol(*hyperplane, #[trigger] r@[i]) && solution@.contains(r@[i]),
        (exists|j: int| 0 <= j < solution@.len() && contains_tol(*hyperplane, solution@[j])) ==> r@.len() > 0,
{
    let mut out: Vec<Array1<f64>> = Vec::new();
    let mut i: usize = 0;
    while i < solution.len()
        invariant 0 <= i <= solution@.len(),
            forall|k: int| 0 <= k < out@.len() ==> contains_tol(*hyperplane, #[trigger] out@[k]) && solution@.contains(out@[k]),
            (exists|j: int| 0 <= j < i && contains_tol(*hyperplane, solution@[j])) ==> out@.len() > 0,
        decreases solution@.len() - i
    {
        if hyperplane.contains(&solution[i]) {
            let ghost o0 = out@;
            out.push(clone_point(&solution[i]));
            proof {
                assert(solution@.contains(solution@[i as int]));
                assert forall|k: int| 0 <= k < out@.len() implies contains_tol(*hyperplane, #[trigger] out@[k]) && solution@.contains(out@[k]) by {
                    if k < o0.len() { assert(out@[k] == o0[k]); }
                }
            }
        }
        i += 1;
    }
    out
}
// rule I16: `wit.iter().any(|point| poly.contains(point))` (verified helper)
pub fn any_contained(poly: &Polytope, wit: &Vec<Array1<f64>>) -> (r: bool)
    ensures r == exists|j: int| 0 <= j < wit@.len() && contains_tol(*poly, wit@[j])
{
    let mut i: usize = 0;
    while i < wit.len()
        invariant 0 <= i <= wit@.len(), forall|j: int| 0 <= j < i ==> !contains_tol(*poly, wit@[j])
        decreases wit@.len() - i
    {
        if poly.contains(&wit[i]) { return true; }
        i += 1;
    }
    false
}


// ---------------------------------------------------------------- the path polytope for real (K = 2), and what an Infeasible verdict of is_edge_feasible means
// the half-space of the edge leaving a decision with predicate f under `label`: label 1: every row holds; label 0: every row is violated or tight
pub open spec fn hs_row(f: AffFunc, label: usize, j: int, x: V) -> bool {
    if label == 1 { f.row_sat(j, x) } else { dotp(f.mat.m()[j], x, x.len() as int) >= f.bias.v()[j] }
}
pub open spec fn hs_sat(f: AffFunc, label: usize, x: V) -> bool {
    forall|j: int| 0 <= j < f.mat.nrows() ==> #[trigger] hs_row(f, label, j, x)
}
pub open spec fn hs_poly(f: AffFunc, label: usize, q: Polytope) -> bool {
    let s = if label == 1 { 1real } else { 0real - 1real };
    q.mat.nrows() == f.mat.nrows() && q.mat.ncols() == f.mat.ncols() && q.mat.m() == mscale(f.mat.m(), s) && q.bias.v() == vscale(f.bias.v(), s)
}
pub proof fn lemma_hs_poly_sat(f: AffFunc, label: usize, q: Polytope, x: V)
    requires hs_poly(f, label, q), f.ok(), x.len() == f.mat.ncols()
    ensures q.sat(x) <==> hs_sat(f, label, x)
{
    broadcast use axiom_array2_shape;
    let s = if label == 1 { 1real } else { 0real - 1real };
    assert forall|i: int| 0 <= i < f.mat.nrows() implies (q.row_sat(i, x) <==> hs_row(f, label, i, x)) by {
        lemma_dotp_scale_left(f.mat.m()[i], s, x, x.len() as int);
        let dq = dotp(q.mat.m()[i], x, x.len() as int);
        let df = dotp(f.mat.m()[i], x, x.len() as int);
        assert(q.mat.m()[i] == vscale(f.mat.m()[i], s));
        assert(dq == df * s);
        assert(q.bias.v()[i] == f.bias.v()[i] * s);
        if label == 1 { assert(df * 1real == df && f.bias.v()[i] * 1real == f.bias.v()[i]) by(nonlinear_arith); }
        else { assert(df * (0real - 1real) == -df && f.bias.v()[i] * (0real - 1real) == -f.bias.v()[i]) by(nonlinear_arith); }
    }
    if q.sat(x) { assert forall|j: int| 0 <= j < f.mat.nrows() implies #[trigger] hs_row(f, label, j, x) by { assert(q.row_sat(j, x)); } }
    if hs_sat(f, label, x) { assert forall|j: int| 0 <= j < q.mat.nrows() implies #[trigger] q.row_sat(j, x) by { assert(hs_row(f, label, j, x)); } }
}
// a one-row decision: the input satisfies the half-space of the branch it takes
pub proof fn lemma_hs_one(f: AffFunc, x: V)
    requires f.mat.nrows() == 1
    ensures 0 <= decide(&f, x) <= 1, hs_sat(f, decide(&f, x) as usize, x)
{
    assert((1usize << 0usize) == 1usize) by(bit_vector);
    assert(label_val(&f, x, 0) == 0);
    let dl = decide(&f, x);
    assert(dl == (if f.row_sat(0, x) { 1int } else { 0int }));
    assert forall|j: int| 0 <= j < f.mat.nrows() implies #[trigger] hs_row(f, dl as usize, j, x) by { }
}
pub open spec fn parts_ok(ps: Seq<Polytope>, in_dim: usize) -> bool {
    forall|j: int| 0 <= j < ps.len() ==> (#[trigger] ps[j]).ok() && ps[j].mat.ncols() == in_dim
}
// contract proved on the real body in unit aff_algebra (ndarray::concatenate and the two view pipelines as trusted helpers)
impl<D: Data<Elem = A>, A: Float + LinalgScalar> AffFuncBase<PolytopeT, D> {
//@assumed units/aff_algebra.rs | intersection_n
}

pub open spec fn path_nodes(p: Seq<(usize, usize)>, node: usize) -> Seq<usize> { Seq::new(p.len() + 1, |i: int| if i < p.len() { p[i].0 } else { node }) }
pub proof fn lemma_path_push<N, const K: usize>(a: Arena<N, K>, p: Seq<(usize, usize)>, parent: usize, label: usize, node: usize)
    requires path_ok(a, p, parent), a.dom().contains(parent), label < K, a[parent].children[label as int] == Some(node)
    ensures path_ok(a, p.push((parent, label)), node)
{
    let p2 = p.push((parent, label));
    assert forall|i: int| 0 <= i < p2.len() implies a.dom().contains((#[trigger] p2[i]).0) && p2[i].1 < K
        && a[p2[i].0].children[p2[i].1 as int] == Some(if i + 1 < p2.len() { p2[i + 1].0 } else { node }) by {
        if i < p.len() { assert(p2[i] == p[i]); if i + 1 < p.len() { assert(p2[i + 1] == p[i + 1]); } }
    }
    if p.len() > 0 { assert(p2[0] == p[0]); }
}
// an input passing `node` leaves every decision on the path through the recorded label, hence satisfies every half-space of the path
pub proof fn lemma_path_hs<const K: usize>(a: AArena<K>, h: Map<usize, nat>, root: usize, p: Seq<(usize, usize)>, node: usize, x: V, in_dim: usize)
    requires wf_at(a, Some(root)), K == 2, aff_shape_ok(a, in_dim), path_ok(a, p, node), p.len() > 0, ranked_down(a, h), x.len() == in_dim, reaches(a, h, root, x, node)
    ensures forall|i: int| 0 <= i < p.len() ==> hs_sat(a[(#[trigger] p[i]).0].value.aff, p[i].1, x)
{
    let nodes = path_nodes(p, node);
    assert(nodes[0] == p[0].0);
    assert(p[0].0 == root);       // root_ok: the only parent-less node
    assert(path_chain(a, nodes)) by {
        assert forall|k: int| 0 <= k < nodes.len() - 1 implies a.dom().contains(#[trigger] nodes[k]) && exists|l: int| 0 <= l < K && #[trigger] a[nodes[k]].children[l] == Some(nodes[k + 1]) by {
            assert(nodes[k] == p[k].0);
            assert(a[p[k].0].children[p[k].1 as int] == Some(nodes[k + 1]));
        }
    }
    assert(nodes.last() == node);
    lemma_reaches_routed(a, h, nodes, x, 0);
    assert forall|i: int| 0 <= i < p.len() implies hs_sat(a[(#[trigger] p[i]).0].value.aff, p[i].1, x) by {
        lemma_path_hs_one(a, nodes, p, x, in_dim, i);
    }
}
pub proof fn lemma_path_hs_one<const K: usize>(a: AArena<K>, nodes: Seq<usize>, p: Seq<(usize, usize)>, x: V, in_dim: usize, i: int)
    requires K == 2, aff_shape_ok(a, in_dim), kids_unique(a), leaf_ok(a), 0 <= i < p.len(), nodes.len() == p.len() + 1, nodes[i] == p[i].0, a.dom().contains(p[i].0), p[i].1 < K,
        a[p[i].0].children[p[i].1 as int] == Some(nodes[i + 1]),
        0 <= decide(&a[nodes[i]].value.aff, x) < K, a[nodes[i]].children[decide(&a[nodes[i]].value.aff, x)] == Some(nodes[i + 1]),
    ensures hs_sat(a[p[i].0].value.aff, p[i].1, x)
{
    let f = a[p[i].0].value.aff;
    let dl = decide(&f, x);
    assert(dl == p[i].1 as int) by { if dl != p[i].1 as int { assert(a[p[i].0].children[dl] != a[p[i].0].children[p[i].1 as int]); } }
    assert(!no_kids(a[p[i].0]));
    assert(!a[p[i].0].isleaf);
    let n = f.mat.nrows() as usize;
    assert(1 <= n < 16 && (1usize << n) <= 2usize ==> n == 1) by (bit_vector);
    lemma_hs_one(f, x);
}

impl NodeState {
//@fn src/pwl/node.rs | impl NodeState | is_feasible
//@spec
    ensures r == (*self is Feasible || *self is FeasibleWitness)
//@end
//@fn src/pwl/node.rs | impl NodeState | is_infeasible
//@spec
    ensures r == (*self is Infeasible)
//@end
//@fn src/pwl/node.rs | impl NodeState | is_indetermined
//@spec
    ensures r == (*self is Indeterminate)
//@end
}

impl<N, const K: usize> Tree<N, K> {
//@assumed units/tree_path.rs | path_to_node
}

impl<const K: usize> AffTree<K> {
// the numeric repair heuristic (C05 checks its results bounded): any answer
#[verifier::external_body]
pub fn mirror_points(poly: &Polytope, points: &Array2<f64>, n_iterations: usize) -> (r: Option<(Array2<f64>, usize)>)
{ unimplemented!() }
//@fn src/pwl/impl_infeasible_elim.rs | impl<const K: usize> AffTree<K> | phase_inh
//@bodysub tree.node_value(parent_idx).unwrap() => tree.tree_node(parent_idx).unwrap().value
//@bodysub let parent_value = self. => let parent_value = &self.
//@bodysub let inherited_solutions = solution .iter() .filter(|point| hyperplane.contains(point)) .map(|point| point.to_owned()) .collect_vec(); => let inherited_solutions = filter_contained(hyperplane, solution);
//@bodysub counter.parent_sol_inherited += 1; =>
//@spec
    requires self.a().dom().contains(parent_idx),
        self.a()[parent_idx].value.state matches NodeState::FeasibleWitness(w) ==> w@.len() > 0,     // asserted by the code
    ensures
        // only an inherited witness or "don't know": each inherited point is a witness of the parent and passed `contains` for the new half-space
        r is Indeterminate || r is FeasibleWitness,
        r matches NodeState::FeasibleWitness(v) ==> v@.len() > 0 && self.a()[parent_idx].value.state is FeasibleWitness
            && forall|i: int| 0 <= i < v@.len() ==> contains_tol(*hyperplane, #[trigger] v@[i]) && self.a()[parent_idx].value.state->FeasibleWitness_0@.contains(v@[i]),
//@end

//@fn src/pwl/impl_infeasible_elim.rs | impl<const K: usize> AffTree<K> | phase_two
//@bodysub counter.lps_solved += 1; =>
//@bodysub counter.lps_error += 1; =>
//@bodysub counter.lps_feasible += 1; =>
//@bodysub counter.lps_infeasible += 1; =>
//@bodysub &solution.clone().insert_axis(Axis(1)) => &as_column(&solution)
//@bodysub val.t().row(0).to_owned() => first_point(&val)
//@bodysub? vec![new_solution.to_owned()] => vec![new_solution]
//@spec
    ensures
        // C11 / C03: "infeasible" exactly when the LP layer said so — an Error, an Unbounded answer or a displaced witness never prunes
        r is Infeasible <==> lp_status(*poly) is Infeasible,
        lp_status(*poly) is Error ==> r is Indeterminate,
        lp_status(*poly) is Unbounded ==> r is Feasible,
        // C05: a witness is cached only after it passed `contains` for this very polytope (the LP point itself, or its repaired version)
        r matches NodeState::FeasibleWitness(v) ==> v@.len() == 1 && contains_tol(*poly, v@[0]) && lp_status(*poly) is Optimal,
        r is Feasible ==> lp_status(*poly) is Unbounded,
        // "don't know" only after an LP Error or an Optimal answer whose point is not in the polytope (and could not be repaired)
        r is Indeterminate ==> lp_status(*poly) is Error || (lp_status(*poly) matches PolytopeStatus::Optimal(w) && !contains_tol(*poly, w)),
//@end


// ---- is_edge_feasible with the path polytope built by the real polyhedral_path_characterization (binary trees): what an "infeasible" verdict means for inputs ----
//@fn src/pwl/impl_infeasible_elim.rs | impl<const K: usize> AffTree<K> | polyhedral_path_characterization
//@bodysub let mut cache = self.polytope_cache.borrow_mut(); => let mut cache: Vec<Polytope> = Vec::new();
//@bodysub? cache.reserve(path.len()); =>
//@bodysub for (idx, label) in path { => let mut __i: usize = 0; while __i < path.len() { let idx = &path[__i].0; let label = path[__i].1; __i += 1;
//@bodysub -1.0, => flit(-1, 1),
//@bodysub 1.0, => flit(1, 1),
//@bodysub &aff.mat * factor => Mul::mul(&aff.mat, factor)
//@bodysub &aff.bias * factor => Mul::mul(&aff.bias, factor)
//@spec
    requires forall|i: int| 0 <= i < path@.len() ==> self.a().dom().contains((#[trigger] path@[i]).0) && path@[i].1 < 2 && !self.a()[path@[i].0].isleaf
            && self.a()[path@[i].0].value.aff.ok() && self.a()[path@[i].0].value.aff.mat.ncols() == self.in_dim,
    ensures r.ok(), r.mat.ncols() == self.in_dim,
        // the conjunction of the half-spaces of the path's edges
        forall|x: V| x.len() == self.in_dim ==> (#[trigger] r.sat(x) <==> forall|i: int| 0 <= i < path@.len() ==> hs_sat(self.a()[(#[trigger] path@[i]).0].value.aff, path@[i].1, x)),
//@loop 1
            invariant
                0 <= __i <= path@.len(), cache@.len() == __i, parts_ok(cache@, self.in_dim),
                forall|i: int| 0 <= i < path@.len() ==> self.a().dom().contains((#[trigger] path@[i]).0) && path@[i].1 < 2 && !self.a()[path@[i].0].isleaf
                    && self.a()[path@[i].0].value.aff.ok() && self.a()[path@[i].0].value.aff.mat.ncols() == self.in_dim,
                forall|i: int| 0 <= i < __i ==> hs_poly(self.a()[(#[trigger] path@[i]).0].value.aff, path@[i].1, cache@[i]),
            decreases path@.len() - __i
//@hint after cache.push(poly_node);
            proof { broadcast use axiom_array2_shape; }
//@hint after let poly = Polytope::intersection_n(in_dim, cache.as_slice());
        proof {
            let parts = cache@;
            assert forall|x: V| x.len() == self.in_dim implies (#[trigger] poly.sat(x) <==> forall|i: int| 0 <= i < path@.len() ==> hs_sat(self.a()[(#[trigger] path@[i]).0].value.aff, path@[i].1, x)) by {
                assert forall|i: int| 0 <= i < path@.len() implies ((#[trigger] parts[i]).sat(x) <==> hs_sat(self.a()[path@[i].0].value.aff, path@[i].1, x)) by {
                    lemma_hs_poly_sat(self.a()[path@[i].0].value.aff, path@[i].1, parts[i], x);
                }
                assert(poly.sat(x) <==> forall|k: int| 0 <= k < parts.len() ==> (#[trigger] parts[k]).sat(x));
                if poly.sat(x) {
                    assert forall|i: int| 0 <= i < path@.len() implies hs_sat(self.a()[(#[trigger] path@[i]).0].value.aff, path@[i].1, x) by { assert(parts[i].sat(x)); }
                }
                if forall|i: int| 0 <= i < path@.len() ==> hs_sat(self.a()[(#[trigger] path@[i]).0].value.aff, path@[i].1, x) {
                    assert forall|k: int| 0 <= k < parts.len() implies (#[trigger] parts[k]).sat(x) by { assert(hs_sat(self.a()[path@[k].0].value.aff, path@[k].1, x)); }
                }
            }
        }
//@end

//@fn src/pwl/impl_infeasible_elim.rs | impl<const K: usize> AffTree<K> | is_edge_feasible
//@bodysub tree.node_value(node_idx).unwrap() => tree.tree_node(node_idx).unwrap().value
//@bodysub let node = self. => let node = &self.
//@bodysub wit.iter().any(|point| poly.contains(point)) => any_contained(&poly, wit)
//@spec
    requires self.tree.wf(), K == 2, self.tree.root is Some, aff_shape_ok(self.a(), self.in_dim),
        parent_idx != 0 ==> self.a().dom().contains(node_idx) && self.a()[node_idx].parent == Some(parent_idx),
    ensures
        parent_idx == 0 ==> r,
        // an "infeasible" verdict: a cached Infeasible state of the node or of its parent, or an Infeasible LP answer for a polytope that EVERY input
        // whose evaluation passes the node satisfies (the half-spaces of its path)
        !r ==> self.a()[node_idx].value.state is Infeasible || self.a()[parent_idx].value.state is Infeasible
            || exists|q: Polytope| lp_status(q) is Infeasible && #[trigger] edge_covers(self.a(), self.tree.root.unwrap(), node_idx, q, self.in_dim),
//@hint after path.push((parent_idx, label));
        proof {
            let a = self.a();
            lemma_path_push(a, path@.drop_last(), parent_idx, label, node_idx);
            assert(path@.drop_last().push((parent_idx, label)) =~= path@);
            assert forall|i: int| 0 <= i < path@.len() implies a.dom().contains((#[trigger] path@[i]).0) && path@[i].1 < 2 && !a[path@[i].0].isleaf
                && a[path@[i].0].value.aff.ok() && a[path@[i].0].value.aff.mat.ncols() == self.in_dim by {
                assert(a[path@[i].0].children[path@[i].1 as int] is Some);
                assert(!no_kids(a[path@[i].0]));
            }
        }
//@hint after let poly = self.polyhedral_path_characterization(&path);
        proof {
            let a = self.a();
            let root = self.tree.root.unwrap();
            assert forall|h: Map<usize, nat>, x: V| #![trigger reaches(a, h, root, x, node_idx)] ranked_down(a, h) && x.len() == self.in_dim && reaches(a, h, root, x, node_idx) implies poly.sat(x) by {
                lemma_path_hs(a, h, root, path@, node_idx, x, self.in_dim);
            }
            assert(edge_covers(a, root, node_idx, poly, self.in_dim));
        }
//@end
}

} // verus!
fn main() {}
