// ---- prelude/inc_tree_nav.rs : navigation operations of Tree (EdgeReference::edge, parent, child) ----
impl<'a, N> EdgeReference<'a, N> {
//@fn src/tree/graph.rs | impl<'a, N> EdgeReference<'a, N> | edge
//@spec
    ensures r.source_idx == self.source_idx, r.label == self.label, r.target_idx == self.target_idx
//@end
}

impl<N, const K: usize> Tree<N, K> {









//@fn src/tree/graph.rs | impl<N, const K: usize> Tree<N, K> | parent
//@spec
    requires parents_ok(self.arena@)
    ensures
        !self.arena@.dom().contains(node_idx) ==> (r matches Err(NodeError::InvalidIndex(e)) && e.index == node_idx),
        self.arena@.dom().contains(node_idx) && self.arena@[node_idx].parent is None
            ==> (r matches Err(NodeError::MissingParent { index }) && index == node_idx),
        self.arena@.dom().contains(node_idx) && self.arena@[node_idx].parent is Some ==> (r matches Ok(e)
            && Some(e.source_idx) == self.arena@[node_idx].parent && e.target_idx == node_idx && e.label < K
            && self.arena@[e.source_idx].children[e.label as int] == Some(node_idx)
            && (forall|l: int| 0 <= l < e.label ==> self.arena@[e.source_idx].children[l] != Some(node_idx))
            && *e.source_value == self.arena@[e.source_idx].value && *e.target_value == self.arena@[node_idx].value),
//@loop 1
        invariant
            parent.children.len() == K,
            *parent == self.arena@[parent_idx], *node == self.arena@[node_idx],
            node.parent == Some(parent_idx), self.arena@.dom().contains(node_idx), self.arena@.dom().contains(parent_idx),
            forall|l: int| 0 <= l < label ==> parent.children[l] != Some(node_idx),
//@end

//@fn src/tree/graph.rs | impl<N, const K: usize> Tree<N, K> | child
//@spec
    requires label < K
    ensures
        !self.arena@.dom().contains(node_idx) ==> (r matches Err(NodeError::InvalidIndex(e)) && e.index == node_idx),
        self.arena@.dom().contains(node_idx) && self.arena@[node_idx].children[label as int] is None
            ==> (r matches Err(NodeError::MissingChild { parent, label: l }) && parent == node_idx && l == label),
        self.arena@.dom().contains(node_idx) && self.arena@[node_idx].children[label as int] is Some
            && !self.arena@.dom().contains(self.arena@[node_idx].children[label as int].unwrap())
            ==> r is Err,
        self.arena@.dom().contains(node_idx) && self.arena@[node_idx].children[label as int] is Some
            && self.arena@.dom().contains(self.arena@[node_idx].children[label as int].unwrap())
            ==> (r matches Ok(e) && e.source_idx == node_idx && e.label == label
                && Some(e.target_idx) == self.arena@[node_idx].children[label as int]
                && *e.source_value == self.arena@[node_idx].value && *e.target_value == self.arena@[e.target_idx].value),
//@end
}
// ---- end inc_tree_nav ----
