// unit poly_lp — C15 (LP-driven clean-up) / C11: Polytope::remove_redundant_row_constraints and is_feasible (src/linalg/polyhedron.rs)
// with the LP solver (solve_linprog) and the row removal (remove_rows, a closure pipeline) as uninterpreted ORACLES.
// Proved about the real control flow: a row is dropped only on an Optimal answer whose objective value does not exceed the row's bound (+ eps);
// an Infeasible answer gives the canonical empty polytope OF THE INPUT DIMENSION; an LP Error is passed on as Err; Unbounded keeps the row;
// the result is the input with a set of rows removed (never anything else), so the ambient dimension is preserved.
use vstd::prelude::*;
use std::marker::PhantomData;
use std::mem;
use std::ops::{Add, Sub, Mul, Div, Neg};
verus! {
global size_of usize == 8;

//@include prelude/math.rs
//@include prelude/nd_shim.rs
//@include prelude/nd_shim_ops.rs
//@include prelude/inc_aff_core.rs
//@item src/linalg/polyhedron.rs | enum PolytopeStatus | no-debug

// ---------------------------------------------------------------- oracles
pub uninterp spec fn lp_solve(p: Polytope, coeffs: Array1<f64>) -> PolytopeStatus;
pub uninterp spec fn rows_removed(p: Polytope, idx: Seq<usize>) -> Polytope;
pub uninterp spec fn neg_vec(c: Array1<f64>) -> Array1<f64>;
pub uninterp spec fn dot_val(c: Array1<f64>, x: Array1<f64>) -> f64;
pub uninterp spec fn row_of(p: Polytope, i: int) -> Array1<f64>;
pub uninterp spec fn eps_added(b: f64) -> f64;
pub uninterp spec fn bias_at(p: Polytope, i: int) -> f64;

impl Polytope {
    // LP solver (C10): any answer, deterministic
    #[verifier::external_body]
    pub fn solve_linprog(&self, coeffs: Array1<f64>, _verbose: bool) -> (r: PolytopeStatus)
        ensures r == lp_solve(*self, coeffs)
    { unimplemented!() }
    // `self.remove_rows(indices.into_iter().rev())`: the polytope without the rows listed (descending list, removed in ascending order).
    // ASSUMED: the ambient dimension is kept (remove_rows is a filter over rows; checked bounded by bc cleanup / bc aff)
    #[verifier::external_body]
    pub fn remove_rows_desc(&self, indices: &Vec<usize>) -> (r: Polytope)
        ensures r == rows_removed(*self, indices@), r.ok(), r.mat.ncols() == self.mat.ncols()
    { unimplemented!() }
    // `self.bias[idx]`
    #[verifier::external_body]
    pub fn bias_owned(&self, idx: usize) -> (r: f64)
        requires idx < self.mat.nrows()
        ensures r == bias_at(*self, idx as int)
    { unimplemented!() }
    // `self.mat.row(idx).to_owned()`
    #[verifier::external_body]
    pub fn row_owned(&self, idx: usize) -> (r: Array1<f64>)
        requires idx < self.mat.nrows()
        ensures r == row_of(*self, idx as int)
    { unimplemented!() }
}
// `-costs.clone()`, `costs.dot(&point)`, `bound + f64::EPSILON`
#[verifier::external_body]
pub fn neg_clone(c: &Array1<f64>) -> (r: Array1<f64>) ensures r == neg_vec(*c) { unimplemented!() }
#[verifier::external_body]
pub fn dot11(c: &Array1<f64>, x: &Array1<f64>) -> (r: f64) ensures r == dot_val(*c, *x) { unimplemented!() }
#[verifier::external_body]
pub fn add_eps(b: f64) -> (r: f64) ensures r == eps_added(b) { unimplemented!() }
#[verifier::external_body]
pub fn clone_idx(v: &Vec<usize>) -> (r: Vec<usize>) ensures r@ == v@ { unimplemented!() }

impl<A: Float> PolytopeG<A> {
//@assumed units/aff_algebra.rs | empty
}
impl<D: Data<Elem = A>, A: Float> AffFuncBase<PolytopeT, D> {
//@fn src/linalg/affine.rs | impl<D: Data<Elem = A>, A: Float> AffFuncBase<PolytopeT, D> | n_constraints
//@spec
    ensures r == self.mat.nrows()
//@hint start
        broadcast use axiom_array2_shape;
//@end
}

// the certificate under which row idx is dropped, given the rows dropped before it
pub open spec fn drop_ok(p: Polytope, before: Seq<usize>, idx: usize) -> bool {
    let st = lp_solve(rows_removed(p, before.push(idx)), neg_vec(row_of(p, idx as int)));
    st is Optimal && fle_spec(dot_val(row_of(p, idx as int), st->Optimal_0), eps_added(bias_at(p, idx as int)))
}

impl Polytope {
//@fn src/linalg/polyhedron.rs | impl Polytope | remove_redundant_row_constraints
//@bodysub for idx in (0..self.n_constraints()).rev() { => let mut __r: usize = self.n_constraints(); while __r > 0 { __r -= 1; let idx = __r;
//@bodysub let mut indices = redundant.clone(); => let mut indices = clone_idx(&redundant);
//@bodysub self.remove_rows(indices.into_iter().rev()) => self.remove_rows_desc(&indices)
//@bodysub self.mat.row(idx).to_owned() => self.row_owned(idx)
//@bodysub let bound = self.bias[idx]; => let bound = self.bias_owned(idx);
//@bodysub poly.solve_linprog(-costs.clone(), false) => poly.solve_linprog(neg_clone(&costs), false)
//@bodysub costs.dot(&point) => dot11(&costs, &point)
//@bodysub val <= bound + f64::EPSILON => fle(val, add_eps(bound))
//@bodysub self.remove_rows(redundant.into_iter().rev()) => self.remove_rows_desc(&redundant)
//@spec
    requires self.ok()
    ensures
        match r {
            // an LP error is passed on, never swallowed
            Err(_) => exists|before: Seq<usize>, idx: usize| idx < self.mat.nrows() && #[trigger] lp_solve(rows_removed(*self, before.push(idx)), neg_vec(row_of(*self, idx as int))) is Error,
            Ok(q) => q.ok() && q.mat.ncols() == self.mat.ncols()      // the ambient dimension never changes
                && (
                    // either an LP call reported the remaining system infeasible: the canonical empty polytope of the input dimension
                    ((forall|x: V| x.len() == self.mat.ncols() ==> !#[trigger] q.sat(x))
                        && exists|before: Seq<usize>, idx: usize| idx < self.mat.nrows() && #[trigger] lp_solve(rows_removed(*self, before.push(idx)), neg_vec(row_of(*self, idx as int))) is Infeasible)
                    // or the input with a list of rows removed, each of them under an Optimal certificate whose value respects the row's bound
                    || exists|dropped: Seq<usize>| q == #[trigger] rows_removed(*self, dropped)
                        && (forall|k: int| 0 <= k < dropped.len() ==> (#[trigger] dropped[k]) < self.mat.nrows() && drop_ok(*self, dropped.take(k), dropped[k]))
                        && (forall|k1: int, k2: int| 0 <= k1 < k2 < dropped.len() ==> dropped[k1] > dropped[k2])
                ),
        },
//@loop 1 contract
            invariant
                self.ok(), 0 <= __r <= self.mat.nrows(),
                forall|k: int| 0 <= k < redundant@.len() ==> (#[trigger] redundant@[k]) < self.mat.nrows() && redundant@[k] >= __r && drop_ok(*self, redundant@.take(k), redundant@[k]),
                forall|k1: int, k2: int| 0 <= k1 < k2 < redundant@.len() ==> redundant@[k1] > redundant@[k2],
            decreases __r
//@hint loop 1 start
            let ghost red0 = redundant@;
//@hint after redundant.push(idx);
                        proof {
                            assert(redundant@.take(red0.len() as int) =~= red0);
                            assert(indices@ =~= red0.push(idx));
                            assert forall|k: int| 0 <= k < redundant@.len() implies (#[trigger] redundant@[k]) < self.mat.nrows() && redundant@[k] >= __r && drop_ok(*self, redundant@.take(k), redundant@[k]) by {
                                if k < red0.len() { assert(redundant@[k] == red0[k]); assert(redundant@.take(k) =~= red0.take(k)); }
                            }
                        }
//@end

//@fn src/linalg/polyhedron.rs | impl Polytope | is_feasible
//@bodysub self.status() => self.solve_status()
//@spec
    requires !(lp_status0(*self) is Error)      // documented panic: "Polytope is not well formed"
    ensures r == !(lp_status0(*self) is Infeasible)
//@end
}

pub uninterp spec fn lp_status0(p: Polytope) -> PolytopeStatus;
impl Polytope {
    #[verifier::external_body]
    pub fn solve_status(&self) -> (r: PolytopeStatus) ensures r == lp_status0(*self) { unimplemented!() }
}

// ---------------------------------------------------------------- remove_duplicate_rows: oracles for the numeric parts
pub uninterp spec fn normalized(p: Polytope) -> Polytope;
pub uninterp spec fn rows_close(n: Polytope, i: int, j: int) -> bool;      // relative_eq of row i and row j (matrix row and bias) of the normalized polytope
impl Polytope {
    // `self.clone().normalize()`: scaling of every row to unit length (numeric; bounded: bc cleanup)
    #[verifier::external_body]
    pub fn normalized_clone(&self) -> (r: Polytope) ensures r == normalized(*self) { unimplemented!() }
    // `ArrayView1::relative_eq(&n.mat.row(i), &n.mat.row(j), eps, max_rel) && A::relative_eq(&n.bias[i], &n.bias[j], eps, max_rel)` (approx crate)
    #[verifier::external_body]
    pub fn rows_rel_eq(&self, i: usize, j: usize) -> (r: bool) ensures r == rows_close(*self, i as int, j as int) { unimplemented!() }
}
// row i is dropped because an earlier row j < i is relative-equal to it after normalization
pub open spec fn dup_ok(p: Polytope, i: usize) -> bool {
    exists|j: int| 0 <= j < i && rows_close(normalized(p), i as int, j)
}

impl Polytope {
//@fn src/linalg/affine.rs | impl<A: Float + DivAssign + Sum + RelativeEq<A, Epsilon: Clone>> AffFuncBase<PolytopeT, OwnedRepr<A>> | remove_duplicate_rows
//@sigsub AffFuncBase<PolytopeT, OwnedRepr<A>> => Polytope
//@bodysub let normal = self.clone().normalize(); => let normal = self.normalized_clone();
//@bodysub for i in (0..self.n_constraints()).rev() { => let mut __i: usize = self.n_constraints(); while __i > 0 { __i -= 1; let i = __i;
//@bodysub for j in (0..i).rev() { => let mut __j: usize = i; while __j > 0 { __j -= 1; let j = __j;
//@bodysub let mat_eq = ArrayView1::relative_eq( &normal.mat.row(i), &normal.mat.row(j), A::default_epsilon(), A::default_max_relative(), ); => let mat_eq = normal.rows_rel_eq(i, j);
//@bodysub let bias_eq = A::relative_eq( &normal.bias[i], &normal.bias[j], A::default_epsilon(), A::default_max_relative(), ); => let bias_eq = true;
//@bodysub self.remove_rows(dups.into_iter().rev()) => self.remove_rows_desc(&dups)
//@spec
    requires self.ok()
    ensures
        // the input minus a strictly descending list of rows, each dropped only because an EARLIER row is relative-equal to it after normalization;
        // a row that has no such earlier row is kept (in particular row 0 and the first row of every group of duplicates)
        exists|dropped: Seq<usize>| r == #[trigger] rows_removed(*self, dropped)
            && (forall|k: int| 0 <= k < dropped.len() ==> (#[trigger] dropped[k]) < self.mat.nrows() && dup_ok(*self, dropped[k]))
            && (forall|k1: int, k2: int| 0 <= k1 < k2 < dropped.len() ==> dropped[k1] > dropped[k2])
            && (forall|i: usize| i < self.mat.nrows() && dup_ok(*self, i) ==> dropped.contains(i)),
        r.ok(), r.mat.ncols() == self.mat.ncols(),
//@loop 1 contract
            invariant
                self.ok(), 0 <= __i <= self.mat.nrows(), normal == normalized(*self),
                forall|k: int| 0 <= k < dups@.len() ==> (#[trigger] dups@[k]) < self.mat.nrows() && dups@[k] >= __i && dup_ok(*self, dups@[k]),
                forall|k1: int, k2: int| 0 <= k1 < k2 < dups@.len() ==> dups@[k1] > dups@[k2],
                forall|i2: usize| __i <= i2 < self.mat.nrows() && dup_ok(*self, i2) ==> dups@.contains(i2),
            decreases __i
//@loop 2
                invariant_except_break
                    dups@ == d0,
                    forall|j2: int| __j <= j2 < i ==> !rows_close(normal, i as int, j2),
                invariant
                    0 <= __j <= i, i == __i, i < self.mat.nrows(), normal == normalized(*self), self.ok(),
                ensures
                    (dups@ == d0 && forall|j2: int| 0 <= j2 < i ==> !rows_close(normal, i as int, j2))
                        || (dups@ == d0.push(i) && exists|j2: int| 0 <= j2 < i && rows_close(normal, i as int, j2)),
                decreases __j
//@hint loop 2 before
            let ghost d0 = dups@;
//@hint loop 2 after
            proof {
                if dups@ == d0 {
                    assert(!dup_ok(*self, i));
                } else {
                    assert(dup_ok(*self, i));
                    assert forall|k: int| 0 <= k < dups@.len() implies (#[trigger] dups@[k]) < self.mat.nrows() && dups@[k] >= __i && dup_ok(*self, dups@[k]) by {
                        if k < d0.len() { assert(dups@[k] == d0[k]); }
                    }
                    assert forall|k1: int, k2: int| 0 <= k1 < k2 < dups@.len() implies dups@[k1] > dups@[k2] by {
                        assert(dups@[k1] == d0[k1]);
                        if k2 < d0.len() { assert(dups@[k2] == d0[k2]); }
                    }
                }
                assert forall|i2: usize| __i <= i2 < self.mat.nrows() && dup_ok(*self, i2) implies dups@.contains(i2) by {
                    if i2 == i { assert(dups@[d0.len() as int] == i); }
                    else { assert(d0.contains(i2)); let k = choose|k: int| 0 <= k < d0.len() && d0[k] == i2; assert(dups@[k] == i2); }
                }
            }
//@end
}

} // verus!
fn main() {}
