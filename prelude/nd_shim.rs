// ---- prelude/nd_shim.rs : the part of `ndarray` / `num_traits` the extracted code touches ----
// Every function here is `external_body` with an ASSUMED contract in exact real arithmetic (assumption
// "f64 read as reals"); the contracts are exercised against the real ndarray by `bc aff` / `bc poly`.
// Views: matrices as Seq<Seq<real>> (`m()`), vectors as Seq<real> (`v()`).

pub trait Float: Sized + Copy {
    spec fn rv(self) -> real;
    spec fn nan(self) -> bool;
    spec fn inf(self) -> bool;
    fn one() -> (r: Self) ensures r.rv() == 1real, !r.nan(), !r.inf();
    fn zero() -> (r: Self) ensures r.rv() == 0real, !r.nan(), !r.inf();
    fn is_nan(self) -> (r: bool) ensures r == self.nan();
    fn is_infinite(self) -> (r: bool) ensures r == self.inf();
}
impl Float for f64 {
    uninterp spec fn rv(self) -> real;
    uninterp spec fn nan(self) -> bool;
    uninterp spec fn inf(self) -> bool;
    #[verifier::external_body] fn one() -> (r: Self) { 1.0 }
    #[verifier::external_body] fn zero() -> (r: Self) { 0.0 }
    #[verifier::external_body] fn is_nan(self) -> (r: bool) { f64::is_nan(self) }
    #[verifier::external_body] fn is_infinite(self) -> (r: bool) { f64::is_infinite(self) }
}
pub trait LinalgScalar: Sized {}
impl LinalgScalar for f64 {}

// rule F1: scalar float operators are replaced by these helpers (exact-real contracts)
#[verifier::external_body]
pub fn fneg<A: Float>(x: A) -> (r: A)
    ensures r.rv() == -x.rv(), r.nan() == x.nan(), r.inf() == x.inf()
{ unimplemented!() }
#[verifier::external_body]
pub fn fsub<A: Float>(x: A, y: A) -> (r: A)
    ensures !x.nan() && !y.nan() && !x.inf() && !y.inf() ==> r.rv() == x.rv() - y.rv() && !r.nan() && !r.inf()
{ unimplemented!() }
#[verifier::external_body]
pub fn fdiv<A: Float>(x: A, y: A) -> (r: A)
    ensures !x.nan() && !y.nan() && !x.inf() && !y.inf() && y.rv() != 0real ==> r.rv() == x.rv() / y.rv() && !r.nan() && !r.inf()
{ unimplemented!() }
pub uninterp spec fn fle_spec<A: Float>(x: A, y: A) -> bool;
#[verifier::external_body]
pub fn fle<A: Float>(x: A, y: A) -> (r: bool)
    ensures r == fle_spec(x, y), !x.nan() && !y.nan() && !x.inf() && !y.inf() ==> r == (x.rv() <= y.rv())
{ unimplemented!() }
// literal with a known real value
#[verifier::external_body]
pub fn flit(num: i64, den: u64) -> (r: f64)
    requires den > 0
    ensures r.rv() == (num as real) / (den as real), !r.nan(), !r.inf()
{ unimplemented!() }

pub trait Data { type Elem; }
pub trait DataOwned: Data {}
pub trait DataMut: Data {}
pub trait RawDataClone: Data {}
pub struct OwnedRepr<A> { _a: PhantomData<A> }
pub struct ViewRepr<A> { _a: PhantomData<A> }
impl<A> Data for OwnedRepr<A> { type Elem = A; }
impl<A> DataOwned for OwnedRepr<A> {}
impl<A> DataMut for OwnedRepr<A> {}
impl<A> RawDataClone for OwnedRepr<A> {}
impl<'a, A> Data for ViewRepr<&'a A> { type Elem = A; }
impl<'a, A> RawDataClone for ViewRepr<&'a A> {}
pub struct Ix1;
pub struct Ix2;
pub struct Axis(pub usize);

#[verifier::external_body]
#[verifier::accept_recursive_types(S)]
#[verifier::accept_recursive_types(D)]
pub struct ArrayBase<S: Data, D> { _s: PhantomData<S>, _d: PhantomData<D> }
pub type Array1<A> = ArrayBase<OwnedRepr<A>, Ix1>;
pub type Array2<A> = ArrayBase<OwnedRepr<A>, Ix2>;
pub type ArrayView1<'a, A> = ArrayBase<ViewRepr<&'a A>, Ix1>;
pub type ArrayView2<'a, A> = ArrayBase<ViewRepr<&'a A>, Ix2>;

impl<S: Data> ArrayBase<S, Ix2> {
    pub uninterp spec fn m(&self) -> M;
    pub uninterp spec fn nrows(&self) -> int;
    pub uninterp spec fn ncols(&self) -> int;
}
impl<S: Data> ArrayBase<S, Ix1> {
    pub uninterp spec fn v(&self) -> V;
}
// every array has a shape and its view has that shape (type invariant of ndarray)
pub broadcast axiom fn axiom_array2_shape<S: Data>(a: &ArrayBase<S, Ix2>)
    ensures #[trigger] a.nrows() >= 0, a.ncols() >= 0, a.nrows() <= usize::MAX, a.ncols() <= usize::MAX, m_ok(a.m(), a.nrows(), a.ncols());
pub broadcast axiom fn axiom_array1_shape<S: Data>(a: &ArrayBase<S, Ix1>)
    ensures #[trigger] a.v().len() <= usize::MAX;

impl<A, S: Data<Elem = A>> ArrayBase<S, Ix2> {
    #[verifier::external_body]
    pub fn len_of(&self, axis: Axis) -> (r: usize)
        requires axis.0 < 2
        ensures r == (if axis.0 == 0 { self.nrows() } else { self.ncols() })
    { unimplemented!() }
    #[verifier::external_body]
    pub fn shape(&self) -> (r: &[usize])
        ensures r@.len() == 2, r@[0] == self.nrows(), r@[1] == self.ncols()
    { unimplemented!() }
    #[verifier::external_body]
    pub fn t(&self) -> (r: ArrayView2<'_, A>)
        ensures r.nrows() == self.ncols(), r.ncols() == self.nrows(), r.m() == transpose(self.m(), self.ncols())
    { unimplemented!() }
    #[verifier::external_body]
    pub fn view(&self) -> (r: ArrayView2<'_, A>)
        ensures r.nrows() == self.nrows(), r.ncols() == self.ncols(), r.m() == self.m()
    { unimplemented!() }
    #[verifier::external_body]
    pub fn to_owned(&self) -> (r: Array2<A>)
        ensures r.nrows() == self.nrows(), r.ncols() == self.ncols(), r.m() == self.m()
    { unimplemented!() }
}
impl<A, S: Data<Elem = A>> ArrayBase<S, Ix1> {
    #[verifier::external_body]
    pub fn len_of(&self, axis: Axis) -> (r: usize)
        requires axis.0 < 1
        ensures r == self.v().len()
    { unimplemented!() }
    #[verifier::external_body]
    pub fn shape(&self) -> (r: &[usize])
        ensures r@.len() == 1, r@[0] == self.v().len()
    { unimplemented!() }
    #[verifier::external_body]
    pub fn view(&self) -> (r: ArrayView1<'_, A>)
        ensures r.v() == self.v()
    { unimplemented!() }
    #[verifier::external_body]
    pub fn to_owned(&self) -> (r: Array1<A>)
        ensures r.v() == self.v()
    { unimplemented!() }
}
impl<S: Data + RawDataClone> Clone for ArrayBase<S, Ix2> {
    #[verifier::external_body]
    fn clone(&self) -> (r: Self)
        ensures r.nrows() == self.nrows(), r.ncols() == self.ncols(), r.m() == self.m()
    { unimplemented!() }
}
impl<S: Data + RawDataClone> Clone for ArrayBase<S, Ix1> {
    #[verifier::external_body]
    fn clone(&self) -> (r: Self)
        ensures r.v() == self.v()
    { unimplemented!() }
}

impl<A: Float> ArrayBase<OwnedRepr<A>, Ix2> {
    #[verifier::external_body]
    pub fn eye(n: usize) -> (r: Self) ensures r.nrows() == n, r.ncols() == n, r.m() == eye(n as int)
    { unimplemented!() }
    #[verifier::external_body]
    pub fn zeros(sh: (usize, usize)) -> (r: Self) ensures r.nrows() == sh.0, r.ncols() == sh.1, r.m() == mconst(sh.0 as int, sh.1 as int, 0real)
    { unimplemented!() }
    #[verifier::external_body]
    pub fn ones(sh: (usize, usize)) -> (r: Self) ensures r.nrows() == sh.0, r.ncols() == sh.1, r.m() == mconst(sh.0 as int, sh.1 as int, 1real)
    { unimplemented!() }
    #[verifier::external_body]
    pub fn from_diag<S2: Data<Elem = A>>(d: &ArrayBase<S2, Ix1>) -> (r: Self) ensures r.nrows() == d.v().len(), r.ncols() == d.v().len(), r.m() == diag(d.v())
    { unimplemented!() }
}
impl<A: Float> ArrayBase<OwnedRepr<A>, Ix1> {
    #[verifier::external_body]
    pub fn zeros(n: usize) -> (r: Self) ensures r.v() == vconst(n as int, 0real)
    { unimplemented!() }
    #[verifier::external_body]
    pub fn ones(n: usize) -> (r: Self) ensures r.v() == vconst(n as int, 1real)
    { unimplemented!() }
    #[verifier::external_body]
    pub fn from_elem(n: usize, x: A) -> (r: Self) ensures r.v() == vconst(n as int, x.rv())
    { unimplemented!() }
}
#[verifier::external_body]
pub fn arr1<A: Float>(xs: &[A]) -> (r: Array1<A>)
    ensures r.v().len() == xs@.len(), forall|i: int| 0 <= i < xs@.len() ==> r.v()[i] == (#[trigger] xs@[i]).rv()
{ unimplemented!() }

// ---- indexing
impl<A: Float> vstd::std_specs::core::IndexSpecImpl<[usize; 2]> for ArrayBase<OwnedRepr<A>, Ix2> {
    open spec fn index_req(&self, ix: &[usize; 2]) -> bool { ix[0] < self.nrows() && ix[1] < self.ncols() }
}
impl<A: Float> core::ops::Index<[usize; 2]> for ArrayBase<OwnedRepr<A>, Ix2> {
    type Output = A;
    #[verifier::external_body]
    fn index(&self, ix: [usize; 2]) -> (r: &A) ensures r.rv() == self.m()[ix[0] as int][ix[1] as int], !r.nan(), !r.inf() { unimplemented!() }
}
impl<A: Float> core::ops::IndexMut<[usize; 2]> for ArrayBase<OwnedRepr<A>, Ix2> {
    #[verifier::external_body]
    fn index_mut(&mut self, ix: [usize; 2]) -> (r: &mut A)
        ensures r.rv() == old(self).m()[ix[0] as int][ix[1] as int],
            final(self).m() == mset(old(self).m(), ix[0] as int, ix[1] as int, final(r).rv()),
            final(self).nrows() == old(self).nrows(), final(self).ncols() == old(self).ncols(),
    { unimplemented!() }
}
impl<A: Float> vstd::std_specs::core::IndexSpecImpl<usize> for ArrayBase<OwnedRepr<A>, Ix1> {
    open spec fn index_req(&self, ix: &usize) -> bool { *ix < self.v().len() }
}
impl<A: Float> core::ops::Index<usize> for ArrayBase<OwnedRepr<A>, Ix1> {
    type Output = A;
    #[verifier::external_body]
    fn index(&self, ix: usize) -> (r: &A) ensures r.rv() == self.v()[ix as int], !r.nan(), !r.inf() { unimplemented!() }
}
impl<A: Float> core::ops::IndexMut<usize> for ArrayBase<OwnedRepr<A>, Ix1> {
    #[verifier::external_body]
    fn index_mut(&mut self, ix: usize) -> (r: &mut A)
        ensures r.rv() == old(self).v()[ix as int], final(self).v() == old(self).v().update(ix as int, final(r).rv()),
    { unimplemented!() }
}

// ---- products
pub trait Dot<Rhs> {
    type Output;
    spec fn dot_req(&self, rhs: &Rhs) -> bool;
    spec fn dot_ens(&self, rhs: &Rhs, out: &Self::Output) -> bool;
    fn dot(&self, rhs: &Rhs) -> (out: Self::Output)
        requires self.dot_req(rhs)
        ensures self.dot_ens(rhs, &out);
}
impl<A, S: Data<Elem = A>, S2: Data<Elem = A>> Dot<ArrayBase<S2, Ix2>> for ArrayBase<S, Ix2> {
    type Output = Array2<A>;
    open spec fn dot_req(&self, rhs: &ArrayBase<S2, Ix2>) -> bool { self.ncols() == rhs.nrows() }
    open spec fn dot_ens(&self, rhs: &ArrayBase<S2, Ix2>, out: &Array2<A>) -> bool {
        out.nrows() == self.nrows() && out.ncols() == rhs.ncols() && out.m() == mm(self.m(), rhs.m(), rhs.ncols())
    }
    #[verifier::external_body]
    fn dot(&self, rhs: &ArrayBase<S2, Ix2>) -> (out: Array2<A>) { unimplemented!() }
}
impl<A, S: Data<Elem = A>, S2: Data<Elem = A>> Dot<ArrayBase<S2, Ix1>> for ArrayBase<S, Ix2> {
    type Output = Array1<A>;
    open spec fn dot_req(&self, rhs: &ArrayBase<S2, Ix1>) -> bool { self.ncols() == rhs.v().len() }
    open spec fn dot_ens(&self, rhs: &ArrayBase<S2, Ix1>, out: &Array1<A>) -> bool { out.v() == mv(self.m(), rhs.v()) }
    #[verifier::external_body]
    fn dot(&self, rhs: &ArrayBase<S2, Ix1>) -> (out: Array1<A>) { unimplemented!() }
}

// ---- boolean vectors (result of `.map(|x| *x <= 0.)` in evaluate_decision, rule C1)
impl ArrayBase<OwnedRepr<bool>, Ix1> {
    pub uninterp spec fn bv(&self) -> Seq<bool>;
    #[verifier::external_body]
    pub fn len_of_b(&self, axis: Axis) -> (r: usize)
        requires axis.0 < 1
        ensures r == self.bv().len()
    { unimplemented!() }
    #[verifier::external_body]
    pub fn at_b(&self, i: usize) -> (r: bool)
        requires i < self.bv().len()
        ensures r == self.bv()[i as int]
    { unimplemented!() }
}
// what `arr.map(|x| *x <= 0.)` computes
#[verifier::external_body]
pub fn nd_le_zero(arr: &Array1<f64>) -> (r: ArrayBase<OwnedRepr<bool>, Ix1>)
    ensures r.bv().len() == arr.v().len(), forall|i: int| 0 <= i < arr.v().len() ==> r.bv()[i] == (arr.v()[i] <= 0real)
{ unimplemented!() }

// ---- concatenation along axis 0 (`concatenate![Axis(0), a, b]`)
pub trait NdConcat<Rhs> {
    type Output;
    spec fn cat_req(&self, axis: Axis, rhs: &Rhs) -> bool;
    spec fn cat_ens(&self, rhs: &Rhs, out: &Self::Output) -> bool;
    fn concat(&self, axis: Axis, rhs: &Rhs) -> (out: Self::Output)
        requires self.cat_req(axis, rhs)
        ensures self.cat_ens(rhs, &out);
}
impl<A, S: Data<Elem = A>, S2: Data<Elem = A>> NdConcat<ArrayBase<S2, Ix2>> for ArrayBase<S, Ix2> {
    type Output = Array2<A>;
    open spec fn cat_req(&self, axis: Axis, rhs: &ArrayBase<S2, Ix2>) -> bool { axis.0 == 0 && self.ncols() == rhs.ncols() }
    open spec fn cat_ens(&self, rhs: &ArrayBase<S2, Ix2>, out: &Array2<A>) -> bool {
        out.nrows() == self.nrows() + rhs.nrows() && out.ncols() == self.ncols() && out.m() == self.m() + rhs.m()
    }
    #[verifier::external_body]
    fn concat(&self, axis: Axis, rhs: &ArrayBase<S2, Ix2>) -> (out: Array2<A>) { unimplemented!() }
}
impl<A, S: Data<Elem = A>, S2: Data<Elem = A>> NdConcat<ArrayBase<S2, Ix1>> for ArrayBase<S, Ix1> {
    type Output = Array1<A>;
    open spec fn cat_req(&self, axis: Axis, rhs: &ArrayBase<S2, Ix1>) -> bool { axis.0 == 0 }
    open spec fn cat_ens(&self, rhs: &ArrayBase<S2, Ix1>, out: &Array1<A>) -> bool { out.v() == self.v() + rhs.v() }
    #[verifier::external_body]
    fn concat(&self, axis: Axis, rhs: &ArrayBase<S2, Ix1>) -> (out: Array1<A>) { unimplemented!() }
}
// ---- end nd_shim (operator instances: nd_shim_ops.rs, generated by gen_nd_ops.py) ----
