// ---- prelude/cat_spec.rs : row-wise concatenation of several {x | M_k x <= b_k} (Polytope::intersection_n) and what it means row predicate by row predicate ----
pub open spec fn cat_rows(ms: Seq<M>, n: int) -> M decreases n { if n <= 0 { Seq::<V>::empty() } else { cat_rows(ms, n - 1) + ms[n - 1] } }
pub open spec fn cat_vals(bs: Seq<V>, n: int) -> V decreases n { if n <= 0 { Seq::<real>::empty() } else { cat_vals(bs, n - 1) + bs[n - 1] } }
// every row (m[i], b[i]) has the property f
pub open spec fn rows_all(m: M, b: V, f: spec_fn(V, real) -> bool) -> bool { forall|i: int| 0 <= i < m.len() ==> #[trigger] f(m[i], b[i]) }
pub open spec fn parts_fit(ms: Seq<M>, bs: Seq<V>) -> bool { ms.len() == bs.len() && forall|k: int| 0 <= k < ms.len() ==> (#[trigger] ms[k]).len() == bs[k].len() }
pub proof fn lemma_cat_len(ms: Seq<M>, bs: Seq<V>, n: int)
    requires parts_fit(ms, bs), 0 <= n <= ms.len()
    ensures cat_rows(ms, n).len() == cat_vals(bs, n).len()
    decreases n
{ if n > 0 { lemma_cat_len(ms, bs, n - 1); } }
// the rows of the concatenation all have f  <=>  the rows of every part all have f
pub proof fn lemma_cat_rows_all(ms: Seq<M>, bs: Seq<V>, n: int, f: spec_fn(V, real) -> bool)
    requires parts_fit(ms, bs), 0 <= n <= ms.len()
    ensures rows_all(cat_rows(ms, n), cat_vals(bs, n), f) <==> forall|k: int| 0 <= k < n ==> rows_all(#[trigger] ms[k], bs[k], f)
    decreases n
{
    if n > 0 {
        lemma_cat_rows_all(ms, bs, n - 1, f);
        lemma_cat_len(ms, bs, n - 1);
        let m0 = cat_rows(ms, n - 1); let b0 = cat_vals(bs, n - 1); let m1 = ms[n - 1]; let b1 = bs[n - 1];
        let l0 = m0.len() as int;
        if rows_all(m0 + m1, b0 + b1, f) {
            assert forall|i: int| 0 <= i < m0.len() implies #[trigger] f(m0[i], b0[i]) by { assert((m0 + m1)[i] == m0[i] && (b0 + b1)[i] == b0[i]); assert(f((m0 + m1)[i], (b0 + b1)[i])); }
            assert forall|i: int| 0 <= i < m1.len() implies #[trigger] f(m1[i], b1[i]) by { assert((m0 + m1)[i + l0] == m1[i] && (b0 + b1)[i + l0] == b1[i]); assert(f((m0 + m1)[i + l0], (b0 + b1)[i + l0])); }
            assert forall|k: int| 0 <= k < n implies rows_all(#[trigger] ms[k], bs[k], f) by { if k == n - 1 { assert(rows_all(m1, b1, f)); } }
        }
        if forall|k: int| 0 <= k < n ==> rows_all(#[trigger] ms[k], bs[k], f) {
            assert(rows_all(ms[n - 1], bs[n - 1], f));
            assert(forall|k: int| 0 <= k < n - 1 ==> rows_all(#[trigger] ms[k], bs[k], f));
            assert forall|i: int| 0 <= i < (m0 + m1).len() implies #[trigger] f((m0 + m1)[i], (b0 + b1)[i]) by {
                if i < l0 { assert((m0 + m1)[i] == m0[i] && (b0 + b1)[i] == b0[i]); assert(f(m0[i], b0[i])); }
                else { assert((m0 + m1)[i] == m1[i - l0] && (b0 + b1)[i] == b1[i - l0]); assert(f(m1[i - l0], b1[i - l0])); }
            }
        }
    }
}
pub open spec fn sat_row_fn(x: V) -> spec_fn(V, real) -> bool { |r: V, c: real| dotp(r, x, x.len() as int) <= c }
pub open spec fn tol_row_fn(w: V) -> spec_fn(V, real) -> bool { |r: V, c: real| c - dotp(r, w, w.len() as int) >= -tol() }
pub proof fn lemma_tol_rows_all(m: M, b: V, w: V)
    ensures tol_sat(m, b, w) <==> rows_all(m, b, tol_row_fn(w))
{
    if tol_sat(m, b, w) { assert forall|i: int| 0 <= i < m.len() implies #[trigger] tol_row_fn(w)(m[i], b[i]) by { assert(tol_row(m, b, w, i)); } }
    if rows_all(m, b, tol_row_fn(w)) { assert forall|i: int| 0 <= i < m.len() implies #[trigger] tol_row(m, b, w, i) by { assert(tol_row_fn(w)(m[i], b[i])); } }
}
// the parts of an intersection_n call as row lists
pub open spec fn part_ms<D: Data<Elem = A>, A: Float>(ps: Seq<AffFuncBase<PolytopeT, D>>) -> Seq<M> { Seq::new(ps.len(), |k: int| ps[k].mat.m()) }
pub open spec fn part_bs<D: Data<Elem = A>, A: Float>(ps: Seq<AffFuncBase<PolytopeT, D>>) -> Seq<V> { Seq::new(ps.len(), |k: int| ps[k].bias.v()) }
// ---- end cat_spec ----
