// unit tree_graph — C12: arena consistency of Tree<N,K> (src/tree/graph.rs)
use vstd::prelude::*;
verus! {

pub type TreeIndex = usize;
pub type Label = usize;

//@include prelude/slab_shim.rs

//@item src/tree/graph.rs | struct TreeNode
//@item src/tree/graph.rs | struct InvalidTreeIndexError | pub-fields
//@item src/tree/graph.rs | enum NodeError
//@item src/tree/graph.rs | struct Tree | pub-fields
//@item src/tree/graph.rs | struct Edge
//@item src/tree/graph.rs | struct EdgeReference

// rule D4: what `#[from]` on NodeError::InvalidIndex expands to
impl From<InvalidTreeIndexError> for NodeError {
    fn from(e: InvalidTreeIndexError) -> (r: Self) ensures r == NodeError::InvalidIndex(e) { NodeError::InvalidIndex(e) }
}
impl vstd::std_specs::convert::FromSpecImpl<InvalidTreeIndexError> for NodeError {
    open spec fn obeys_from_spec() -> bool { true }
    open spec fn from_spec(e: InvalidTreeIndexError) -> NodeError { NodeError::InvalidIndex(e) }
}

//@include prelude/tree_spec.rs

impl<T, const K: usize> TreeNode<T, K> {
//@fn src/tree/graph.rs | impl<T, const K: usize> TreeNode<T, K> | new
//@spec
    ensures r.isleaf, r.parent == parent, r.value == value, no_kids(r)
//@end
}

impl<N, const K: usize> Tree<N, K> {
    pub open spec fn wf(&self) -> bool { wf_at(self.arena@, self.root) }

//@fn src/tree/graph.rs | impl<N, const K: usize> Tree<N, K> | len
//@spec
    ensures r == self.arena@.dom().len()
//@end

//@fn src/tree/graph.rs | impl<N, const K: usize> Tree<N, K> | is_empty
//@spec
    ensures r == (self.arena@.dom().len() == 0)
//@end

//@fn src/tree/graph.rs | impl<N, const K: usize> Tree<N, K> | tree_node
//@spec
    ensures
        self.arena@.dom().contains(idx) ==> r is Ok && *r->Ok_0 == self.arena@[idx],
        !self.arena@.dom().contains(idx) ==> r is Err && r->Err_0.index == idx,
//@end

//@fn src/tree/graph.rs | impl<N, const K: usize> Tree<N, K> | tree_node_mut
//@spec
    ensures
        !old(self).arena@.dom().contains(idx) ==> r is Err && r->Err_0.index == idx && final(self).arena@ == old(self).arena@,
        old(self).arena@.dom().contains(idx) ==> r is Ok && *r->Ok_0 == old(self).arena@[idx]
            && final(self).arena@ == old(self).arena@.insert(idx, *final(r->Ok_0)),
        final(self).root == old(self).root,
//@end

//@fn src/tree/graph.rs | impl<N, const K: usize> Tree<N, K> | contains
//@spec
    ensures r == self.arena@.dom().contains(node_idx)
//@end

//@fn src/tree/graph.rs | impl<N, const K: usize> Tree<N, K> | is_root
//@spec
    ensures r == (self.root == Some(idx))
//@end

//@fn src/tree/graph.rs | impl<N, const K: usize> Tree<N, K> | num_children
//@spec
    requires self.arena@.dom().contains(node)
    ensures r == count_some_from(self.arena@[node].children, 0), r <= K
//@end

}

} // verus!
fn main() {}
