// unit tree_graph — C12: arena consistency of Tree<N,K> (src/tree/graph.rs)
use vstd::prelude::*;
use std::mem;
verus! {

pub type TreeIndex = usize;
pub type Label = usize;

//@include prelude/slab_shim.rs

//@item src/tree/graph.rs | struct TreeNode
//@item src/tree/graph.rs | struct InvalidTreeIndexError | pub-fields
//@item src/tree/graph.rs | enum NodeError
//@item src/tree/graph.rs | struct Tree | pub-fields
//@item src/tree/graph.rs | struct Edge
//@item src/tree/graph.rs | struct EdgeReference

// rule D4: what `#[from]` on NodeError::InvalidIndex expands to
impl From<InvalidTreeIndexError> for NodeError {
    fn from(e: InvalidTreeIndexError) -> (r: Self) ensures r == NodeError::InvalidIndex(e) { NodeError::InvalidIndex(e) }
}
impl vstd::std_specs::convert::FromSpecImpl<InvalidTreeIndexError> for NodeError {
    open spec fn obeys_from_spec() -> bool { true }
    open spec fn from_spec(e: InvalidTreeIndexError) -> NodeError { NodeError::InvalidIndex(e) }
}

// assumption A-from: the error conversion performed by `?` is the `From` impl above
pub mod ax {
    use super::*;
    pub broadcast axiom fn axiom_from_invalid_index(e: InvalidTreeIndexError, r: NodeError)
        ensures #[trigger] vstd::std_specs::control_flow::spec_from::<NodeError, InvalidTreeIndexError>(e, r) ==> r == NodeError::InvalidIndex(e);
}
broadcast use ax::axiom_from_invalid_index;

//@include prelude/tree_spec.rs
//@include prelude/tree_helpers.rs

//@include prelude/tree_lemmas.rs

//@include prelude/inc_tree_core.rs

//@include prelude/inc_tree_edit.rs

} // verus!
fn main() {}
