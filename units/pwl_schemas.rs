// unit pwl_schemas — C17: predefined trees equal their definitions (src/distill/schema.rs)
use vstd::prelude::*;
use std::marker::PhantomData;
use std::mem;
use std::ops::{Add, Sub, Mul, Div, Neg};
verus! {
global size_of usize == 8;

//@include prelude/inc_pwl_core.rs

// one-row decisions: label 1 iff the row holds
pub proof fn lemma_decide_one_row(aff: &AffFunc, x: V)
    requires aff.mat.nrows() == 1
    ensures decide(aff, x) == (if aff.row_sat(0, x) { 1int } else { 0int })
{
    assert((1usize << 0usize) == 1usize) by(bit_vector);
    assert(label_val(aff, x, 0) == 0);
}

// value of a tree at a binary one-row decision whose selected child exists
pub proof fn lemma_tree_fn_decision<const K: usize>(a: AArena<K>, h: Map<usize, nat>, idx: usize, x: V)
    requires ranked_down(a, h), a.dom().contains(idx), !a[idx].isleaf, a[idx].value.aff.mat.nrows() == 1, K >= 2,
        a[idx].children[0].is_some(), a[idx].children[1].is_some(),
    ensures tree_fn(a, h, idx, x) == (if a[idx].value.aff.row_sat(0, x) { tree_fn(a, h, a[idx].children[1].unwrap(), x) } else { tree_fn(a, h, a[idx].children[0].unwrap(), x) })
{
    lemma_decide_one_row(&a[idx].value.aff, x);
}
pub proof fn lemma_tree_fn_leaf<const K: usize>(a: AArena<K>, h: Map<usize, nat>, idx: usize, x: V)
    requires a[idx].isleaf
    ensures tree_fn(a, h, idx, x) == Some(a[idx].value.aff.ap(x))
{}

//@include prelude/textbook_spec.rs

//@fn src/distill/schema.rs | - | partial_ReLU
//@spec
    requires row < dim
    ensures
        r.tree.wf(), r.tree.root == Some(0usize), r.in_dim == dim, aff_shape_ok(r.a(), dim),
        // every terminal maps into the same space
        forall|i: usize| r.a().dom().contains(i) && #[trigger] r.a()[i].isleaf ==> r.a()[i].value.aff.mat.nrows() == dim,
        // changes exactly component `row` to max(0, x_row), for every input (breakpoint x_row == 0 included)
        forall|h: Map<usize, nat>, x: V| ranked_down(r.a(), h) && x.len() == dim ==>
            #[trigger] tree_fn(r.a(), h, 0, x) == Some(x.update(row as int, relu(x[row as int]))),
//@hint end
        proof {
            let a = dd.a();
            let c0 = a[0].children[0].unwrap();
            let c1 = a[0].children[1].unwrap();
            assert((1usize << 1usize) == 2usize) by(bit_vector);
            assert forall|i: usize| a.dom().contains(i) implies i == 0 || i == c0 || i == c1 by {}
            assert forall|h: Map<usize, nat>, x: V| ranked_down(a, h) && x.len() == dim implies
                #[trigger] tree_fn(a, h, 0, x) == Some(x.update(row as int, relu(x[row as int]))) by {
                lemma_tree_fn_decision(a, h, 0, x);
                lemma_tree_fn_leaf(a, h, c0, x);
                lemma_tree_fn_leaf(a, h, c1, x);
                // predicate of the root: x_row <= 0
                let rw = a[0].value.aff.mat.m()[0];
                lemma_dotp_unit(rw, x, dim as int, row as int, 1real);
                assert(1real * x[row as int] == x[row as int]) by(nonlinear_arith);
                if x[row as int] > 0real { assert(x.update(row as int, x[row as int]) =~= x); }
            }
        }
//@end


// dot product with a row that is zero except for coefficient s at position p
pub proof fn lemma_unit_row(rw: V, x: V, dim: int, p: int, s: real)
    requires rw == mconst(1, dim, 0real)[0].update(p, s), x.len() == dim, 0 <= p < dim
    ensures dotp(rw, x, dim) == s * x[p]
{
    lemma_dotp_unit(rw, x, dim, p, s);
}
// identity matrix with entry (p,p) replaced by s
pub proof fn lemma_scaled_identity(mt: M, b: V, x: V, dim: int, p: int, s: real, c: real)
    requires mt == mset(eye(dim), p, p, s), b == vconst(dim, 0real).update(p, c), x.len() == dim, 0 <= p < dim
    ensures vadd(mv(mt, x), b) =~= x.update(p, s * x[p] + c)
{
    assert forall|i: int| 0 <= i < dim implies vadd(mv(mt, x), b)[i] == x.update(p, s * x[p] + c)[i] by {
        lemma_dotp_unit(mt[i], x, dim, i, if i == p { s } else { 1real });
        assert(1real * x[i] == x[i]) by(nonlinear_arith);
    }
}

//@fn src/distill/schema.rs | - | partial_leaky_ReLU
//@spec
    requires row < dim, finite(alpha)
    ensures
        r.tree.wf(), r.tree.root == Some(0usize), r.in_dim == dim, aff_shape_ok(r.a(), dim),
        // every terminal maps into the same space
        forall|i: usize| r.a().dom().contains(i) && #[trigger] r.a()[i].isleaf ==> r.a()[i].value.aff.mat.nrows() == dim,
        forall|h: Map<usize, nat>, x: V| ranked_down(r.a(), h) && x.len() == dim ==>
            #[trigger] tree_fn(r.a(), h, 0, x) == Some(x.update(row as int, leaky_relu(x[row as int], alpha.rv()))),
//@hint end
        proof {
            let a = dd.a();
            let c0 = a[0].children[0].unwrap();
            let c1 = a[0].children[1].unwrap();
            assert((1usize << 1usize) == 2usize) by(bit_vector);
            assert forall|i: usize| a.dom().contains(i) implies i == 0 || i == c0 || i == c1 by {}
            assert forall|h: Map<usize, nat>, x: V| ranked_down(a, h) && x.len() == dim implies
                #[trigger] tree_fn(a, h, 0, x) == Some(x.update(row as int, leaky_relu(x[row as int], alpha.rv()))) by {
                lemma_tree_fn_decision(a, h, 0, x);
                lemma_tree_fn_leaf(a, h, c0, x);
                lemma_tree_fn_leaf(a, h, c1, x);
                lemma_dotp_unit(a[0].value.aff.mat.m()[0], x, dim as int, row as int, 1real);
                assert(1real * x[row as int] == x[row as int]) by(nonlinear_arith);
                assert(mset(mset(eye(dim as int), row as int, row as int, 0real), row as int, row as int, alpha.rv()) =~~= mset(eye(dim as int), row as int, row as int, alpha.rv()));
                assert(vconst(dim as int, 0real).update(row as int, 0real) =~= vconst(dim as int, 0real));
                lemma_scaled_identity(a[c1].value.aff.mat.m(), a[c1].value.aff.bias.v(), x, dim as int, row as int, alpha.rv(), 0real);
                if x[row as int] > 0real { assert(x.update(row as int, x[row as int]) =~= x); }
            }
        }
//@end

//@fn src/distill/schema.rs | - | partial_threshold
//@spec
    requires row < dim, finite(threshold), finite(value)
    ensures
        r.tree.wf(), r.tree.root == Some(0usize), r.in_dim == dim, aff_shape_ok(r.a(), dim),
        // every terminal maps into the same space
        forall|i: usize| r.a().dom().contains(i) && #[trigger] r.a()[i].isleaf ==> r.a()[i].value.aff.mat.nrows() == dim,
        forall|h: Map<usize, nat>, x: V| ranked_down(r.a(), h) && x.len() == dim ==>
            #[trigger] tree_fn(r.a(), h, 0, x) == Some(x.update(row as int, threshold_fn(x[row as int], threshold.rv(), value.rv()))),
//@hint end
        proof {
            let a = dd.a();
            let c0 = a[0].children[0].unwrap();
            let c1 = a[0].children[1].unwrap();
            assert((1usize << 1usize) == 2usize) by(bit_vector);
            assert forall|i: usize| a.dom().contains(i) implies i == 0 || i == c0 || i == c1 by {}
            assert forall|h: Map<usize, nat>, x: V| ranked_down(a, h) && x.len() == dim implies
                #[trigger] tree_fn(a, h, 0, x) == Some(x.update(row as int, threshold_fn(x[row as int], threshold.rv(), value.rv()))) by {
                lemma_tree_fn_decision(a, h, 0, x);
                lemma_tree_fn_leaf(a, h, c0, x);
                lemma_tree_fn_leaf(a, h, c1, x);
                lemma_dotp_unit(a[0].value.aff.mat.m()[0], x, dim as int, row as int, 1real);
                assert(1real * x[row as int] == x[row as int]) by(nonlinear_arith);
                lemma_scaled_identity(a[c1].value.aff.mat.m(), a[c1].value.aff.bias.v(), x, dim as int, row as int, 0real, value.rv());
                assert(0real * x[row as int] + value.rv() == value.rv()) by(nonlinear_arith);
                if x[row as int] > threshold.rv() { assert(x.update(row as int, x[row as int]) =~= x); }
            }
        }
//@end

//@fn src/distill/schema.rs | - | partial_hard_tanh
//@bodysub assert!(min_val <= max_val) => assert!(fle(min_val, max_val))
//@bodysub? = -1.0; => = flit(-1, 1);
//@bodysub? = -max_val; => = fneg(max_val);
//@bodysub? = 1.0; => = flit(1, 1);
//@spec
    requires row < dim, finite(min_val), finite(max_val), min_val.rv() <= max_val.rv()
    ensures
        r.tree.wf(), r.tree.root == Some(0usize), r.in_dim == dim, aff_shape_ok(r.a(), dim),
        // every terminal maps into the same space
        forall|i: usize| r.a().dom().contains(i) && #[trigger] r.a()[i].isleaf ==> r.a()[i].value.aff.mat.nrows() == dim,
        forall|h: Map<usize, nat>, x: V| ranked_down(r.a(), h) && x.len() == dim ==>
            #[trigger] tree_fn(r.a(), h, 0, x) == Some(x.update(row as int, hard_tanh(x[row as int], min_val.rv(), max_val.rv()))),
//@hint end
        proof {
            let a = dd.a();
            let n1 = a[0].children[0].unwrap();     // inner decision
            let t1 = a[0].children[1].unwrap();     // terminal under the root's label 1
            let t00 = a[n1].children[0].unwrap();
            let t01 = a[n1].children[1].unwrap();
            assert((1usize << 1usize) == 2usize) by(bit_vector);
            assert forall|i: usize| a.dom().contains(i) implies i == 0 || i == n1 || i == t1 || i == t00 || i == t01 by {}

            assert forall|h: Map<usize, nat>, x: V| ranked_down(a, h) && x.len() == dim implies
                #[trigger] tree_fn(a, h, 0, x) == Some(x.update(row as int, hard_tanh(x[row as int], min_val.rv(), max_val.rv()))) by {
                let t = x[row as int];
                lemma_tree_fn_decision(a, h, 0, x); lemma_tree_fn_decision(a, h, n1, x);
                lemma_tree_fn_leaf(a, h, t1, x); lemma_tree_fn_leaf(a, h, t00, x); lemma_tree_fn_leaf(a, h, t01, x);
                lemma_dotp_unit(a[0].value.aff.mat.m()[0], x, dim as int, row as int, 0real - 1real);
                lemma_dotp_unit(a[n1].value.aff.mat.m()[0], x, dim as int, row as int, 1real);
                assert((0real - 1real) * t == -t && 1real * t == t) by(nonlinear_arith);
                lemma_scaled_identity(a[t1].value.aff.mat.m(), a[t1].value.aff.bias.v(), x, dim as int, row as int, 0real, max_val.rv());
                lemma_scaled_identity(a[t01].value.aff.mat.m(), a[t01].value.aff.bias.v(), x, dim as int, row as int, 0real, min_val.rv());
                assert(0real * t + max_val.rv() == max_val.rv() && 0real * t + min_val.rv() == min_val.rv()) by(nonlinear_arith);
                assert(x.update(row as int, t) =~= x);
            }
        }
//@end

//@fn src/distill/schema.rs | - | partial_hard_shrink
//@bodysub? = -lambda; => = fneg(lambda);
//@bodysub? = 1.0; => = flit(1, 1);
//@bodysub? = -1.0; => = flit(-1, 1);
//@spec
    requires row < dim, finite(lambda)
    ensures
        r.tree.wf(), r.tree.root == Some(0usize), r.in_dim == dim, aff_shape_ok(r.a(), dim),
        // every terminal maps into the same space
        forall|i: usize| r.a().dom().contains(i) && #[trigger] r.a()[i].isleaf ==> r.a()[i].value.aff.mat.nrows() == dim,
        // x if |x| > lambda else 0, boundary points |x| == lambda included
        forall|h: Map<usize, nat>, x: V| ranked_down(r.a(), h) && x.len() == dim ==>
            #[trigger] tree_fn(r.a(), h, 0, x) == Some(x.update(row as int, hard_shrink(x[row as int], lambda.rv()))),
//@hint end
        proof {
            let a = dd.a();
            let n1 = a[0].children[1].unwrap();     // inner decision (label 1: x <= lambda)
            let t1 = a[0].children[0].unwrap();     // terminal for x > lambda
            let t00 = a[n1].children[0].unwrap();
            let t01 = a[n1].children[1].unwrap();
            assert((1usize << 1usize) == 2usize) by(bit_vector);
            assert forall|i: usize| a.dom().contains(i) implies i == 0 || i == n1 || i == t1 || i == t00 || i == t01 by {}
            assert forall|h: Map<usize, nat>, x: V| ranked_down(a, h) && x.len() == dim implies
                #[trigger] tree_fn(a, h, 0, x) == Some(x.update(row as int, hard_shrink(x[row as int], lambda.rv()))) by {
                let t = x[row as int];
                lemma_tree_fn_decision(a, h, 0, x); lemma_tree_fn_decision(a, h, n1, x);
                lemma_tree_fn_leaf(a, h, t1, x); lemma_tree_fn_leaf(a, h, t00, x); lemma_tree_fn_leaf(a, h, t01, x);
                lemma_dotp_unit(a[0].value.aff.mat.m()[0], x, dim as int, row as int, 1real);
                lemma_dotp_unit(a[n1].value.aff.mat.m()[0], x, dim as int, row as int, 0real - 1real);
                assert((0real - 1real) * t == -t && 1real * t == t) by(nonlinear_arith);
                assert(x.update(row as int, t) =~= x);
            }
        }
//@end

//@fn src/distill/schema.rs | - | partial_hard_sigmoid
//@bodysub? = -1.0; => = flit(-1, 1);
//@bodysub? = -3.; => = flit(-3, 1);
//@bodysub? = 1.0; => = flit(1, 1);
//@bodysub? = 1.; => = flit(1, 1);
//@bodysub? = 1. / 6.; => = fdiv(flit(1, 1), flit(6, 1));
//@bodysub? = 0.5; => = flit(1, 2);
//@bodysub? = 0.; => = flit(0, 1);
//@spec
    requires row < dim
    ensures
        r.tree.wf(), r.tree.root == Some(0usize), r.in_dim == dim, aff_shape_ok(r.a(), dim),
        // every terminal maps into the same space
        forall|i: usize| r.a().dom().contains(i) && #[trigger] r.a()[i].isleaf ==> r.a()[i].value.aff.mat.nrows() == dim,
        forall|h: Map<usize, nat>, x: V| ranked_down(r.a(), h) && x.len() == dim ==>
            #[trigger] tree_fn(r.a(), h, 0, x) == Some(x.update(row as int, hard_sigmoid(x[row as int]))),
//@hint end
        proof {
            let a = dd.a();
            let n1 = a[0].children[0].unwrap();     // inner decision
            let t1 = a[0].children[1].unwrap();     // terminal under the root's label 1
            let t00 = a[n1].children[0].unwrap();
            let t01 = a[n1].children[1].unwrap();
            assert((1usize << 1usize) == 2usize) by(bit_vector);
            assert forall|i: usize| a.dom().contains(i) implies i == 0 || i == n1 || i == t1 || i == t00 || i == t01 by {}

            assert forall|h: Map<usize, nat>, x: V| ranked_down(a, h) && x.len() == dim implies
                #[trigger] tree_fn(a, h, 0, x) == Some(x.update(row as int, hard_sigmoid(x[row as int]))) by {
                let t = x[row as int];
                lemma_tree_fn_decision(a, h, 0, x); lemma_tree_fn_decision(a, h, n1, x);
                lemma_tree_fn_leaf(a, h, t1, x); lemma_tree_fn_leaf(a, h, t00, x); lemma_tree_fn_leaf(a, h, t01, x);
                lemma_dotp_unit(a[0].value.aff.mat.m()[0], x, dim as int, row as int, 0real - 1real);
                lemma_dotp_unit(a[n1].value.aff.mat.m()[0], x, dim as int, row as int, 1real);
                assert((0real - 1real) * t == -t && 1real * t == t) by(nonlinear_arith);
                lemma_scaled_identity(a[t1].value.aff.mat.m(), a[t1].value.aff.bias.v(), x, dim as int, row as int, 0real, 1real);
                lemma_scaled_identity(a[t01].value.aff.mat.m(), a[t01].value.aff.bias.v(), x, dim as int, row as int, 0real, 0real);
                assert(mset(mset(eye(dim as int), row as int, row as int, 0real), row as int, row as int, 0real) =~~= mset(eye(dim as int), row as int, row as int, 0real));
                lemma_scaled_identity(a[t00].value.aff.mat.m(), a[t00].value.aff.bias.v(), x, dim as int, row as int, 1real / 6real, 1real / 2real);
                assert(0real * t + 1real == 1real && 0real * t + 0real == 0real) by(nonlinear_arith);
                assert((1real / 6real) * t + 1real / 2real == t / 6real + 1real / 2real) by(nonlinear_arith);
            }
        }
//@end


// ================================================================ class_characterization (chain tree)
//@include prelude/chain_spec.rs

// rule I13: `(0..dim).filter(|x| *x != clazz)` as a vector: the indices below n except `skip`, ascending (verified helper)
pub fn range_except_vec(n: usize, skip: usize) -> (r: Vec<usize>)
    ensures
        forall|k: int| 0 <= k < r@.len() ==> (#[trigger] r@[k]) < n && r@[k] != skip,
        forall|i: usize| i < n && i != skip ==> r@.contains(i),
        skip < n ==> r@.len() == n - 1, skip >= n ==> r@.len() == n,
{
    let mut v: Vec<usize> = Vec::new();
    let mut i: usize = 0;
    while i < n
        invariant 0 <= i <= n,
            forall|k: int| 0 <= k < v@.len() ==> (#[trigger] v@[k]) < i && v@[k] != skip,
            forall|j: usize| j < i && j != skip ==> v@.contains(j),
            v@.len() == (if skip < i { i - 1 } else { i as int }),
        decreases n - i
    {
        if i != skip {
            let ghost v0 = v@;
            v.push(i);
            proof {
                assert forall|j: usize| j < i + 1 && j != skip implies v@.contains(j) by {
                    if j < i { assert(v0.contains(j)); let k = choose|k: int| 0 <= k < v0.len() && v0[k] == j; assert(v@[k] == j); }
                    else { assert(v@[v0.len() as int] == j); }
                }
            }
        }
        i += 1;
    }
    v
}

// predicate node "x[i] <= x[c]" and constant leaves
pub open spec fn le_pred(f: AffFunc, dim: usize, i: usize, c: usize) -> bool {
    f.ok() && f.mat.ncols() == dim && f.mat.nrows() == 1 && forall|x: V| x.len() == dim ==> (#[trigger] f.row_sat(0, x) <==> x[i as int] <= x[c as int])
}
pub open spec fn const_leaf(f: AffFunc, dim: usize, v: real) -> bool {
    f.ok() && f.mat.ncols() == dim && f.mat.nrows() == 1 && forall|x: V| x.len() == dim ==> #[trigger] f.ap(x) == seq![v]
}
pub proof fn lemma_sub_is_le_pred(f: AffFunc, dim: usize, i: usize, c: usize)
    requires f.ok(), f.mat.ncols() == dim, f.mat.nrows() == 1, f.bias.v() =~= seq![0real], i < dim, c < dim,
        forall|x: V| x.len() == dim ==> #[trigger] f.ap(x) =~= seq![x[i as int] - x[c as int]],
    ensures le_pred(f, dim, i, c)
{
    assert forall|x: V| x.len() == dim implies (#[trigger] f.row_sat(0, x) <==> x[i as int] <= x[c as int]) by {
        assert(f.ap(x)[0] == x[i as int] - x[c as int]);
        assert(f.ap(x)[0] == mv(f.mat.m(), x)[0] + f.bias.v()[0]);
    }
}

// state of the construction: c[0..] chain nodes for the indices it[0..c.len()), all but the last complete, the last one still a childless leaf
#[verifier::opaque]
pub open spec fn cc_inv(a: AArena<2>, c: Seq<usize>, it: Seq<usize>, clazz: usize, dim: usize) -> bool {
    &&& 1 <= c.len() <= it.len() && c[0] == 0
    &&& forall|i: usize| #[trigger] a.dom().contains(i) ==> a[i].value.aff.ok() && a[i].value.aff.mat.ncols() == dim && a[i].value.aff.mat.nrows() == 1
    &&& forall|k: int| 0 <= k < c.len() ==> a.dom().contains(#[trigger] c[k]) && le_pred(a[c[k]].value.aff, dim, it[k], clazz)
    &&& forall|k1: int, k2: int| 0 <= k1 < k2 < c.len() ==> c[k1] != c[k2]
    &&& forall|k: int| 0 <= k < c.len() - 1 ==> {
            let nd = a[#[trigger] c[k]];
            !nd.isleaf && nd.children[1] == Some(c[k + 1]) && nd.children[0].is_some() && a.dom().contains(nd.children[0].unwrap())
                && a[nd.children[0].unwrap()].isleaf && const_leaf(a[nd.children[0].unwrap()].value.aff, dim, 0real)
        }
    &&& a[c.last()].isleaf && no_kids(a[c.last()])
}

pub proof fn lemma_cc_facts(a: AArena<2>, c: Seq<usize>, it: Seq<usize>, clazz: usize, dim: usize)
    requires cc_inv(a, c, it, clazz, dim)
    ensures c.len() >= 1, a.dom().contains(c.last()), a[c.last()].isleaf, no_kids(a[c.last()]), c.len() <= it.len()
{
    reveal(cc_inv);
}
pub proof fn lemma_cc_init(a: AArena<2>, it: Seq<usize>, clazz: usize, dim: usize)
    requires a.dom() =~= set![0usize], a[0].isleaf, no_kids(a[0]), le_pred(a[0].value.aff, dim, it[0], clazz), it.len() >= 1
    ensures cc_inv(a, seq![0usize], it, clazz, dim)
{
    reveal(cc_inv);
}

// one round of the loop: else-leaf e under label 0 and next decision n under label 1 of the last chain node
pub proof fn lemma_cc_step(a0: AArena<2>, a1: AArena<2>, a2: AArena<2>, c: Seq<usize>, it: Seq<usize>, clazz: usize, dim: usize, e: usize, n: usize)
    requires cc_inv(a0, c, it, clazz, dim), c.len() < it.len(), wf_at(a0, Some(0usize)),
        child_added(a0, a1, c.last(), 0, e), a1[c.last()].value == a0[c.last()].value, const_leaf(a1[e].value.aff, dim, 0real),
        child_added(a1, a2, c.last(), 1, n), a2[c.last()].value == a1[c.last()].value, le_pred(a2[n].value.aff, dim, it[c.len() as int], clazz),
    ensures cc_inv(a2, c.push(n), it, clazz, dim)
{
    reveal(cc_inv);
    let last = c.last();
    let c2 = c.push(n);
    assert(c[c.len() - 1] == last);
    assert(e != last && n != last && n != e);
    assert(a2[e] == a1[e]);
    assert(a2[last].children[0] == Some(e)) by { assert(a2[last].children@[0] == a1[last].children@[0]); assert(a1[last].children@[0] == Some(e)); }
    assert(a2[last].children[1] == Some(n)) by { assert(a2[last].children@[1] == Some(n)); }
    assert forall|k: int| 0 <= k < c.len() - 1 implies a2[c[k]] == a0[c[k]] by {
        assert(c[k] != last);
        assert(a0.dom().contains(c[k]));
        assert(a1[c[k]] == a0[c[k]]);
        assert(a2[c[k]] == a1[c[k]]);
    }
    assert forall|i: usize| #[trigger] a2.dom().contains(i) implies a2[i].value.aff.ok() && a2[i].value.aff.mat.ncols() == dim && a2[i].value.aff.mat.nrows() == 1 by {
        if i != n && i != e && i != last { assert(a0.dom().contains(i)); assert(a1[i] == a0[i]); assert(a2[i] == a1[i]); }
        if i == last { assert(a0.dom().contains(last)); }
    }
    assert forall|k: int| 0 <= k < c2.len() implies a2.dom().contains(#[trigger] c2[k]) && le_pred(a2[c2[k]].value.aff, dim, it[k], clazz) by {
        if k < c.len() { assert(c2[k] == c[k]); assert(a0.dom().contains(c[k])); if k < c.len() - 1 { } }
    }
    assert forall|k1: int, k2: int| 0 <= k1 < k2 < c2.len() implies c2[k1] != c2[k2] by {
        assert(c2[k1] == c[k1]); assert(a0.dom().contains(c[k1]));
        if k2 < c.len() { assert(c2[k2] == c[k2]); }
    }
    assert forall|k: int| 0 <= k < c2.len() - 1 implies ({
            let nd = a2[#[trigger] c2[k]];
            !nd.isleaf && nd.children[1] == Some(c2[k + 1]) && nd.children[0].is_some() && a2.dom().contains(nd.children[0].unwrap())
                && a2[nd.children[0].unwrap()].isleaf && const_leaf(a2[nd.children[0].unwrap()].value.aff, dim, 0real)
        }) by {
        assert(c2[k] == c[k]);
        if k < c.len() - 1 {
            assert(c2[k + 1] == c[k + 1]);
            let e0 = a0[c[k]].children[0].unwrap();
            assert(a0.dom().contains(e0));
            assert(e0 != last) by {
                if e0 == last {
                    let k2 = c.len() - 2;
                    assert(a0[c[k]].children[0] == Some(last));
                    assert(a0[last].parent == Some(c[k]));
                    assert(a0[c[k2]].children[1] == Some(c[k2 + 1]));
                    assert(a0[last].parent == Some(c[k2]));
                    if k != k2 { assert(c[k] != c[k2]); }
                }
            }
            assert(a1[e0] == a0[e0]);
            assert(a2[e0] == a1[e0]);
        }
    }
}

// the last chain node gets its two terminals: the chain is complete
pub proof fn lemma_cc_complete(a0: AArena<2>, a1: AArena<2>, a2: AArena<2>, c: Seq<usize>, it: Seq<usize>, clazz: usize, dim: usize, e: usize, t1: usize)
    requires cc_inv(a0, c, it, clazz, dim), c.len() == it.len(), wf_at(a0, Some(0usize)),
        child_added(a0, a1, c.last(), 0, e), a1[c.last()].value == a0[c.last()].value, const_leaf(a1[e].value.aff, dim, 0real),
        child_added(a1, a2, c.last(), 1, t1), a2[c.last()].value == a1[c.last()].value, const_leaf(a2[t1].value.aff, dim, 1real),
    ensures
        aff_shape_ok(a2, dim),
        forall|i: usize| a2.dom().contains(i) && #[trigger] a2[i].isleaf ==> a2[i].value.aff.mat.nrows() == 1,
        chain_ok(a2, c, t1, true), c[0] == 0, c.len() >= 1,
        forall|k: int| 0 <= k < c.len() ==> le_pred(a2[#[trigger] c[k]].value.aff, dim, it[k], clazz),
        forall|k: int| 0 <= k < c.len() ==> a2[#[trigger] c[k]].children[0].is_some() && const_leaf(a2[a2[c[k]].children[0].unwrap()].value.aff, dim, 0real),
        const_leaf(a2[t1].value.aff, dim, 1real),
{
    reveal(cc_inv);
    let last = c.last();
    assert(c[c.len() - 1] == last);
    assert(e != last && t1 != last && t1 != e);
    assert(a2[e] == a1[e]);
    assert(a2[last].children[0] == Some(e)) by { assert(a2[last].children@[0] == a1[last].children@[0]); assert(a1[last].children@[0] == Some(e)); }
    assert(a2[last].children[1] == Some(t1)) by { assert(a2[last].children@[1] == Some(t1)); }
    assert forall|i: usize| a2.dom().contains(i) && i != e && i != t1 && i != last implies a2[i] == a0[i] by {
        assert(a0.dom().contains(i)); assert(a1[i] == a0[i]); assert(a2[i] == a1[i]);
    }
    assert((1usize << 1usize) == 2usize) by(bit_vector);
    assert forall|i: usize| #![trigger a2[i].value] a2.dom().contains(i) implies a2[i].value.aff.ok() && a2[i].value.aff.mat.ncols() == dim
        && (!a2[i].isleaf ==> 1 <= a2[i].value.aff.mat.nrows() < 16 && (1usize << (a2[i].value.aff.mat.nrows() as usize)) <= 2) by {
        if i != e && i != t1 && i != last { assert(a0.dom().contains(i)); }
        if i == last { assert(a0.dom().contains(last)); }
    }
    assert forall|i: usize| a2.dom().contains(i) && #[trigger] a2[i].isleaf implies a2[i].value.aff.mat.nrows() == 1 by {
        if i != e && i != t1 && i != last { assert(a0.dom().contains(i)); }
    }
    // else-leaves of the earlier chain nodes are untouched
    assert forall|k: int| 0 <= k < c.len() - 1 implies c[k] != last && a2[c[k]] == a0[c[k]] && a2[a0[c[k]].children[0].unwrap()] == a0[a0[c[k]].children[0].unwrap()] by {
        assert(a0.dom().contains(c[k]));
        let e0 = a0[c[k]].children[0].unwrap();
        assert(a0.dom().contains(e0));
        assert(e0 != last) by {
            if e0 == last {
                let k2 = c.len() - 2;
                assert(a0[c[k]].children[0] == Some(last));
                assert(a0[last].parent == Some(c[k]));
                assert(a0[c[k2]].children[1] == Some(c[k2 + 1]));
                assert(a0[last].parent == Some(c[k2]));
                if k != k2 { assert(c[k] != c[k2]); }
            }
        }
    }
    assert forall|j: int| 0 <= j < c.len() implies ({
        let nd = #[trigger] a2[c[j]];
        &&& a2.dom().contains(c[j]) && !nd.isleaf && nd.value.aff.mat.nrows() == 1
        &&& nd.children[1] == Some(if j + 1 < c.len() { c[j + 1] } else { t1 })
        &&& (true ==> nd.children[0].is_some() && a2.dom().contains(nd.children[0].unwrap()) && a2[nd.children[0].unwrap()].isleaf)
        &&& (!true ==> nd.children[0].is_none())
    }) by {
        assert(a0.dom().contains(c[j]));
    }
    assert forall|k: int| 0 <= k < c.len() implies le_pred(a2[#[trigger] c[k]].value.aff, dim, it[k], clazz) by { assert(a0.dom().contains(c[k])); }
    assert forall|k: int| 0 <= k < c.len() implies a2[#[trigger] c[k]].children[0].is_some() && const_leaf(a2[a2[c[k]].children[0].unwrap()].value.aff, dim, 0real) by {
        assert(a0.dom().contains(c[k]));
    }
}

// ... and denotes the indicator of "x[clazz] is maximal"
pub proof fn lemma_cc_final(a2: AArena<2>, c: Seq<usize>, it: Seq<usize>, clazz: usize, dim: usize, t1: usize)
    requires c.len() == it.len(), clazz < dim, c.len() >= 1, c[0] == 0,
        forall|k: int| 0 <= k < it.len() ==> (#[trigger] it[k]) < dim && it[k] != clazz,
        forall|i: usize| i < dim && i != clazz ==> it.contains(i),
        chain_ok(a2, c, t1, true),
        forall|k: int| 0 <= k < c.len() ==> le_pred(a2[#[trigger] c[k]].value.aff, dim, it[k], clazz),
        forall|k: int| 0 <= k < c.len() ==> a2[#[trigger] c[k]].children[0].is_some() && const_leaf(a2[a2[c[k]].children[0].unwrap()].value.aff, dim, 0real),
        const_leaf(a2[t1].value.aff, dim, 1real),
    ensures
        forall|h: Map<usize, nat>, x: V| ranked_down(a2, h) && x.len() == dim ==>
            #[trigger] tree_fn(a2, h, 0, x) == Some(seq![if is_max_at(x, clazz as int) { 1real } else { 0real }]),
{
    assert forall|h: Map<usize, nat>, x: V| ranked_down(a2, h) && x.len() == dim implies
        #[trigger] tree_fn(a2, h, 0, x) == Some(seq![if is_max_at(x, clazz as int) { 1real } else { 0real }]) by {
        lemma_chain_fn(a2, h, c, t1, true, 0, x);
        lemma_cc_val(a2, c, it, clazz, dim, t1, 0, x);
        // all predicates hold  <==>  x[clazz] is maximal
        if forall|k: int| 0 <= k < it.len() ==> x[(#[trigger] it[k]) as int] <= x[clazz as int] {
            assert forall|i: int| 0 <= i < x.len() implies x[i] <= x[clazz as int] by {
                if i != clazz {
                    assert(it.contains(i as usize));
                    let k = choose|k: int| 0 <= k < it.len() && it[k] == i as usize;
                    assert(x[it[k] as int] <= x[clazz as int]);
                }
            }
        } else {
            let k = choose|k: int| 0 <= k < it.len() && !(x[(#[trigger] it[k]) as int] <= x[clazz as int]);
            assert(!is_max_at(x, clazz as int)) by { if is_max_at(x, clazz as int) { assert(x[it[k] as int] <= x[clazz as int]); } }
        }
    }
}
// value of the completed chain from position j: 1 if all remaining predicates hold, else 0
pub proof fn lemma_cc_val(a2: AArena<2>, c: Seq<usize>, it: Seq<usize>, clazz: usize, dim: usize, t1: usize, j: int, x: V)
    requires 0 <= j <= c.len(), c.len() == it.len(), x.len() == dim, c.len() >= 1,
        forall|k: int| 0 <= k < c.len() ==> le_pred(a2[#[trigger] c[k]].value.aff, dim, it[k], clazz),
        forall|k: int| 0 <= k < c.len() ==> a2[#[trigger] c[k]].children[0].is_some() && const_leaf(a2[a2[c[k]].children[0].unwrap()].value.aff, dim, 0real),
        const_leaf(a2[t1].value.aff, dim, 1real),
    ensures chain_val(a2, c, t1, true, j, x) == Some(seq![if (forall|k: int| j <= k < it.len() ==> x[(#[trigger] it[k]) as int] <= x[clazz as int]) { 1real } else { 0real }])
    decreases c.len() - j
{
    if j < c.len() {
        lemma_cc_val(a2, c, it, clazz, dim, t1, j + 1, x);
        assert(a2[c[j]].value.aff.row_sat(0, x) <==> x[it[j] as int] <= x[clazz as int]);
        if a2[c[j]].value.aff.row_sat(0, x) {
            if forall|k: int| j + 1 <= k < it.len() ==> x[(#[trigger] it[k]) as int] <= x[clazz as int] {
                assert forall|k: int| j <= k < it.len() implies x[(#[trigger] it[k]) as int] <= x[clazz as int] by {}
            } else {
                let k = choose|k: int| j + 1 <= k < it.len() && !(x[(#[trigger] it[k]) as int] <= x[clazz as int]);
                assert(!(forall|k: int| j <= k < it.len() ==> x[(#[trigger] it[k]) as int] <= x[clazz as int])) by {
                    if forall|k: int| j <= k < it.len() ==> x[(#[trigger] it[k]) as int] <= x[clazz as int] { assert(x[it[k] as int] <= x[clazz as int]); }
                }
            }
        } else {
            assert(!(forall|k: int| j <= k < it.len() ==> x[(#[trigger] it[k]) as int] <= x[clazz as int])) by {
                if forall|k: int| j <= k < it.len() ==> x[(#[trigger] it[k]) as int] <= x[clazz as int] { assert(x[it[j] as int] <= x[clazz as int]); }
            }
        }
    }
}

impl<A: Float> AffFuncG<A> {
//@assumed units/aff_algebra.rs | subtraction
}

//@fn src/distill/schema.rs | - | class_characterization
//@bodysub let mut iter = (0..dim).filter(|x| *x != clazz); => let __it = range_except_vec(dim, clazz);
//@bodysub iter.next().unwrap() => __it[0]
//@bodysub for idx in iter { => let mut __j: usize = 1; while __j < __it.len() { let idx = __it[__j]; __j += 1;
//@bodysub AffFunc::constant(dim, 0.) => AffFunc::constant(dim, flit(0, 1))
//@bodysub AffFunc::constant(dim, 1.) => AffFunc::constant(dim, flit(1, 1))
//@spec
    requires clazz < dim, dim >= 2
    ensures
        r.tree.wf(), r.tree.root == Some(0usize), r.in_dim == dim, aff_shape_ok(r.a(), dim),
        forall|i: usize| r.a().dom().contains(i) && #[trigger] r.a()[i].isleaf ==> r.a()[i].value.aff.mat.nrows() == 1,
        // indicator of "component clazz is maximal" (ties count as maximal)
        forall|h: Map<usize, nat>, x: V| ranked_down(r.a(), h) && x.len() == dim ==>
            #[trigger] tree_fn(r.a(), h, 0, x) == Some(seq![if is_max_at(x, clazz as int) { 1real } else { 0real }]),
//@hint after let affine = AffFunc::subtraction(dim, __it[0], clazz);
    proof { lemma_sub_is_le_pred(affine, dim, __it@[0], clazz); }
//@hint loop 1 before
    let ghost mut c: Seq<usize> = seq![0usize];
    proof { lemma_cc_init(dd.a(), __it@, clazz, dim); }
//@loop 1
        invariant
            clazz < dim, dim >= 2, 1 <= __j <= __it@.len(), __it@.len() == dim - 1,
            forall|k: int| 0 <= k < __it@.len() ==> (#[trigger] __it@[k]) < dim && __it@[k] != clazz,
            dd.tree.wf(), dd.tree.root == Some(0usize), dd.in_dim == dim,
            cc_inv(dd.a(), c, __it@, clazz, dim), c.len() == __j, last_node == c.last(),
        decreases __it@.len() - __j
//@hint loop 1 start
        let ghost a0 = dd.a();
        proof { lemma_cc_facts(dd.a(), c, __it@, clazz, dim); }
//@hint after dd.add_child_node(last_node, 0, AffFunc::constant(dim, flit(0, 1))) .unwrap();
        let ghost a1 = dd.a();
//@hint after last_node = new_node;
        proof {
            let f = dd.a()[new_node].value.aff;
            lemma_sub_is_le_pred(f, dim, idx, clazz);
            lemma_cc_step(a0, a1, dd.a(), c, __it@, clazz, dim, a1[c.last()].children[0].unwrap(), new_node);
            c = c.push(new_node);
        }
//@hint loop 1 after
    let ghost b0 = dd.a();
    proof { lemma_cc_facts(dd.a(), c, __it@, clazz, dim); }
//@hint after#2 dd.add_child_node(last_node, 0, AffFunc::constant(dim, flit(0, 1))) .unwrap();
    let ghost b1 = dd.a();
//@hint after dd.add_child_node(last_node, 1, AffFunc::constant(dim, flit(1, 1))) .unwrap();
    proof {
        let t1 = dd.a()[c.last()].children[1].unwrap();
        lemma_cc_complete(b0, b1, dd.a(), c, __it@, clazz, dim, b1[c.last()].children[0].unwrap(), t1);
        lemma_cc_final(dd.a(), c, __it@, clazz, dim, t1);
    }
//@end


// ================================================================ argmax (binary comparison tree built with a work stack)
// index -> f64 (`i as f64`); ASSUMED exact (indices are far below 2^53)
#[verifier::external_body]
pub fn fidx(i: usize) -> (r: f64)
    ensures r.rv() == i as real, !r.nan(), !r.inf()
{ unimplemented!() }

// candidate index cd is compared with the current maximum index cu; afterwards cd + 1 is the candidate
pub open spec fn amax(x: V, cd: int, cu: int, dim: int) -> int
    decreases dim - cd
{
    if cd >= dim { cu } else if x[cd] <= x[cu] { amax(x, cd + 1, cu, dim) } else { amax(x, cd + 1, cd, dim) }
}
pub proof fn lemma_amax_argmax(x: V, cd: int, dim: int)
    requires 1 <= cd <= dim
    ensures amax(x, cd, argmax_idx(x, cd), dim) == argmax_idx(x, dim)
    decreases dim - cd
{
    if cd < dim {
        lemma_amax_argmax(x, cd + 1, dim);
    }
}

// ghost bookkeeping: st maps every comparison node to (candidate, current maximum); pend are the comparison nodes still without children
#[verifier::opaque]
pub open spec fn am_inv(a: AArena<2>, st: Map<usize, (usize, usize)>, pend: Set<usize>, dim: usize) -> bool {
    &&& st.dom().contains(0) && st[0] == (1usize, 0usize)
    &&& forall|i: usize| #[trigger] a.dom().contains(i) ==> a[i].value.aff.ok() && a[i].value.aff.mat.ncols() == dim && a[i].value.aff.mat.nrows() == 1
    &&& forall|p: usize| #[trigger] st.dom().contains(p) ==> a.dom().contains(p) && 1 <= st[p].0 < dim && st[p].1 < st[p].0 && le_pred(a[p].value.aff, dim, st[p].0, st[p].1)
    &&& forall|p: usize| #[trigger] pend.contains(p) ==> st.dom().contains(p) && a[p].isleaf && no_kids(a[p])
    &&& forall|p: usize| #[trigger] st.dom().contains(p) && !pend.contains(p) ==> {
            let f = a[p].children[0]; let t = a[p].children[1];
            &&& !a[p].isleaf && f.is_some() && t.is_some() && a.dom().contains(f.unwrap()) && a.dom().contains(t.unwrap())
            &&& st[p].0 < dim - 1 ==> st.dom().contains(f.unwrap()) && st.dom().contains(t.unwrap())
                    && st[f.unwrap()] == ((st[p].0 + 1) as usize, st[p].0) && st[t.unwrap()] == ((st[p].0 + 1) as usize, st[p].1)
            &&& st[p].0 >= dim - 1 ==> !st.dom().contains(f.unwrap()) && !st.dom().contains(t.unwrap()) && a[f.unwrap()].isleaf && a[t.unwrap()].isleaf
                    && const_leaf(a[f.unwrap()].value.aff, dim, st[p].0 as real) && const_leaf(a[t.unwrap()].value.aff, dim, st[p].1 as real)
        }
}
#[verifier::opaque]
pub open spec fn am_stack(st: Map<usize, (usize, usize)>, pend: Set<usize>, stack: Seq<(usize, usize, usize)>) -> bool {
    &&& forall|j: int| 0 <= j < stack.len() ==> pend.contains((#[trigger] stack[j]).0) && st[stack[j].0] == (stack[j].1, stack[j].2)
    &&& forall|j1: int, j2: int| 0 <= j1 < j2 < stack.len() ==> (#[trigger] stack[j1]).0 != (#[trigger] stack[j2]).0
    &&& forall|p: usize| #[trigger] pend.contains(p) ==> exists|j: int| 0 <= j < stack.len() && (#[trigger] stack[j]).0 == p
}

pub proof fn lemma_am_init(a: AArena<2>, dim: usize)
    requires a.dom() =~= set![0usize], a[0].isleaf, no_kids(a[0]), le_pred(a[0].value.aff, dim, 1, 0), dim >= 2
    ensures am_inv(a, Map::<usize, (usize, usize)>::empty().insert(0, (1usize, 0usize)), set![0usize], dim),
        am_stack(Map::<usize, (usize, usize)>::empty().insert(0, (1usize, 0usize)), set![0usize], seq![(0usize, 1usize, 0usize)])
{
    reveal(am_inv); reveal(am_stack);
    let stk = seq![(0usize, 1usize, 0usize)];
    assert forall|p: usize| #[trigger] set![0usize].contains(p) implies exists|j: int| 0 <= j < stk.len() && (#[trigger] stk[j]).0 == p by { assert(stk[0].0 == 0); }
}

pub proof fn lemma_am_pop(a: AArena<2>, st: Map<usize, (usize, usize)>, pend: Set<usize>, dim: usize, rest: Seq<(usize, usize, usize)>, it: (usize, usize, usize))
    requires am_inv(a, st, pend, dim),
        exists|s0: Seq<(usize, usize, usize)>| #[trigger] am_stack(st, pend, s0) && s0.len() > 0 && s0.last() == it && s0.drop_last() == rest,
    ensures pend.contains(it.0), st.dom().contains(it.0), st[it.0] == (it.1, it.2), a.dom().contains(it.0), a[it.0].isleaf, no_kids(a[it.0]),
        1 <= it.1 < dim, it.2 < it.1,
        am_stack(st, pend.remove(it.0), rest),
{
    reveal(am_inv); reveal(am_stack);
    let s0 = choose|s0: Seq<(usize, usize, usize)>| #[trigger] am_stack(st, pend, s0) && s0.len() > 0 && s0.last() == it && s0.drop_last() == rest;
    assert(s0[s0.len() - 1] == it);
    let pend1 = pend.remove(it.0);
    assert forall|j: int| 0 <= j < rest.len() implies pend1.contains((#[trigger] rest[j]).0) && st[rest[j].0] == (rest[j].1, rest[j].2) by { assert(rest[j] == s0[j]); }
    assert forall|j1: int, j2: int| 0 <= j1 < j2 < rest.len() implies (#[trigger] rest[j1]).0 != (#[trigger] rest[j2]).0 by { assert(rest[j1] == s0[j1] && rest[j2] == s0[j2]); }
    assert forall|p: usize| #[trigger] pend1.contains(p) implies exists|j: int| 0 <= j < rest.len() && (#[trigger] rest[j]).0 == p by {
        let j = choose|j: int| 0 <= j < s0.len() && (#[trigger] s0[j]).0 == p;
        assert(j < s0.len() - 1);
        assert(rest[j] == s0[j]);
    }
}

// inner case: two further comparison nodes f (label 0) and t (label 1) below p
pub proof fn lemma_am_inner(a0: AArena<2>, a1: AArena<2>, a2: AArena<2>, st: Map<usize, (usize, usize)>, pend: Set<usize>, dim: usize,
    rest: Seq<(usize, usize, usize)>, p: usize, f: usize, t: usize)
    requires am_inv(a0, st, pend, dim), am_stack(st, pend.remove(p), rest), pend.contains(p), st[p].0 < dim - 1,
        child_added(a0, a1, p, 0, f), a1[p].value == a0[p].value, le_pred(a1[f].value.aff, dim, (st[p].0 + 1) as usize, st[p].0),
        child_added(a1, a2, p, 1, t), a2[p].value == a1[p].value, le_pred(a2[t].value.aff, dim, (st[p].0 + 1) as usize, st[p].1),
    ensures
        am_inv(a2, st.insert(f, ((st[p].0 + 1) as usize, st[p].0)).insert(t, ((st[p].0 + 1) as usize, st[p].1)), pend.remove(p).insert(f).insert(t), dim),
        am_stack(st.insert(f, ((st[p].0 + 1) as usize, st[p].0)).insert(t, ((st[p].0 + 1) as usize, st[p].1)), pend.remove(p).insert(f).insert(t),
            rest.push((f, (st[p].0 + 1) as usize, st[p].0)).push((t, (st[p].0 + 1) as usize, st[p].1))),
{
    reveal(am_inv); reveal(am_stack);
    let cd = st[p].0; let cu = st[p].1;
    let st2 = st.insert(f, ((cd + 1) as usize, cd)).insert(t, ((cd + 1) as usize, cu));
    let pend2 = pend.remove(p).insert(f).insert(t);
    let stk2 = rest.push((f, (cd + 1) as usize, cd)).push((t, (cd + 1) as usize, cu));
    assert(f != p && t != p && f != t && !a0.dom().contains(f) && !a0.dom().contains(t));
    assert(!st.dom().contains(f) && !st.dom().contains(t));
    assert(a2[f] == a1[f]);
    assert(a2[p].children[0] == Some(f)) by { assert(a2[p].children@[0] == a1[p].children@[0]); assert(a1[p].children@[0] == Some(f)); }
    assert(a2[p].children[1] == Some(t)) by { assert(a2[p].children@[1] == Some(t)); }
    assert forall|i: usize| a0.dom().contains(i) && i != p implies a2[i] == a0[i] by { assert(a1[i] == a0[i]); assert(a2[i] == a1[i]); }
    assert forall|i: usize| #[trigger] a2.dom().contains(i) implies a2[i].value.aff.ok() && a2[i].value.aff.mat.ncols() == dim && a2[i].value.aff.mat.nrows() == 1 by {
        if i != f && i != t { assert(a0.dom().contains(i)); }
    }
    assert forall|q: usize| #[trigger] st2.dom().contains(q) implies a2.dom().contains(q) && 1 <= st2[q].0 < dim && st2[q].1 < st2[q].0 && le_pred(a2[q].value.aff, dim, st2[q].0, st2[q].1) by {
        if q != f && q != t { assert(st.dom().contains(q)); }
    }
    assert forall|q: usize| #[trigger] pend2.contains(q) implies st2.dom().contains(q) && a2[q].isleaf && no_kids(a2[q]) by {
        if q != f && q != t { assert(pend.contains(q)); }
    }
    assert forall|q: usize| #[trigger] st2.dom().contains(q) && !pend2.contains(q) implies ({
            let ff = a2[q].children[0]; let tt = a2[q].children[1];
            &&& !a2[q].isleaf && ff.is_some() && tt.is_some() && a2.dom().contains(ff.unwrap()) && a2.dom().contains(tt.unwrap())
            &&& st2[q].0 < dim - 1 ==> st2.dom().contains(ff.unwrap()) && st2.dom().contains(tt.unwrap())
                    && st2[ff.unwrap()] == ((st2[q].0 + 1) as usize, st2[q].0) && st2[tt.unwrap()] == ((st2[q].0 + 1) as usize, st2[q].1)
            &&& st2[q].0 >= dim - 1 ==> !st2.dom().contains(ff.unwrap()) && !st2.dom().contains(tt.unwrap()) && a2[ff.unwrap()].isleaf && a2[tt.unwrap()].isleaf
                    && const_leaf(a2[ff.unwrap()].value.aff, dim, st2[q].0 as real) && const_leaf(a2[tt.unwrap()].value.aff, dim, st2[q].1 as real)
        }) by {
        if q != p {
            assert(st.dom().contains(q) && !pend.contains(q));
            let ff = a0[q].children[0].unwrap(); let tt = a0[q].children[1].unwrap();
            assert(a0.dom().contains(ff) && a0.dom().contains(tt));
            if st[q].0 >= dim - 1 { assert(ff != p && tt != p); }
        }
    }
    assert forall|j: int| 0 <= j < stk2.len() implies pend2.contains((#[trigger] stk2[j]).0) && st2[stk2[j].0] == (stk2[j].1, stk2[j].2) by {
        if j < rest.len() { assert(stk2[j] == rest[j]); assert(pend.contains(rest[j].0)); assert(st.dom().contains(rest[j].0)); }
    }
    assert forall|j1: int, j2: int| 0 <= j1 < j2 < stk2.len() implies (#[trigger] stk2[j1]).0 != (#[trigger] stk2[j2]).0 by {
        if j1 < rest.len() { assert(stk2[j1] == rest[j1]); assert(pend.contains(rest[j1].0)); assert(st.dom().contains(rest[j1].0)); }
        if j2 < rest.len() { assert(stk2[j2] == rest[j2]); }
    }
    assert forall|q: usize| #[trigger] pend2.contains(q) implies exists|j: int| 0 <= j < stk2.len() && (#[trigger] stk2[j]).0 == q by {
        if q == f { assert(stk2[rest.len() as int].0 == f); }
        else if q == t { assert(stk2[rest.len() as int + 1].0 == t); }
        else {
            assert(pend.remove(p).contains(q));
            let j = choose|j: int| 0 <= j < rest.len() && (#[trigger] rest[j]).0 == q;
            assert(stk2[j] == rest[j]);
        }
    }
}

// last level: two constant terminals below p
pub proof fn lemma_am_last(a0: AArena<2>, a1: AArena<2>, a2: AArena<2>, st: Map<usize, (usize, usize)>, pend: Set<usize>, dim: usize,
    rest: Seq<(usize, usize, usize)>, p: usize, f: usize, t: usize)
    requires am_inv(a0, st, pend, dim), am_stack(st, pend.remove(p), rest), pend.contains(p), st[p].0 >= dim - 1,
        child_added(a0, a1, p, 0, f), a1[p].value == a0[p].value, const_leaf(a1[f].value.aff, dim, st[p].0 as real),
        child_added(a1, a2, p, 1, t), a2[p].value == a1[p].value, const_leaf(a2[t].value.aff, dim, st[p].1 as real),
    ensures am_inv(a2, st, pend.remove(p), dim), am_stack(st, pend.remove(p), rest),
{
    reveal(am_inv); reveal(am_stack);
    let pend2 = pend.remove(p);
    assert(f != p && t != p && f != t && !a0.dom().contains(f) && !a0.dom().contains(t));
    assert(!st.dom().contains(f) && !st.dom().contains(t));
    assert(a2[f] == a1[f]);
    assert(a2[p].children[0] == Some(f)) by { assert(a2[p].children@[0] == a1[p].children@[0]); assert(a1[p].children@[0] == Some(f)); }
    assert(a2[p].children[1] == Some(t)) by { assert(a2[p].children@[1] == Some(t)); }
    assert forall|i: usize| a0.dom().contains(i) && i != p implies a2[i] == a0[i] by { assert(a1[i] == a0[i]); assert(a2[i] == a1[i]); }
    assert forall|i: usize| #[trigger] a2.dom().contains(i) implies a2[i].value.aff.ok() && a2[i].value.aff.mat.ncols() == dim && a2[i].value.aff.mat.nrows() == 1 by {
        if i != f && i != t { assert(a0.dom().contains(i)); }
    }
    assert forall|q: usize| #[trigger] st.dom().contains(q) && !pend2.contains(q) implies ({
            let ff = a2[q].children[0]; let tt = a2[q].children[1];
            &&& !a2[q].isleaf && ff.is_some() && tt.is_some() && a2.dom().contains(ff.unwrap()) && a2.dom().contains(tt.unwrap())
            &&& st[q].0 < dim - 1 ==> st.dom().contains(ff.unwrap()) && st.dom().contains(tt.unwrap())
                    && st[ff.unwrap()] == ((st[q].0 + 1) as usize, st[q].0) && st[tt.unwrap()] == ((st[q].0 + 1) as usize, st[q].1)
            &&& st[q].0 >= dim - 1 ==> !st.dom().contains(ff.unwrap()) && !st.dom().contains(tt.unwrap()) && a2[ff.unwrap()].isleaf && a2[tt.unwrap()].isleaf
                    && const_leaf(a2[ff.unwrap()].value.aff, dim, st[q].0 as real) && const_leaf(a2[tt.unwrap()].value.aff, dim, st[q].1 as real)
        }) by {
        if q != p {
            assert(!pend.contains(q));
            let ff = a0[q].children[0].unwrap(); let tt = a0[q].children[1].unwrap();
            assert(a0.dom().contains(ff) && a0.dom().contains(tt));
            if st[q].0 >= dim - 1 { assert(ff != p && tt != p); }
        }
    }
    assert forall|q: usize| #[trigger] pend2.contains(q) implies st.dom().contains(q) && a2[q].isleaf && no_kids(a2[q]) by { assert(pend.contains(q)); }
}

// complete tree: value below comparison node p
pub proof fn lemma_am_val(a: AArena<2>, h: Map<usize, nat>, st: Map<usize, (usize, usize)>, dim: usize, p: usize, x: V)
    requires am_inv(a, st, Set::<usize>::empty(), dim), ranked_down(a, h), st.dom().contains(p), x.len() == dim
    ensures tree_fn(a, h, p, x) == Some(seq![amax(x, st[p].0 as int, st[p].1 as int, dim as int) as real])
    decreases dim - st[p].0
{
    reveal(am_inv);
    let cd = st[p].0; let cu = st[p].1;
    let f = a[p].children[0].unwrap(); let t = a[p].children[1].unwrap();
    lemma_tree_fn_decision(a, h, p, x);
    assert(a[p].value.aff.row_sat(0, x) <==> x[cd as int] <= x[cu as int]);
    if cd < dim - 1 {
        lemma_am_val(a, h, st, dim, f, x);
        lemma_am_val(a, h, st, dim, t, x);
    } else {
        lemma_tree_fn_leaf(a, h, f, x);
        lemma_tree_fn_leaf(a, h, t, x);
        assert(amax(x, cd as int + 1, cu as int, dim as int) == cu);
        assert(amax(x, cd as int + 1, cd as int, dim as int) == cd);
    }
}
pub proof fn lemma_am_final(a: AArena<2>, st: Map<usize, (usize, usize)>, pend: Set<usize>, dim: usize)
    requires am_inv(a, st, pend, dim), am_stack(st, pend, Seq::<(usize, usize, usize)>::empty()), dim >= 2
    ensures aff_shape_ok(a, dim),
        forall|i: usize| a.dom().contains(i) && #[trigger] a[i].isleaf ==> a[i].value.aff.mat.nrows() == 1,
        forall|h: Map<usize, nat>, x: V| ranked_down(a, h) && x.len() == dim ==> #[trigger] tree_fn(a, h, 0, x) == Some(seq![argmax_idx(x, dim as int) as real]),
{
    reveal(am_stack);
    assert forall|p: usize| !pend.contains(p) by {
        if pend.contains(p) { let j = choose|j: int| 0 <= j < Seq::<(usize, usize, usize)>::empty().len() && (#[trigger] Seq::<(usize, usize, usize)>::empty()[j]).0 == p; }
    }
    assert(pend =~= Set::<usize>::empty());
    assert((1usize << 1usize) == 2usize) by(bit_vector);
    assert(aff_shape_ok(a, dim)) by { reveal(am_inv); }
    assert forall|i: usize| a.dom().contains(i) && #[trigger] a[i].isleaf implies a[i].value.aff.mat.nrows() == 1 by { reveal(am_inv); }
    assert forall|h: Map<usize, nat>, x: V| ranked_down(a, h) && x.len() == dim implies #[trigger] tree_fn(a, h, 0, x) == Some(seq![argmax_idx(x, dim as int) as real]) by {
        assert(st.dom().contains(0) && st[0] == (1usize, 0usize)) by { reveal(am_inv); }
        lemma_am_val(a, h, st, dim, 0, x);
        lemma_amax_argmax(x, 1, dim as int);
    }
}

//@fn src/distill/schema.rs | - | argmax
//@attr #[verifier::exec_allows_no_decreases_clause]
//@bodysub max_when_false as f64 => fidx(max_when_false)
//@bodysub max_when_true as f64 => fidx(max_when_true)
//@bodysub let mut stack = Vec::new(); => let mut stack: Vec<(usize, usize, usize)> = Vec::new();
//@spec
    requires dim >= 2
    ensures
        r.tree.wf(), r.tree.root == Some(0usize), r.in_dim == dim, aff_shape_ok(r.a(), dim),
        forall|i: usize| r.a().dom().contains(i) && #[trigger] r.a()[i].isleaf ==> r.a()[i].value.aff.mat.nrows() == 1,
        // index of the first maximal component
        forall|h: Map<usize, nat>, x: V| ranked_down(r.a(), h) && x.len() == dim ==>
            #[trigger] tree_fn(r.a(), h, 0, x) == Some(seq![argmax_idx(x, dim as int) as real]),
//@hint after let affine = AffFunc::subtraction(dim, 1, 0);
    proof { lemma_sub_is_le_pred(affine, dim, 1, 0); }
//@hint loop 1 before
    let ghost mut st: Map<usize, (usize, usize)> = Map::<usize, (usize, usize)>::empty().insert(0, (1usize, 0usize));
    let ghost mut pend: Set<usize> = set![0usize];
    proof { lemma_am_init(dd.a(), dim); }
//@loop 1
        invariant
            dim >= 2, dd.tree.wf(), dd.tree.root == Some(0usize), dd.in_dim == dim,
            am_inv(dd.a(), st, pend, dim), am_stack(st, pend, stack@),
        ensures stack@.len() == 0
//@hint loop 1 start
        let ghost a0 = dd.a();
        proof { lemma_am_pop(a0, st, pend, dim, stack@, (parent_idx, max_when_false, max_when_true)); }
//@hint after let node_false = dd.add_child_node(parent_idx, 0, affine_false).unwrap();
            let ghost a1 = dd.a();
            proof { lemma_sub_is_le_pred(a1[node_false].value.aff, dim, (max_when_false + 1) as usize, max_when_false); }
//@hint after let node_true = dd.add_child_node(parent_idx, 1, affine_true).unwrap();
            proof {
                lemma_sub_is_le_pred(dd.a()[node_true].value.aff, dim, (max_when_false + 1) as usize, max_when_true);
                lemma_am_inner(a0, a1, dd.a(), st, pend, dim, stack@, parent_idx, node_false, node_true);
                st = st.insert(node_false, ((max_when_false + 1) as usize, max_when_false)).insert(node_true, ((max_when_false + 1) as usize, max_when_true));
                pend = pend.remove(parent_idx).insert(node_false).insert(node_true);
            }
//@hint after dd.add_child_node(parent_idx, 0, affine_false).unwrap();
            let ghost b1 = dd.a();
//@hint after dd.add_child_node(parent_idx, 1, affine_true).unwrap();
            proof {
                lemma_am_last(a0, b1, dd.a(), st, pend, dim, stack@, parent_idx, b1[parent_idx].children[0].unwrap(), dd.a()[parent_idx].children[1].unwrap());
                pend = pend.remove(parent_idx);
            }
//@hint loop 1 after
    proof {
        assert(stack@ =~= Seq::<(usize, usize, usize)>::empty());
        lemma_am_final(dd.a(), st, pend, dim);
    }
//@end

} // verus!
fn main() {}
