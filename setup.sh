#!/bin/sh
# offline setup: warm the Verus cache and build the bounded harness against /repo
set -e
cd "$(dirname "$0")"
mkdir -p build evidence
cp /repo/Cargo.lock bc/Cargo.lock 2>/dev/null || true
(cd bc && CARGO_NET_OFFLINE=true RUSTFLAGS='--cfg affinitree_verif' cargo build --release --offline >/dev/null 2>&1) || echo "bc build deferred to first check"
exit 0
