// unit pwl_feasible — C11 / C05 / C03: the decision logic around the LP solver in src/pwl/impl_infeasible_elim.rs
// (is_edge_feasible, phase_inh, phase_two) and NodeState's predicates.  The LP layer itself (Polytope::status, C10), the tolerance membership test
// (Polytope::contains) and the numeric repair heuristic (mirror_points) are ORACLES here: uninterpreted, any answer.  Proved about the real branching:
// an "infeasible" verdict is only ever produced from an Infeasible answer / cached state (faults — Error, Unbounded, displaced witnesses — never are),
// every witness that gets cached has passed `contains` for the polytope it is cached for, an LP Error leaves the state Indeterminate, and the root shortcut.
use vstd::prelude::*;
use std::marker::PhantomData;
use std::mem;
use std::ops::{Add, Sub, Mul, Div, Neg};
verus! {
global size_of usize == 8;

//@include prelude/inc_pwl_core.rs
//@item src/tree/graph.rs | struct EdgeReference
//@include prelude/inc_tree_nav.rs
//@include prelude/path_spec.rs
//@item src/pwl/impl_infeasible_elim.rs | struct PerformanceCounter | no-debug

//@include prelude/lp_oracle_spec.rs

impl Polytope {
    // LP feasibility query (C10, external solver): any answer
    #[verifier::external_body]
    pub fn status(&self) -> (r: PolytopeStatus)
        ensures r == lp_status(*self)
    { unimplemented!() }
    // membership with the absolute tolerance 1e-8 on the raw residuals
    #[verifier::external_body]
    pub fn contains(&self, point: &Array1<f64>) -> (r: bool)
        ensures r == contains_tol(*self, *point)
    { unimplemented!() }
}
// `solution.clone().insert_axis(Axis(1))`: the point as a one-column matrix; `val.t().row(0).to_owned()`: the first column of the repaired points (no contract needed:
// whatever comes back is re-checked with `contains` before it is cached)
#[verifier::external_body]
pub fn as_column(x: &Array1<f64>) -> (r: Array2<f64>) { unimplemented!() }
#[verifier::external_body]
pub fn first_point(m: &Array2<f64>) -> (r: Array1<f64>) { unimplemented!() }
#[verifier::external_body]
pub fn clone_point(x: &Array1<f64>) -> (r: Array1<f64>) ensures r == *x { unimplemented!() }

// rule I15: `solution.iter().filter(|point| hyperplane.contains(point)).map(|point| point.to_owned()).collect_vec()` (verified helper)
pub fn filter_contained(hyperplane: &Polytope, solution: &Vec<Array1<f64>>) -> (r: Vec<Array1<f64>>)
    ensures forall|i: int| 0 <= i < r@.len() ==> contains_tol(*hyperplane, #[trigger] r@[i]) && solution@.contains(r@[i]),
        (exists|j: int| 0 <= j < solution@.len() && contains_tol(*hyperplane, solution@[j])) ==> r@.len() > 0,
{
    let mut out: Vec<Array1<f64>> = Vec::new();
    let mut i: usize = 0;
    while i < solution.len()
        invariant 0 <= i <= solution@.len(),
            forall|k: int| 0 <= k < out@.len() ==> contains_tol(*hyperplane, #[trigger] out@[k]) && solution@.contains(out@[k]),
            (exists|j: int| 0 <= j < i && contains_tol(*hyperplane, solution@[j])) ==> out@.len() > 0,
        decreases solution@.len() - i
    {
        if hyperplane.contains(&solution[i]) {
            let ghost o0 = out@;
            out.push(clone_point(&solution[i]));
            proof {
                assert(solution@.contains(solution@[i as int]));
                assert forall|k: int| 0 <= k < out@.len() implies contains_tol(*hyperplane, #[trigger] out@[k]) && solution@.contains(out@[k]) by {
                    if k < o0.len() { assert(out@[k] == o0[k]); }
                }
            }
        }
        i += 1;
    }
    out
}
// rule I16: `wit.iter().any(|point| poly.contains(point))` (verified helper)
pub fn any_contained(poly: &Polytope, wit: &Vec<Array1<f64>>) -> (r: bool)
    ensures r == exists|j: int| 0 <= j < wit@.len() && contains_tol(*poly, wit@[j])
{
    let mut i: usize = 0;
    while i < wit.len()
        invariant 0 <= i <= wit@.len(), forall|j: int| 0 <= j < i ==> !contains_tol(*poly, wit@[j])
        decreases wit@.len() - i
    {
        if poly.contains(&wit[i]) { return true; }
        i += 1;
    }
    false
}

impl NodeState {
//@fn src/pwl/node.rs | impl NodeState | is_feasible
//@spec
    ensures r == (*self is Feasible || *self is FeasibleWitness)
//@end
//@fn src/pwl/node.rs | impl NodeState | is_infeasible
//@spec
    ensures r == (*self is Infeasible)
//@end
//@fn src/pwl/node.rs | impl NodeState | is_indetermined
//@spec
    ensures r == (*self is Indeterminate)
//@end
}

impl<N, const K: usize> Tree<N, K> {
//@assumed units/tree_path.rs | path_to_node
}

impl<const K: usize> AffTree<K> {
// the numeric repair heuristic (C05 checks its results bounded): any answer
#[verifier::external_body]
pub fn mirror_points(poly: &Polytope, points: &Array2<f64>, n_iterations: usize) -> (r: Option<(Array2<f64>, usize)>)
{ unimplemented!() }
// the path polytope (uses the interior-mutable scratch buffer, rule S4): named, otherwise arbitrary
#[verifier::external_body]
pub fn polyhedral_path_characterization(&self, path: &Vec<(TreeIndex, Label)>) -> (r: Polytope)
    ensures r == path_poly(self.a(), path@)
{ unimplemented!() }

//@fn src/pwl/impl_infeasible_elim.rs | impl<const K: usize> AffTree<K> | phase_inh
//@bodysub tree.node_value(parent_idx).unwrap() => tree.tree_node(parent_idx).unwrap().value
//@bodysub let parent_value = self. => let parent_value = &self.
//@bodysub let inherited_solutions = solution .iter() .filter(|point| hyperplane.contains(point)) .map(|point| point.to_owned()) .collect_vec(); => let inherited_solutions = filter_contained(hyperplane, solution);
//@bodysub counter.parent_sol_inherited += 1; =>
//@spec
    requires self.a().dom().contains(parent_idx),
        self.a()[parent_idx].value.state matches NodeState::FeasibleWitness(w) ==> w@.len() > 0,     // asserted by the code
    ensures
        // only an inherited witness or "don't know": each inherited point is a witness of the parent and passed `contains` for the new half-space
        r is Indeterminate || r is FeasibleWitness,
        r matches NodeState::FeasibleWitness(v) ==> v@.len() > 0 && self.a()[parent_idx].value.state is FeasibleWitness
            && forall|i: int| 0 <= i < v@.len() ==> contains_tol(*hyperplane, #[trigger] v@[i]) && self.a()[parent_idx].value.state->FeasibleWitness_0@.contains(v@[i]),
//@end

//@fn src/pwl/impl_infeasible_elim.rs | impl<const K: usize> AffTree<K> | phase_two
//@bodysub counter.lps_solved += 1; =>
//@bodysub counter.lps_error += 1; =>
//@bodysub counter.lps_feasible += 1; =>
//@bodysub counter.lps_infeasible += 1; =>
//@bodysub &solution.clone().insert_axis(Axis(1)) => &as_column(&solution)
//@bodysub val.t().row(0).to_owned() => first_point(&val)
//@bodysub? vec![new_solution.to_owned()] => vec![new_solution]
//@spec
    ensures
        // C11 / C03: "infeasible" exactly when the LP layer said so — an Error, an Unbounded answer or a displaced witness never prunes
        r is Infeasible <==> lp_status(*poly) is Infeasible,
        lp_status(*poly) is Error ==> r is Indeterminate,
        lp_status(*poly) is Unbounded ==> r is Feasible,
        // C05: a witness is cached only after it passed `contains` for this very polytope (the LP point itself, or its repaired version)
        r matches NodeState::FeasibleWitness(v) ==> v@.len() == 1 && contains_tol(*poly, v@[0]) && lp_status(*poly) is Optimal,
        r is Feasible ==> lp_status(*poly) is Unbounded,
//@end

//@fn src/pwl/impl_infeasible_elim.rs | impl<const K: usize> AffTree<K> | is_edge_feasible
//@bodysub tree.node_value(node_idx).unwrap() => tree.tree_node(node_idx).unwrap().value
//@bodysub let node = self. => let node = &self.
//@bodysub wit.iter().any(|point| poly.contains(point)) => any_contained(&poly, wit)
//@spec
    requires self.tree.wf(),
        parent_idx != 0 ==> self.a().dom().contains(node_idx) && self.a()[node_idx].parent == Some(parent_idx),
    ensures
        // edges leaving node 0 (the root of every tree the library builds) are always reported feasible
        parent_idx == 0 ==> r,
        // C11 / C03: the edge is reported infeasible only on an Infeasible verdict: a cached Infeasible state of the node or of its parent, or the LP answer
        // Infeasible for the path polytope; LP Error / Unbounded / Optimal answers (and any witness, however displaced) give "feasible"
        !r ==> self.a()[node_idx].value.state is Infeasible || self.a()[parent_idx].value.state is Infeasible
            || exists|path: Seq<(usize, usize)>| lp_status(#[trigger] path_poly(self.a(), path)) is Infeasible,
        // cached verdicts are honoured
        parent_idx != 0 && self.a()[node_idx].value.state is Infeasible ==> !r,
        parent_idx != 0 && (self.a()[node_idx].value.state is Feasible || self.a()[node_idx].value.state is FeasibleWitness) ==> r,
//@end
}

} // verus!
fn main() {}
