use vstd::prelude::*;
verus! {
pub struct P { pub v: Vec<u64> }
impl vstd::std_specs::core::IndexSpecImpl<usize> for P {
    open spec fn index_req(&self, index: &usize) -> bool { *index < self.v@.len() }
}
impl core::ops::Index<usize> for P {
    type Output = u64;
    fn index(&self, i: usize) -> (r: &u64) ensures *r == self.v@[i as int] { &self.v[i] }
}
impl core::ops::IndexMut<usize> for P {
    #[verifier::external_body] fn index_mut(&mut self, i: usize) -> (r: &mut u64) ensures *r == old(self).v@[i as int], final(self).v@ == old(self).v@.update(i as int, *final(r)) { &mut self.v[i] }
}
fn t(p: &mut P) requires old(p).v@.len() > 3 { let x = p[2]; p[1] = x; assert(p.v@[1] == p.v@[2]); }
}
fn main() {}
