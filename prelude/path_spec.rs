// ---- prelude/path_spec.rs : what path_to_node returns ----
// p lists, from the root downwards, the nodes above `node` together with the label that leads one step further down
pub open spec fn path_ok<N, const K: usize>(a: Arena<N, K>, p: Seq<(usize, usize)>, node: usize) -> bool {
    &&& p.len() == 0 ==> a[node].parent is None
    &&& p.len() > 0 ==> a[p[0].0].parent is None
    &&& forall|i: int| 0 <= i < p.len() ==> a.dom().contains((#[trigger] p[i]).0) && p[i].1 < K
            && a[p[i].0].children[p[i].1 as int] == Some(if i + 1 < p.len() { p[i + 1].0 } else { node })
}
// the same, collected upwards: s[0] is the parent edge of `node`, s[i] the parent edge of s[i-1].0; cur is where the walk stands
pub open spec fn up_ok<N, const K: usize>(a: Arena<N, K>, s: Seq<(usize, usize)>, node: usize, cur: usize) -> bool {
    &&& cur == (if s.len() == 0 { node } else { s.last().0 })
    &&& forall|i: int| 0 <= i < s.len() ==> a.dom().contains((#[trigger] s[i]).0) && s[i].1 < K
            && a[s[i].0].children[s[i].1 as int] == Some(if i == 0 { node } else { s[i - 1].0 })
}
pub proof fn lemma_up_reverse<N, const K: usize>(a: Arena<N, K>, s: Seq<(usize, usize)>, node: usize, cur: usize)
    requires up_ok(a, s, node, cur), a[cur].parent is None
    ensures path_ok(a, s.reverse(), node)
{
    let p = s.reverse();
    assert(p.len() == s.len());
    assert forall|i: int| 0 <= i < p.len() implies a.dom().contains((#[trigger] p[i]).0) && p[i].1 < K
        && a[p[i].0].children[p[i].1 as int] == Some(if i + 1 < p.len() { p[i + 1].0 } else { node }) by {
        assert(p[i] == s[s.len() - 1 - i]);
        if i + 1 < p.len() { assert(p[i + 1] == s[s.len() - 2 - i]); }
    }
    if p.len() > 0 { assert(p[0] == s[s.len() - 1]); }
}

// ---- end path_spec ----
