// unit tree_iter — C13: traversals of Tree<N,K> (src/tree/iter.rs)
use vstd::prelude::*;
use std::collections::VecDeque;
verus! {

pub type TreeIndex = usize;
pub type Label = usize;

//@include prelude/slab_shim.rs

//@item src/tree/graph.rs | struct TreeNode
//@item src/tree/graph.rs | struct InvalidTreeIndexError | pub-fields
//@item src/tree/graph.rs | struct Tree | pub-fields
//@item src/tree/graph.rs | struct Edge | derive=Clone,Copy
//@item src/tree/iter.rs | struct DfsNodeData | derive=Clone,Copy
//@item src/tree/iter.rs | struct EdgeData
//@item src/tree/iter.rs | struct DfsPre | pub-fields
//@item src/tree/iter.rs | struct DfsEdge | pub-fields
//@item src/tree/iter.rs | struct Bfs | pub-fields

//@include prelude/tree_spec.rs
//@include prelude/iter_spec.rs
//@include prelude/count_spec.rs
//@include prelude/tree_helpers.rs

pub assume_specification<T, const N: usize>[ <VecDeque<T> as core::convert::From<[T; N]>>::from ](a: [T; N]) -> (r: VecDeque<T>)
    ensures r@ == a@;

impl<N, const K: usize> Tree<N, K> {
    pub open spec fn wf(&self) -> bool { wf_at(self.arena@, self.root) }

//@fn src/tree/graph.rs | impl<N, const K: usize> Tree<N, K> | len
//@spec
    ensures r == self.arena@.dom().len()
//@end

//@fn src/tree/graph.rs | impl<N, const K: usize> Tree<N, K> | tree_node
//@spec
    ensures
        self.arena@.dom().contains(idx) ==> r is Ok && *r->Ok_0 == self.arena@[idx],
        !self.arena@.dom().contains(idx) ==> r is Err && r->Err_0.index == idx,
//@end

//@fn src/tree/graph.rs | impl<N, const K: usize> Tree<N, K> | get_root_idx
//@spec
    requires self.root is Some
    ensures Some(r) == self.root
//@end
}

// rule T1: methods of `impl TraversalMut for X` are verified as inherent methods of X
impl DfsPre {
//@fn src/tree/iter.rs | impl TraversalMut for DfsPre | new
//@bodysub DfsPre { stack: => let __r = DfsPre { stack:
//@bodysub size_ub: tree.len(), } => size_ub: tree.len(), }; /*HINT-BEGIN*/proof { if tree.wf() && tree.arena@.dom().contains(root) { assert forall|h: Map<usize, nat>| #[trigger] ranked_down(tree.arena@, h) implies size_ok(tree.arena@, h, __r.stack@, __r.size_lb, __r.size_ub) by { lemma_new_size(tree.arena@, tree.root, h, root); assert(__r.stack@ =~= seq![DfsNodeData { depth: 0, index: root, n_remaining: 0 }]); assert(__r.size_ub == tree.arena@.dom().len()); assert(tree.root == Some(root) ==> __r.size_lb == tree.arena@.dom().len()); assert(tree.root != Some(root) ==> __r.size_lb == 0); } } }/*HINT-END*/ __r
//@spec
    requires tree.root is Some
    ensures
        r.stack@ == seq![DfsNodeData { depth: 0, index: root, n_remaining: 0 }],
        r.last_push == 0,
        // the initial bounds bracket the number of items to come: exactly the tree size when started at the root (the pre-order lists every node
        // once: lemma_pre_count), between 0 and the tree size otherwise
        tree.wf() && tree.arena@.dom().contains(root) ==> forall|h: Map<usize, nat>| #[trigger] ranked_down(tree.arena@, h) ==> size_ok(tree.arena@, h, r.stack@, r.size_lb, r.size_ub),
//@end

//@fn src/tree/iter.rs | impl TraversalMut for DfsPre | next
//@spec
    requires stack_ok(tree.arena@, old(self).stack@)
    ensures
        // one step of the documented traversal
        dfs_step(tree.arena@, old(self).stack@, final(self).stack@, final(self).last_push, r),
        r is None ==> final(self).last_push == old(self).last_push && final(self).size_lb == old(self).size_lb && final(self).size_ub == old(self).size_ub,
        // hence: the returned item is the head of the remaining pre-order, the rest stays to come,
        // and size_hint keeps bracketing it
        dfs_step(tree.arena@, old(self).stack@, final(self).stack@, final(self).last_push, r) ==>
            forall|h: Map<usize, nat>| #[trigger] dfs_inv(tree.arena@, h, old(self).stack@) ==>
                dfs_inv(tree.arena@, h, final(self).stack@),
        dfs_step(tree.arena@, old(self).stack@, final(self).stack@, final(self).last_push, r) ==>
            forall|h: Map<usize, nat>| #[trigger] dfs_inv(tree.arena@, h, old(self).stack@) ==>
                (r is Some ==> rem(tree.arena@, h, old(self).stack@) == seq![r.unwrap()] + rem(tree.arena@, h, final(self).stack@)),
        dfs_step(tree.arena@, old(self).stack@, final(self).stack@, final(self).last_push, r) ==>
            forall|h: Map<usize, nat>| #[trigger] dfs_inv(tree.arena@, h, old(self).stack@) ==>
                (r is None ==> rem(tree.arena@, h, old(self).stack@).len() == 0),
        dfs_step(tree.arena@, old(self).stack@, final(self).stack@, final(self).last_push, r) ==>
            forall|h: Map<usize, nat>| #[trigger] dfs_inv(tree.arena@, h, old(self).stack@) ==>
                (size_ok(tree.arena@, h, old(self).stack@, old(self).size_lb, old(self).size_ub)
                        ==> size_ok(tree.arena@, h, final(self).stack@, final(self).size_lb, final(self).size_ub)),
//@hint start
        proof {
            assert forall|h: Map<usize, nat>, s1: Seq<DfsNodeData>, lp: usize, r: Option<DfsNodeData>|
                #[trigger] dfs_inv(tree.arena@, h, old(self).stack@) && #[trigger] dfs_step(tree.arena@, old(self).stack@, s1, lp, r) implies
                dfs_inv(tree.arena@, h, s1)
                && (r is Some ==> rem(tree.arena@, h, old(self).stack@) == seq![r.unwrap()] + rem(tree.arena@, h, s1))
                && (r is None ==> rem(tree.arena@, h, old(self).stack@).len() == 0) by {
                lemma_dfs_step(tree.arena@, h, old(self).stack@, s1, lp, r);
            }
        }
//@hint loop 1 before
        let ghost rest = self.stack@;
        let ghost ch = node.children;
        let ghost dp = (data.depth + 1) as usize;
        proof { assert(kid_items(ch, K as int, dp) =~= Seq::<DfsNodeData>::empty()); assert(rest + Seq::<DfsNodeData>::empty() =~= rest); }
//@loop 1
            invariant
                0 <= __i <= K, node.children.len() == K, node.children == ch,
                __n == count_some_from(ch, __i as int), __n + __i <= K,
                self.stack@ == rest + kid_items(ch, __i as int, dp).reverse(),
                self.last_push == __n,
                data.depth < usize::MAX, dp == data.depth + 1,
                self.size_lb == old(self).size_lb, self.size_ub == old(self).size_ub,
            decreases __i
//@hint loop 1 start
            proof { lemma_kid_push_step(ch, __i as int - 1, dp, rest); }
//@end

//@fn src/tree/iter.rs | impl TraversalMut for DfsPre | skip_subtree
//@spec
    ensures
        skip_step(old(self).stack@, old(self).last_push, final(self).stack@, final(self).last_push),
        // bounds stay valid: every stack entry still has to be visited, and at most one item per
        // dropped entry disappears from the upper bound
        final(self).size_lb <= final(self).stack@.len(),
        final(self).size_ub + old(self).last_push >= old(self).size_ub,
//@hint loop 1 before
        let ghost s0 = self.stack@;
        let ghost lp = self.last_push;
//@loop 1
            invariant
                self.last_push == lp, self.size_lb == old(self).size_lb, self.size_ub == old(self).size_ub,
                s0 == old(self).stack@, lp == old(self).last_push,
                self.stack@ == s0.take(if __k <= s0.len() { s0.len() - __k } else { 0 }),
//@end

//@fn src/tree/iter.rs | impl TraversalMut for DfsPre | size_hint
//@spec
    ensures r.0 == self.size_lb, r.1 == Some(self.size_ub)
//@end
}


pub proof fn lemma_kid_edges_seq<const K: usize>(ch: [Option<usize>; K], lo: int, depth: usize, src: usize)
    requires 0 <= lo <= K
    ensures kid_edges(ch, lo, depth, src).len() == kid_seq(ch, lo).len(),
        forall|j: int| 0 <= j < kid_seq(ch, lo).len() ==> #[trigger] kid_edges(ch, lo, depth, src)[j] == (depth, src, kid_seq(ch, lo)[j].0, kid_seq(ch, lo)[j].1)
    decreases K - lo
{
    if lo < K {
        lemma_kid_edges_seq(ch, lo + 1, depth, src);
        if ch[lo].is_some() {
            let e = kid_edges(ch, lo, depth, src); let er = kid_edges(ch, lo + 1, depth, src);
            let k = kid_seq(ch, lo); let kr = kid_seq(ch, lo + 1);
            assert(e == seq![(depth, src, lo as usize, ch[lo].unwrap())] + er);
            assert(k == seq![(lo as usize, ch[lo].unwrap())] + kr);
            assert forall|j: int| 0 <= j < k.len() implies #[trigger] e[j] == (depth, src, k[j].0, k[j].1) by {
                if j > 0 { assert(e[j] == er[j - 1]); assert(k[j] == kr[j - 1]); }
            }
        }
    }
}

impl DfsEdge {
//@fn src/tree/iter.rs | impl TraversalMut for DfsEdge | new
//@bodysub DfsEdge { stack, last_push: 0, => let __r = DfsEdge { stack, last_push: 0,
//@bodysub size_ub: tree.len().saturating_sub(1), } => size_ub: tree.len().saturating_sub(1), }; /*HINT-BEGIN*/proof { if tree.wf() { assert forall|h: Map<usize, nat>| #[trigger] ranked_down(tree.arena@, h) implies esize_ok(tree.arena@, h, __r.stack@, __r.size_lb, __r.size_ub) by { lemma_new_edges_size(tree.arena@, tree.root, h, root); assert(__r.size_ub + 1 == tree.arena@.dom().len()); assert(tree.root == Some(root) ==> __r.size_lb + 1 == tree.arena@.dom().len()); assert(tree.root != Some(root) ==> __r.size_lb == 0); } } }/*HINT-END*/ __r
//@spec
    requires tree.root is Some, tree.arena@.dom().contains(root)
    ensures
        // the traversal starts with the edges leaving the given root (lowest label on top)
        r.stack@ == kid_edges(tree.arena@[root].children, 0, 1, root).reverse(),
        r.last_push == 0,
        // the initial bounds bracket the number of edges to come: one per node below the start (lemma_edges_count)
        tree.wf() ==> forall|h: Map<usize, nat>| #[trigger] ranked_down(tree.arena@, h) ==> esize_ok(tree.arena@, h, r.stack@, r.size_lb, r.size_ub),
//@hint loop 1 before
        let ghost full = kid_edges(tree.arena@[root].children, 0, 1, root);
        proof { lemma_kid_edges_seq(tree.arena@[root].children, 0, 1, root); }
//@loop 1
            invariant
                0 <= __i <= __kids@.len(), full.len() == __kids@.len(),
                forall|j: int| 0 <= j < full.len() ==> #[trigger] full[j] == (1usize, root, __kids@[j].label, __kids@[j].target_idx),
                stack@.len() == __kids@.len() - __i,
                forall|j: int| 0 <= j < stack@.len() ==> #[trigger] stack@[j] == full[full.len() - 1 - j],
            decreases __i
//@hint loop 1 after
        proof { assert(stack@ =~= full.reverse()); }
//@end

//@fn src/tree/iter.rs | impl TraversalMut for DfsEdge | next
//@sigsub Self::Item => EdgeData
//@spec
    requires estack_ok(tree.arena@, old(self).stack@)
    ensures
        edge_step(tree.arena@, old(self).stack@, final(self).stack@, final(self).last_push, r),
        r is None ==> final(self).last_push == old(self).last_push && final(self).size_lb == old(self).size_lb && final(self).size_ub == old(self).size_ub,
        edge_step(tree.arena@, old(self).stack@, final(self).stack@, final(self).last_push, r) ==>
            forall|h: Map<usize, nat>| #[trigger] edge_inv(tree.arena@, h, old(self).stack@) ==>
                edge_inv(tree.arena@, h, final(self).stack@),
        edge_step(tree.arena@, old(self).stack@, final(self).stack@, final(self).last_push, r) ==>
            forall|h: Map<usize, nat>| #[trigger] edge_inv(tree.arena@, h, old(self).stack@) ==>
                (r is Some ==> rem_e(tree.arena@, h, old(self).stack@) == seq![old(self).stack@.last()] + rem_e(tree.arena@, h, final(self).stack@)),
        edge_step(tree.arena@, old(self).stack@, final(self).stack@, final(self).last_push, r) ==>
            forall|h: Map<usize, nat>| #[trigger] edge_inv(tree.arena@, h, old(self).stack@) ==>
                (r is None ==> rem_e(tree.arena@, h, old(self).stack@).len() == 0),
        edge_step(tree.arena@, old(self).stack@, final(self).stack@, final(self).last_push, r) ==>
            forall|h: Map<usize, nat>| #[trigger] edge_inv(tree.arena@, h, old(self).stack@) ==>
                (esize_ok(tree.arena@, h, old(self).stack@, old(self).size_lb, old(self).size_ub)
                        ==> esize_ok(tree.arena@, h, final(self).stack@, final(self).size_lb, final(self).size_ub)),
//@hint start
        proof {
            assert forall|h: Map<usize, nat>, s1: Seq<EItem>, lp: usize, r: Option<EdgeData>|
                #[trigger] edge_inv(tree.arena@, h, old(self).stack@) && #[trigger] edge_step(tree.arena@, old(self).stack@, s1, lp, r) implies
                edge_inv(tree.arena@, h, s1)
                && (r is Some ==> rem_e(tree.arena@, h, old(self).stack@) == seq![old(self).stack@.last()] + rem_e(tree.arena@, h, s1))
                && (r is None ==> rem_e(tree.arena@, h, old(self).stack@).len() == 0) by {
                lemma_edge_step(tree.arena@, h, old(self).stack@, s1, lp, r);
            }
        }
//@hint loop 1 before
        let ghost rest = self.stack@;
        let ghost ch = node.children;
        let ghost dp = (depth + 1) as usize;
        proof { assert(kid_edges(ch, K as int, dp, dest_idx) =~= Seq::<EItem>::empty()); assert(rest + Seq::<EItem>::empty() =~= rest); }
//@loop 1
            invariant
                0 <= __i <= K, node.children.len() == K, node.children == ch,
                self.last_push == count_some_from(ch, __i as int), self.last_push + __i <= K,
                self.stack@ == rest + kid_edges(ch, __i as int, dp, dest_idx).reverse(),
                depth < usize::MAX, dp == depth + 1,
                self.size_lb == old(self).size_lb, self.size_ub == old(self).size_ub,
            decreases __i
//@hint loop 1 start
            proof { lemma_edge_push_step(ch, __i as int - 1, dp, dest_idx, rest); lemma_kid_edges_len(ch, __i as int - 1, dp, dest_idx); }
//@end

//@fn src/tree/iter.rs | impl TraversalMut for DfsEdge | skip_subtree
//@spec
    ensures
        eskip_step(old(self).stack@, old(self).last_push, final(self).stack@, final(self).last_push),
        final(self).size_lb <= final(self).stack@.len(),
        final(self).size_ub + old(self).last_push >= old(self).size_ub,
//@hint loop 1 before
        let ghost s0 = self.stack@;
        let ghost lp = self.last_push;
//@loop 1
            invariant
                self.last_push == lp, self.size_lb == old(self).size_lb, self.size_ub == old(self).size_ub,
                s0 == old(self).stack@, lp == old(self).last_push,
                self.stack@ == s0.take(if __k <= s0.len() { s0.len() - __k } else { 0 }),
//@end

//@fn src/tree/iter.rs | impl TraversalMut for DfsEdge | size_hint
//@spec
    ensures r.0 == self.size_lb, r.1 == Some(self.size_ub)
//@end
}

impl Bfs {
//@fn src/tree/iter.rs | impl TraversalMut for Bfs | new
//@spec
    requires tree.root is Some
    ensures
        r.queue@ == seq![DfsNodeData { depth: 0, index: root, n_remaining: 0 }],
        r.last_push == 0,
//@end

//@fn src/tree/iter.rs | impl TraversalMut for Bfs | next
//@spec
    requires stack_ok(tree.arena@, old(self).queue@)
    ensures
        bfs_step(tree.arena@, old(self).queue@, final(self).queue@, final(self).last_push, r),
        r is None ==> final(self).last_push == old(self).last_push && final(self).size_lb == old(self).size_lb && final(self).size_ub == old(self).size_ub,
        // one item fewer to come
        r is Some ==> final(self).size_lb <= (if old(self).size_lb > 0 { old(self).size_lb - 1 } else { 0 })
            && final(self).size_ub + 1 >= old(self).size_ub,
//@hint loop 1 before
        let ghost rest = self.queue@;
        let ghost ch = node.children;
        let ghost dp = (data.depth + 1) as usize;
        proof { lemma_kid_items_len(ch, 0, dp); }
//@loop 1
            invariant
                0 <= __i <= K, node.children.len() == K, node.children == ch,
                n_children == count_some_from(ch, 0), n_children <= K,
                __n + count_some_from(ch, __i as int) == n_children,
                self.queue@ + kid_items(ch, __i as int, dp) == rest + kid_items(ch, 0, dp),
                self.last_push == __n,
                data.depth < usize::MAX, dp == data.depth + 1,
                self.size_lb == old(self).size_lb, self.size_ub == old(self).size_ub,
            decreases K - __i
//@hint loop 1 start
            proof {
                let ghost q0 = self.queue@;
                if ch[__i as int].is_some() {
                    let item = DfsNodeData { depth: dp, index: ch[__i as int].unwrap(), n_remaining: count_some_from(ch, __i as int + 1) as usize };
                    assert(kid_items(ch, __i as int, dp) == seq![item] + kid_items(ch, __i as int + 1, dp));
                    assert(q0.push(item) + kid_items(ch, __i as int + 1, dp) =~= q0 + (seq![item] + kid_items(ch, __i as int + 1, dp)));
                }
            }
//@hint loop 1 after
        proof { assert(kid_items(ch, K as int, dp) =~= Seq::<DfsNodeData>::empty()); assert(self.queue@ =~= self.queue@ + Seq::<DfsNodeData>::empty()); }
//@end

//@fn src/tree/iter.rs | impl TraversalMut for Bfs | skip_subtree
//@spec
    ensures
        bfs_skip_step(old(self).queue@, old(self).last_push, final(self).queue@, final(self).last_push),
        final(self).size_lb <= final(self).queue@.len(),
        final(self).size_ub + old(self).last_push >= old(self).size_ub,
//@hint loop 1 before
        let ghost s0 = self.queue@;
        let ghost lp = self.last_push;
//@loop 1
            invariant
                self.last_push == lp, self.size_lb == old(self).size_lb, self.size_ub == old(self).size_ub,
                s0 == old(self).queue@, lp == old(self).last_push,
                self.queue@ == s0.take(if __k <= s0.len() { s0.len() - __k } else { 0 }),
//@end

//@fn src/tree/iter.rs | impl TraversalMut for Bfs | size_hint
//@spec
    ensures r.0 == self.size_lb, r.1 == Some(self.size_ub)
//@end
}

// size part of skip_subtree at the level of the remaining sequence
pub proof fn lemma_skip_size<N, const K: usize>(a: Arena<N, K>, h: Map<usize, nat>, s0: Seq<DfsNodeData>, lp0: usize, lb0: usize, ub0: usize,
    s1: Seq<DfsNodeData>, lp1: usize, lb1: usize, ub1: usize)
    requires size_ok(a, h, s0, lb0, ub0), skip_step(s0, lp0, s1, lp1), lb1 <= s1.len(), ub1 + lp0 >= ub0, lp0 <= s0.len()
    ensures size_ok(a, h, s1, lb1, ub1)
{
    lemma_rem_len_ge(a, h, s0, lp0 as int);
    lemma_rem_len_ge(a, h, s1, s1.len() as int);
}

} // verus!
fn main() {}
