"""Per-property configuration of the affinitree checks (what decides each property).

units:   Verus units (units/<name>.rs) whose every obligation must be discharged
bounded: bc sub-commands (bounded contract replay on the real crate) — labelled bounded, never counted as proved
level:   evidence level claimed for the property
"""

ASSUME_COMMON = [
    'Verus 0.2026.09.13 / Z3 are sound',
    'extraction rules D1-D6, S1-S2, I1-I10 (DESIGN.md §2.1) preserve semantics; the verified text is re-extracted from /repo on every run',
    'termination is proved for extracted loops only',
]

ASSUME_SLAB = [
    'slab::Slab contracts in prelude/slab_shim.rs are assumed (external_body): view Map<usize,T>; insert returns some key not in the domain; remove/try_remove/get/get_mut/contains/len as documented by slab 0.4.9',
    'core::mem::replace assume_specification',
    'axiom_from_invalid_index: the error conversion performed by `?` equals the (verified) From impl that thiserror #[from] generates',
]

PROPS = {
    'C12': {
        'level': 'proof',
        'units': ['tree_graph'],
        'bounded': [],
        'technique': 'Verus contracts on the extracted text of src/tree/graph.rs: wf is pre/post-condition of every mutator, Err => arena unchanged, frame clauses',
        'level_text': ('Deductive proof (Verus/Z3) that every mutator of Tree<N,K> (add_root on an empty tree, add_child_node, update_node, '
                       'try_remove_child, remove_child, remove_all_descendants, merge_child_with_parent), for generic N and K and an arbitrary well-formed '
                       'pre-state, re-establishes the structural invariant wf (mirrored links, unique listing, leaf flag, single parent-less root, ghost rank map '
                       '= acyclic + reachable), leaves the arena unchanged on Err, and changes only the nodes named by its relational post-condition. '
                       'By induction this covers every finite operation history, including index reuse (insert returns an arbitrary free key).'),
        'design_ref': 'DESIGN.md §4 C12',
        'assumptions': ASSUME_COMMON + ASSUME_SLAB + [
            'rewrite helpers count_some / children_idx_vec are themselves verified in the unit',
            'arena holds at most i32::MAX nodes (remove_all_descendants counts deletions in an i32)',
            'label < K is a precondition of add_child_node/child/try_remove_child (the code indexes a [_; K] array)',
        ],
    },
}


BOUNDED_NOTE = ('Bounded contract replay: the executable form of the contract is evaluated on the real compiled crate for every case of a stated finite '
                'space with an exact rational oracle (Fourier-Motzkin, i128 rationals). Labelled bounded; NOT a proof and never counted as one.')
ASSUME_BC = [
    'bounded: only the stated finite case space is covered (see coverage.bounded[].bound)',
    'oracle arithmetic is exact (i128 rationals); generated data are small dyadic rationals so the library\'s f64 arithmetic is exact on them',
    'LP answers of minilp are taken as the library sees them; where a contract needs ground truth the exact Fourier-Motzkin oracle is used instead',
]


def bounded(pid, cmd, title, classes=None, design='DESIGN.md §4', level='exploration', extra_assume=()):
    return {
        'level': level,
        'units': [],
        'bounded': [{'args': [cmd], 'classes': classes}],
        'technique': f'bounded contract replay (bc {cmd}) on the real crate with an exact rational oracle; no deductive claim',
        'level_text': title + ' ' + BOUNDED_NOTE,
        'design_ref': design,
        'assumptions': ASSUME_BC + list(extra_assume),
    }


PROPS.update({
    'C01': bounded('C01', 'distill', 'End-to-end distillation of small networks compared with the exact network function on a lattice (breakpoints and ties included).'),
    'C02': bounded('C02', 'compose', 'compose::<false,_> / apply_func: h(x)==g(f(x)) incl. undefinedness, right operand unchanged, nodes of f keep their index, for K in {2,4}.'),
    'C03': bounded('C03', 'prune', 'infeasible_elimination and pruned composition preserve the (partial) function; differences tolerated only on regions without interior.', classes=['function', 'panic', 'wf', 'law', 'nonfinite']),
    'C04': bounded('C04', 'histories', 'Operation histories from every constructor keep the tree well-formed (aff_wf) and panic-free.'),
    'C05': bounded('C05', 'prune', 'Cached witnesses satisfy their path conditions within 1e-8, infeasible marks only on regions without interior, mirror_points results lie in the polytope.', classes=['cache', 'mirror']),
    'C06': bounded('C06', 'prune', 'After elimination of a total tree: no empty-region node, no single-branch decision below the root, second run changes nothing.', classes=['effective', 'idempotent']),
    'C07': bounded('C07', 'ops', 'Tree arithmetic (+,-,*,/, neg, mixed tree/affine forms, all ownership variants) is the point-wise lifting of coefficient-wise affine arithmetic.'),
    'C08': bounded('C08', 'reduce', 'reduce preserves the function exactly, never grows, is idempotent, leaves no decision with two equal terminal children and keeps decisions with differing children.'),
    'C09': bounded('C09', 'regions', 'polyhedra()/polyhedra_iter() streams, find_terminal/evaluate and path_to_node agree; regions partition the domain; all skip_subtree positions.'),
    'C11': bounded('C11', 'faults', 'Every single LP fault (Error, Unbounded, displaced witness) at every call position of elimination / pruned composition: no panic, same function, sound caches, only less pruning.', level='fault_enumeration', extra_assume=['uses the cfg(affinitree_verif) fault plan hook at the top of Polytope::solve_linprog']),
    'C13': bounded('C13', 'traversal', 'DfsPre/DfsEdge/Bfs streams, size_hint brackets, every skip_subtree position (also repeated), index-order iterators and tree metrics vs a reference computed from the arena view.'),
    'C14': bounded('C14', 'poly', 'Polytope operations and constructors: exact membership of results vs pre-images on the lattice; contains/distance vs exact.'),
    'C15': bounded('C15', 'cleanup', 'Row clean-ups keep the point set (exact two-way inclusion), only drop rows, and leave no row implied with a margin.'),
    'C16': bounded('C16', 'aff', 'Affine algebra, conversions and named constructors vs exact evaluation of the defining identities.'),
    'C17': bounded('C17', 'schema', 'Schema trees vs textbook definitions on the lattice (every breakpoint and tie).'),
    'C18': bounded('C18', 'arch', 'Architecture builder call sequences vs a shadow shape model, distillation of accepted architectures and of their splits, npz layer-file round trips.'),
})
PROPS['C12']['bounded'] = [{'args': ['tree-ops'], 'classes': None}]
# the witness-repair branch of phase_two is only reached when the LP answer is off: exercised through the fault hook
PROPS['C05']['bounded'].append({'args': ['faults'], 'classes': ['cache']})
# the distilled-network clause of C06: the builder prunes after every activation unit
PROPS['C06']['bounded'].append({'args': ['distill'], 'classes': ['effective', 'idempotent']})

PROPS['C13']['bounded'].append({'args': ['regions'], 'classes': ['size-hint']})
PROPS['C13'].update({
    'level': 'other',
    'units': ['tree_iter', 'tree_path'],
    'technique': 'Verus contracts on the extracted text of src/tree/iter.rs (step relations of DfsPre/DfsEdge/Bfs against a spec pre-order, skip_subtree, size-bound preservation) + bounded replay (bc traversal) for what the contracts do not reach',
    'level_text': ('Mixed. PROVED (Verus, all trees, all K, all start nodes, all positions): DfsPre::next / DfsEdge::next return the head of the remaining '
                   'pre-order `rem(stack)` of a spec traversal (children by ascending label, depth and remaining-sibling counters) and leave the tail to come; '
                   'skip_subtree drops exactly the entries pushed by the last next() (lemma: next then skip removes exactly pre_items(last) minus the item itself; a second '
                   'skip is a no-op); the spec pre-order of a start node lists EXACTLY the nodes at or below it, EACH ONCE (lemma_pre_exact: membership <=> sub_nodes, no duplicate index; lemma_edges_exact: the same for the edge pre-order, edges identified by their target); size_hint: DfsPre::new starts with bounds that bracket the number of items to come - exactly the tree size when started at the root (counting lemma lemma_pre_count: the pre-order of a subtree lists every node of the subtree exactly once; subtrees of different children are disjoint, everything hangs below the root) - and next / skip_subtree preserve the bracket, so DfsPre::size_hint ALWAYS brackets the remaining count; the same for DfsEdge (lemma_edges_count: one edge per node below the start, initial bracket of DfsEdge::new proved); for Bfs the step contracts and lemma_bfs_partition over the step relation: the subtrees of the queue entries partition what is still to come, each `next` returns a node that was still to come and removes exactly it - so a run of `next` calls from `new` returns every node at or below the start exactly once (the level order itself is the step relation: front out, children appended in ascending label order); Bfs::next / skip_subtree obey the queue discipline with correct '
                   'depth / remaining-sibling counters; DfsEdge::new seeds from the given root; Tree::path_to_node (unit tree_path) returns Err exactly for unknown indices and otherwise the (node, label) steps from the root down to the node '
                   '(path_ok: first entry is the root, each entry lists the next one under its label, the last lists the node), and terminates. BOUNDED only (bc traversal, exhaustive small trees): the initial size bounds '
                   'of Bfs::new, PolyhedraIter::size_hint, index-order iterators, num_nodes, num_terminals, depth, depth_stats (iterator pipelines).'),
    'design_ref': 'DESIGN.md §4 C13',
    'assumptions': ASSUME_COMMON + ASSUME_SLAB + ASSUME_BC + [
        'rule T1: methods of `impl TraversalMut for X` are verified as inherent methods (trait dispatch in TraversalIter is a one-line delegation, not modelled)',
        'assume_specification for VecDeque::from([T; N]) (view equals the array); vstd specifications of Vec / VecDeque',
        'the remaining-sequence theorems are stated for every height map h with ranked_down(arena, h) (exists for every wf tree, part of wf)',
        'depth counters do not overflow: depth + height < usize::MAX (invariant dfs_inv)',
        'DfsPre::new / DfsEdge::new: the struct literal is bound to a local so that the initial size bracket can be stated after construction (rule N1); the bracket is stated for well-formed trees and start nodes that exist', 'unit tree_path: `path.reverse()` is the helper vec_reverse_pairs with the ASSUMED contract of std Vec::reverse; the capacity hint `(self.len() as f64).log(K as f64).ceil()` is dropped (rule D3)',
    ],
})

PROPS['C18'].update({
    'level': 'other',
    'units': ['arch'],
    'technique': 'Verus contracts on the extracted text of src/distill/arch.rs (arch_ok invariant, accepted <=> compatible, Err => unchanged) + bounded replay (bc arch) for extract_range, distillation of accepted architectures and read_layers',
    'level_text': ('Mixed. PROVED (Verus, all call sequences by induction over the invariant arch_ok): every Architecture builder method (new, linear, partial_relu, relu, '
                   'partial_leaky_relu, leaky_relu, partial_hard_tanh, hard_tanh, partial_hard_sigmoid, hard_sigmoid, argmax) accepts a layer exactly when it is '
                   'dimension-compatible with the tracked shape, leaves the architecture unchanged on Err, queues exactly the stated layers, and keeps '
                   'current_shape equal to the output width of the queued network (net_out). BOUNDED only (bc arch): extract_range splits compose to the whole, '
                   'accepted architectures distill without panic, read_layers round trips (iterator adapters / file I/O are outside Verus).'),
    'design_ref': 'DESIGN.md §4 C18',
    'assumptions': ASSUME_COMMON + ASSUME_BC + [
        'AffFunc is an opaque shim in this unit: indim()/outdim() return its (uninterpreted) dimensions',
        'derive(Clone, Debug) on Layer / TensorShape are structural',
    ],
})

ASSUME_ND = [
    'f64 read as exact reals: every ndarray / scalar operation in prelude/nd_shim*.rs is external_body with an ASSUMED contract in real arithmetic (NaN, infinities and rounding are outside the model except is_nan/is_infinite flags); validated against the real ndarray only by the bounded replay bc aff / bc poly',
    'rule F1/O1: scalar float operators and reference-reference array operators are replaced by named helpers / explicit trait calls (Sub::sub(a, b)); each site is listed as //@bodysub in units/aff_algebra.rs',
    'rule M1/M2: impl_ops! bodies are verified with $trt/$mth substituted; ndarray concatenate![Axis(0), a, b] is modelled by NdConcat::concat',
    'rule T1: operator trait impl methods are verified as inherent methods (<op>_ref / <op>_owned / neg_owned)',
    'math.rs lemmas are proved (no axioms); the only axioms are the array shape invariants axiom_array{1,2}_shape',
]
PROPS['C16'].update({
    'level': 'other',
    'units': ['aff_algebra'],
    'technique': 'Verus contracts on the extracted text of src/linalg/affine.rs and src/linalg/impl_ops.rs against a real-arithmetic shim of ndarray (forall-x post-conditions proved with induction lemmas) + bounded replay (bc aff) for the iterator-based helpers',
    'level_text': ('Mixed. PROVED modulo "f64 = reals" (Verus, all shapes, all inputs): from_mats, indim/outdim, identity, zeros, constant, unit, zero_idx, sum, subtraction, rotation, scaling, '
                   'uniform_scaling, translation (forall x: apply(result, x) == definition); apply, apply_transpose; compose(f,g)(x)==f(g(x)); stack concatenates outputs; + - * / '
                   'coefficient-wise for the borrowed and the owned variant (and + / - point-wise), unary minus and negate point-wise; view, to_owned, as_polytope, as_function, '
                   'Polytope::new keep the coefficients; convert_to describes the same half-spaces row by row for every PolyRepr. '
                   'BOUNDED only (bc aff): row, row_iter, remove_rows, remove_zero_rows, remove_zero_columns, from_row_iter, slice, % (iterator / closure pipelines, no real-number reading).'),
    'design_ref': 'DESIGN.md §4 C16',
    'assumptions': ASSUME_COMMON + ASSUME_ND + ASSUME_BC,
})
PROPS['C14'].update({
    'level': 'other',
    'units': ['aff_algebra'],
    'technique': 'Verus contracts on the extracted polytope operations of src/linalg/affine.rs against the real-arithmetic ndarray shim (membership equivalences for all x) + bounded replay (bc poly)',
    'level_text': ('Mixed. PROVED modulo "f64 = reals" (Verus, all polytopes, all points, all dimensions): unbounded, empty, hypercube, hyperrectangle, axis_bounds / place_axis_bounds (incl. infinite bounds), '
                   'distance_raw == b - M x, contains (true iff every un-normalised row holds up to 1e-8: b_i - m_i.x >= -1e-8; rule I18 helper all_ge_lit for the `.into_iter().all(..)` closure), translate (x in result <=> x - d in P), intersection (<=> in both), apply_pre (<=> f(x) in P), apply_post (<=> inverse (y - bias) in P), rotate (<=> R^T y in P). '
                   'intersection_n ON ITS REAL BODY (rule I19: the two `polys.iter().map(|p| p.mat.view() / p.bias.view()).collect()` pipelines are the trusted helpers mat_views / bias_views; `ndarray::concatenate(Axis(0), slice)` is the ASSUMED library contract nd_concatenate1/2: Err iff the list is empty or column counts differ, otherwise the operands\' rows in order): given parts of dimension dim its two "mismatch in dimensions" panics are unreachable, the result has the rows of the parts in order (one unbounded row for the empty list), x in result <=> x in every part, and a point the result tolerates (contains) is tolerated by every part (prelude/cat_spec.rs: one induction for every row predicate). '
                   'BOUNDED only (bc poly): cross_polytope, from_normal, simplex, distance (norms).'),
    'design_ref': 'DESIGN.md §4 C14',
    'assumptions': ASSUME_COMMON + ASSUME_ND + ASSUME_BC,
})

PROPS['C02'].update({
    'level': 'other',
    'units': ['pwl_schema'],
    'technique': 'Verus contracts on the node-level composition schemas (update_decision / update_terminal, AffFunc::compose) against the real-arithmetic ndarray shim + bounded replay (bc compose) of the grafting loop generic_composition_inplace',
    'level_text': ('Mixed. PROVED modulo "f64 = reals" (Verus, all shapes, all x): FunctionComposition(+Infeasible)::update_decision yields a predicate whose every row holds at x exactly when '
                   'the original row holds at context(x) (A(Mx+c) <= b <=> (AM)x <= b - Ac); update_terminal is original after context; AffFunc::compose(f,g)(x) == f(g(x)). '
                   'BOUNDED (bc compose, K in {2,4}): the tree-level law h(x) == g(f(x)) incl. undefinedness through generic_composition_inplace, apply_func, right operand unchanged, node indices of f kept. '
                   'The grafting loop itself (two nested loops over an explicit stack with interleaved deletions) is not under contract.'),
    'design_ref': 'DESIGN.md §4 C02',
    'assumptions': ASSUME_COMMON + ASSUME_ND + ASSUME_BC + ['rule T1: methods of `impl CompositionSchema for X` are verified as free functions; clone() is the verified body of impl Clone (clone_aff)'],
})
PROPS['C07'].update({
    'level': 'other',
    'units': ['pwl_schema', 'aff_algebra', 'pwl_ops_tree'],
    'technique': 'Verus contracts on the arithmetic schemas (impl_op_schema! expanded), the AffFunc operators, and the in-place tree operators `AffTree op &AffTree` through generic_composition_inplace instantiated with each arithmetic schema (structure for every answer of the LP oracle) + bounded replay (bc ops) of the point-wise law on trees',
    'level_text': ('Mixed. PROVED modulo "f64 = reals" (Verus): for Add/Sub/Mul/Div the schema keeps decisions unchanged and builds the terminal as context op original, coefficient-wise and in '
                   'that operand order; the AffFunc operators are coefficient-wise in the borrowed and the owned variant (and + / - / unary minus point-wise); '
                   'the in-place operators `tree + &tree`, `-`, `*`, `/` (unit pwl_ops_tree: the real loop nest of generic_composition_inplace once per arithmetic schema) return a well-formed tree over the same input space whose terminals all have the common output dimension and whose '
                   'every terminal is a terminal of the left operand combined with one of the right operand by that schema - for EVERY answer pattern of the LP-based feasibility oracle (is_edge_feasible arbitrary except its root shortcut) - and cannot panic (`/` under its documented precondition: no zero coefficient in the divisor terminals). '
                   'BOUNDED (bc ops): the point-wise law h(x) = a(x) op b(x) itself (it depends on the soundness of the LP oracle), the other ownership variants (forwarding impls), negation and the tree/affine mixed forms (closures over terminals_mut). The lifted law on trees for all four operators, every ownership variant, negation and the tree/affine mixed forms through generic_composition_inplace and unary_op_*.'),
    'design_ref': 'DESIGN.md §4 C07',
    'assumptions': ASSUME_COMMON + ASSUME_ND + ASSUME_BC + ['rule T1 as for C02',
        'unit pwl_ops_tree: rule M1 (the body of impl_op_schema! is verified once per operator with $trt / $op / $name substituted), rule G1 (generic_composition_inplace instantiated with that schema and NoOpVis), `mut self` is written `let mut __s = self` (Verus lacks `mut self`), the schema explore (generate_infeasible!("infeasible")) is extracted from the macro arm and calls is_edge_feasible with the contract proved in unit pwl_feasible; a ghost argument carries the common output dimension; remove_child without its arena-size precondition as in C04'],
})

ASSUME_PWL = [
    'rule S4: the field AffTree::polytope_cache (interior-mutable scratch buffer, RefCell) is dropped from the struct; functions using it are not extracted',
    'rule C1/C2: `arr.map(|x| *x <= 0.)` is replaced by the helper nd_le_zero (assumed contract bv[i] == (v[i] <= 0)); `opt.map(|(f, _)| e)` is written as the match it abbreviates',
    'rule I8: `tree.terminal_indices().collect_vec()` is the trusted helper terminal_indices_vec (exactly the indices flagged as leaf, ascending)',
    'Tree::node_value_mut is trusted in this unit (closure over &mut); the other Tree functions used are re-verified here with the contracts of unit tree_graph',
    'usize is 64 bit (global size_of usize == 8) for the label bit arithmetic; decisions have at most 15 rows',
]
PROPS['C09'].update({
    'level': 'other',
    'units': ['pwl_tree', 'tree_iter', 'tree_path', 'pwl_regions'],
    'technique': 'Verus contracts on PolyhedraGen::{new, with_root, next, skip_subtree} (the half-spaces reported with a node are those of its path, in path order; lemmas: routed inputs satisfy them, strictly interior inputs are routed through the node), on find_terminal / evaluate_decision / index_from_label / evaluate (label = decide(node, x), labels follow the path, evaluate == denoted partial function) + bounded replay (bc regions) for the polyhedra()/polyhedra_iter() streams',
    'level_text': ('Mixed. PROVED modulo "f64 = reals" (Verus, all trees of any shape / index layout, all inputs): index_from_label computes sum 2^i[b_i]; evaluate_decision returns decide(node, x) '
                   '(bit i set iff row_i.x <= b_i); find_terminal returns a terminal together with exactly the labels of a path from the start node to it such that every label is the one '
                   'its decision selects for x (so x satisfies every reported path condition), returns None exactly when the selected branch of a reached decision is missing, and never '
                   'reaches its panic; evaluate(x) equals the denoted partial function tree_fn(root, x), undefinedness included. '
                   'The node stream under polyhedra() is DfsPre: its next / skip_subtree step contracts (unit tree_iter, see C13) are discharged here as well. PROVED for the generator itself (unit pwl_regions, binary trees): PolyhedraGen::next returns the DfsPre item and leaves in `predicates` exactly one half-space per edge of the path root -> node, in path order, '
                   'each being the parent predicate for label 1 and its closed complement (rows and bias negated) for label 0 - also after any number of skip_subtree calls (invariant gen_inv over a ghost path; stack entries hang below the path: anc_inv); '
                   'lemma_route_in_region: an input routed through the node satisfies every reported half-space; lemma_interior_routed: an input strictly inside all of them is routed through the node; lemma_disjoint_interiors: no input lies strictly inside the regions reported for two distinct terminals (both paths would be routed for it, routed paths from the same start agree, and a terminal has no child); lemma_total_defined: in a tree without missing branches every input of the tree\'s dimension reaches a terminal (and by lemma_route_in_region lies in the region reported for it: cover); the node stream lists every node of the tree exactly once (lemma_pre_exact, unit tree_iter); Tree::path_to_node (unit tree_path). '
                   'BOUNDED (bc regions): the PolyhedraIter wrapper and the statements above replayed on the whole stream of the compiled crate (order, depth, sibling counters, path polytopes, all skip_subtree positions, single and repeated, interior points routed through '
                   'their node, disjoint interiors, coverage of total trees).'),
    'design_ref': 'DESIGN.md §4 C09',
    'assumptions': ASSUME_COMMON + ASSUME_SLAB + ASSUME_ND + ASSUME_PWL + ASSUME_BC + [
        'unit pwl_regions: PolyhedraGen::next is verified for K = 2 with two ghost arguments (the path of the previously returned node, a height map); its returned reference `&self.predicates` is dropped from the signature (the list is read from self.predicates / current_polytope()); `tree.node_value(i)` is read as tree.tree_node(i).value (rule N2); `&aff.mat * factor` is written Mul::mul(&aff.mat, factor) (rule O1); the literals 1.0 / -1.0 are flit helpers; the DfsPre contracts are taken over from unit tree_iter (//@assumed); traversal starts at the tree root',
    ],
})
PROPS['C02']['units'] = ['pwl_schema', 'pwl_tree']
PROPS['C02']['level_text'] = PROPS['C02']['level_text'].replace('BOUNDED (bc compose', 'Also PROVED at tree level: AffTree::apply_func / apply_func_at_node compose the affine map on the left of exactly the terminals, keep decisions and cached states, and tree_fn(result, x) == tree_fn(old, x).map(a) for every x (the affine special case of the law). BOUNDED (bc compose')
PROPS['C02']['assumptions'] = PROPS['C02']['assumptions'] + ASSUME_SLAB + ASSUME_PWL
# the grafting loop itself is under contract since unit pwl_compose
PROPS['C02']['units'] = ['pwl_schema', 'pwl_tree', 'pwl_compose']
PROPS['C02']['level'] = 'proof'
PROPS['C02']['technique'] = ('Verus contracts on the extracted text of AffTree::compose / generic_composition_inplace (instantiated for FunctionComposition + NoOpVis, i.e. compose::<false,false>), '
                             'the composition schemas, apply_func and the Tree / AffFunc functions they call, against the real-arithmetic ndarray shim: forall trees f, g, forall x: '
                             'tree_fn(result, x) == tree_fn(f, x).and_then(|y| tree_fn(g, y)); bounded replay (bc compose) cross-checks the contract against the compiled code for K in {2,4}')
PROPS['C02']['level_text'] = ('PROVED modulo "f64 = reals" and the assumptions listed (Verus, every K >= 2, every pair of well-formed trees of any shape / index layout with matching dimensions, every input x): '
    'AffTree::compose::<false,false>(f, g) leaves a well-formed tree h with tree_fn(h, x) == match tree_fn(f, x) { None => None, Some(y) => tree_fn(g, y) } (definedness included), '
    'g is only borrowed immutably, every node of f keeps its index and parent, decisions of f are untouched. The proof goes through the real loop nest of generic_composition_inplace '
    '(terminal loop, explicit work stack, children loop) with a ghost copy map lhs-node -> new node (predicates graft_inv / stack_ok / kids_progress), uses the contracts of '
    'update_decision (row i of the new predicate holds at x iff row i of the old one holds at f_t(x)) and update_terminal (g_leaf after f_t), Tree::add_child_node / update_node, and shows the '
    'pruning branch (remove_child / merge_child_with_parent) unreachable for this schema. Also proved: the general form for an arbitrary list of distinct terminals (comp_fn), which is what '
    'the arithmetic operators use, and AffTree::apply_func / apply_func_at_node (affine special case). '
    'Termination of the work-stack loop is not proved (exec_allows_no_decreases_clause). '
    'BOUNDED cross-check (bc compose, K in {2,4}): the same law on the compiled code incl. right operand unchanged and node indices kept; compose::<true,_> is covered by C03.')
PROPS['C02']['assumptions'] = PROPS['C02']['assumptions'] + [
    'rule G1 (generic specialisation): generic_composition_inplace<I, C, V> is verified for I = Vec<TreeIndex>, C = FunctionComposition, V = NoOpVis: the type parameters and the visitor calls (no-ops for NoOpVis) are dropped, C::update_decision / C::update_terminal / C::explore are replaced by the verified functions of that impl (explore == true), `for terminal_idx in iter` is the index loop over the vector; compose<PRUNE, VERBOSE> keeps only its PRUNE = VERBOSE = false branch',
    'rule I7c: `for (pos, edg) in lhs.tree.children(i).enumerate()` is the index loop over children_vec (verified helper: existing children in ascending label order); `edg.target_value` is read through tree_node(child)',
    'termination of `while let Some(..) = stack.pop()` in generic_composition_inplace is not proved',
    'Tree::remove_child / merge_child_with_parent appear only in the branch proved unreachable here; their contracts are discharged in unit tree_graph (C12)',
]

PROPS['C08'].update({
    'level': 'other',
    'units': ['pwl_reduce'],
    'technique': 'Verus contracts on the extracted text of AffTree::<2>::reduce (src/pwl/impl_reduction.rs) and of PartialEq for AffFuncBase, through the contracts of Tree::remove_child / merge_child_with_parent: forall trees, forall x: tree_fn(after, x) == tree_fn(before, x) + bounded replay (bc reduce) for idempotence and completeness of the merging',
    'level_text': ('Mixed. PROVED modulo "f64 = reals" (Verus, every well-formed binary tree of any shape / index layout, every input): reduce leaves a well-formed tree with the same root and input dimension that denotes '
                   'the same partial function (same_denotation: tree_fn(after, x) == tree_fn(before, x) for every x, undefinedness included), whose nodes are a subset of the old ones with unchanged indices '
                   '(never grows), and it never reaches the unwrap / assert panics of remove_child and merge_child_with_parent; AffFunc == compares shape, matrix and bias. The proof does not depend on the '
                   'order of the breadth-first list (left unspecified), each merge is justified on its own: a decision with one row whose two children are terminals with equal functions denotes that function. '
                   'IDEMPOTENCE in the form: a tree in which no decision below the root has two terminal children with the same function (no_mergeable) is returned exactly as it is; a merge happens only where such a pair exists, so decisions whose terminal children differ in matrix or bias are kept (the merge branch is guarded by the verified ==). '
                   'BOUNDED only (bc reduce): that one run reaches no_mergeable ("no decision below the root keeps two identical terminal children": depends on the bottom-up visiting order of the breadth-first list, left unspecified here), '
                   'and equality under non-standard memory layouts.'),
    'design_ref': 'DESIGN.md §4 C08',
    'assumptions': ASSUME_COMMON + ASSUME_SLAB + ASSUME_ND + ASSUME_PWL + ASSUME_BC + [
        'rule I11: `Vec::from_iter(Bfs::iter(&tree, root))` and `elements.reverse()` are trusted helpers WITHOUT any postcondition (the proved clauses hold for an arbitrary work list); `for value in elements.into_iter()` is the index loop over that vector',
        'rule I6c: `node.children_iter().count()` is the verified helper count_some(&node.children)',
        'ndarray `==` on arrays is assumed to be "same shape and same elements" with f64 equality read as equality of reals (NaN excluded)',
        'reduce is verified under the precondition arena size <= i32::MAX inherited from remove_child (its deletion counter)',
    ],
})

# infeasible_elimination itself (the traversal that mutates the tree under its own DFS stack) is under contract since unit pwl_elim
_ELIM_TEXT = ('infeasible_elimination, FOR EVERY ANSWER of the LP solver, the tolerance test and the repair heuristics (arbitrary oracles): '
              'none of its panics is reachable - the `expect("node indicies should stay valid while traversing the tree")` of DfsPre::next (no index on the DFS stack ever dangles although forward_if_redundant removes subtrees and splices decisions out during the traversal), '
              'the unwraps of node_value / parent / polyhedra.last / node_value_mut, the non-empty-witness assertion of phase_inh, the `label should be 0 or 1` panic of PolyhedraGen::next, the dimension panic of intersection_n; '
              'the loop TERMINATES (every iteration visits a node not visited before); the result is well-formed with the same root; no node is added, every surviving node keeps its affine function (only cached states change) and cached witness lists stay non-empty. '
              'Invariant (ghost set of visited nodes): stack entries exist, are unvisited and pairwise distinct, hang below visited nodes; visited nodes are closed under parent; nothing visited or waiting hangs below a node cached infeasible; of two siblings on the stack the upper one counts a remaining sibling '
              '(so n_remaining == 0 means no sibling is waiting when the parent is forwarded). '
              'MEANING (conditional function preservation, same unit): there is a set of blamed nodes, each either cached infeasible at entry or given an Infeasible answer by the LP layer for the polytope recorded for it at its visit, '
              'such that every input whose evaluation in the ORIGINAL tree passes no blamed node keeps its value and its undefinedness: tree_fn(after, x) == tree_fn(before, x) '
              '(per step: forward_if_redundant changes the function at most for inputs that reach the decision and leave it through a child cached infeasible - lemma_fwd_sem; a deferred removal at most for inputs taking the removed branch; state writes not at all). '
              'REGION LINK (same unit): the polytope recorded for a blamed node c is satisfied by EVERY input whose evaluation in the original tree passes c (region_covers): PolyhedraGen\'s bookkeeping invariant gen_inv of unit pwl_regions is carried through the run with respect to the ORIGINAL arena, '
              'because the traversal only reads nodes the mutations have not touched (reg_inv: unvisited nodes keep their child slots, waiting nodes keep their parent pointer and parent slot; splices only re-hang visited nodes), and intersection_n is the conjunction of the reported half-spaces (contract proved in unit aff_algebra). '
              'Consequently: if every Infeasible LP answer is right (the polytope has no point) and no input reaches a node cached infeasible at entry, then NO input is blamed and tree_fn(after, x) == tree_fn(before, x) for every x - C03 for infeasible_elimination reduced to LP soundness (C10). ')
_ELIM_ASSUME = [
    'unit pwl_elim: verified for K = 2 (rule G1: infeasible_elimination of `impl<const K: usize> AffTree<K>` is placed in `impl AffTree<2>`; PolyhedraGen::next panics on labels >= 2), aff_shape_ok, arena of at most i32::MAX nodes, input tree well-formed with aff shapes of the tree dimension, non-empty cached witness lists (vals_ok) and one-row decisions (dec_one_row); '
    'rule N3: `while let Some((data, polyhedra)) = iter.next(&self.tree)` is read as `while let Some(data) = iter.next(&self.tree)` + `let polyhedra = iter.current_polytope()` (PolyhedraGen::next is verified with the pair result replaced by the node data; current_polytope returns the same vector); '
    'the PerformanceCounter increments are dropped (rule D7) except that `self.tree.num_nodes(node_idx) - 1` is kept as a statement (num_nodes: iterator pipeline, trusted "requires the node, returns >= 1"); `for (label, node) in to_remove` is the index loop; node_value(i) is read as tree_node(i).value (rule N2); '
    'phase_one (repair heuristic around mirror_points, numeric code) is an ORACLE returning Indeterminate or a non-empty witness list (mirror_points returns Some only with at least one column), its shape assertion (cached witnesses have the polytope dimension) is ASSUMED; '
    'Polytope::intersection_n is used through the contract PROVED on its real body in unit aff_algebra (precondition "all parts have the given dimension" = its two panics are unreachable; result = rows of the parts in order, hence the conjunction of the parts; trusted there: ndarray::concatenate and the two `.iter().map(view).collect()` pipelines as helper contracts); phase_inh / phase_two / forward_if_redundant / DfsPre::next / skip_subtree / try_remove_child are used through the contracts proved in units pwl_feasible / pwl_forward / tree_iter / tree_graph; '
    'PolyhedraGen::next is re-verified here (K = 2, pair result replaced by the node data, ghost arguments in_dim / original arena a0 / recorded path) under a contract that does not need the tree to be unchanged since the previous call: structural step, shapes of the half-spaces, at least one half-space below the root, and gen_inv with respect to a0 given top_agrees for the entry about to be popped',
]
PROPS['C04'].update({
    'level': 'other',
    'units': ['pwl_compose', 'pwl_compose_pruned', 'pwl_ops_tree', 'pwl_reduce', 'pwl_tree', 'pwl_schemas', 'pwl_misc', 'pwl_elim'],
    'technique': 'Verus contracts: every un-pruned transformation under contract (compose::<false,false> / generic_composition_inplace, reduce, apply_func, add_child_node, update_node, from_aff) preserves Tree::wf and the shape invariant aff_shape_ok as part of its postcondition, and its panics are proved unreachable; bounded replay of operation histories (bc histories) for the LP-dependent transformations and the history quantifier',
    'level_text': ('Mixed. PROVED (Verus, all trees, all arguments satisfying the stated dimension preconditions): AffTree::new / with_capacity (identity tree), add_terminal / add_decision / replace_node (unit pwl_misc), the schema constructors (six activations, argmax, class_characterization: well-formed, one common terminal output dimension), compose::<false,false>, reduce, apply_func / apply_func_at_node, AffTree::add_child_node, update_node and from_aff '
                   'each return a tree with Tree::wf (links mirrored, leaf flag <=> no children, single root, acyclic) and aff_shape_ok (every node function has the tree input dimension, every decision has 1..15 rows with 2^rows <= K), '
                   'and none of their unwrap / assert / index panics is reachable; since each postcondition re-establishes the precondition of the next operation, any history over these operations stays well-formed. '
                   'Also PROVED (unit pwl_compose_pruned, K = 2 - the pruning oracle builds its path polytope for labels 0 / 1 only): compose::<true,false> / generic_composition_inplace with the pruning schema keeps Tree::wf, aff_shape_ok and one common terminal output dimension and cannot panic FOR EVERY ANSWER PATTERN of the LP-based feasibility oracle '
                   '(is_edge_feasible is left arbitrary except for its root shortcut; ghost map new node -> copied lhs node, the create / skip / keep-last / forward bookkeeping of the children loop is part of the invariant; a pruned child is shown to leave the arena exactly as it was). '
                   'The same for the four in-place tree operators + - * / (unit pwl_ops_tree, see C07). Also PROVED (unit pwl_elim, binary trees): ' + _ELIM_TEXT + 'NOT under contract: negation and the tree/affine mixed operators (closures over terminals_mut). '
                   'BOUNDED (bc histories): random operation histories over all transformations from every constructor, well-formedness (incl. common output dimension) and panic freedom after every step.'),
    'design_ref': 'DESIGN.md §4 C04',
    'assumptions': ASSUME_COMMON + ASSUME_SLAB + ASSUME_ND + ASSUME_PWL + ASSUME_BC + ['see C02 (unit pwl_compose) and C08 (unit pwl_reduce) for the rewrite rules and trusted helpers of those units',
        'unit pwl_compose_pruned: AffTree::is_edge_feasible is used with the contract PROVED on its real body in unit pwl_feasible INCLUDING the construction of the path polytope (K == 2, shape-consistent tree: both are established at the call site - lemma_pr_shape_add; root shortcut `parent_idx == 0 ==> true`; the LP layer behind it is an oracle, so any answer otherwise); the receiver has its root at arena index 0 (true for every tree built by the library constructors); Tree::remove_child is used with the contract proved in unit tree_graph MINUS its arena-size precondition (i32 deletion counter): assumed fewer than 2^31 nodes; rule G1 as for C02 with C = FunctionCompositionInfeasible'] + _ELIM_ASSUME,
})

PROPS['C01'].update({
    'level': 'other',
    'units': ['distill_builder'],
    'technique': 'Verus contract on the extracted text of afftree_from_layers_generic (src/distill/builder.rs): forall layer sequences, preconditions and inputs the returned tree denotes "precondition tree, then the network function netw_fn", proved modularly over the contracts of the operations it calls (compose::<false,false>, apply_func, the activation schemas, argmax and class_characterization: proved in their own units; infeasible_elimination and compose::<true,_>: assumed) + bounded end-to-end replay (bc distill) on the compiled crate',
    'level_text': ('Mixed / conditional. PROVED modulo "f64 = reals" (Verus, every dimension-consistent layer sequence over Linear / ReLU / LeakyReLU / HardTanh / HardSigmoid / Argmax / ClassChar, with or without a precondition tree, every input): '
                   'afftree_from_layers_generic returns a well-formed tree of the stated input dimension with tree_fn(result, x) == Some(netw_fn(layers, x)) when there is no precondition, and '
                   '== tree_fn(precondition, x).map(netw_fn(layers, .)) (undefined exactly where the precondition tree is) otherwise; the dimension bookkeeping (`dim`), the choice and parameters of each schema (hard tanh with -1, 1), '
                   'the order of composition and the dimension assertions are part of the proof, and the assert! / unwrap panics of the builder are unreachable for dimension-consistent input. '
                   'The proof is MODULAR: it uses the contracts of compose::<false,false> (unit pwl_compose), apply_func (unit pwl_tree) and partial_ReLU / leaky_ReLU / hard_tanh / hard_sigmoid / argmax / class_characterization (unit pwl_schemas), which are proved, and '
                   'ASSUMES the contracts written in this unit for infeasible_elimination (same denotation, well-formed) and compose::<true,_> (same law as the un-pruned composition) - '
                   'these depend on the LP solver and are checked by the bounded replays of C03. '
                   'BOUNDED (bc distill): end-to-end comparison of distilled trees with the exact network function on a lattice incl. breakpoints, argmax ties and inputs outside the precondition, on the compiled crate.'),
    'design_ref': 'DESIGN.md §4 C01',
    'assumptions': ASSUME_COMMON + ASSUME_SLAB + ASSUME_ND + ASSUME_PWL + ASSUME_BC + [
        'ASSUMED contracts (external_body in unit distill_builder): AffTree::infeasible_elimination keeps wf / shape / root / output dimensions and the denotation (same_denotation); compose::<true,_> (there: compose_pruned) satisfies the contract proved for compose::<false,false>',
        'contracts taken over verbatim (directive //@assumed: same signature rewrites and //@spec block as in the unit that proves them): AffTree::compose (units/pwl_compose.rs), AffTree::apply_func (units/pwl_tree.rs), partial_ReLU / partial_leaky_ReLU / partial_hard_tanh / partial_hard_sigmoid / argmax / class_characterization (units/pwl_schemas.rs)',
        'rule G1: afftree_from_layers_generic<I, Estimator, Visitor> is verified for I = Vec<Layer> and the no-op visitor: estimator and visitor calls are dropped TOGETHER WITH THEIR ARGUMENT EXPRESSIONS (dd.len() - old_len, dd.len() - num_terminals are therefore not checked for underflow), capacity hints (estimate_nodes, min, reserve) are dropped, `for layer in container.into_iter() { let layer = layer.borrow();` is the index loop over the vector',
        'rule N1: the temporary schema tree passed to compose is bound to a local first (`let __g = partial_ReLU(dim, *row); dd.compose(&__g);`) so that the proof can name it; rule I12: `dd.terminals().map(|x| x.aff.outdim()).next().unwrap()` is the trusted helper first_terminal_outdim (requires a terminal to exist, returns the row count of some terminal)',
        'the precondition tree is required to be well-formed with a common terminal output dimension and at least one terminal (true for every finite well-formed tree; not proved)',
        'LeakyReLU slopes are required finite; hard tanh bounds are the literals -1 and 1 read as reals',
    ],
})

PROPS['C17'].update({
    'level': 'other',
    'units': ['pwl_schemas', 'pwl_from_poly', 'pwl_inf_norm'],
    'technique': 'Verus contracts on the extracted activation schemas of src/distill/schema.rs: forall dim, row, parameters, x: tree_fn(schema, x) == textbook definition (proved through the AffTree / Tree / AffFunc contracts) + bounded replay (bc schema) for the remaining generators',
    'level_text': ('Mixed. PROVED modulo "f64 = reals" (Verus, every dimension, every component index, every finite parameter value, every input incl. breakpoints): partial_ReLU, partial_leaky_ReLU, '
                   'partial_threshold, partial_hard_tanh (min <= max), partial_hard_shrink and partial_hard_sigmoid build a well-formed tree whose denoted function tree_fn(root, x) changes exactly the '
                   'named component according to the textbook scalar function and leaves the others untouched; argmax(dim) denotes the index of the FIRST maximal component for every dim >= 2 '
                   '(the comparison tree built with a work stack: ghost map node -> (candidate, current maximum), value lemma by induction on dim - candidate); class_characterization(dim, c) denotes '
                   'the indicator of "x_c is maximal" (ties count) for every dim >= 2, c < dim (chain tree: prelude/chain_spec.rs). All have terminals of one common output dimension. '
                   'AffTree::from_poly(poly, f_true, f_false) returns Err exactly on a dimension mismatch and otherwise a well-formed chain tree with tree_fn(x) == f_true(x) for x in the polytope (all rows hold, closed), '
                   '== f_false(x) outside when an else-function is given and undefined outside when not (unit pwl_from_poly) - the form used for pre- and post-conditions. '
                   'inf_norm(dim, min, max) (unit pwl_inf_norm, every dim >= 1, one or both finite bounds): a well-formed chain tree that denotes [1] on the closed box min <= x_i <= max and [0] outside (rows -e_i.x <= -min then e_i.x <= max, built row by row with the same invariant and step lemmas as from_poly - prelude/chain_build_spec.rs, now stated over an abstract list of row conditions). '
                   'BOUNDED only (bc schema, exhaustive small dims on a lattice hitting all breakpoints and ties): from_slice + remove_axes.'),
    'design_ref': 'DESIGN.md §4 C17',
    'assumptions': ASSUME_COMMON + ASSUME_SLAB + ASSUME_ND + ASSUME_PWL + ASSUME_BC + [
        'rule F1: float literals / negations in schema.rs are replaced by flit / fneg / fdiv / fle helpers with exact-real contracts (each site listed as //@bodysub in units/pwl_schemas.rs); parameters are finite (not NaN / infinite)',
        'the first key handed out by a fresh slab is 0 (Slab::fresh), which the generators rely on (add_child_node(0, ..))',
        'rule I13: `(0..dim).filter(|x| *x != clazz)` in class_characterization is the verified helper range_except_vec (ascending indices below dim except clazz); `iter.next().unwrap()` is its element 0 and `for idx in iter` the index loop from 1',
        'rule I14 (unit pwl_from_poly): `poly.row_iter()` with `.as_function().to_owned()` on each item is the TRUSTED helper poly_row_fns (row j as an owned one-row function with the same predicate); `iter.next().unwrap()` is its element 0, `for decision in iter` the index loop from 1; from_poly is verified for polytopes with fewer than usize::MAX rows (capacity arithmetic n_constraints() + 1)',
        'unit pwl_inf_norm: `minimum.map(|min| ..)` / `maximum.map(|max| ..)` (closures) are written as the equivalent match expressions; `first.row_iter()` / `aff.row_iter()` with `.to_owned()` are the TRUSTED helper aff_row_fns (row j as an owned one-row function with the same predicate), `row_iter.next().unwrap()` its element 0, the `for` loops index loops; the literals 0. / 1. are flit helpers; verified for dim < usize::MAX / 2', '`i as f64` (argmax terminals) is the helper fidx with the assumed contract "exact" (indices are far below 2^53); termination of the work-stack loop of argmax is not proved',
    ],
})

NOT_APPLICABLE = {
    'C10': 'correctness of the external LP solver (minilp simplex) seen through a 20-line adapter: no contract within reach can decide it; a contract on solve_linprog would have to be assumed',
    'C19': 'fmt::Formatter / string output: Verus has no model of core::fmt output or str contents; deciding it means parsing output back, which is testing, not contract verification',
}

# the decision logic around the LP solver is under contract since unit pwl_feasible (the LP layer, the tolerance test and the repair heuristic stay oracles)
_FEAS_ASSUME = [
    'unit pwl_feasible: Polytope::status (LP solver, C10), Polytope::contains (tolerance membership) and AffTree::mirror_points (numeric repair) are ORACLES: external_body with uninterpreted results (lp_status, contains_tol; mirror_points: any answer); '
    'is_edge_feasible and polyhedral_path_characterization are verified on their real bodies for K = 2 and aff_shape_ok trees (the latter panics on labels >= 2: pruning exists for binary trees only): rule S4: the RefCell scratch buffer is a local Vec; `for (idx, label) in path` is the index loop; float literals / `&m * factor` as in PolyhedraGen::next; Polytope::intersection_n through the contract proved in unit aff_algebra (parts of the given dimension required, result = conjunction of the parts)',
    'rule D7: the PerformanceCounter increments (`counter.x += 1`, statistics only) are dropped from phase_inh / phase_two; rule I15 / I16: `solution.iter().filter(|p| hyperplane.contains(p)).map(..).collect_vec()` and `wit.iter().any(|p| poly.contains(p))` are the verified helpers filter_contained / any_contained; `solution.clone().insert_axis(Axis(1))` and `val.t().row(0).to_owned()` are spec-less trusted helpers (their results are re-checked with contains before use); `node_value(i)` is read as tree_node(i).value (rule N2)',
]
_FEAS_TEXT = ('PROVED on the real branching of is_edge_feasible / phase_two / phase_inh (unit pwl_feasible; LP solver, tolerance test and repair heuristic as arbitrary oracles): an edge or node is declared infeasible ONLY on an Infeasible verdict '
              '(cached Infeasible state of the node or its parent, or the LP answer Infeasible) - LP Error, Unbounded and Optimal answers with ANY witness, however displaced, never prune; phase_two returns Infeasible iff the LP says Infeasible, Indeterminate on an LP Error, '
              'and caches a witness only after that very point passed `contains` for that very polytope (the LP point or its repaired version); phase_inh only passes on parent witnesses that passed `contains` for the new half-space; edges leaving node 0 are always feasible. '
              'MEANING of a verdict (binary trees, path polytope built by the real polyhedral_path_characterization): "infeasible" is answered only for a cached Infeasible state of the node / its parent or an Infeasible LP answer for a polytope that EVERY input whose evaluation passes the node satisfies '
              '(edge_covers: path_to_node gives the (node, label) steps from the root, each contributes the half-space of its edge, an input passing the node leaves every decision of the path through the recorded label - lemma_reaches_routed). ')
_WIT_ASSUME = [
    'C05 tree level (unit pwl_elim, prelude/wit_spec.rs): ENTRY HYPOTHESIS wit_inv(old, old) - every witness cached in the tree handed to infeasible_elimination satisfies, up to 1e-8, every half-space of its path (the constructors create no witnesses; composition (pruned and un-pruned), tree arithmetic, apply_func and reduce are proved to keep it; remove_axes and the chaining of whole histories: bounded, bc prune / histories); '
    'ASSUMED contracts: phase_one returns only points that pass the tolerance test of the polytope it was asked for (mirror_points tests the normalised rows with margin 1e-10, `contains` re-checks only in debug builds; bounded: bc mirror); (intersection_n: "a point tolerated by the result is tolerated by every part" is part of the contract proved in unit aff_algebra); '
    'Polytope::contains is used through the contract PROVED in unit aff_algebra (r == every un-normalised row within 1e-8, exact-real reading of f64) - its shape precondition (witness dimension == polytope dimension, otherwise ndarray panics) is ASSUMED at the call sites in phase_inh / phase_two; rule I18: `.into_iter().all(|x| x >= A::from(-1e-8).unwrap())` is the trusted helper all_ge_lit(array, -1, 100000000); '
    'units pwl_compose_pruned / pwl_ops_tree keep contains_tol abstract (prelude/lp_oracle_spec.rs), units pwl_feasible / pwl_elim use the definition proved for `contains` (prelude/lp_oracle_tol_spec.rs): the contracts imported from pwl_feasible hold for every interpretation',
]
_WIT_TEXT = ('TREE LEVEL, PROVED for infeasible_elimination (unit pwl_elim, binary trees, every answer of the LP layer; prelude/wit_spec.rs): if at entry every cached witness satisfies, up to the containment tolerance 1e-8, every half-space on the path of its node (wit_inv(old, old)), '
             'then every witness cached in the RESULTING tree satisfies, up to 1e-8, every half-space on the path of its node IN THE RESULTING TREE (wit_inv(final, final)). Invariant: witnesses stored in the current arena are right for the paths of the ORIGINAL arena (wit_inv(a0, current)) and the current tree is the original one '
             'with decisions spliced out and subtrees removed (emb_inv: every current edge p --l--> k comes from the original edge leaving p under l whose target is k or an ancestor of k; hence current paths are sub-paths of original ones, same decisions and labels). '
             'Steps: phase_inh passes on only parent witnesses tolerated by the half-space of the incoming edge (parent path + that edge = node path, lemma_wit_step); phase_one / phase_two results are tolerated by the intersection of the half-spaces PolyhedraGen reports, i.e. (gen_inv w.r.t. the original arena) by the half-space of every edge of the original path (lemma_wit_path); '
             'state writes, forward_if_redundant and the deferred removals keep the values of surviving nodes. '
             'THE SAME CLAUSE wit_inv(old, old) ==> wit_inv(final, final) IS PROVED FOR: un-pruned composition compose::<false,false> / generic_composition_inplace (unit pwl_compose; also states_kept: every old node keeps its cached state - "update_node keeps the cache when a terminal becomes a decision" - and every copied node starts Indeterminate; '
             'the paths of old nodes are unchanged because old decisions are untouched, lemma_wit_grow in prelude/wit_grow_spec.rs), apply_func (unit pwl_tree: only terminal functions change, states kept) and reduce (unit pwl_reduce: remove_child + merge_child_with_parent keep the values of the survivors and only shorten paths, same emb_inv argument as for the elimination, prelude/wit_edit_spec.rs). '
             'AND FOR THE PRUNING OPERATIONS, for every answer pattern of the feasibility oracle: compose::<true,false> / generic_composition_inplace with FunctionCompositionInfeasible (unit pwl_compose_pruned) and `tree op &tree` for + - * / (unit pwl_ops_tree, the four gci_* instances) - '
             'the oracle is_edge_feasible takes &self and writes no state, copies are created by AffContent::new (Indeterminate), refused copies are removed again, single-branch copies are spliced out; invariant gi_inv(a0, current, W) (prelude/wit_prune_spec.rs) with a ghost set W of original nodes that are still the same node '
             '(the slab reuses indices of spliced-out nodes): only nodes of W carry a cache, they keep state and parent pointer, every decision of the original tree is in W, keeps its value, never loses a child slot and keeps every slot that holds a node of W; a spliced-out node is never an original decision (it was childless when popped) and its child is never an original node. '
             'Polytope::contains itself is PROVED in unit aff_algebra: true iff every un-normalised row b_i - m_i.x >= -1e-8. '
             'INFEASIBLE MARKS (same contract, clauses blame_ok / region_covers, see C03): every Infeasible mark present after the run was present at entry or comes from an Infeasible LP answer for a polytope that EVERY input whose evaluation in the original tree passes the node satisfies - so the marked region is non-empty only if the LP answer is wrong (soundness of the LP solver: C10, not applicable). ')
for pid, lvl in (('C11', 'other'), ('C05', 'other'), ('C03', 'other')):
    PROPS[pid]['units'] = ['pwl_feasible', 'pwl_elim'] + (['aff_algebra', 'pwl_compose', 'pwl_compose_pruned', 'pwl_ops_tree', 'pwl_tree', 'pwl_reduce'] if pid == 'C05' else [])
    PROPS[pid]['level'] = lvl
    PROPS[pid]['assumptions'] = ASSUME_COMMON + ASSUME_SLAB + ASSUME_ND + ASSUME_PWL + PROPS[pid]['assumptions'] + _FEAS_ASSUME + _ELIM_ASSUME + (_WIT_ASSUME if pid == 'C05' else [])
PROPS['C11']['technique'] = 'Verus contracts on the extracted decision logic around the LP solver (is_edge_feasible, phase_two, phase_inh: faults can only lead to less pruning - for every answer of the LP / tolerance / repair oracles, not only single faults) and on infeasible_elimination itself (no panic, termination, well-formedness and node kinds for every answer of the oracles) + bounded fault enumeration (bc faults) with the cfg hook for the tree-level consequences'
PROPS['C11']['level_text'] = 'Mixed. ' + _FEAS_TEXT + 'This holds for every answer pattern of the oracles, i.e. for any number and kind of LP faults. Also PROVED at tree level (unit pwl_elim, binary trees): ' + _ELIM_TEXT + 'BOUNDED (bc faults, fault enumeration with the cfg hook): the remaining tree-level consequences through infeasible_elimination / pruned composition - same function, sound caches, only less pruning - for every single fault position and kind. ' + PROPS['C11']['level_text']
# units shared with other properties: only these functions / clauses are C05's (check: clause_filter)
PROPS['C05']['clause_filter'] = {
    'aff_algebra': (r'^(contains|intersection_n)$', None),
    'pwl_compose': (None, r'wit_inv|states_kept'),
    'pwl_compose_pruned': (None, r'wit_inv|gi_inv'),
    'pwl_ops_tree': (None, r'wit_inv|gi_inv'),
    'pwl_tree': (None, r'wit_inv|states_kept'),
    'pwl_reduce': (None, r'wit_inv|emb_inv'),
    'pwl_elim': (r'^(phase_one|phase_inh|phase_two)$', r'wit_inv|wit_cond|wits_cond|contains_tol|tol_sat'),
}
PROPS['C05']['technique'] = 'Verus contracts on the extracted witness-producing functions (phase_two, phase_inh: every cached witness passed `contains` for the polytope it is cached for), on Polytope::contains (the 1e-8 row test) and - as one clause wit_inv(old, old) ==> wit_inv(final, final) of each contract - on infeasible_elimination, composition (pruned and un-pruned), pruned tree arithmetic, apply_func and reduce (tree-level cache invariant: witnesses right at entry are right for the resulting tree) + bounded replay (bc prune, bc faults[cache]) of the cache contract on whole trees and through the other operations'
PROPS['C05']['level_text'] = 'Mixed. ' + _FEAS_TEXT + _WIT_TEXT + 'BOUNDED (bc prune / faults / mirror): whole histories end to end (each step is proved, their chaining in the distillation pipeline is replayed), remove_axes, infeasible marks only on regions without interior, mirror_points results lie in the polytope. ' + PROPS['C05']['level_text']
PROPS['C03']['technique'] = 'Verus contracts on the extracted pruning oracle (is_edge_feasible), LP phase (phase_two), forward_if_redundant and infeasible_elimination: pruning decisions come only from Infeasible verdicts, and the function changes at most for inputs whose original evaluation passes a node with such a verdict (conditional function preservation, LP soundness assumed) + bounded replay (bc prune) of unconditional function preservation through infeasible_elimination and compose::<true,_>'
PROPS['C03']['level_text'] = 'Mixed. ' + _FEAS_TEXT + 'Structure PROVED (unit pwl_elim): ' + _ELIM_TEXT + 'NOT proved: that removing what these verdicts mark preserves the function (needs the soundness of the LP answer and the simulation argument for the traversal that mutates the tree: bounded). ' + PROPS['C03']['level_text']

# forward_if_redundant (the splice step of infeasible_elimination) is under contract since unit pwl_forward
_FWD_ASSUME = [
    'unit pwl_forward: rule I17: `self.tree.children(p).filter(|child| child.target_value.state.is_feasible()).collect_vec()` and the is_infeasible / `.map(|x| x.edge())` form are the verified helper edges_in_state (edges to the existing children in the wanted cached state, ascending labels); `for edg in &infeasible_children` is the index loop; `feasible_children.pop().unwrap().edge()` is the popped edge; the debug_assert is dropped (rule D2); remove_child / merge_child_with_parent are used through the contracts proved in unit tree_graph; arena of at most i32::MAX nodes (deletion counter of remove_all_descendants)',
]
_FWD_TEXT = ('PROVED (Verus, unit pwl_forward, every tree, every K >= 2, every labelling with cached states): forward_if_redundant acts only on a decision with exactly one child cached feasible and the other K-1 children cached infeasible - in every other case it returns None and leaves the arena untouched; '
             'when it acts it removes exactly the infeasible children with everything below them (nothing else disappears, no other node changes), keeps the tree well-formed, and splices the decision out in favour of its feasible child (merge_post of unit tree_graph: the child takes the decision\'s slot under the grandparent) - '
             'unless the decision is the root, which stays with the feasible child as its only child; the returned node carries the decision\'s value. ')
PROPS['C06'].update({
    'level': 'other',
    'units': ['pwl_forward', 'pwl_elim'],
    'technique': 'Verus contracts on the extracted forward_if_redundant (the single-branch replacement step: acts exactly on one-feasible / K-1-infeasible decisions, removes exactly the infeasible subtrees, splices the decision out) and infeasible_elimination (idempotence: a tree whose reachable nodes all carry a verdict is left unchanged, and a run in which the LP layer always decides ends in such a tree) + bounded replay (bc prune[effective,idempotent], bc distill[effective,idempotent]) with an exact Fourier-Motzkin emptiness oracle for effectiveness and idempotence of the whole elimination',
    'level_text': 'Mixed. ' + _FWD_TEXT + 'IDEMPOTENCE PROVED (unit pwl_elim) as two clauses of the contract of infeasible_elimination: (i) if every node the traversal can reach (below the root, no proper ancestor other than the root cached infeasible) already carries a verdict - all_decided - the run leaves the arena exactly as it is: no LP call, no state write, no removal; (ii) a run during which the LP layer always decides (lp_decides: no Error answer, every Optimal point inside its polytope within the tolerance of `contains`) ends in a tree that satisfies all_decided (ghost invariants kids_inv: children of a settled, not skipped visited node are visited or waiting; dec_inv: settled visited nodes carry a verdict; phase_two answers "don\'t know" only after an Error or a displaced Optimal point). Hence under lp_decides a second run changes nothing. ' 'BOUNDED only (bc prune / distill, exact emptiness oracle): that after the whole infeasible_elimination no node below the root has an empty region and no decision below the root has a single branch, and idempotence without the lp_decides hypothesis (these depend on the LP answers). ' + PROPS['C06']['level_text'],
    'assumptions': ASSUME_COMMON + ASSUME_SLAB + ASSUME_ND + ASSUME_PWL + PROPS['C06']['assumptions'] + _FWD_ASSUME + _ELIM_ASSUME,
})
PROPS['C03']['units'] = ['pwl_feasible', 'pwl_forward', 'pwl_elim']
PROPS['C03']['assumptions'] = PROPS['C03']['assumptions'] + _FWD_ASSUME
PROPS['C03']['level_text'] = PROPS['C03']['level_text'].replace('NOT proved:', _FWD_TEXT.replace('PROVED (Verus, unit pwl_forward', 'Also PROVED (unit pwl_forward') + 'NOT proved:')

PROPS['C15'].update({
    'level': 'other',
    'units': ['poly_lp'],
    'technique': 'Verus contract on the extracted control flow of Polytope::remove_redundant_row_constraints / is_feasible / remove_duplicate_rows with the LP solver and the row filter as uninterpreted oracles (a row is dropped only under an Optimal certificate, Infeasible gives the empty polytope of the INPUT dimension, an LP Error is passed on) + bounded replay (bc cleanup) of the point-set contracts of all clean-ups',
    'level_text': ('Mixed. PROVED (Verus, for every answer of the LP oracle): remove_redundant_row_constraints returns either Err - only when an LP call returned Error (never swallowed) -, or the canonical empty polytope of the input dimension - only when an LP call answered Infeasible -, '
                   'or the input with a strictly descending list of rows removed, each removed only on an Optimal answer (objective -row, over the rows not yet dropped) whose value row.point <= bias + eps; an Unbounded answer keeps the row; the ambient dimension never changes; is_feasible is false exactly on an Infeasible answer. remove_duplicate_rows (normalization and approx::relative_eq as oracles): the result is the input minus a strictly descending list of rows that contains EXACTLY the rows for which an earlier row is relative-equal after normalization - row 0 and the first row of every group of duplicates are kept, no other row is dropped. '
                   'BOUNDED only (bc cleanup, exact Fourier-Motzkin oracle): that these certificates mean redundancy (soundness of the LP answer), remove_tautologies / remove_zero_rows / normalize (closure pipelines) and the point-set meaning of remove_duplicate_rows: point set kept, rows only dropped, no row implied with a margin left. ' + PROPS['C15']['level_text']),
    'assumptions': ASSUME_COMMON + ASSUME_ND + PROPS['C15']['assumptions'] + [
        'unit poly_lp: Polytope::solve_linprog (LP solver, C10) and remove_rows (closure pipeline; ASSUMED to keep the ambient dimension) are uninterpreted oracles; `self.mat.row(i).to_owned()`, `self.bias[i]`, `-costs.clone()`, `costs.dot(&point)`, `bound + f64::EPSILON`, `redundant.clone()` are named spec-level helpers; `for idx in (0..n).rev()` is the descending while loop; the comparison is fle (f64 <=)',
        'the loop invariant of remove_redundant_row_constraints states the certificate property itself and is classified contract-level (`//@loop 1 contract`)',
        'remove_duplicate_rows: verified for A = f64 (the trait bounds DivAssign + Sum + RelativeEq of the impl block are dropped); `self.clone().normalize()` and the two approx::relative_eq calls (matrix row and bias, folded into one helper rows_rel_eq) are uninterpreted oracles; `for i in (0..n).rev()` / `for j in (0..i).rev()` are descending while loops; remove_rows as above',
    ],
})

HOOK_COMMITS = ['0e11e31']   # /repo: verif hook: cfg(affinitree_verif) LP fault plan consulted at the top of Polytope::solve_linprog
