// ---- prelude/count_spec.rs : the pre-order of a subtree lists every node of the subtree exactly once (so its length is the size of the subtree) ----
// nodes at or below i
pub open spec fn sub_nodes<N, const K: usize>(a: Arena<N, K>, i: usize) -> Set<usize> {
    a.dom().filter(|x: usize| x == i || desc(a, i, x))
}
// nodes at or below the children of i listed at slots >= lo
pub open spec fn under_kid<N, const K: usize>(a: Arena<N, K>, i: usize, lo: int, x: usize) -> bool {
    exists|l: int| lo <= l < K && (#[trigger] a[i].children[l]) is Some && (x == a[i].children[l].unwrap() || desc(a, a[i].children[l].unwrap(), x))
}
pub open spec fn kids_nodes<N, const K: usize>(a: Arena<N, K>, i: usize, lo: int) -> Set<usize> {
    a.dom().filter(|x: usize| under_kid(a, i, lo, x))
}
pub proof fn lemma_c_desc_rank<N, const K: usize>(a: Arena<N, K>, d: Map<usize, nat>, n: usize, x: usize, f: nat)
    requires ranked(a, d), is_desc(a, n, x, f)
    ensures d[n] < d[x]
    decreases f
{
    let p = a[x].parent.unwrap();
    if p != n { lemma_c_desc_rank(a, d, n, p, (f - 1) as nat); }
}
pub proof fn lemma_c_desc_fuel<N, const K: usize>(a: Arena<N, K>, anc: usize, i: usize, f: nat, g: nat)
    requires is_desc(a, anc, i, f), f <= g
    ensures is_desc(a, anc, i, g)
    decreases f
{
    if a[i].parent.unwrap() != anc { lemma_c_desc_fuel(a, anc, a[i].parent.unwrap(), (f - 1) as nat, (g - 1) as nat); }
}
// extending an ancestor chain at its top
pub proof fn lemma_c_desc_up<N, const K: usize>(a: Arena<N, K>, idx: usize, c: usize, t: usize, f: nat)
    requires is_desc(a, c, t, f), a.dom().contains(c), a[c].parent == Some(idx)
    ensures is_desc(a, idx, t, f + 1)
    decreases f
{
    let p = a[t].parent.unwrap();
    if p == c { assert(is_desc(a, idx, c, 1)); lemma_c_desc_fuel(a, idx, c, 1, f); }
    else { lemma_c_desc_up(a, idx, c, p, (f - 1) as nat); }
}
// two ancestors of the same node are comparable
pub proof fn lemma_c_comparable<N, const K: usize>(a: Arena<N, K>, c1: usize, c2: usize, t: usize, f1: nat, f2: nat)
    requires is_desc(a, c1, t, f1), is_desc(a, c2, t, f2)
    ensures c1 == c2 || desc(a, c1, c2) || desc(a, c2, c1)
    decreases f1
{
    let p = a[t].parent.unwrap();
    if p == c1 {
        if p != c2 { assert(is_desc(a, c2, c1, (f2 - 1) as nat)); }
    } else if p == c2 {
        assert(is_desc(a, c1, c2, (f1 - 1) as nat));
    } else {
        lemma_c_comparable(a, c1, c2, p, (f1 - 1) as nat, (f2 - 1) as nat);
    }
}
// two children of the same node have disjoint subtrees
pub proof fn lemma_c_siblings_disjoint<N, const K: usize>(a: Arena<N, K>, d: Map<usize, nat>, pp: usize, c1: usize, c2: usize, x: usize)
    requires ranked(a, d), a.dom().contains(c1), a.dom().contains(c2), a[c1].parent == Some(pp), a[c2].parent == Some(pp), c1 != c2,
        x == c1 || desc(a, c1, x), x == c2 || desc(a, c2, x)
    ensures false
{
    assert(d[pp] < d[c1] && d[pp] < d[c2]);
    if x == c1 {
        let f = choose|f: nat| is_desc(a, c2, c1, f);
        if pp != c2 { lemma_c_desc_rank(a, d, c2, pp, (f - 1) as nat); }
    } else if x == c2 {
        let f = choose|f: nat| is_desc(a, c1, c2, f);
        if pp != c1 { lemma_c_desc_rank(a, d, c1, pp, (f - 1) as nat); }
    } else {
        let f1 = choose|f: nat| is_desc(a, c1, x, f);
        let f2 = choose|f: nat| is_desc(a, c2, x, f);
        lemma_c_comparable(a, c1, c2, x, f1, f2);
        if desc(a, c1, c2) {
            let f = choose|f: nat| is_desc(a, c1, c2, f);
            if pp != c1 { lemma_c_desc_rank(a, d, c1, pp, (f - 1) as nat); }
        } else {
            let f = choose|f: nat| is_desc(a, c2, c1, f);
            if pp != c2 { lemma_c_desc_rank(a, d, c2, pp, (f - 1) as nat); }
        }
    }
}
// a proper descendant of i lies at or below one of i's children
pub proof fn lemma_c_desc_kid<N, const K: usize>(a: Arena<N, K>, i: usize, x: usize, f: nat)
    requires is_desc(a, i, x, f), parents_ok(a), kids_ok(a)
    ensures under_kid(a, i, 0, x)
    decreases f
{
    let p = a[x].parent.unwrap();
    if p == i {
        let l = choose|l: int| 0 <= l < K && #[trigger] a[a[x].parent.unwrap()].children[l] == Some(x);
        assert(a[i].children[l] is Some && x == a[i].children[l].unwrap());
    } else {
        lemma_c_desc_kid(a, i, p, (f - 1) as nat);
        let l = choose|l: int| 0 <= l < K && (#[trigger] a[i].children[l]) is Some && (p == a[i].children[l].unwrap() || desc(a, a[i].children[l].unwrap(), p));
        let c = a[i].children[l].unwrap();
        if p == c { assert(is_desc(a, c, x, 1)); }
        else { let g = choose|g: nat| is_desc(a, c, p, g); assert(is_desc(a, c, x, g + 1)); }
        assert(x == c || desc(a, c, x));
    }
}
pub proof fn lemma_c_sub_split<N, const K: usize>(a: Arena<N, K>, d: Map<usize, nat>, i: usize)
    requires kids_ok(a), parents_ok(a), ranked(a, d), a.dom().contains(i)
    ensures sub_nodes(a, i) =~= kids_nodes(a, i, 0).insert(i), !kids_nodes(a, i, 0).contains(i)
{
    assert forall|x: usize| sub_nodes(a, i).contains(x) <==> kids_nodes(a, i, 0).insert(i).contains(x) by {
        if a.dom().contains(x) && x != i && desc(a, i, x) {
            let f = choose|f: nat| is_desc(a, i, x, f);
            lemma_c_desc_kid(a, i, x, f);
        }
        if a.dom().contains(x) && under_kid(a, i, 0, x) {
            let l = choose|l: int| 0 <= l < K && (#[trigger] a[i].children[l]) is Some && (x == a[i].children[l].unwrap() || desc(a, a[i].children[l].unwrap(), x));
            let c = a[i].children[l].unwrap();
            assert(a.dom().contains(c) && a[c].parent == Some(i));
            if x == c { assert(is_desc(a, i, x, 1)); }
            else { let g = choose|g: nat| is_desc(a, c, x, g); lemma_c_desc_up(a, i, c, x, g); }
            assert(desc(a, i, x));
        }
    }
    if kids_nodes(a, i, 0).contains(i) {
        let l = choose|l: int| 0 <= l < K && (#[trigger] a[i].children[l]) is Some && (i == a[i].children[l].unwrap() || desc(a, a[i].children[l].unwrap(), i));
        let c = a[i].children[l].unwrap();
        assert(a.dom().contains(c) && a[c].parent == Some(i));
        assert(d[i] < d[c]);
        if i != c { let g = choose|g: nat| is_desc(a, c, i, g); lemma_c_desc_rank(a, d, c, i, g); }
    }
}
pub proof fn lemma_c_kids_split<N, const K: usize>(a: Arena<N, K>, d: Map<usize, nat>, i: usize, lo: int)
    requires kids_ok(a), kids_unique(a), ranked(a, d), a.dom().contains(i), 0 <= lo < K
    ensures
        a[i].children[lo] is None ==> kids_nodes(a, i, lo) =~= kids_nodes(a, i, lo + 1),
        a[i].children[lo] is Some ==> kids_nodes(a, i, lo) =~= sub_nodes(a, a[i].children[lo].unwrap()) + kids_nodes(a, i, lo + 1)
            && sub_nodes(a, a[i].children[lo].unwrap()).disjoint(kids_nodes(a, i, lo + 1)),
{
    let ch = a[i].children;
    assert forall|x: usize| under_kid(a, i, lo, x) <==> (ch[lo] is Some && (x == ch[lo].unwrap() || desc(a, ch[lo].unwrap(), x))) || under_kid(a, i, lo + 1, x) by {
        if under_kid(a, i, lo, x) {
            let l = choose|l: int| lo <= l < K && (#[trigger] a[i].children[l]) is Some && (x == a[i].children[l].unwrap() || desc(a, a[i].children[l].unwrap(), x));
            if l != lo { assert(lo + 1 <= l); }
        }
        if under_kid(a, i, lo + 1, x) {
            let l = choose|l: int| lo + 1 <= l < K && (#[trigger] a[i].children[l]) is Some && (x == a[i].children[l].unwrap() || desc(a, a[i].children[l].unwrap(), x));
            assert(lo <= l);
        }
    }
    if ch[lo] is Some {
        let c = ch[lo].unwrap();
        assert(a.dom().contains(c) && a[c].parent == Some(i));
        assert forall|x: usize| !(sub_nodes(a, c).contains(x) && kids_nodes(a, i, lo + 1).contains(x)) by {
            if sub_nodes(a, c).contains(x) && kids_nodes(a, i, lo + 1).contains(x) {
                let l = choose|l: int| lo + 1 <= l < K && (#[trigger] a[i].children[l]) is Some && (x == a[i].children[l].unwrap() || desc(a, a[i].children[l].unwrap(), x));
                let c2 = a[i].children[l].unwrap();
                assert(a.dom().contains(c2) && a[c2].parent == Some(i));
                assert(c2 != c);      // kids_unique
                lemma_c_siblings_disjoint(a, d, i, c, c2, x);
            }
        }
    }
}
// the counting lemma
pub proof fn lemma_pre_count<N, const K: usize>(a: Arena<N, K>, h: Map<usize, nat>, d: Map<usize, nat>, it: DfsNodeData)
    requires kids_ok(a), parents_ok(a), kids_unique(a), ranked(a, d), ranked_down(a, h), a.dom().contains(it.index)
    ensures pre_items(a, h, it).len() == sub_nodes(a, it.index).len()
    decreases h[it.index], K + 1
{
    let i = it.index;
    lemma_concat_count(a, h, d, i, 0, (it.depth + 1) as usize);
    lemma_c_sub_split(a, d, i);
    assert(kids_nodes(a, i, 0).insert(i).len() == kids_nodes(a, i, 0).len() + 1);
}
pub proof fn lemma_concat_count<N, const K: usize>(a: Arena<N, K>, h: Map<usize, nat>, d: Map<usize, nat>, i: usize, lo: int, dp: usize)
    requires kids_ok(a), parents_ok(a), kids_unique(a), ranked(a, d), ranked_down(a, h), a.dom().contains(i), 0 <= lo <= K
    ensures concat_pre(a, h, kid_items(a[i].children, lo, dp), h[i]).len() == kids_nodes(a, i, lo).len()
    decreases h[i], K - lo
{
    let ch = a[i].children;
    if lo >= K {
        assert(kid_items(ch, lo, dp) =~= Seq::<DfsNodeData>::empty());
        assert(kids_nodes(a, i, lo) =~= Set::<usize>::empty());
    } else {
        lemma_c_kids_split(a, d, i, lo);
        lemma_concat_count(a, h, d, i, lo + 1, dp);
        if ch[lo] is Some {
            let c = ch[lo].unwrap();
            let item = DfsNodeData { depth: dp, index: c, n_remaining: count_some_from(ch, lo + 1) as usize };
            let rest = kid_items(ch, lo + 1, dp);
            let all = kid_items(ch, lo, dp);
            assert(all == seq![item] + rest);
            assert(all[0] == item);
            assert(all.drop_first() =~= rest);
            assert(a.dom().contains(c) && h[c] < h[i]);
            lemma_pre_count(a, h, d, item);
            assert(concat_pre(a, h, all, h[i]) == pre_items(a, h, item) + concat_pre(a, h, rest, h[i]));
            vstd::set_lib::lemma_set_disjoint_lens(sub_nodes(a, c), kids_nodes(a, i, lo + 1));
        }
    }
}
// in a well-formed tree everything hangs below the root
pub proof fn lemma_c_below_root<N, const K: usize>(a: Arena<N, K>, d: Map<usize, nat>, root: usize, x: usize)
    requires parents_ok(a), root_ok(a, Some(root)), ranked(a, d), a.dom().contains(x)
    ensures x == root || desc(a, root, x)
    decreases d[x]
{
    if a[x].parent is None { }
    else {
        let p = a[x].parent.unwrap();
        assert(a.dom().contains(p) && d[p] < d[x]);
        lemma_c_below_root(a, d, root, p);
        if p == root { assert(is_desc(a, root, x, 1)); }
        else { let f = choose|f: nat| is_desc(a, root, p, f); assert(is_desc(a, root, x, f + 1)); }
    }
}
// size of the remaining pre-order right after `new`
pub proof fn lemma_new_size<N, const K: usize>(a: Arena<N, K>, troot: Option<usize>, h: Map<usize, nat>, start: usize)
    requires wf_at(a, troot), ranked_down(a, h), a.dom().contains(start)
    ensures rem(a, h, seq![DfsNodeData { depth: 0, index: start, n_remaining: 0 }]).len() <= a.dom().len(),
        troot == Some(start) ==> rem(a, h, seq![DfsNodeData { depth: 0, index: start, n_remaining: 0 }]).len() == a.dom().len(),
{
    let it = DfsNodeData { depth: 0, index: start, n_remaining: 0 };
    let s = seq![it];
    let d = choose|d: Map<usize, nat>| ranked(a, d);
    assert(s.last() == it);
    assert(s.drop_last() =~= Seq::<DfsNodeData>::empty());
    assert(rem(a, h, s) == pre_items(a, h, it) + rem(a, h, s.drop_last()));
    assert(rem(a, h, Seq::<DfsNodeData>::empty()).len() == 0);
    lemma_pre_count(a, h, d, it);
    vstd::set_lib::lemma_len_subset(sub_nodes(a, start), a.dom());
    if troot == Some(start) {
        assert(sub_nodes(a, start) =~= a.dom()) by {
            assert forall|x: usize| a.dom().contains(x) implies sub_nodes(a, start).contains(x) by { lemma_c_below_root(a, d, start, x); }
        }
    }
}
// ---- the same count for the edge traversal: one edge per node below the start ----
pub proof fn lemma_edges_count<N, const K: usize>(a: Arena<N, K>, h: Map<usize, nat>, d: Map<usize, nat>, e: EItem)
    requires kids_ok(a), parents_ok(a), kids_unique(a), ranked(a, d), ranked_down(a, h), a.dom().contains(e.3)
    ensures pre_edges(a, h, e).len() == sub_nodes(a, e.3).len()
    decreases h[e.3], K + 1
{
    let i = e.3;
    lemma_concat_edges_count(a, h, d, i, 0, (e.0 + 1) as usize);
    lemma_c_sub_split(a, d, i);
    assert(kids_nodes(a, i, 0).insert(i).len() == kids_nodes(a, i, 0).len() + 1);
}
pub proof fn lemma_concat_edges_count<N, const K: usize>(a: Arena<N, K>, h: Map<usize, nat>, d: Map<usize, nat>, i: usize, lo: int, dp: usize)
    requires kids_ok(a), parents_ok(a), kids_unique(a), ranked(a, d), ranked_down(a, h), a.dom().contains(i), 0 <= lo <= K
    ensures concat_edges(a, h, kid_edges(a[i].children, lo, dp, i), h[i]).len() == kids_nodes(a, i, lo).len()
    decreases h[i], K - lo
{
    let ch = a[i].children;
    if lo >= K {
        assert(kid_edges(ch, lo, dp, i) =~= Seq::<EItem>::empty());
        assert(kids_nodes(a, i, lo) =~= Set::<usize>::empty());
    } else {
        lemma_c_kids_split(a, d, i, lo);
        lemma_concat_edges_count(a, h, d, i, lo + 1, dp);
        if ch[lo] is Some {
            let c = ch[lo].unwrap();
            let item: EItem = (dp, i, lo as usize, c);
            let rest = kid_edges(ch, lo + 1, dp, i);
            let all = kid_edges(ch, lo, dp, i);
            assert(all == seq![item] + rest);
            assert(all[0] == item);
            assert(all.drop_first() =~= rest);
            assert(a.dom().contains(c) && h[c] < h[i]);
            lemma_edges_count(a, h, d, item);
            assert(concat_edges(a, h, all, h[i]) == pre_edges(a, h, item) + concat_edges(a, h, rest, h[i]));
            vstd::set_lib::lemma_set_disjoint_lens(sub_nodes(a, c), kids_nodes(a, i, lo + 1));
        }
    }
}
// number of edges still to come right after DfsEdge::new
pub proof fn lemma_new_edges_size<N, const K: usize>(a: Arena<N, K>, troot: Option<usize>, h: Map<usize, nat>, start: usize)
    requires wf_at(a, troot), ranked_down(a, h), a.dom().contains(start)
    ensures rem_e(a, h, kid_edges(a[start].children, 0, 1, start).reverse()).len() + 1 <= a.dom().len(),
        troot == Some(start) ==> rem_e(a, h, kid_edges(a[start].children, 0, 1, start).reverse()).len() + 1 == a.dom().len(),
{
    let d = choose|d: Map<usize, nat>| ranked(a, d);
    let xs = kid_edges(a[start].children, 0, 1, start);
    lemma_kid_edges_below(a, h, start, 0, 1);
    lemma_rem_e_push_rev(a, h, Seq::<EItem>::empty(), xs, h[start]);
    assert(Seq::<EItem>::empty() + xs.reverse() =~= xs.reverse());
    assert(rem_e(a, h, Seq::<EItem>::empty()).len() == 0);
    lemma_concat_edges_count(a, h, d, start, 0, 1);
    lemma_c_sub_split(a, d, start);
    assert(kids_nodes(a, start, 0).insert(start).len() == kids_nodes(a, start, 0).len() + 1);
    vstd::set_lib::lemma_len_subset(sub_nodes(a, start), a.dom());
    if troot == Some(start) {
        assert(sub_nodes(a, start) =~= a.dom()) by {
            assert forall|x: usize| a.dom().contains(x) implies sub_nodes(a, start).contains(x) by { lemma_c_below_root(a, d, start, x); }
        }
    }
}
// ---- "exactly the nodes of the subtree, once each" ----
pub open spec fn lists(xs: Seq<DfsNodeData>, x: usize) -> bool { exists|j: int| 0 <= j < xs.len() && (#[trigger] xs[j]).index == x }
pub open spec fn no_dup(xs: Seq<DfsNodeData>) -> bool { forall|j1: int, j2: int| 0 <= j1 < j2 < xs.len() ==> (#[trigger] xs[j1]).index != (#[trigger] xs[j2]).index }
pub proof fn lemma_lists_concat(xs: Seq<DfsNodeData>, ys: Seq<DfsNodeData>, x: usize)
    ensures lists(xs + ys, x) <==> lists(xs, x) || lists(ys, x)
{
    let zs = xs + ys;
    if lists(zs, x) {
        let j = choose|j: int| 0 <= j < zs.len() && (#[trigger] zs[j]).index == x;
        if j < xs.len() { assert(xs[j] == zs[j]); } else { assert(ys[j - xs.len()] == zs[j]); }
    }
    if lists(xs, x) { let j = choose|j: int| 0 <= j < xs.len() && (#[trigger] xs[j]).index == x; assert(zs[j] == xs[j]); }
    if lists(ys, x) { let j = choose|j: int| 0 <= j < ys.len() && (#[trigger] ys[j]).index == x; assert(zs[xs.len() + j] == ys[j]); }
}
pub proof fn lemma_nodup_concat(xs: Seq<DfsNodeData>, ys: Seq<DfsNodeData>)
    requires no_dup(xs), no_dup(ys), forall|x: usize| !(lists(xs, x) && lists(ys, x))
    ensures no_dup(xs + ys)
{
    let zs = xs + ys;
    assert forall|j1: int, j2: int| 0 <= j1 < j2 < zs.len() implies (#[trigger] zs[j1]).index != (#[trigger] zs[j2]).index by {
        if j2 < xs.len() { assert(zs[j1] == xs[j1] && zs[j2] == xs[j2]); }
        else if j1 >= xs.len() { assert(zs[j1] == ys[j1 - xs.len()] && zs[j2] == ys[j2 - xs.len()]); }
        else {
            assert(zs[j1] == xs[j1] && zs[j2] == ys[j2 - xs.len()]);
            if zs[j1].index == zs[j2].index { assert(lists(xs, zs[j1].index)); assert(lists(ys, zs[j1].index)); }
        }
    }
}
// the pre-order below `it` lists exactly the nodes at or below it, each once
pub proof fn lemma_pre_exact<N, const K: usize>(a: Arena<N, K>, h: Map<usize, nat>, d: Map<usize, nat>, it: DfsNodeData)
    requires kids_ok(a), parents_ok(a), kids_unique(a), ranked(a, d), ranked_down(a, h), a.dom().contains(it.index)
    ensures no_dup(pre_items(a, h, it)), forall|x: usize| lists(pre_items(a, h, it), x) <==> sub_nodes(a, it.index).contains(x)
    decreases h[it.index], K + 1
{
    let i = it.index;
    let dp = (it.depth + 1) as usize;
    let tail = concat_pre(a, h, kid_items(a[i].children, 0, dp), h[i]);
    lemma_concat_exact(a, h, d, i, 0, dp);
    lemma_c_sub_split(a, d, i);
    let head = seq![it];
    assert(pre_items(a, h, it) == head + tail);
    assert(no_dup(head));
    assert forall|x: usize| lists(head, x) <==> x == i by {
        if x == i { assert(head[0].index == i); }
    }
    assert forall|x: usize| !(lists(head, x) && lists(tail, x)) by { }
    lemma_nodup_concat(head, tail);
    assert forall|x: usize| lists(pre_items(a, h, it), x) <==> sub_nodes(a, i).contains(x) by {
        lemma_lists_concat(head, tail, x);
        assert(sub_nodes(a, i).contains(x) <==> (x == i || kids_nodes(a, i, 0).contains(x)));
    }
}
pub proof fn lemma_concat_exact<N, const K: usize>(a: Arena<N, K>, h: Map<usize, nat>, d: Map<usize, nat>, i: usize, lo: int, dp: usize)
    requires kids_ok(a), parents_ok(a), kids_unique(a), ranked(a, d), ranked_down(a, h), a.dom().contains(i), 0 <= lo <= K
    ensures no_dup(concat_pre(a, h, kid_items(a[i].children, lo, dp), h[i])),
        forall|x: usize| lists(concat_pre(a, h, kid_items(a[i].children, lo, dp), h[i]), x) <==> kids_nodes(a, i, lo).contains(x)
    decreases h[i], K - lo
{
    let ch = a[i].children;
    if lo >= K {
        assert(kid_items(ch, lo, dp) =~= Seq::<DfsNodeData>::empty());
        assert(kids_nodes(a, i, lo) =~= Set::<usize>::empty());
    } else {
        lemma_c_kids_split(a, d, i, lo);
        lemma_concat_exact(a, h, d, i, lo + 1, dp);
        if ch[lo] is Some {
            let c = ch[lo].unwrap();
            let item = DfsNodeData { depth: dp, index: c, n_remaining: count_some_from(ch, lo + 1) as usize };
            let rest = kid_items(ch, lo + 1, dp);
            let all = kid_items(ch, lo, dp);
            assert(all == seq![item] + rest);
            assert(all[0] == item);
            assert(all.drop_first() =~= rest);
            assert(a.dom().contains(c) && h[c] < h[i]);
            lemma_pre_exact(a, h, d, item);
            let xs = pre_items(a, h, item);
            let ys = concat_pre(a, h, rest, h[i]);
            assert(concat_pre(a, h, all, h[i]) == xs + ys);
            assert forall|x: usize| !(lists(xs, x) && lists(ys, x)) by {
                assert(!(sub_nodes(a, c).contains(x) && kids_nodes(a, i, lo + 1).contains(x)));
            }
            lemma_nodup_concat(xs, ys);
            assert forall|x: usize| lists(xs + ys, x) <==> kids_nodes(a, i, lo).contains(x) by {
                lemma_lists_concat(xs, ys, x);
                assert(kids_nodes(a, i, lo).contains(x) <==> (sub_nodes(a, c).contains(x) || kids_nodes(a, i, lo + 1).contains(x)));
            }
        }
    }
}
// the same for the edge traversal: the targets of the edges listed below edge e are exactly the nodes at or below e's target, each once
pub open spec fn lists_e(xs: Seq<EItem>, x: usize) -> bool { exists|j: int| 0 <= j < xs.len() && (#[trigger] xs[j]).3 == x }
pub open spec fn no_dup_e(xs: Seq<EItem>) -> bool { forall|j1: int, j2: int| 0 <= j1 < j2 < xs.len() ==> (#[trigger] xs[j1]).3 != (#[trigger] xs[j2]).3 }
pub proof fn lemma_lists_e_concat(xs: Seq<EItem>, ys: Seq<EItem>, x: usize)
    ensures lists_e(xs + ys, x) <==> lists_e(xs, x) || lists_e(ys, x)
{
    let zs = xs + ys;
    if lists_e(zs, x) {
        let j = choose|j: int| 0 <= j < zs.len() && (#[trigger] zs[j]).3 == x;
        if j < xs.len() { assert(xs[j] == zs[j]); } else { assert(ys[j - xs.len()] == zs[j]); }
    }
    if lists_e(xs, x) { let j = choose|j: int| 0 <= j < xs.len() && (#[trigger] xs[j]).3 == x; assert(zs[j] == xs[j]); }
    if lists_e(ys, x) { let j = choose|j: int| 0 <= j < ys.len() && (#[trigger] ys[j]).3 == x; assert(zs[xs.len() + j] == ys[j]); }
}
pub proof fn lemma_nodup_e_concat(xs: Seq<EItem>, ys: Seq<EItem>)
    requires no_dup_e(xs), no_dup_e(ys), forall|x: usize| !(lists_e(xs, x) && lists_e(ys, x))
    ensures no_dup_e(xs + ys)
{
    let zs = xs + ys;
    assert forall|j1: int, j2: int| 0 <= j1 < j2 < zs.len() implies (#[trigger] zs[j1]).3 != (#[trigger] zs[j2]).3 by {
        if j2 < xs.len() { assert(zs[j1] == xs[j1] && zs[j2] == xs[j2]); }
        else if j1 >= xs.len() { assert(zs[j1] == ys[j1 - xs.len()] && zs[j2] == ys[j2 - xs.len()]); }
        else {
            assert(zs[j1] == xs[j1] && zs[j2] == ys[j2 - xs.len()]);
            if zs[j1].3 == zs[j2].3 { assert(lists_e(xs, zs[j1].3)); assert(lists_e(ys, zs[j1].3)); }
        }
    }
}
pub proof fn lemma_edges_exact<N, const K: usize>(a: Arena<N, K>, h: Map<usize, nat>, d: Map<usize, nat>, e: EItem)
    requires kids_ok(a), parents_ok(a), kids_unique(a), ranked(a, d), ranked_down(a, h), a.dom().contains(e.3)
    ensures no_dup_e(pre_edges(a, h, e)), forall|x: usize| lists_e(pre_edges(a, h, e), x) <==> sub_nodes(a, e.3).contains(x)
    decreases h[e.3], K + 1
{
    let i = e.3;
    let dp = (e.0 + 1) as usize;
    let tail = concat_edges(a, h, kid_edges(a[i].children, 0, dp, i), h[i]);
    lemma_concat_edges_exact(a, h, d, i, 0, dp);
    lemma_c_sub_split(a, d, i);
    let head = seq![e];
    assert(pre_edges(a, h, e) == head + tail);
    assert(no_dup_e(head));
    assert forall|x: usize| lists_e(head, x) <==> x == i by { if x == i { assert(head[0].3 == i); } }
    assert forall|x: usize| !(lists_e(head, x) && lists_e(tail, x)) by { }
    lemma_nodup_e_concat(head, tail);
    assert forall|x: usize| lists_e(pre_edges(a, h, e), x) <==> sub_nodes(a, i).contains(x) by {
        lemma_lists_e_concat(head, tail, x);
        assert(sub_nodes(a, i).contains(x) <==> (x == i || kids_nodes(a, i, 0).contains(x)));
    }
}
pub proof fn lemma_concat_edges_exact<N, const K: usize>(a: Arena<N, K>, h: Map<usize, nat>, d: Map<usize, nat>, i: usize, lo: int, dp: usize)
    requires kids_ok(a), parents_ok(a), kids_unique(a), ranked(a, d), ranked_down(a, h), a.dom().contains(i), 0 <= lo <= K
    ensures no_dup_e(concat_edges(a, h, kid_edges(a[i].children, lo, dp, i), h[i])),
        forall|x: usize| lists_e(concat_edges(a, h, kid_edges(a[i].children, lo, dp, i), h[i]), x) <==> kids_nodes(a, i, lo).contains(x)
    decreases h[i], K - lo
{
    let ch = a[i].children;
    if lo >= K {
        assert(kid_edges(ch, lo, dp, i) =~= Seq::<EItem>::empty());
        assert(kids_nodes(a, i, lo) =~= Set::<usize>::empty());
    } else {
        lemma_c_kids_split(a, d, i, lo);
        lemma_concat_edges_exact(a, h, d, i, lo + 1, dp);
        if ch[lo] is Some {
            let c = ch[lo].unwrap();
            let item: EItem = (dp, i, lo as usize, c);
            let rest = kid_edges(ch, lo + 1, dp, i);
            let all = kid_edges(ch, lo, dp, i);
            assert(all == seq![item] + rest);
            assert(all[0] == item);
            assert(all.drop_first() =~= rest);
            assert(a.dom().contains(c) && h[c] < h[i]);
            lemma_edges_exact(a, h, d, item);
            let xs = pre_edges(a, h, item);
            let ys = concat_edges(a, h, rest, h[i]);
            assert(concat_edges(a, h, all, h[i]) == xs + ys);
            assert forall|x: usize| !(lists_e(xs, x) && lists_e(ys, x)) by {
                assert(!(sub_nodes(a, c).contains(x) && kids_nodes(a, i, lo + 1).contains(x)));
            }
            lemma_nodup_e_concat(xs, ys);
            assert forall|x: usize| lists_e(xs + ys, x) <==> kids_nodes(a, i, lo).contains(x) by {
                lemma_lists_e_concat(xs, ys, x);
                assert(kids_nodes(a, i, lo).contains(x) <==> (sub_nodes(a, c).contains(x) || kids_nodes(a, i, lo + 1).contains(x)));
            }
        }
    }
}
// ---- breadth-first: the queue partitions what is still to come ----
// nodes still to come: everything at or below a queue entry
pub open spec fn queue_covers<N, const K: usize>(a: Arena<N, K>, q: Seq<DfsNodeData>, x: usize) -> bool {
    exists|j: int| 0 <= j < q.len() && sub_nodes(a, (#[trigger] q[j]).index).contains(x)
}
// ... and the subtrees of different queue entries are disjoint
pub open spec fn queue_disjoint<N, const K: usize>(a: Arena<N, K>, q: Seq<DfsNodeData>) -> bool {
    forall|j1: int, j2: int, x: usize| 0 <= j1 < j2 < q.len() ==> !(#[trigger] sub_nodes(a, q[j1].index).contains(x) && #[trigger] sub_nodes(a, q[j2].index).contains(x))
}
// one step of Bfs::next: the returned node was still to come, it is the only node that is no longer to come, and the partition is kept -
// so a run of `next` calls from `new` returns every node at or below the start exactly once
pub proof fn lemma_bfs_partition<N, const K: usize>(a: Arena<N, K>, troot: Option<usize>, q0: Seq<DfsNodeData>, q1: Seq<DfsNodeData>, lp: usize, it: DfsNodeData)
    requires wf_at(a, troot), bfs_step(a, q0, q1, lp, Some(it)), queue_disjoint(a, q0), forall|j: int| 0 <= j < q0.len() ==> a.dom().contains((#[trigger] q0[j]).index)
    ensures queue_disjoint(a, q1), queue_covers(a, q0, it.index), !queue_covers(a, q1, it.index),
        forall|x: usize| x != it.index ==> (queue_covers(a, q1, x) <==> queue_covers(a, q0, x)),
        forall|j: int| 0 <= j < q1.len() ==> a.dom().contains((#[trigger] q1[j]).index),
{
    let d = choose|d: Map<usize, nat>| ranked(a, d);
    let n = it.index;
    let dp = (it.depth + 1) as usize;
    let rest = q0.drop_first();
    let ki = kid_items(a[n].children, 0, dp);
    assert(q0[0] == it);
    assert(q1 == rest + ki);
    lemma_c_sub_split(a, d, n);
    lemma_kid_items_cover(a, d, n, 0, dp);
    assert(sub_nodes(a, n).contains(n));
    // entries of q1: either an old entry other than the head, or a child of n
    assert forall|j: int| 0 <= j < q1.len() implies a.dom().contains((#[trigger] q1[j]).index)
        && (j < rest.len() ==> q1[j] == q0[j + 1]) && (j >= rest.len() ==> q1[j] == ki[j - rest.len()] && sub_nodes(a, q1[j].index).subset_of(kids_nodes(a, n, 0))) by {
        if j < rest.len() { assert(q1[j] == rest[j]); assert(rest[j] == q0[j + 1]); }
        else { assert(q1[j] == ki[j - rest.len()]); }
    }
    assert forall|j1: int, j2: int, x: usize| 0 <= j1 < j2 < q1.len() implies !(#[trigger] sub_nodes(a, q1[j1].index).contains(x) && #[trigger] sub_nodes(a, q1[j2].index).contains(x)) by {
        if sub_nodes(a, q1[j1].index).contains(x) && sub_nodes(a, q1[j2].index).contains(x) {
            if j2 < rest.len() { assert(q1[j1] == q0[j1 + 1] && q1[j2] == q0[j2 + 1]); }
            else if j1 < rest.len() {
                assert(q1[j1] == q0[j1 + 1]);
                assert(kids_nodes(a, n, 0).contains(x));
                assert(sub_nodes(a, q0[0].index).contains(x));
            } else {
                assert(ki[j1 - rest.len()] == q1[j1] && ki[j2 - rest.len()] == q1[j2]);
            }
        }
    }
    assert forall|x: usize| x != n implies (queue_covers(a, q1, x) <==> queue_covers(a, q0, x)) by {
        if queue_covers(a, q1, x) {
            let j = choose|j: int| 0 <= j < q1.len() && sub_nodes(a, (#[trigger] q1[j]).index).contains(x);
            if j < rest.len() { assert(sub_nodes(a, q0[j + 1].index).contains(x)); }
            else { assert(kids_nodes(a, n, 0).contains(x)); assert(sub_nodes(a, q0[0].index).contains(x)); }
        }
        if queue_covers(a, q0, x) {
            let j = choose|j: int| 0 <= j < q0.len() && sub_nodes(a, (#[trigger] q0[j]).index).contains(x);
            if j > 0 { assert(q1[j - 1] == q0[j]); assert(sub_nodes(a, q1[j - 1].index).contains(x)); }
            else {
                assert(kids_nodes(a, n, 0).contains(x));
                let k = choose|k: int| 0 <= k < ki.len() && sub_nodes(a, (#[trigger] ki[k]).index).contains(x);
                assert(q1[rest.len() + k] == ki[k]);
                assert(sub_nodes(a, q1[rest.len() + k].index).contains(x));
            }
        }
    }
    if queue_covers(a, q1, n) {
        let j = choose|j: int| 0 <= j < q1.len() && sub_nodes(a, (#[trigger] q1[j]).index).contains(n);
        if j < rest.len() { assert(sub_nodes(a, q0[j + 1].index).contains(n)); assert(sub_nodes(a, q0[0].index).contains(n)); }
        else { assert(kids_nodes(a, n, 0).contains(n)); }
    }
}
// the children items: their subtrees are pairwise disjoint and together make up kids_nodes
pub proof fn lemma_kid_items_cover<N, const K: usize>(a: Arena<N, K>, d: Map<usize, nat>, i: usize, lo: int, dp: usize)
    requires kids_ok(a), kids_unique(a), ranked(a, d), a.dom().contains(i), 0 <= lo <= K
    ensures
        forall|k: int| 0 <= k < kid_items(a[i].children, lo, dp).len() ==> a.dom().contains((#[trigger] kid_items(a[i].children, lo, dp)[k]).index)
            && sub_nodes(a, kid_items(a[i].children, lo, dp)[k].index).subset_of(kids_nodes(a, i, lo)),
        forall|x: usize| kids_nodes(a, i, lo).contains(x) ==> exists|k: int| 0 <= k < kid_items(a[i].children, lo, dp).len() && sub_nodes(a, (#[trigger] kid_items(a[i].children, lo, dp)[k]).index).contains(x),
        forall|k1: int, k2: int, x: usize| 0 <= k1 < k2 < kid_items(a[i].children, lo, dp).len() ==>
            !(#[trigger] sub_nodes(a, kid_items(a[i].children, lo, dp)[k1].index).contains(x) && #[trigger] sub_nodes(a, kid_items(a[i].children, lo, dp)[k2].index).contains(x)),
    decreases K - lo
{
    let ch = a[i].children;
    let all = kid_items(ch, lo, dp);
    if lo < K {
        lemma_kid_items_cover(a, d, i, lo + 1, dp);
        lemma_c_kids_split(a, d, i, lo);
        let rest = kid_items(ch, lo + 1, dp);
        if ch[lo] is Some {
            let c = ch[lo].unwrap();
            assert(a.dom().contains(c));
            assert(all == seq![DfsNodeData { depth: dp, index: c, n_remaining: count_some_from(ch, lo + 1) as usize }] + rest);
            assert(all[0].index == c);
            assert forall|k: int| 0 <= k < all.len() implies a.dom().contains((#[trigger] all[k]).index) && sub_nodes(a, all[k].index).subset_of(kids_nodes(a, i, lo)) by {
                if k > 0 { assert(all[k] == rest[k - 1]); }
            }
            assert forall|x: usize| kids_nodes(a, i, lo).contains(x) implies exists|k: int| 0 <= k < all.len() && sub_nodes(a, (#[trigger] all[k]).index).contains(x) by {
                if sub_nodes(a, c).contains(x) { assert(sub_nodes(a, all[0].index).contains(x)); }
                else {
                    assert(kids_nodes(a, i, lo + 1).contains(x));
                    let k = choose|k: int| 0 <= k < rest.len() && sub_nodes(a, (#[trigger] rest[k]).index).contains(x);
                    assert(all[k + 1] == rest[k]);
                    assert(sub_nodes(a, all[k + 1].index).contains(x));
                }
            }
            assert forall|k1: int, k2: int, x: usize| 0 <= k1 < k2 < all.len() implies
                !(#[trigger] sub_nodes(a, all[k1].index).contains(x) && #[trigger] sub_nodes(a, all[k2].index).contains(x)) by {
                assert(all[k2] == rest[k2 - 1]);
                if k1 > 0 { assert(all[k1] == rest[k1 - 1]); }
                else if sub_nodes(a, c).contains(x) && sub_nodes(a, rest[k2 - 1].index).contains(x) { assert(kids_nodes(a, i, lo + 1).contains(x)); }
            }
        }
    } else {
        assert(kids_nodes(a, i, lo) =~= Set::<usize>::empty());
    }
}
// ---- end count_spec ----
