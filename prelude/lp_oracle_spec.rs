// ---- prelude/lp_oracle_spec.rs : the LP layer and the tolerance membership test as uninterpreted oracles ----
//@item src/linalg/polyhedron.rs | enum PolytopeStatus | no-debug
// ---------------------------------------------------------------- oracles (ASSUMED: deterministic, otherwise arbitrary)
pub uninterp spec fn lp_status(p: Polytope) -> PolytopeStatus;
pub uninterp spec fn contains_tol(p: Polytope, x: Array1<f64>) -> bool;

// ---- end lp_oracle_spec ----
