// ---- prelude/forward_spec.rs : specification of AffTree::forward_if_redundant (proved in unit pwl_forward) ----
// ---------------------------------------------------------------- specification
// the cached verdict of the child at slot l of node p: want=true "feasible" (Feasible / FeasibleWitness), want=false "infeasible"
pub open spec fn st_is(s: NodeState, want: bool) -> bool {
    if want { s is Feasible || s is FeasibleWitness } else { s is Infeasible }
}
pub open spec fn kid_in_state<const K: usize>(a: AArena<K>, p: usize, l: int, want: bool) -> bool {
    0 <= l < K && a[p].children[l] is Some && st_is(a[a[p].children[l].unwrap()].value.state, want)
}
pub open spec fn count_state<const K: usize>(a: AArena<K>, p: usize, lo: int, want: bool) -> nat
    decreases K - lo
{
    if lo >= K || lo < 0 { 0 } else { (if kid_in_state(a, p, lo, want) { 1nat } else { 0nat }) + count_state(a, p, lo + 1, want) }
}
// a1 is a0 with the children of p at the slots in L (and everything below them) removed, and nothing else changed
pub open spec fn rs_frame<const K: usize>(a0: AArena<K>, a1: AArena<K>, p: usize, ls: ISet<int>) -> bool {
    &&& a0.dom().contains(p) && a1.dom().contains(p)
    &&& forall|i: usize| #![trigger a1.dom().contains(i)] a1.dom().contains(i) ==> a0.dom().contains(i)
    &&& forall|l: int| 0 <= l < K ==> #[trigger] a1[p].children[l] == (if ls.contains(l) { None } else { a0[p].children[l] })
    &&& a1[p].parent == a0[p].parent && a1[p].value == a0[p].value && (a1[p].isleaf == a0[p].isleaf || a1[p].isleaf == no_kids(a1[p]))
    &&& forall|i: usize| #![trigger a1[i]] a1.dom().contains(i) && i != p ==> a1[i] == a0[i]
}
// the removed children are gone ...
pub open spec fn rs_gone<const K: usize>(a0: AArena<K>, a1: AArena<K>, p: usize, ls: ISet<int>) -> bool {
    forall|l: int| 0 <= l < K && ls.contains(l) && (#[trigger] a0[p].children[l]) is Some ==> !a1.dom().contains(a0[p].children[l].unwrap())
}
// ... and every node that is not one of them or below one of them is kept
pub open spec fn rs_kept<const K: usize>(a0: AArena<K>, a1: AArena<K>, p: usize, ls: ISet<int>) -> bool {
    forall|i: usize| #![trigger a1.dom().contains(i)] a0.dom().contains(i) && !below_removed(a0, p, ls, i) ==> a1.dom().contains(i)
}
#[verifier::opaque]
pub open spec fn removed_set<const K: usize>(a0: AArena<K>, a1: AArena<K>, p: usize, ls: ISet<int>) -> bool {
    rs_frame(a0, a1, p, ls) && rs_gone(a0, a1, p, ls) && rs_kept(a0, a1, p, ls)
}
pub open spec fn below_removed<const K: usize>(a0: AArena<K>, p: usize, ls: ISet<int>, i: usize) -> bool {
    exists|l: int| 0 <= l < K && ls.contains(l) && (#[trigger] a0[p].children[l]) is Some && (i == a0[p].children[l].unwrap() || desc(a0, a0[p].children[l].unwrap(), i))
}
pub open spec fn infeasible_slots<const K: usize>(a: AArena<K>, p: usize) -> ISet<int> {
    ISet::new(|l: int| kid_in_state(a, p, l, false))
}
pub open spec fn edge_labels(es: Seq<Edge>, n: int) -> ISet<int> {
    ISet::new(|l: int| exists|j: int| 0 <= j < n && (#[trigger] es[j]).label == l)
}

// ---------------------------------------------------------------- lemmas
// feasible and infeasible slots are disjoint; if together they number K then every slot is occupied by one or the other
pub proof fn lemma_counts_partition<const K: usize>(a: AArena<K>, p: usize, lo: int)
    requires 0 <= lo <= K
    ensures count_state(a, p, lo, true) + count_state(a, p, lo, false) <= K - lo,
        count_state(a, p, lo, true) + count_state(a, p, lo, false) == K - lo ==> forall|l: int| lo <= l < K ==> kid_in_state(a, p, l, true) || kid_in_state(a, p, l, false),
    decreases K - lo
{
    if lo < K { lemma_counts_partition(a, p, lo + 1); }
}
pub proof fn lemma_count_one<const K: usize>(a: AArena<K>, p: usize, lo: int, l1: int, l2: int, want: bool)
    requires 0 <= lo <= l1 < l2 < K, kid_in_state(a, p, l1, want), kid_in_state(a, p, l2, want)
    ensures count_state(a, p, lo, want) >= 2
    decreases K - lo
{
    if lo < l1 { lemma_count_one(a, p, lo + 1, l1, l2, want); } else { lemma_count_ge1(a, p, lo + 1, l2, want); }
}
pub proof fn lemma_count_ge1<const K: usize>(a: AArena<K>, p: usize, lo: int, l: int, want: bool)
    requires 0 <= lo <= l < K, kid_in_state(a, p, l, want)
    ensures count_state(a, p, lo, want) >= 1
    decreases K - lo
{
    if lo < l { lemma_count_ge1(a, p, lo + 1, l, want); }
}
// a node with exactly one occupied slot f
pub proof fn lemma_only_slot<const K: usize>(nd: TreeNode<AffContent, K>, lo: int, f: int)
    requires 0 <= lo <= K, 0 <= f < K, nd.children[f] is Some, forall|l: int| 0 <= l < K && l != f ==> (#[trigger] nd.children[l]) is None
    ensures count_some_from(nd.children, lo) == (if lo <= f { 1nat } else { 0nat })
    decreases K - lo
{
    if lo < K { lemma_only_slot(nd, lo + 1, f); }
}
// parent pointers agree, so descendants in the pruned arena are descendants in the original
pub proof fn lemma_desc_back<const K: usize>(a0: AArena<K>, a1: AArena<K>, p: usize, ls: ISet<int>, c: usize, i: usize, f: nat)
    requires rs_frame(a0, a1, p, ls), is_desc(a1, c, i, f)
    ensures is_desc(a0, c, i, f)
    decreases f
{
    assert(a1.dom().contains(i));
    assert(a1[i].parent == a0[i].parent) by { if i != p { assert(a1[i] == a0[i]); } }
    if a1[i].parent.unwrap() != c { lemma_desc_back(a0, a1, p, ls, c, a1[i].parent.unwrap(), (f - 1) as nat); }
}
pub proof fn lemma_removed_init<const K: usize>(a0: AArena<K>, p: usize)
    requires a0.dom().contains(p)
    ensures removed_set(a0, a0, p, ISet::<int>::empty())
{
    reveal(removed_set);
}
// one more child removed
pub proof fn lemma_removed_step_frame<const K: usize>(a0: AArena<K>, a1: AArena<K>, a2: AArena<K>, p: usize, ls: ISet<int>, l: usize)
    requires rs_frame(a0, a1, p, ls), !ls.contains(l as int), child_removed(a1, a2, p, l), !desc(a1, a1[p].children[l as int].unwrap(), p), a1[p].children[l as int] != Some(p)
    ensures rs_frame(a0, a2, p, ls.insert(l as int))
{
    let ls2 = ls.insert(l as int);
    assert(a2.dom().contains(p));
    assert forall|k: int| 0 <= k < K implies #[trigger] a2[p].children[k] == (if ls2.contains(k) { None } else { a0[p].children[k] }) by {
        assert(a2[p].children@[k] == a1[p].children@.update(l as int, None)[k]);
        assert(a1[p].children[k] == (if ls.contains(k) { None } else { a0[p].children[k] }));
    }
    assert forall|i: usize| #![trigger a2[i]] a2.dom().contains(i) && i != p implies a2[i] == a0[i] by { assert(a1.dom().contains(i)); assert(a1[i] == a0[i]); }
}
pub proof fn lemma_removed_step_gone<const K: usize>(a0: AArena<K>, a1: AArena<K>, a2: AArena<K>, p: usize, ls: ISet<int>, l: usize)
    requires rs_frame(a0, a1, p, ls), rs_gone(a0, a1, p, ls), !ls.contains(l as int), child_removed(a1, a2, p, l)
    ensures rs_gone(a0, a2, p, ls.insert(l as int))
{
    let ls2 = ls.insert(l as int);
    assert(a1[p].children[l as int] == a0[p].children[l as int]);
    assert forall|k: int| 0 <= k < K && ls2.contains(k) && (#[trigger] a0[p].children[k]) is Some implies !a2.dom().contains(a0[p].children[k].unwrap()) by {
        if k == l { } else { assert(!a1.dom().contains(a0[p].children[k].unwrap())); }
    }
}
pub proof fn lemma_removed_step_kept<const K: usize>(a0: AArena<K>, a1: AArena<K>, a2: AArena<K>, p: usize, ls: ISet<int>, l: usize)
    requires rs_frame(a0, a1, p, ls), rs_kept(a0, a1, p, ls), !ls.contains(l as int), child_removed(a1, a2, p, l)
    ensures rs_kept(a0, a2, p, ls.insert(l as int))
{
    let ls2 = ls.insert(l as int);
    let c = a1[p].children[l as int].unwrap();
    assert(a1[p].children[l as int] == a0[p].children[l as int]);
    assert forall|i: usize| #![trigger a2.dom().contains(i)] a0.dom().contains(i) && !below_removed(a0, p, ls2, i) implies a2.dom().contains(i) by {
        assert(!below_removed(a0, p, ls, i)) by {
            if below_removed(a0, p, ls, i) {
                let k = choose|k: int| 0 <= k < K && ls.contains(k) && (#[trigger] a0[p].children[k]) is Some && (i == a0[p].children[k].unwrap() || desc(a0, a0[p].children[k].unwrap(), i));
                assert(ls2.contains(k));
            }
        }
        assert(a1.dom().contains(i));
        assert(ls2.contains(l as int));
        assert(a0[p].children[l as int] is Some);
        assert(i != c && !desc(a0, c, i));
        if desc(a1, c, i) { let f = choose|f: nat| is_desc(a1, c, i, f); lemma_desc_back(a0, a1, p, ls, c, i, f); }
    }
}
pub proof fn lemma_removed_step<const K: usize>(a0: AArena<K>, a1: AArena<K>, a2: AArena<K>, root: Option<usize>, p: usize, ls: ISet<int>, l: usize)
    requires wf_at(a0, root), wf_at(a1, root), removed_set(a0, a1, p, ls), !ls.contains(l as int), child_removed(a1, a2, p, l)
    ensures removed_set(a0, a2, p, ls.insert(l as int))
{
    reveal(removed_set);
    let c = a1[p].children[l as int].unwrap();
    let d = choose|d: Map<usize, nat>| ranked(a1, d);
    assert(a1.dom().contains(c) && a1[c].parent == Some(p));
    assert(d[p] < d[c]);
    assert(!desc(a1, c, p)) by {
        if desc(a1, c, p) { let f = choose|f: nat| is_desc(a1, c, p, f); lemma_desc_rank(a1, d, c, p, f); }
    }
    lemma_removed_step_frame(a0, a1, a2, p, ls, l);
    lemma_removed_step_gone(a0, a1, a2, p, ls, l);
    lemma_removed_step_kept(a0, a1, a2, p, ls, l);
}
// what the loop needs to know about the pruned arena
pub proof fn lemma_removed_facts<const K: usize>(a0: AArena<K>, a1: AArena<K>, p: usize, ls: ISet<int>)
    requires removed_set(a0, a1, p, ls)
    ensures a0.dom().contains(p), a1.dom().contains(p), a1[p].parent == a0[p].parent, a1[p].value == a0[p].value,
        forall|l: int| 0 <= l < K ==> #[trigger] a1[p].children[l] == (if ls.contains(l) { None } else { a0[p].children[l] }),
        a1.dom().len() <= a0.dom().len(),
{
    reveal(removed_set);
    assert(a1.dom().subset_of(a0.dom()));
    vstd::set_lib::lemma_len_subset(a1.dom(), a0.dom());
}
// the labels of the collected infeasible edges are exactly the infeasible slots
pub proof fn lemma_labels_all<const K: usize>(a: AArena<K>, p: usize, es: Seq<Edge>)
    requires
        forall|j: int| 0 <= j < es.len() ==> kid_in_state(a, p, (#[trigger] es[j]).label as int, false),
        forall|l: int| kid_in_state(a, p, l, false) ==> exists|j: int| 0 <= j < es.len() && (#[trigger] es[j]).label == l,
    ensures edge_labels(es, es.len() as int) =~= infeasible_slots(a, p)
{
}

// the contract of forward_if_redundant as one predicate (a0 before, a1 after, is_root: p is the root)
pub open spec fn forward_post<const K: usize>(a0: AArena<K>, a1: AArena<K>, p: usize, root: Option<usize>) -> bool {
    &&& !(count_state(a0, p, 0, true) == 1 && count_state(a0, p, 0, false) == K - 1) ==> a1 == a0
    &&& count_state(a0, p, 0, true) == 1 && count_state(a0, p, 0, false) == K - 1
            ==> exists|am: AArena<K>| #[trigger] removed_set(a0, am, p, infeasible_slots(a0, p)) && wf_at(am, root)
                && (forall|f: int| #[trigger] kid_in_state(a0, p, f, true) ==> merge_post(am, a1, p, f as usize, root == Some(p)))
}
pub proof fn lemma_count_exists<const K: usize>(a: AArena<K>, p: usize, lo: int, want: bool)
    requires 0 <= lo <= K, count_state(a, p, lo, want) >= 1
    ensures exists|l: int| lo <= l < K && kid_in_state(a, p, l, want)
    decreases K - lo
{
    if lo < K && !kid_in_state(a, p, lo, want) { lemma_count_exists(a, p, lo + 1, want); }
}
// ---- end forward_spec ----
