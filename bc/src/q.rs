//! Exact rationals over i128 (all generated data are small dyadic rationals; overflow panics).
use std::cmp::Ordering;
use std::ops::{Add, Div, Mul, Neg, Sub};

#[derive(Clone, Copy, Debug, PartialEq, Eq, Hash)]
pub struct Q {
    pub n: i128,
    pub d: i128,
}

fn gcd(a: i128, b: i128) -> i128 {
    let (mut a, mut b) = (a.abs(), b.abs());
    while b != 0 {
        let t = a % b;
        a = b;
        b = t;
    }
    a
}

impl Q {
    pub const ZERO: Q = Q { n: 0, d: 1 };
    pub const ONE: Q = Q { n: 1, d: 1 };
    pub fn new(n: i128, d: i128) -> Q {
        assert!(d != 0, "zero denominator");
        let g = gcd(n, d).max(1);
        let s = if d < 0 { -1 } else { 1 };
        Q { n: s * n / g, d: s * d / g }
    }
    pub fn int(n: i64) -> Q {
        Q { n: n as i128, d: 1 }
    }
    /// exact value of a finite f64 (None for NaN/inf or values needing more than ~100 bits)
    pub fn from_f64(x: f64) -> Option<Q> {
        if !x.is_finite() {
            return None;
        }
        if x == 0.0 {
            return Some(Q::ZERO);
        }
        let bits = x.to_bits();
        let sign: i128 = if bits >> 63 == 1 { -1 } else { 1 };
        let exp = ((bits >> 52) & 0x7ff) as i32;
        let frac = (bits & 0xfffffffffffff) as i128;
        let (mant, e) = if exp == 0 { (frac, -1074) } else { (frac | (1i128 << 52), exp - 1075) };
        // value = mant * 2^e ; strip trailing zeros of mant
        let tz = mant.trailing_zeros() as i32;
        let mant = mant >> tz;
        let e = e + tz;
        if e >= 0 {
            if e > 60 {
                return None;
            }
            Some(Q::new(sign * mant * (1i128 << e), 1))
        } else {
            if -e > 110 {
                return None;
            }
            Some(Q::new(sign * mant, 1i128 << (-e)))
        }
    }
    pub fn to_f64(self) -> f64 {
        self.n as f64 / self.d as f64
    }
    pub fn is_zero(self) -> bool {
        self.n == 0
    }
    pub fn abs(self) -> Q {
        Q { n: self.n.abs(), d: self.d }
    }
}

impl Add for Q {
    type Output = Q;
    fn add(self, o: Q) -> Q {
        let g = gcd(self.d, o.d).max(1);
        Q::new(
            self.n.checked_mul(o.d / g).unwrap().checked_add(o.n.checked_mul(self.d / g).unwrap()).unwrap(),
            (self.d / g).checked_mul(o.d).unwrap(),
        )
    }
}
impl Sub for Q {
    type Output = Q;
    fn sub(self, o: Q) -> Q {
        self + (-o)
    }
}
impl Neg for Q {
    type Output = Q;
    fn neg(self) -> Q {
        Q { n: -self.n, d: self.d }
    }
}
impl Mul for Q {
    type Output = Q;
    fn mul(self, o: Q) -> Q {
        let g1 = gcd(self.n, o.d).max(1);
        let g2 = gcd(o.n, self.d).max(1);
        Q::new((self.n / g1).checked_mul(o.n / g2).unwrap(), (self.d / g2).checked_mul(o.d / g1).unwrap())
    }
}
impl Div for Q {
    type Output = Q;
    fn div(self, o: Q) -> Q {
        assert!(o.n != 0, "division by zero");
        self * Q::new(o.d, o.n)
    }
}
impl PartialOrd for Q {
    fn partial_cmp(&self, o: &Q) -> Option<Ordering> {
        Some(self.cmp(o))
    }
}
impl Ord for Q {
    fn cmp(&self, o: &Q) -> Ordering {
        (self.n.checked_mul(o.d).unwrap()).cmp(&o.n.checked_mul(self.d).unwrap())
    }
}

pub fn dot(a: &[Q], b: &[Q]) -> Q {
    assert_eq!(a.len(), b.len(), "dot: dimension mismatch");
    let mut s = Q::ZERO;
    for i in 0..a.len() {
        s = s + a[i] * b[i];
    }
    s
}

pub fn qs(v: &[Q]) -> String {
    let mut s = String::from("[");
    for (i, q) in v.iter().enumerate() {
        if i > 0 {
            s.push(',');
        }
        if q.d == 1 {
            s.push_str(&format!("{}", q.n));
        } else {
            s.push_str(&format!("{}/{}", q.n, q.d));
        }
    }
    s.push(']');
    s
}
