// ---- prelude/wit_edit_spec.rs : the witness invariant under the tree edits that only remove or splice (try_remove_child / remove_child, merge_child_with_parent) ----
// (specification: prelude/wit_core_spec.rs; used by infeasible_elimination and reduce)
// values of surviving nodes are untouched (forward_if_redundant: pruned_step; try_remove_child)
pub proof fn lemma_wit_kept<const K: usize>(a0: AArena<K>, a1: AArena<K>, a2: AArena<K>)
    requires wit_inv(a0, a1), a2.dom().subset_of(a1.dom()), forall|i: usize| #![trigger a2[i]] a2.dom().contains(i) ==> a2[i].value == a1[i].value
    ensures wit_inv(a0, a2)
{
    reveal(wit_inv);
    assert forall|c: usize| #![trigger a2[c].value] a2.dom().contains(c) implies wits_ok(a0, c, a2[c].value.state) by {
        assert(a1.dom().contains(c)); assert(a2[c].value == a1[c].value); assert(wits_ok(a0, c, a1[c].value.state));
    }
}
pub proof fn lemma_wit_removed<const K: usize>(a0: AArena<K>, a1: AArena<K>, a2: AArena<K>, parent: usize, label: usize, e: bool)
    requires wit_inv(a0, a1), remove_child_post(a1, a2, parent, label, e)
    ensures wit_inv(a0, a2)
{
    if !e {
        assert forall|i: usize| #![trigger a2[i]] a2.dom().contains(i) implies a2[i].value == a1[i].value by { if i != parent { assert(a2[i] == a1[i]); } }
        assert(a2.dom().subset_of(a1.dom()));
        lemma_wit_kept(a0, a1, a2);
    }
}
pub proof fn lemma_emb_init<const K: usize>(a0: AArena<K>)
    ensures emb_inv(a0, a0)
{ reveal(emb_inv); }
// child slots only change to None or stay
pub proof fn lemma_emb_shrink<const K: usize>(a0: AArena<K>, a1: AArena<K>, a2: AArena<K>)
    requires emb_inv(a0, a1), a2.dom().subset_of(a1.dom()),
        forall|p: usize, l: int| #![trigger a2[p].children[l]] a2.dom().contains(p) && 0 <= l < K && a2[p].children[l] is Some ==> a2[p].children[l] == a1[p].children[l]
    ensures emb_inv(a0, a2)
{
    reveal(emb_inv);
    assert forall|p: usize, l: int| #![trigger a2[p].children[l]] a2.dom().contains(p) && 0 <= l < K && a2[p].children[l] is Some implies edge_above(a0, p, l, a2[p].children[l].unwrap()) by {
        assert(a1.dom().contains(p)); assert(a1[p].children[l] == a2[p].children[l]);
    }
}
pub proof fn lemma_emb_removed<const K: usize>(a0: AArena<K>, a1: AArena<K>, a2: AArena<K>, parent: usize, label: usize, e: bool)
    requires emb_inv(a0, a1), remove_child_post(a1, a2, parent, label, e)
    ensures emb_inv(a0, a2)
{
    if !e {
        assert forall|p: usize, l: int| #![trigger a2[p].children[l]] a2.dom().contains(p) && 0 <= l < K && a2[p].children[l] is Some implies a2[p].children[l] == a1[p].children[l] by {
            if p != parent { assert(a2[p] == a1[p]); } else { assert(a2[p].children@[l] == a1[p].children@.update(label as int, None)[l]); }
        }
        assert(a2.dom().subset_of(a1.dom()));
        lemma_emb_shrink(a0, a1, a2);
    }
}
// splicing out p: the child c of p now hangs at p's slot under p's parent g - the original edge of that slot had p (at or) below its target, and c below p
pub proof fn lemma_emb_merged<const K: usize>(a0: AArena<K>, am: AArena<K>, a2: AArena<K>, p: usize, f: usize, gl: int)
    requires emb_inv(a0, am), merged(am, a2, p, f, gl), kids_ok(a0), kids_ok(am), parents_ok(am)
    ensures emb_inv(a0, a2)
{
    reveal(emb_inv);
    let c = am[p].children[f as int].unwrap();
    let g = am[p].parent.unwrap();
    assert(am.dom().contains(g));
    assert(am.dom().contains(c) && am[c].parent == Some(p));
    assert forall|q: usize, l: int| #![trigger a2[q].children[l]] a2.dom().contains(q) && 0 <= l < K && a2[q].children[l] is Some implies edge_above(a0, q, l, a2[q].children[l].unwrap()) by {
        if q == g && l == gl {
            assert(a2[g].children@[gl] == Some(c));
            assert(am[g].children[gl] == Some(p));
            assert(edge_above(a0, g, gl, p));
            assert(am[p].children[f as int] == Some(c));
            assert(edge_above(a0, p, f as int, c));
            lemma_edge_above_desc(a0, p, f as int, c);
            lemma_edge_above_down(a0, g, gl, p, c);
        } else if q == g {
            assert(a2[g].children@[l] == am[g].children@[l]);
            assert(am[g].children[l] is Some);
        } else if q == c {
            assert(a2[c].children == am[c].children);
            assert(am[c].children[l] is Some);
        } else {
            assert(a2[q] == am[q]);
            assert(am[q].children[l] is Some);
        }
    }
}
// a current ancestor is an original ancestor
pub proof fn lemma_emb_desc<const K: usize>(a0: AArena<K>, a: AArena<K>, k: usize, c: usize, f: nat)
    requires emb_inv(a0, a), parents_ok(a), kids_ok(a0), is_desc(a, k, c, f)
    ensures desc(a0, k, c)
    decreases f
{
    reveal(emb_inv);
    let pp = a[c].parent.unwrap();
    assert(a.dom().contains(pp));
    let l = choose|l: int| 0 <= l < K && #[trigger] a[pp].children[l] == Some(c);
    assert(edge_above(a0, pp, l, c));
    lemma_edge_above_desc(a0, pp, l, c);
    if pp != k {
        lemma_emb_desc(a0, a, k, pp, (f - 1) as nat);
        let f2 = choose|f2: nat| is_desc(a0, pp, c, f2);
        lemma_desc_trans(a0, k, pp, c, f2);
    }
}
// every half-space on the path of c in the resulting tree is one of the half-spaces on its path in the original tree (same decision, same label)
pub proof fn lemma_wit_final<const K: usize>(a0: AArena<K>, a: AArena<K>)
    requires wit_inv(a0, a), emb_inv(a0, a), parents_ok(a), kids_ok(a0), a.dom().subset_of(a0.dom()),
        forall|i: usize| #![trigger a[i].value] a.dom().contains(i) ==> a[i].value.aff == a0[i].value.aff,
    ensures wit_inv(a, a)
{
    reveal(wit_inv);
    assert forall|c: usize| #![trigger a[c].value] a.dom().contains(c) implies wits_ok(a, c, a[c].value.state) by {
        assert(wits_ok(a0, c, a[c].value.state));
        if let NodeState::FeasibleWitness(v) = a[c].value.state {
            assert forall|i: int| 0 <= i < v@.len() implies wit_on_path(a, c, (#[trigger] v@[i]).v()) by {
                let w = v@[i].v();
                assert(wit_on_path(a0, c, w));
                assert forall|p: usize, l: int| #[trigger] edge_above(a, p, l, c) implies wit_edge(a[p].value.aff, l, w) by {
                    let k = a[p].children[l].unwrap();
                    assert(edge_above(a0, p, l, k)) by { reveal(emb_inv); }
                    if k != c { let f = choose|f: nat| is_desc(a, k, c, f); lemma_emb_desc(a0, a, k, c, f); }
                    lemma_edge_above_down(a0, p, l, k, c);
                    assert(a[p].value.aff == a0[p].value.aff);
                }
            }
        }
    }
}
// a decision is spliced out: the values of all surviving nodes are untouched
pub proof fn lemma_wit_merged<const K: usize>(a0: AArena<K>, am: AArena<K>, a2: AArena<K>, p: usize, f: usize, gl: int)
    requires wit_inv(a0, am), merged(am, a2, p, f, gl), kids_ok(am), parents_ok(am)
    ensures wit_inv(a0, a2)
{
    let c = am[p].children[f as int].unwrap();
    let g = am[p].parent.unwrap();
    assert(am.dom().contains(g));
    assert(am.dom().contains(c));
    assert forall|i: usize| #![trigger a2[i]] a2.dom().contains(i) implies a2[i].value == am[i].value by { if i != g && i != c { assert(a2[i] == am[i]); } }
    assert(a2.dom().subset_of(am.dom()));
    lemma_wit_kept(a0, am, a2);
}
// ---- end wit_edit_spec ----
