// unit pwl_compose — the grafting loop of composition (src/pwl/impl_composition.rs: generic_composition_inplace),
// specialised to the un-pruned schema FunctionComposition and the no-op visitor (rule G1), as used by compose::<false,false>
use vstd::prelude::*;
use std::marker::PhantomData;
use std::mem;
use std::ops::{Add, Sub, Mul, Div, Neg};
verus! {
global size_of usize == 8;

//@include prelude/inc_pwl_core.rs

impl<N, const K: usize> Tree<N, K> {
// proved in unit tree_graph; only needed here so that the (unreachable) pruning branches type-check
//@fn src/tree/graph.rs | impl<N, const K: usize> Tree<N, K> | remove_child
//@trusted
//@spec
    requires old(self).wf(), label < K, old(self).arena@.dom().len() <= i32::MAX,
        old(self).arena@.dom().contains(parent), old(self).arena@[parent].children[label as int] is Some,
    ensures final(self).wf(), final(self).root == old(self).root
//@end
//@fn src/tree/graph.rs | impl<N, const K: usize> Tree<N, K> | merge_child_with_parent
//@trusted
//@spec
    requires old(self).wf(), label < K, old(self).arena@.dom().contains(parent_idx), count_some_from(old(self).arena@[parent_idx].children, 0) == 1,
    ensures final(self).root == old(self).root
//@end
}

// update_decision / update_terminal of the schema (verified in unit pwl_schema with the same contracts)
//@fn src/pwl/impl_composition.rs | impl CompositionSchema for FunctionComposition | update_decision | as=function_composition_update_decision
//@spec
    requires original.ok(), context.ok(), original.mat.ncols() == context.mat.nrows()
    ensures r.ok(), r.mat.ncols() == context.mat.ncols(), r.mat.nrows() == original.mat.nrows(),
        forall|x: V, i: int| x.len() == context.mat.ncols() && 0 <= i < original.mat.nrows() ==> (#[trigger] r.row_sat(i, x) <==> original.row_sat(i, context.ap(x))),
//@hint start
        broadcast use axiom_array2_shape;
//@hint end
        proof {
            let rm = mm(original.mat.m(), context.mat.m(), context.mat.ncols());
            let rb = vadd(vneg(mv(original.mat.m(), context.bias.v())), original.bias.v());
            assert forall|x: V, i: int| x.len() == context.mat.ncols() && 0 <= i < original.mat.nrows() implies
                (#[trigger] dotp(rm[i], x, x.len() as int) <= rb[i] <==> original.row_sat(i, context.ap(x))) by {
                lemma_update_decision_raw(original.mat.m(), original.bias.v(), context.mat.m(), context.bias.v(), original.mat.ncols(), context.mat.ncols(), x, i);
            }
        }
//@end
//@fn src/pwl/impl_composition.rs | impl CompositionSchema for FunctionComposition | update_terminal | as=function_composition_update_terminal
//@spec
    requires original.ok(), context.ok(), original.mat.ncols() == context.mat.nrows()
    ensures r.ok(), r.mat.ncols() == context.mat.ncols(), r.mat.nrows() == original.mat.nrows(),
        forall|x: V| x.len() == context.mat.ncols() ==> #[trigger] r.ap(x) =~= original.ap(context.ap(x)),
//@end

pub proof fn lemma_update_decision_raw(m: M, b: V, f: M, cb: V, k: int, n: int, x: V, i: int)
    requires m_ok(m, m.len() as int, k), m_ok(f, k, n), cb.len() == k, b.len() == m.len(), x.len() == n, n >= 0, 0 <= i < m.len()
    ensures dotp(mm(m, f, n)[i], x, n) <= vadd(vneg(mv(m, cb)), b)[i] <==> dotp(m[i], vadd(mv(f, x), cb), k) <= b[i]
{
    lemma_mm_mv(m, f, x, n);
    lemma_mv_add_right(m, mv(f, x), cb);
    let y = vadd(mv(f, x), cb);
    assert(mv(mm(m, f, n), x)[i] == dotp(mm(m, f, n)[i], x, n));
    assert(mv(m, y)[i] == dotp(m[i], y, y.len() as int));
    assert(mv(m, y)[i] == vadd(mv(m, mv(f, x)), mv(m, cb))[i]);
}

impl<const K: usize> AffTree<K> {
//@fn src/pwl/afftree.rs | impl<const K: usize> AffTree<K> | update_node
//@spec
    requires old(self).tree.wf()
    ensures
        final(self).tree.root == old(self).tree.root, final(self).in_dim == old(self).in_dim,
        !old(self).a().dom().contains(node) ==> r is Err && final(self).a() == old(self).a(),
        old(self).a().dom().contains(node) ==> r is Ok && r->Ok_0 == old(self).a()[node].value.aff
            && same_shape(old(self).a(), final(self).a())
            && final(self).a()[node].value.aff == aff && final(self).a()[node].value.state == old(self).a()[node].value.state
            && forall|i: usize| old(self).a().dom().contains(i) && i != node ==> final(self).a()[i] == old(self).a()[i],
        same_shape(old(self).a(), final(self).a()) ==> final(self).tree.wf(),
//@hint start
        proof { lemma_same_shape_wf_all(old(self).a(), old(self).tree.root); }
//@end
}


// ---------------------------------------------------------------- specification of grafting
// the listed terminals are distinct leaves of the tree whose output feeds the left operand (dimension dl)
pub open spec fn terminals_ok<const K: usize>(a: AArena<K>, ts: Seq<usize>, dl: usize) -> bool {
    &&& forall|j: int| 0 <= j < ts.len() ==> a.dom().contains(#[trigger] ts[j]) && a[ts[j]].isleaf && a[ts[j]].value.aff.mat.nrows() == dl
    &&& forall|j1: int, j2: int| 0 <= j1 < j2 < ts.len() ==> ts[j1] != ts[j2]
}
// nodes of the tree as it was before keep their index and parent; decisions and unlisted terminals are untouched
pub open spec fn old_nodes_kept<const K: usize>(a0: AArena<K>, a1: AArena<K>, ts: Seq<usize>) -> bool {
    forall|i: usize| #![trigger a1[i]] a0.dom().contains(i) ==> a1.dom().contains(i) && a1[i].parent == a0[i].parent
        && (!a0[i].isleaf || !ts.contains(i) ==> a1[i] == a0[i])
}
// a1 extends a0 and differs from it on old indices at most at t
pub open spec fn frame_except<const K: usize>(a0: AArena<K>, a1: AArena<K>, t: usize) -> bool {
    forall|i: usize| #![trigger a1[i]] #![trigger a0.dom().contains(i)] a0.dom().contains(i) ==> a1.dom().contains(i) && a1[i].parent == a0[i].parent && (i != t ==> a1[i] == a0[i])
}
// relation between a node of the left operand and its copy below a terminal with function f
pub open spec fn copy_ok<const K: usize>(src: AffNode<K>, cp: AffNode<K>, fm: M, fb: V, in_dim: usize) -> bool {
    &&& cp.value.aff.ok() && cp.value.aff.mat.ncols() == in_dim && cp.value.aff.mat.nrows() == src.value.aff.mat.nrows()
    &&& src.isleaf ==> forall|x: V| x.len() == in_dim ==> #[trigger] cp.value.aff.ap(x) == src.value.aff.ap(vadd(mv(fm, x), fb))
    &&& !src.isleaf ==> forall|x: V, i: int| x.len() == in_dim && 0 <= i < src.value.aff.mat.nrows() ==> (#[trigger] cp.value.aff.row_sat(i, x) <==> src.value.aff.row_sat(i, vadd(mv(fm, x), fb)))
}
// the copy has the same leaf flag and its child slots are the images of the source's child slots
pub open spec fn kids_mirror<const K: usize>(src: AffNode<K>, cp: AffNode<K>, phi: Map<usize, usize>) -> bool {
    &&& cp.isleaf == src.isleaf
    &&& forall|l: int| 0 <= l < K ==> match #[trigger] src.children[l] {
            None => cp.children[l].is_none(),
            Some(c) => phi.dom().contains(c) && cp.children[l] == Some(phi[c]),
        }
}
// ghost state of grafting one copy of the left operand (arena al, root rl) below terminal t (function f):
// phi maps the lhs nodes copied so far to their copies, `done` are the lhs nodes whose children have been copied,
// `cur` is the node whose children are being copied
pub open spec fn graft_inv<const K: usize>(al: AArena<K>, a: AArena<K>, dom0: Set<usize>, phi: Map<usize, usize>, done: Set<usize>, cur: Option<usize>,
    rl: usize, t: usize, fm: M, fb: V, in_dim: usize) -> bool
{
    &&& phi.dom().contains(rl) && phi[rl] == t
    &&& forall|p: usize| #[trigger] phi.dom().contains(p) ==> al.dom().contains(p) && a.dom().contains(phi[p]) && (phi[p] == t || !dom0.contains(phi[p]))
            && copy_ok(al[p], a[phi[p]], fm, fb, in_dim)
    &&& forall|p: usize, q: usize| phi.dom().contains(p) && phi.dom().contains(q) && p != q ==> #[trigger] phi[p] != #[trigger] phi[q]
    &&& forall|p: usize| #[trigger] done.contains(p) ==> phi.dom().contains(p) && kids_mirror(al[p], a[phi[p]], phi)
    &&& forall|p: usize| #[trigger] phi.dom().contains(p) && !done.contains(p) && Some(p) != cur ==> a[phi[p]].isleaf && no_kids(a[phi[p]])
    &&& forall|q: usize| #[trigger] phi.dom().contains(q) && q != rl ==> al[q].parent is Some && (done.contains(al[q].parent.unwrap()) || cur == Some(al[q].parent.unwrap()))
}
pub open spec fn stack_ok(phi: Map<usize, usize>, done: Set<usize>, cur: Option<usize>, stack: Seq<(usize, usize)>) -> bool {
    &&& forall|j: int| 0 <= j < stack.len() ==> phi.dom().contains((#[trigger] stack[j]).0) && phi[stack[j].0] == stack[j].1 && !done.contains(stack[j].0) && Some(stack[j].0) != cur
    &&& forall|j1: int, j2: int| 0 <= j1 < j2 < stack.len() ==> (#[trigger] stack[j1]).0 != (#[trigger] stack[j2]).0
    &&& forall|p: usize| #[trigger] phi.dom().contains(p) && !done.contains(p) && Some(p) != cur ==> exists|j: int| 0 <= j < stack.len() && (#[trigger] stack[j]).0 == p
}
// a complete copy of the left operand hangs below t
pub open spec fn grafted<const K: usize>(al: AArena<K>, a: AArena<K>, dom0: Set<usize>, rl: usize, t: usize, fm: M, fb: V, in_dim: usize) -> bool {
    exists|phi: Map<usize, usize>| #[trigger] graft_inv(al, a, dom0, phi, phi.dom(), None, rl, t, fm, fb, in_dim)
}
// the function the result has to denote: route through the old tree; at a listed terminal continue in the left operand
pub open spec fn comp_fn<const K: usize>(a0: AArena<K>, h0: Map<usize, nat>, ts: Seq<usize>, al: AArena<K>, hl: Map<usize, nat>, rl: usize, idx: usize, x: V) -> Option<V>
    decreases h0[idx]
{
    let nd = a0[idx];
    if nd.isleaf {
        if ts.contains(idx) { tree_fn(al, hl, rl, nd.value.aff.ap(x)) } else { Some(nd.value.aff.ap(x)) }
    } else {
        let l = decide(&nd.value.aff, x);
        if 0 <= l < K && nd.children[l].is_some() && h0[nd.children[l].unwrap()] < h0[idx] {
            comp_fn(a0, h0, ts, al, hl, rl, nd.children[l].unwrap(), x)
        } else { None }
    }
}
// g after f as partial functions
pub open spec fn and_then_fn<const K: usize>(a0: AArena<K>, h0: Map<usize, nat>, al: AArena<K>, hl: Map<usize, nat>, rl: usize, idx: usize, x: V) -> Option<V> {
    match tree_fn(a0, h0, idx, x) { None => None, Some(y) => tree_fn(al, hl, rl, y) }
}

// ---------------------------------------------------------------- lemmas
pub proof fn lemma_label_val_eq(a: &AffFunc, b: &AffFunc, x: V, y: V, n: int)
    requires forall|i: int| 0 <= i < n ==> (#[trigger] a.row_sat(i, x) <==> b.row_sat(i, y))
    ensures label_val(a, x, n) == label_val(b, y, n)
    decreases n
{
    if n > 0 { lemma_label_val_eq(a, b, x, y, n - 1); }
}

// start: the terminal itself is the copy of the root
pub proof fn lemma_graft_init<const K: usize>(al: AArena<K>, a: AArena<K>, dom0: Set<usize>, rl: usize, t: usize, fm: M, fb: V, in_dim: usize)
    requires al.dom().contains(rl), a.dom().contains(t), a[t].isleaf, no_kids(a[t]), copy_ok(al[rl], a[t], fm, fb, in_dim)
    ensures graft_inv(al, a, dom0, Map::<usize, usize>::empty().insert(rl, t), Set::<usize>::empty(), None, rl, t, fm, fb, in_dim),
        stack_ok(Map::<usize, usize>::empty().insert(rl, t), Set::<usize>::empty(), None, seq![(rl, t)])
{
    let phi = Map::<usize, usize>::empty().insert(rl, t);
    let st = seq![(rl, t)];
    assert forall|p: usize| #[trigger] phi.dom().contains(p) implies exists|j: int| 0 <= j < st.len() && (#[trigger] st[j]).0 == p by { assert(st[0].0 == rl); }
}

// pop: the popped node becomes the current one; none of its children has a copy yet
pub proof fn lemma_graft_pop<const K: usize>(al: AArena<K>, a: AArena<K>, dom0: Set<usize>, phi: Map<usize, usize>, done: Set<usize>,
    rl: usize, t: usize, fm: M, fb: V, in_dim: usize, st: Seq<(usize, usize)>)
    requires graft_inv(al, a, dom0, phi, done, None, rl, t, fm, fb, in_dim), stack_ok(phi, done, None, st), st.len() > 0,
        kids_ok(al), root_ok(al, Some(rl)),
    ensures graft_inv(al, a, dom0, phi, done, Some(st.last().0), rl, t, fm, fb, in_dim), stack_ok(phi, done, Some(st.last().0), st.drop_last()),
        phi.dom().contains(st.last().0), phi[st.last().0] == st.last().1, !done.contains(st.last().0),
        a[st.last().1].isleaf && no_kids(a[st.last().1]),
        forall|l: int| 0 <= l < K && (#[trigger] al[st.last().0].children[l]).is_some() ==> !phi.dom().contains(al[st.last().0].children[l].unwrap()),
{
    let p0 = st.last().0;
    let rest = st.drop_last();
    assert(st[st.len() - 1] == st.last());
    assert forall|j: int| 0 <= j < rest.len() implies phi.dom().contains((#[trigger] rest[j]).0) && phi[rest[j].0] == rest[j].1 && !done.contains(rest[j].0) && Some(rest[j].0) != Some(p0) by {
        assert(rest[j] == st[j]);
    }
    assert forall|j1: int, j2: int| 0 <= j1 < j2 < rest.len() implies (#[trigger] rest[j1]).0 != (#[trigger] rest[j2]).0 by { assert(rest[j1] == st[j1] && rest[j2] == st[j2]); }
    assert forall|p: usize| #[trigger] phi.dom().contains(p) && !done.contains(p) && Some(p) != Some(p0) implies exists|j: int| 0 <= j < rest.len() && (#[trigger] rest[j]).0 == p by {
        let j = choose|j: int| 0 <= j < st.len() && (#[trigger] st[j]).0 == p;
        assert(j < st.len() - 1);
        assert(rest[j] == st[j]);
    }
    assert forall|l: int| 0 <= l < K && (#[trigger] al[p0].children[l]).is_some() implies !phi.dom().contains(al[p0].children[l].unwrap()) by {
        let c = al[p0].children[l].unwrap();
        assert(al[c].parent == Some(p0));
        if phi.dom().contains(c) { assert(c != rl); }
    }
}

// one child copied
pub proof fn lemma_graft_child<const K: usize>(al: AArena<K>, a_s: AArena<K>, a0: AArena<K>, a1: AArena<K>, phi: Map<usize, usize>, done: Set<usize>,
    rl: usize, t: usize, fm: M, fb: V, in_dim: usize, st: Seq<(usize, usize)>, p0: usize, label: usize, c0: usize, c: usize)
    requires graft_inv(al, a0, a_s.dom(), phi, done, Some(p0), rl, t, fm, fb, in_dim), stack_ok(phi, done, Some(p0), st),
        phi.dom().contains(p0), !done.contains(p0), !phi.dom().contains(c0),
        kids_ok(al), label < K, al.dom().contains(p0), al[p0].children[label as int] == Some(c0),
        frame_except(a_s, a0, t),
        child_added(a0, a1, phi[p0], label, c), a1[phi[p0]].value == a0[phi[p0]].value, copy_ok(al[c0], a1[c], fm, fb, in_dim),
    ensures graft_inv(al, a1, a_s.dom(), phi.insert(c0, c), done, Some(p0), rl, t, fm, fb, in_dim), stack_ok(phi.insert(c0, c), done, Some(p0), st.push((c0, c))),
        frame_except(a_s, a1, t),
{
    let p1 = phi[p0];
    let phi1 = phi.insert(c0, c);
    let st1 = st.push((c0, c));
    assert(al.dom().contains(c0) && al[c0].parent == Some(p0));
    assert(c0 != p0);
    assert(p1 == t || !a_s.dom().contains(p1));
    assert(!a_s.dom().contains(c));
    assert forall|i: usize| #![trigger a1[i]] a_s.dom().contains(i) implies a1.dom().contains(i) && a1[i].parent == a_s[i].parent && (i != t ==> a1[i] == a_s[i]) by {
        assert(a0[i].parent == a_s[i].parent);
        if i != p1 { assert(a1[i] == a0[i]); }
    }
    assert forall|p: usize| #[trigger] phi1.dom().contains(p) implies al.dom().contains(p) && a1.dom().contains(phi1[p]) && (phi1[p] == t || !a_s.dom().contains(phi1[p]))
            && copy_ok(al[p], a1[phi1[p]], fm, fb, in_dim) by {
        if p != c0 {
            assert(phi.dom().contains(p));
            if phi[p] != p1 { assert(a1[phi[p]] == a0[phi[p]]); }
        }
    }
    assert forall|p: usize, q: usize| phi1.dom().contains(p) && phi1.dom().contains(q) && p != q implies #[trigger] phi1[p] != #[trigger] phi1[q] by {
        if p != c0 { assert(phi.dom().contains(p)); }
        if q != c0 { assert(phi.dom().contains(q)); }
    }
    assert forall|p: usize| #[trigger] done.contains(p) implies phi1.dom().contains(p) && kids_mirror(al[p], a1[phi1[p]], phi1) by {
        assert(phi.dom().contains(p) && p != p0 && p != c0);
        assert(phi[p] != p1);
        assert(a1[phi[p]] == a0[phi[p]]);
        assert(kids_mirror(al[p], a0[phi[p]], phi));
        assert forall|l: int| 0 <= l < K implies match #[trigger] al[p].children[l] {
            None => a1[phi1[p]].children[l].is_none(),
            Some(cc) => phi1.dom().contains(cc) && a1[phi1[p]].children[l] == Some(phi1[cc]),
        } by {}
    }
    assert forall|p: usize| #[trigger] phi1.dom().contains(p) && !done.contains(p) && Some(p) != Some(p0) implies a1[phi1[p]].isleaf && no_kids(a1[phi1[p]]) by {
        if p != c0 {
            assert(phi.dom().contains(p));
            assert(phi[p] != p1);
            assert(a1[phi[p]] == a0[phi[p]]);
        }
    }
    assert forall|q: usize| #[trigger] phi1.dom().contains(q) && q != rl implies al[q].parent is Some && (done.contains(al[q].parent.unwrap()) || Some(p0) == Some(al[q].parent.unwrap())) by {
        if q != c0 { assert(phi.dom().contains(q)); }
    }
    assert forall|j: int| 0 <= j < st1.len() implies phi1.dom().contains((#[trigger] st1[j]).0) && phi1[st1[j].0] == st1[j].1 && !done.contains(st1[j].0) && Some(st1[j].0) != Some(p0) by {
        if j < st.len() { assert(st1[j] == st[j]); assert(phi.dom().contains(st[j].0)); }
        else { assert(st1[j] == (c0, c)); if done.contains(c0) { assert(phi.dom().contains(c0)); } }
    }
    assert forall|j1: int, j2: int| 0 <= j1 < j2 < st1.len() implies (#[trigger] st1[j1]).0 != (#[trigger] st1[j2]).0 by {
        assert(st1[j1] == st[j1]);
        assert(phi.dom().contains(st[j1].0));
        if j2 < st.len() { assert(st1[j2] == st[j2]); }
    }
    assert forall|p: usize| #[trigger] phi1.dom().contains(p) && !done.contains(p) && Some(p) != Some(p0) implies exists|j: int| 0 <= j < st1.len() && (#[trigger] st1[j]).0 == p by {
        if p == c0 { assert(st1[st.len() as int].0 == c0); }
        else {
            assert(phi.dom().contains(p));
            let j = choose|j: int| 0 <= j < st.len() && (#[trigger] st[j]).0 == p;
            assert(st1[j] == st[j]);
        }
    }
}

// all children of the current node copied: it is done
pub proof fn lemma_graft_done<const K: usize>(al: AArena<K>, a: AArena<K>, dom0: Set<usize>, phi: Map<usize, usize>, done: Set<usize>,
    rl: usize, t: usize, fm: M, fb: V, in_dim: usize, st: Seq<(usize, usize)>, p0: usize)
    requires graft_inv(al, a, dom0, phi, done, Some(p0), rl, t, fm, fb, in_dim), stack_ok(phi, done, Some(p0), st),
        phi.dom().contains(p0), kids_mirror(al[p0], a[phi[p0]], phi),
    ensures graft_inv(al, a, dom0, phi, done.insert(p0), None, rl, t, fm, fb, in_dim), stack_ok(phi, done.insert(p0), None, st),
{
    let done1 = done.insert(p0);
    assert forall|p: usize| #[trigger] phi.dom().contains(p) && !done1.contains(p) implies exists|j: int| 0 <= j < st.len() && (#[trigger] st[j]).0 == p by {
        assert(Some(p) != Some(p0));
    }
}


// the shape invariant of C04 survives copying a child
pub proof fn lemma_shape_child<const K: usize>(al: AArena<K>, a0: AArena<K>, a1: AArena<K>, in_dim: usize, dl: usize, p0: usize, p1: usize, label: usize, c: usize)
    requires aff_shape_ok(a0, in_dim), aff_shape_ok(al, dl), child_added(a0, a1, p1, label, c), a1[p1].value == a0[p1].value,
        a1[c].value.aff.ok(), a1[c].value.aff.mat.ncols() == in_dim, al.dom().contains(p0), !al[p0].isleaf,
        a0[p1].value.aff.mat.nrows() == al[p0].value.aff.mat.nrows(),
    ensures aff_shape_ok(a1, in_dim)
{
    assert forall|i: usize| #![trigger a1[i].value] a1.dom().contains(i) implies a1[i].value.aff.ok() && a1[i].value.aff.mat.ncols() == in_dim
        && (!a1[i].isleaf ==> 1 <= a1[i].value.aff.mat.nrows() < 16 && (1usize << (a1[i].value.aff.mat.nrows() as usize)) <= K) by {
        if i != c && i != p1 { assert(a1[i] == a0[i]); }
        if i == p1 { assert(a0[p1].value.aff.ok()); assert(al[p0].value.aff.ok()); }
    }
}

// from the bookkeeping of the children loop to kids_mirror
pub proof fn lemma_mirror_from_kids<const K: usize>(src: AffNode<K>, cp: AffNode<K>, phi: Map<usize, usize>)
    requires
        src.isleaf <==> no_kids(src),
        cp.isleaf <==> kid_seq(src.children, 0).len() == 0,
        forall|j: int| 0 <= j < kid_seq(src.children, 0).len() ==> phi.dom().contains((#[trigger] kid_seq(src.children, 0)[j]).1)
            && cp.children[kid_seq(src.children, 0)[j].0 as int] == Some(phi[kid_seq(src.children, 0)[j].1]),
        forall|l: int| 0 <= l < K && (#[trigger] cp.children[l]).is_some() ==> exists|j: int| 0 <= j < kid_seq(src.children, 0).len() && (#[trigger] kid_seq(src.children, 0)[j]).0 == l,
    ensures kids_mirror(src, cp, phi)
{
    let ks = kid_seq(src.children, 0);
    lemma_kid_seq_members(src.children, 0);
    lemma_kid_seq_len(src.children, 0);
    lemma_count_zero_no_kids(src, 0);
    assert forall|l: int| 0 <= l < K implies match #[trigger] src.children[l] {
        None => cp.children[l].is_none(),
        Some(c) => phi.dom().contains(c) && cp.children[l] == Some(phi[c]),
    } by {
        match src.children[l] {
            None => {
                if cp.children[l].is_some() {
                    let j = choose|j: int| 0 <= j < ks.len() && (#[trigger] ks[j]).0 == l;
                    assert(src.children[ks[j].0 as int] == Some(ks[j].1));
                }
            }
            Some(c) => {
                let j = choose|j: int| 0 <= j < ks.len() && ks[j] == (l as usize, src.children[l].unwrap());
                assert(ks[j].0 == l && ks[j].1 == c);
            }
        }
    }
}

// a finished copy, seen from the tree as it was at the very beginning
pub proof fn lemma_graft_finish<const K: usize>(al: AArena<K>, a: AArena<K>, dom1: Set<usize>, dom0: Set<usize>, phi: Map<usize, usize>, done: Set<usize>,
    rl: usize, t: usize, fm: M, fb: V, in_dim: usize)
    requires graft_inv(al, a, dom1, phi, done, None, rl, t, fm, fb, in_dim), stack_ok(phi, done, None, Seq::<(usize, usize)>::empty()),
        forall|i: usize| #[trigger] dom0.contains(i) ==> dom1.contains(i),
    ensures grafted(al, a, dom0, rl, t, fm, fb, in_dim)
{
    assert forall|p: usize| #[trigger] phi.dom().contains(p) implies done.contains(p) by {
        if !done.contains(p) {
            let j = choose|j: int| 0 <= j < Seq::<(usize, usize)>::empty().len() && (#[trigger] Seq::<(usize, usize)>::empty()[j]).0 == p;
        }
    }
    assert(done =~= phi.dom());
    assert(graft_inv(al, a, dom0, phi, phi.dom(), None, rl, t, fm, fb, in_dim));
}

// later changes elsewhere do not disturb a finished copy
pub proof fn lemma_graft_frame<const K: usize>(al: AArena<K>, a: AArena<K>, a2: AArena<K>, dom0: Set<usize>, rl: usize, t: usize, fm: M, fb: V, in_dim: usize, t2: usize)
    requires grafted(al, a, dom0, rl, t, fm, fb, in_dim), frame_except(a, a2, t2), dom0.contains(t2), t2 != t
    ensures grafted(al, a2, dom0, rl, t, fm, fb, in_dim)
{
    let phi = choose|phi: Map<usize, usize>| #[trigger] graft_inv(al, a, dom0, phi, phi.dom(), None, rl, t, fm, fb, in_dim);
    assert forall|p: usize| #[trigger] phi.dom().contains(p) implies a2[phi[p]] == a[phi[p]] && a2.dom().contains(phi[p]) by {}
    assert(graft_inv(al, a2, dom0, phi, phi.dom(), None, rl, t, fm, fb, in_dim));
}

// the copy denotes lhs after f
pub proof fn lemma_graft_sem<const K: usize>(al: AArena<K>, hl: Map<usize, nat>, a: AArena<K>, h: Map<usize, nat>, dom0: Set<usize>, phi: Map<usize, usize>,
    rl: usize, t: usize, fm: M, fb: V, in_dim: usize, p: usize, x: V)
    requires graft_inv(al, a, dom0, phi, phi.dom(), None, rl, t, fm, fb, in_dim), ranked_down(al, hl), ranked_down(a, h), phi.dom().contains(p), x.len() == in_dim
    ensures tree_fn(a, h, phi[p], x) == tree_fn(al, hl, p, vadd(mv(fm, x), fb))
    decreases hl[p]
{
    let src = al[p];
    let cp = a[phi[p]];
    assert(copy_ok(src, cp, fm, fb, in_dim));
    assert(kids_mirror(src, cp, phi));
    if !src.isleaf {
        lemma_label_val_eq(&cp.value.aff, &src.value.aff, x, vadd(mv(fm, x), fb), src.value.aff.mat.nrows() as int);
        let l = decide(&src.value.aff, vadd(mv(fm, x), fb));
        assert(l == decide(&cp.value.aff, x));
        if 0 <= l < K {
            match src.children[l] {
                None => {}
                Some(c) => {
                    assert(cp.children[l] == Some(phi[c]));
                    assert(hl[c] < hl[p]);
                    assert(a.dom().contains(phi[p]));
                    assert(a[phi[p]].children[l].is_some());
                    assert(h[phi[c]] < h[phi[p]]);
                    lemma_graft_sem(al, hl, a, h, dom0, phi, rl, t, fm, fb, in_dim, c, x);
                }
            }
        }
    }
}

// the whole result denotes comp_fn
pub proof fn lemma_comp_final<const K: usize>(a0: AArena<K>, h0: Map<usize, nat>, a1: AArena<K>, h1: Map<usize, nat>, ts: Seq<usize>,
    al: AArena<K>, hl: Map<usize, nat>, rl: usize, in_dim: usize, idx: usize, x: V)
    requires ranked_down(a0, h0), ranked_down(a1, h1), ranked_down(al, hl), kids_ok(a0), old_nodes_kept(a0, a1, ts), a0.dom().contains(idx), x.len() == in_dim,
        forall|j: int| 0 <= j < ts.len() ==> grafted(al, a1, a0.dom(), rl, #[trigger] ts[j], a0[ts[j]].value.aff.mat.m(), a0[ts[j]].value.aff.bias.v(), in_dim),
    ensures tree_fn(a1, h1, idx, x) == comp_fn(a0, h0, ts, al, hl, rl, idx, x)
    decreases h0[idx]
{
    let nd = a0[idx];
    assert(a1.dom().contains(idx));
    if nd.isleaf {
        if ts.contains(idx) {
            let j = choose|j: int| 0 <= j < ts.len() && ts[j] == idx;
            assert(grafted(al, a1, a0.dom(), rl, ts[j], a0[ts[j]].value.aff.mat.m(), a0[ts[j]].value.aff.bias.v(), in_dim));
            let fm = nd.value.aff.mat.m();
            let fb = nd.value.aff.bias.v();
            let phi = choose|phi: Map<usize, usize>| #[trigger] graft_inv(al, a1, a0.dom(), phi, phi.dom(), None, rl, idx, fm, fb, in_dim);
            lemma_graft_sem(al, hl, a1, h1, a0.dom(), phi, rl, idx, fm, fb, in_dim, rl, x);
        } else {
            assert(a1[idx] == a0[idx]);
        }
    } else {
        assert(a1[idx] == a0[idx]);
        let l = decide(&nd.value.aff, x);
        if 0 <= l < K && nd.children[l].is_some() {
            let c = nd.children[l].unwrap();
            assert(h0[c] < h0[idx]);
            assert(a1[idx].children[l].is_some());
            assert(h1[c] < h1[idx]);
            lemma_comp_final(a0, h0, a1, h1, ts, al, hl, rl, in_dim, c, x);
        }
    }
}

// when every terminal below idx is listed, comp_fn is function composition
pub proof fn lemma_comp_all<const K: usize>(a0: AArena<K>, h0: Map<usize, nat>, ts: Seq<usize>, al: AArena<K>, hl: Map<usize, nat>, rl: usize, idx: usize, x: V)
    requires ranked_down(a0, h0), kids_ok(a0), a0.dom().contains(idx),
        forall|i: usize| a0.dom().contains(i) && #[trigger] a0[i].isleaf ==> ts.contains(i),
    ensures comp_fn(a0, h0, ts, al, hl, rl, idx, x) == and_then_fn(a0, h0, al, hl, rl, idx, x)
    decreases h0[idx]
{
    let nd = a0[idx];
    if !nd.isleaf {
        let l = decide(&nd.value.aff, x);
        if 0 <= l < K && nd.children[l].is_some() {
            let c = nd.children[l].unwrap();
            assert(h0[c] < h0[idx]);
            lemma_comp_all(a0, h0, ts, al, hl, rl, c, x);
        }
    }
}

impl<const K: usize> AffTree<K> {
//@fn src/pwl/impl_composition.rs | impl<const K: usize> AffTree<K> | generic_composition_inplace
//@attr #[verifier::exec_allows_no_decreases_clause]
//@sigsub <I, C, V> =>
//@sigsub terminals: I, => terminals: Vec<TreeIndex>,
//@sigsub _schema: C, =>
//@sigsub mut visitor: V, =>
//@sigsub where I: IntoIterator<Item = TreeIndex>, C: CompositionSchema, V: CompositionVisitor, =>
//@bodysub let iter = terminals.into_iter(); =>
//@bodysub visitor.start_composition(iter.size_hint().0); =>
//@bodysub for terminal_idx in iter { => let mut __t: usize = 0; while __t < terminals.len() { let terminal_idx = terminals[__t]; __t += 1;
//@bodysub terminal.value.aff.clone() => terminal.value.aff.clone_aff()
//@bodysub ndarray::OwnedRepr<f64> => OwnedRepr<f64>
//@bodysub C::update_terminal( => function_composition_update_terminal(
//@bodysub C::update_decision( => function_composition_update_decision(
//@bodysub visitor.start_subtree(terminal_idx); =>
//@bodysub visitor.finish_subtree(n_nodes); =>
//@bodysub visitor.finish_composition(); =>
//@bodysub let mut n_nodes = 0; =>
//@bodysub n_nodes += 1; =>
//@bodysub let child0 = edg.target_value; => let child0 = &lhs.tree.tree_node(child0_idx).unwrap().value;
//@bodysub lhs.tree.is_leaf(child0_idx).unwrap() => lhs.tree.tree_node(child0_idx).unwrap().isleaf
//@bodysub C::explore(rhs, parent1_idx, child1_idx) => true
//@spec
    requires K >= 2, K < usize::MAX,
        lhs.tree.wf(), lhs.tree.root is Some, aff_shape_ok(lhs.a(), lhs.in_dim),
        old(rhs).tree.wf(), aff_shape_ok(old(rhs).a(), old(rhs).in_dim),
        terminals_ok(old(rhs).a(), terminals@, lhs.in_dim),
    ensures
        // C04 (un-pruned composition): the result is a well-formed tree of the same input dimension, every node has a function of that input dimension
        final(rhs).tree.wf(), final(rhs).tree.root == old(rhs).tree.root, final(rhs).in_dim == old(rhs).in_dim,
        aff_shape_ok(final(rhs).a(), final(rhs).in_dim),
        // C02: the nodes of the receiving tree keep their indices and parents, its decisions and unlisted terminals are untouched
        old_nodes_kept(old(rhs).a(), final(rhs).a(), terminals@),
        // C02: below every listed terminal hangs a complete copy of the left operand (label for label), each copied node composed with the terminal's function
        forall|j: int| 0 <= j < terminals@.len() ==> grafted(lhs.a(), final(rhs).a(), old(rhs).a().dom(), lhs.tree.root.unwrap(), #[trigger] terminals@[j],
            old(rhs).a()[terminals@[j]].value.aff.mat.m(), old(rhs).a()[terminals@[j]].value.aff.bias.v(), final(rhs).in_dim),
        // C02, the law: for every input the result denotes "route through the old tree, continue in the left operand at a listed terminal",
        // undefinedness included
        forall|h0: Map<usize, nat>, h1: Map<usize, nat>, hl: Map<usize, nat>, x: V|
            #![trigger tree_fn(final(rhs).a(), h1, old(rhs).tree.root.unwrap(), x), comp_fn(old(rhs).a(), h0, terminals@, lhs.a(), hl, lhs.tree.root.unwrap(), old(rhs).tree.root.unwrap(), x)]
            old(rhs).tree.root is Some && ranked_down(old(rhs).a(), h0) && ranked_down(final(rhs).a(), h1) && ranked_down(lhs.a(), hl) && x.len() == old(rhs).in_dim ==>
            tree_fn(final(rhs).a(), h1, old(rhs).tree.root.unwrap(), x) == comp_fn(old(rhs).a(), h0, terminals@, lhs.a(), hl, lhs.tree.root.unwrap(), old(rhs).tree.root.unwrap(), x),
        // ... which is function composition h(x) = g(f(x)) when all terminals are listed (as compose does)
        (forall|i: usize| old(rhs).a().dom().contains(i) && #[trigger] old(rhs).a()[i].isleaf ==> terminals@.contains(i)) ==>
        forall|h0: Map<usize, nat>, h1: Map<usize, nat>, hl: Map<usize, nat>, x: V|
            #![trigger tree_fn(final(rhs).a(), h1, old(rhs).tree.root.unwrap(), x), and_then_fn(old(rhs).a(), h0, lhs.a(), hl, lhs.tree.root.unwrap(), old(rhs).tree.root.unwrap(), x)]
            old(rhs).tree.root is Some && ranked_down(old(rhs).a(), h0) && ranked_down(final(rhs).a(), h1) && ranked_down(lhs.a(), hl) && x.len() == old(rhs).in_dim ==>
            tree_fn(final(rhs).a(), h1, old(rhs).tree.root.unwrap(), x) == and_then_fn(old(rhs).a(), h0, lhs.a(), hl, lhs.tree.root.unwrap(), old(rhs).tree.root.unwrap(), x),
//@hint end
        proof {
            let a0 = old(rhs).a(); let a1 = rhs.a(); let al = lhs.a(); let rl = lhs.tree.root.unwrap(); let ts = terminals@;
            if old(rhs).tree.root is Some {
                let r0 = old(rhs).tree.root.unwrap();
                assert forall|h0: Map<usize, nat>, h1: Map<usize, nat>, hl: Map<usize, nat>, x: V|
                    ranked_down(a0, h0) && ranked_down(a1, h1) && ranked_down(al, hl) && x.len() == old(rhs).in_dim implies
                    #[trigger] tree_fn(a1, h1, r0, x) == #[trigger] comp_fn(a0, h0, ts, al, hl, rl, r0, x) by {
                    lemma_comp_final(a0, h0, a1, h1, ts, al, hl, rl, old(rhs).in_dim, r0, x);
                }
                if forall|i: usize| a0.dom().contains(i) && #[trigger] a0[i].isleaf ==> ts.contains(i) {
                    assert forall|h0: Map<usize, nat>, h1: Map<usize, nat>, hl: Map<usize, nat>, x: V|
                        ranked_down(a0, h0) && ranked_down(a1, h1) && ranked_down(al, hl) && x.len() == old(rhs).in_dim implies
                        #[trigger] tree_fn(a1, h1, r0, x) == #[trigger] and_then_fn(a0, h0, al, hl, rl, r0, x) by {
                        lemma_comp_final(a0, h0, a1, h1, ts, al, hl, rl, old(rhs).in_dim, r0, x);
                        lemma_comp_all(a0, h0, ts, al, hl, rl, r0, x);
                    }
                }
            }
        }
//@loop 1
            invariant
                K >= 2, K < usize::MAX, lhs.tree.wf(), lhs.tree.root is Some, aff_shape_ok(lhs.a(), lhs.in_dim),
                terminals_ok(old(rhs).a(), terminals@, lhs.in_dim), old(rhs).tree.wf(),
                0 <= __t <= terminals@.len(),
                rhs.tree.wf(), rhs.tree.root == old(rhs).tree.root, rhs.in_dim == old(rhs).in_dim, aff_shape_ok(rhs.a(), rhs.in_dim),
                old_nodes_kept(old(rhs).a(), rhs.a(), terminals@),
                // terminals still to come are untouched, the earlier ones carry their copy
                forall|j: int| __t <= j < terminals@.len() ==> rhs.a()[#[trigger] terminals@[j]] == old(rhs).a()[terminals@[j]],
                forall|j: int| 0 <= j < __t ==> grafted(lhs.a(), rhs.a(), old(rhs).a().dom(), lhs.tree.root.unwrap(), #[trigger] terminals@[j],
                    old(rhs).a()[terminals@[j]].value.aff.mat.m(), old(rhs).a()[terminals@[j]].value.aff.bias.v(), rhs.in_dim),
//@hint loop 1 start
            let ghost a_start = rhs.a();
            let ghost rl = lhs.tree.root.unwrap();
            proof { assert(terminals@[__t as int] == terminals@[__t as int]); }
//@hint after rhs.update_node(terminal_idx, new_root_aff).unwrap();
            let ghost mut phi: Map<usize, usize> = Map::<usize, usize>::empty().insert(rl, terminal_idx);
            let ghost mut done: Set<usize> = Set::<usize>::empty();
            proof {
                broadcast use axiom_array2_shape;
                assert(a_start[terminal_idx] == old(rhs).a()[terminal_idx]);
                assert(no_kids(rhs.a()[terminal_idx])) by { assert(no_kids(a_start[terminal_idx])); }
                lemma_graft_init(lhs.a(), rhs.a(), a_start.dom(), rl, terminal_idx, terminal_aff.mat.m(), terminal_aff.bias.v(), rhs.in_dim);
                assert(aff_shape_ok(rhs.a(), rhs.in_dim)) by {
                    assert forall|i: usize| #![trigger rhs.a()[i].value] rhs.a().dom().contains(i) implies rhs.a()[i].value.aff.ok() && rhs.a()[i].value.aff.mat.ncols() == rhs.in_dim
                        && (!rhs.a()[i].isleaf ==> 1 <= rhs.a()[i].value.aff.mat.nrows() < 16 && (1usize << (rhs.a()[i].value.aff.mat.nrows() as usize)) <= K) by {
                        if i != terminal_idx { assert(rhs.a()[i] == a_start[i]); }
                    }
                }
            }
//@loop 2
                invariant
                    K >= 2, K < usize::MAX, lhs.tree.wf(), lhs.tree.root is Some, aff_shape_ok(lhs.a(), lhs.in_dim),
                terminals_ok(old(rhs).a(), terminals@, lhs.in_dim), old(rhs).tree.wf(),
                    0 < __t <= terminals@.len(), terminal_idx == terminals@[__t - 1],
                    rhs.tree.wf(), rhs.tree.root == old(rhs).tree.root, rhs.in_dim == old(rhs).in_dim, aff_shape_ok(rhs.a(), rhs.in_dim),
                    // what held when this terminal was taken up, and what has changed since
                    old_nodes_kept(old(rhs).a(), a_start, terminals@),
                    forall|j: int| __t - 1 <= j < terminals@.len() ==> a_start[#[trigger] terminals@[j]] == old(rhs).a()[terminals@[j]],
                    forall|j: int| 0 <= j < __t - 1 ==> grafted(lhs.a(), a_start, old(rhs).a().dom(), lhs.tree.root.unwrap(), #[trigger] terminals@[j],
                        old(rhs).a()[terminals@[j]].value.aff.mat.m(), old(rhs).a()[terminals@[j]].value.aff.bias.v(), rhs.in_dim),
                    frame_except(a_start, rhs.a(), terminal_idx),
                    terminal_aff.ok(), terminal_aff.mat.ncols() == rhs.in_dim, terminal_aff.mat.nrows() == lhs.in_dim,
                    terminal_aff.mat.m() == old(rhs).a()[terminal_idx].value.aff.mat.m(), terminal_aff.bias.v() == old(rhs).a()[terminal_idx].value.aff.bias.v(),
                    rl == lhs.tree.root.unwrap(),
                    graft_inv(lhs.a(), rhs.a(), a_start.dom(), phi, done, None, rl, terminal_idx, terminal_aff.mat.m(), terminal_aff.bias.v(), rhs.in_dim),
                    stack_ok(phi, done, None, stack@),
//@hint loop 2 start
                let ghost st_before = stack@.push((parent0_idx, parent1_idx));
                proof {
                    lemma_graft_pop(lhs.a(), rhs.a(), a_start.dom(), phi, done, rl, terminal_idx, terminal_aff.mat.m(), terminal_aff.bias.v(), rhs.in_dim, st_before);
                    assert(st_before.drop_last() =~= stack@);
                    lemma_kid_seq_members(lhs.a()[parent0_idx].children, 0);
                    lemma_kid_seq_len(lhs.a()[parent0_idx].children, 0);
                }
//@loop 3
                    invariant
                        K >= 2, K < usize::MAX, lhs.tree.wf(), lhs.tree.root is Some, aff_shape_ok(lhs.a(), lhs.in_dim),
                terminals_ok(old(rhs).a(), terminals@, lhs.in_dim), old(rhs).tree.wf(),
                        0 < __t <= terminals@.len(), terminal_idx == terminals@[__t - 1],
                    rhs.tree.wf(), rhs.tree.root == old(rhs).tree.root, rhs.in_dim == old(rhs).in_dim, aff_shape_ok(rhs.a(), rhs.in_dim),
                    // what held when this terminal was taken up, and what has changed since
                    old_nodes_kept(old(rhs).a(), a_start, terminals@),
                    forall|j: int| __t - 1 <= j < terminals@.len() ==> a_start[#[trigger] terminals@[j]] == old(rhs).a()[terminals@[j]],
                    forall|j: int| 0 <= j < __t - 1 ==> grafted(lhs.a(), a_start, old(rhs).a().dom(), lhs.tree.root.unwrap(), #[trigger] terminals@[j],
                        old(rhs).a()[terminals@[j]].value.aff.mat.m(), old(rhs).a()[terminals@[j]].value.aff.bias.v(), rhs.in_dim),
                    frame_except(a_start, rhs.a(), terminal_idx),
                    terminal_aff.ok(), terminal_aff.mat.ncols() == rhs.in_dim, terminal_aff.mat.nrows() == lhs.in_dim,
                    terminal_aff.mat.m() == old(rhs).a()[terminal_idx].value.aff.mat.m(), terminal_aff.bias.v() == old(rhs).a()[terminal_idx].value.aff.bias.v(),
                        rl == lhs.tree.root.unwrap(),
                        graft_inv(lhs.a(), rhs.a(), a_start.dom(), phi, done, Some(parent0_idx), rl, terminal_idx, terminal_aff.mat.m(), terminal_aff.bias.v(), rhs.in_dim),
                        stack_ok(phi, done, Some(parent0_idx), stack@),
                        // the node being expanded and its copy
                        phi.dom().contains(parent0_idx), phi[parent0_idx] == parent1_idx, !done.contains(parent0_idx),
                        0 <= __i <= __kids@.len(), __kids@.len() == kid_seq(lhs.a()[parent0_idx].children, 0).len(), __kids@.len() <= K,
                        n_children0 == __kids@.len(),
                        forall|j: int| 0 <= j < __kids@.len() ==> (#[trigger] __kids@[j]).source_idx == parent0_idx
                            && __kids@[j].label == kid_seq(lhs.a()[parent0_idx].children, 0)[j].0 && __kids@[j].target_idx == kid_seq(lhs.a()[parent0_idx].children, 0)[j].1,
                        created_children == __i, skipped_children == 0,
                        // children copied so far / still to come
                        forall|j: int| __i <= j < __kids@.len() ==> rhs.a()[parent1_idx].children[(#[trigger] __kids@[j]).label as int].is_none() && !phi.dom().contains(__kids@[j].target_idx),
                        forall|j: int| 0 <= j < __i ==> phi.dom().contains((#[trigger] __kids@[j]).target_idx)
                            && rhs.a()[parent1_idx].children[__kids@[j].label as int] == Some(phi[__kids@[j].target_idx]),
                        forall|l: int| 0 <= l < K && (#[trigger] rhs.a()[parent1_idx].children[l]).is_some() ==> exists|j: int| 0 <= j < __i && (#[trigger] __kids@[j]).label == l,
                        rhs.a()[parent1_idx].isleaf <==> __i == 0,
//@hint loop 3 start
                    let ghost a_pre = rhs.a();
                    proof {
                        lemma_kid_seq_members(lhs.a()[parent0_idx].children, 0);
                        lemma_kid_seq_len(lhs.a()[parent0_idx].children, 0);
                    }
//@hint after let child1_idx = rhs .tree .add_child_node(parent1_idx, label, AffContent::new(child1_aff)) .unwrap();
                    proof {
                        broadcast use axiom_array2_shape;
                        lemma_graft_child(lhs.a(), a_start, a_pre, rhs.a(), phi, done, rl, terminal_idx, terminal_aff.mat.m(), terminal_aff.bias.v(), rhs.in_dim,
                            stack@, parent0_idx, label, child0_idx, child1_idx);
                        lemma_count_zero_no_kids(lhs.a()[parent0_idx], 0);
                        lemma_shape_child(lhs.a(), a_pre, rhs.a(), rhs.in_dim, lhs.in_dim, parent0_idx, parent1_idx, label, child1_idx);
                        phi = phi.insert(child0_idx, child1_idx);
                    }
//@hint loop 3 after
                proof {
                    lemma_count_zero_no_kids(lhs.a()[parent0_idx], 0);
                    lemma_mirror_from_kids(lhs.a()[parent0_idx], rhs.a()[parent1_idx], phi);
                    lemma_graft_done(lhs.a(), rhs.a(), a_start.dom(), phi, done, rl, terminal_idx, terminal_aff.mat.m(), terminal_aff.bias.v(), rhs.in_dim, stack@, parent0_idx);
                    done = done.insert(parent0_idx);
                }
//@hint loop 2 after
            proof {
                assert(stack@ =~= Seq::<(usize, usize)>::empty());
                lemma_graft_finish(lhs.a(), rhs.a(), a_start.dom(), old(rhs).a().dom(), phi, done, rl, terminal_idx, terminal_aff.mat.m(), terminal_aff.bias.v(), rhs.in_dim);
                assert forall|j: int| 0 <= j < __t - 1 implies grafted(lhs.a(), rhs.a(), old(rhs).a().dom(), rl, #[trigger] terminals@[j],
                    old(rhs).a()[terminals@[j]].value.aff.mat.m(), old(rhs).a()[terminals@[j]].value.aff.bias.v(), rhs.in_dim) by {
                    lemma_graft_frame(lhs.a(), a_start, rhs.a(), old(rhs).a().dom(), rl, terminals@[j],
                        old(rhs).a()[terminals@[j]].value.aff.mat.m(), old(rhs).a()[terminals@[j]].value.aff.bias.v(), rhs.in_dim, terminal_idx);
                }
                assert(terminals@.contains(terminal_idx)) by { assert(terminals@[__t - 1] == terminal_idx); }
                assert(old_nodes_kept(old(rhs).a(), rhs.a(), terminals@));
            }
//@end
}

} // verus!
fn main() {}
