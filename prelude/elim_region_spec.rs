// ---- prelude/elim_region_spec.rs : the half-spaces PolyhedraGen reports during infeasible_elimination are those of the node's path IN THE ORIGINAL TREE ----
// The traversal only ever reads nodes that the mutations have not touched: an unvisited node keeps its child slots, a node waiting on the stack keeps its
// parent pointer and the slot under which its parent lists it (splices only re-hang VISITED nodes).  Hence PolyhedraGen's bookkeeping invariant gen_inv
// (unit pwl_regions) holds with respect to the original arena a0 although the current arena is being mutated.
pub open spec fn top_agrees(a: AArena<2>, a0: AArena<2>, s: Seq<DfsNodeData>) -> bool {
    s.len() > 0 ==> {
        let n = s.last().index;
        &&& a0.dom().contains(n) && a[n].children == a0[n].children && a[n].parent == a0[n].parent
        &&& a[n].parent is Some ==> a[a[n].parent.unwrap()].value.aff == a0[a[n].parent.unwrap()].value.aff
                && forall|l: int| 0 <= l < 2 && #[trigger] a[a[n].parent.unwrap()].children[l] == Some(n) ==> a0[a[n].parent.unwrap()].children[l] == Some(n)
    }
}
#[verifier::opaque]
pub open spec fn reg_inv(a0: AArena<2>, a: AArena<2>, s: Seq<DfsNodeData>, vis: Set<usize>) -> bool {
    // unvisited nodes keep their child slots
    &&& forall|i: usize| #![trigger a[i].children] a.dom().contains(i) && !vis.contains(i) ==> a[i].children == a0[i].children
    // waiting nodes keep their parent pointer and the slot under which the parent lists them
    &&& forall|k: int| 0 <= k < s.len() ==> a[(#[trigger] s[k]).index].parent == a0[s[k].index].parent
            && (a[s[k].index].parent is Some ==> forall|l: int| 0 <= l < 2 && #[trigger] a[a[s[k].index].parent.unwrap()].children[l] == Some(s[k].index)
                    ==> a0[a[s[k].index].parent.unwrap()].children[l] == Some(s[k].index))
}
// what one forward_if_redundant step on p can do to child slots: only p's and its parent's arrays change, and the only new occupant of a slot is a former child of p
pub open spec fn fwd_slots(a1: AArena<2>, a2: AArena<2>, p: usize) -> bool {
    &&& forall|i: usize| #![trigger a2[i].children] a2.dom().contains(i) ==> a2[i].children == a1[i].children || i == p || Some(i) == a1[p].parent
    &&& forall|i: usize, l: int| #![trigger a2[i].children[l]] a2.dom().contains(i) && 0 <= l < 2 && a2[i].children[l] is Some
            ==> a1[i].children[l] == a2[i].children[l] || a1[a2[i].children[l].unwrap()].parent == Some(p)
}
pub proof fn lemma_fwd_slots(a1: AArena<2>, a2: AArena<2>, root: usize, p: usize)
    requires wf_at(a1, Some(root)), a1.dom().contains(p), forward_post(a1, a2, p, Some(root))
    ensures fwd_slots(a1, a2, p)
{
    if count_state(a1, p, 0, true) == 1 && count_state(a1, p, 0, false) == 2 - 1 {
        let ls = infeasible_slots(a1, p);
        let am = choose|am: AArena<2>| #[trigger] removed_set(a1, am, p, ls) && wf_at(am, Some(root))
            && (forall|f: int| #[trigger] kid_in_state(a1, p, f, true) ==> merge_post(am, a2, p, f as usize, Some(root) == Some(p)));
        lemma_count_exists(a1, p, 0, true);
        let f = choose|f: int| 0 <= f < 2 && kid_in_state(a1, p, f, true);
        assert(merge_post(am, a2, p, f as usize, Some(root) == Some(p)));
        lemma_fwd_slots_act(a1, am, a2, root, p, f);
    }
}
pub open spec fn rm_slots(a1: AArena<2>, am: AArena<2>, p: usize) -> bool {
    &&& am.dom().subset_of(a1.dom()) && am.dom().contains(p) && am[p].parent == a1[p].parent
    &&& forall|i: usize| #![trigger am[i].children] am.dom().contains(i) && i != p ==> am[i].children == a1[i].children
    &&& forall|l: int| 0 <= l < 2 && (#[trigger] am[p].children[l]) is Some ==> am[p].children[l] == a1[p].children[l]
}
pub proof fn lemma_rm_slots(a1: AArena<2>, am: AArena<2>, p: usize, ls: ISet<int>)
    requires removed_set(a1, am, p, ls)
    ensures rm_slots(a1, am, p), forall|l: int| 0 <= l < 2 && !ls.contains(l) ==> #[trigger] am[p].children[l] == a1[p].children[l]
{
    reveal(removed_set);
    assert forall|i: usize| #![trigger am[i].children] am.dom().contains(i) && i != p implies am[i].children == a1[i].children by { assert(am[i] == a1[i]); }
}
pub proof fn lemma_fwd_slots_act(a1: AArena<2>, am: AArena<2>, a2: AArena<2>, root: usize, p: usize, f: int)
    requires wf_at(a1, Some(root)), a1.dom().contains(p), removed_set(a1, am, p, infeasible_slots(a1, p)), merge_post(am, a2, p, f as usize, root == p), kid_in_state(a1, p, f, true)
    ensures fwd_slots(a1, a2, p)
{
    let ls = infeasible_slots(a1, p);
    assert(!ls.contains(f));
    lemma_rm_slots(a1, am, p, ls);
    assert(am[p].children[f] == a1[p].children[f]);
    let cf = a1[p].children[f].unwrap();
    assert(a1.dom().contains(cf) && a1[cf].parent == Some(p));
    if root == p {
        assert(a2 == am);
    } else {
        let gl = choose|gl: int| #[trigger] merged(am, a2, p, f as usize, gl);
        lemma_mg_slots(a1, am, a2, p, f, gl);
    }
}
pub proof fn lemma_mg_slots(a1: AArena<2>, am: AArena<2>, a2: AArena<2>, p: usize, f: int, gl: int)
    requires rm_slots(a1, am, p), merged(am, a2, p, f as usize, gl), 0 <= f < 2, am[p].children[f] == a1[p].children[f], a1[a1[p].children[f].unwrap()].parent == Some(p)
    ensures fwd_slots(a1, a2, p)
{
    let g = am[p].parent.unwrap();
    let cf = am[p].children[f].unwrap();
    assert forall|i: usize| #![trigger a2[i].children] a2.dom().contains(i) implies a2[i].children == a1[i].children || i == p || Some(i) == a1[p].parent by {
        assert(am.dom().contains(i));
        if i != g { if i == cf { } else { assert(a2[i] == am[i]); } }
    }
    assert forall|i: usize, l: int| #![trigger a2[i].children[l]] a2.dom().contains(i) && 0 <= l < 2 && a2[i].children[l] is Some
        implies a1[i].children[l] == a2[i].children[l] || a1[a2[i].children[l].unwrap()].parent == Some(p) by {
        assert(am.dom().contains(i) && i != p);
        if i == g {
            assert(a2[g].children@[l] == am[g].children@.update(gl, Some(cf))[l]);
            if l != gl { assert(a2[g].children[l] == am[g].children[l]); }
        } else if i == cf { } else { assert(a2[i] == am[i]); }
    }
}
pub proof fn lemma_reg_init(a0: AArena<2>, root: usize)
    requires wf_at(a0, Some(root))
    ensures reg_inv(a0, a0, seq![DfsNodeData { depth: 0, index: root, n_remaining: 0 }], Set::<usize>::empty())
{
    reveal(reg_inv);
}
// what `next` needs to know about the entry it is going to pop
pub proof fn lemma_top_agrees(a0: AArena<2>, a: AArena<2>, root: usize, s: Seq<DfsNodeData>, vis: Set<usize>, ex: usize, d0: Set<usize>, in_dim: usize)
    requires el_inv(a, root, s, vis, ex, d0), reg_inv(a0, a, s, vis), kept_ok(a0, a, in_dim)
    ensures top_agrees(a, a0, s)
{
    reveal(el_inv); reveal(reg_inv);
    if s.len() > 0 {
        let n = s.last().index;
        assert(s[s.len() - 1].index == n);
        assert(a.dom().contains(n) && !vis.contains(n));
        assert(a[n].children == a0[n].children);
        if a[n].parent is Some {
            let p = a[n].parent.unwrap();
            assert(a.dom().contains(p));      // parents_ok
            assert(a[p].value.aff == a0[p].value.aff);
        }
    }
}
// pop + push of the children of the popped node
pub proof fn lemma_reg_next(a0: AArena<2>, a: AArena<2>, root: usize, s0: Seq<DfsNodeData>, s1: Seq<DfsNodeData>, lp: usize, it: DfsNodeData, vis: Set<usize>, d0: Set<usize>)
    requires el_inv(a, root, s0, vis, root, d0), reg_inv(a0, a, s0, vis), dfs_step(a, s0, s1, lp, Some(it)), kids_ok(a0), a0.dom().contains(it.index)
    ensures reg_inv(a0, a, s1, vis.insert(it.index))
{
    reveal(el_inv); reveal(reg_inv);
    let n = it.index;
    let rest = s0.drop_last();
    let dp = (it.depth + 1) as usize;
    let ki = kid_items(a[n].children, 0, dp);
    let kids = ki.reverse();
    assert(s0[s0.len() - 1] == it);
    assert(s1 == rest + kids);
    lemma_kid_items_props(a[n].children, 0, dp);
    assert(a[n].children == a0[n].children);
    assert forall|k: int| 0 <= k < s1.len() implies a[(#[trigger] s1[k]).index].parent == a0[s1[k].index].parent
            && (a[s1[k].index].parent is Some ==> forall|l: int| 0 <= l < 2 && #[trigger] a[a[s1[k].index].parent.unwrap()].children[l] == Some(s1[k].index)
                    ==> a0[a[s1[k].index].parent.unwrap()].children[l] == Some(s1[k].index)) by {
        if k < rest.len() { assert(s1[k] == s0[k]); }
        else {
            let j = k - rest.len();
            assert(s1[k] == kids[j]);
            assert(kids[j] == ki[ki.len() - 1 - j]);
            let c = kids[j].index;
            let l0 = choose|l: int| 0 <= l < 2 && #[trigger] a[n].children[l] == Some(c) && kids[j].n_remaining == count_some_from(a[n].children, l + 1);
            assert(a.dom().contains(c) && a[c].parent == Some(n));      // kids_ok(a)
            assert(a0[n].children[l0] == Some(c));
            assert(a0[c].parent == Some(n));                             // kids_ok(a0)
        }
    }
}
pub proof fn lemma_reg_skip(a0: AArena<2>, a: AArena<2>, s1: Seq<DfsNodeData>, lp: usize, s2: Seq<DfsNodeData>, lp2: usize, vis: Set<usize>)
    requires reg_inv(a0, a, s1, vis), skip_step(s1, lp, s2, lp2)
    ensures reg_inv(a0, a, s2, vis)
{
    reveal(reg_inv);
    assert forall|k: int| 0 <= k < s2.len() implies s2[k] == s1[k] by {}
}
pub proof fn lemma_reg_write(a0: AArena<2>, a1: AArena<2>, a2: AArena<2>, s: Seq<DfsNodeData>, vis: Set<usize>, n: usize)
    requires reg_inv(a0, a1, s, vis), value_written(a1, a2, n), forall|k: int| 0 <= k < s.len() ==> a1.dom().contains((#[trigger] s[k]).index), parents_ok(a1)
    ensures reg_inv(a0, a2, s, vis)
{
    reveal(reg_inv);
    assert forall|i: usize| a1.dom().contains(i) implies a2[i].children == a1[i].children && a2[i].parent == a1[i].parent by { if i != n { assert(a2[i] == a1[i]); } }
    assert forall|k: int| 0 <= k < s.len() implies a2[(#[trigger] s[k]).index].parent == a0[s[k].index].parent
            && (a2[s[k].index].parent is Some ==> forall|l: int| 0 <= l < 2 && #[trigger] a2[a2[s[k].index].parent.unwrap()].children[l] == Some(s[k].index)
                    ==> a0[a2[s[k].index].parent.unwrap()].children[l] == Some(s[k].index)) by {
        let e = s[k].index;
        assert(a2[e].parent == a1[e].parent);
        if a1[e].parent is Some { let p = a1[e].parent.unwrap(); assert(a1.dom().contains(p)); assert(a2[p].children == a1[p].children); }
    }
}
pub proof fn lemma_reg_forward(a0: AArena<2>, a1: AArena<2>, a2: AArena<2>, root: usize, s: Seq<DfsNodeData>, vis: Set<usize>, d0: Set<usize>, p: usize)
    requires reg_inv(a0, a1, s, vis), el_inv(a1, root, s, vis, root, d0), el_inv(a2, root, s, vis, root, d0), fwd_slots(a1, a2, p), pruned_step(a1, a2, p, root),
        vis.contains(p), a1.dom().contains(p), no_sibling_waiting(a1, s, Some(p)),
    ensures reg_inv(a0, a2, s, vis)
{
    reveal(reg_inv); reveal(el_inv);
    // p's parent is visited as well
    assert(p != root ==> a1[p].parent is Some && vis.contains(a1[p].parent.unwrap()));
    assert forall|i: usize| #![trigger a2[i].children] a2.dom().contains(i) && !vis.contains(i) implies a2[i].children == a0[i].children by {
        assert(a1.dom().contains(i));
        assert(a2[i].children == a1[i].children);
    }
    assert forall|k: int| 0 <= k < s.len() implies a2[(#[trigger] s[k]).index].parent == a0[s[k].index].parent
            && (a2[s[k].index].parent is Some ==> forall|l: int| 0 <= l < 2 && #[trigger] a2[a2[s[k].index].parent.unwrap()].children[l] == Some(s[k].index)
                    ==> a0[a2[s[k].index].parent.unwrap()].children[l] == Some(s[k].index)) by {
        let e = s[k].index;
        assert(a1.dom().contains(e) && a2.dom().contains(e));
        assert(a1[e].parent != Some(p));
        assert(a2[e].parent == a1[e].parent);
        if a2[e].parent is Some {
            let y = a2[e].parent.unwrap();
            assert(a2.dom().contains(y));      // parents_ok(a2)
            assert forall|l: int| 0 <= l < 2 && #[trigger] a2[y].children[l] == Some(e) implies a0[y].children[l] == Some(e) by {
                assert(a2[y].children[l] is Some);
                assert(a1[y].children[l] == a2[y].children[l] || a1[a2[y].children[l].unwrap()].parent == Some(p));
                assert(a1[y].children[l] == Some(e));
            }
        }
    }
}
// ---- from "x passes n in the original tree" to "x satisfies every half-space reported for n" ----
// the region fact recorded with an Infeasible verdict: every input passing c in the original tree satisfies the polytope the LP was asked about
pub open spec fn region_covers(a0: AArena<2>, h0: Map<usize, nat>, root: usize, c: usize, q: Polytope, in_dim: usize) -> bool {
    forall|x: V| x.len() == in_dim && #[trigger] reaches(a0, h0, root, x, c) ==> q.sat(x)
}
pub proof fn lemma_region_covers(a0: AArena<2>, h0: Map<usize, nat>, root: usize, g: PolyhedraGen, path: Seq<usize>, q: Polytope, in_dim: usize)
    requires gen_inv(a0, g, path), wf_at(a0, Some(root)), ranked_down(a0, h0), aff_shape_ok(a0, in_dim), path.len() > 0, path[0] == root,
        forall|x: V| x.len() == in_dim ==> (#[trigger] q.sat(x) <==> forall|k: int| 0 <= k < g.predicates@.len() ==> (#[trigger] g.predicates@[k]).sat(x)),
    ensures region_covers(a0, h0, root, path.last(), q, in_dim)
{
    assert(path_chain(a0, path)) by {
        reveal(gen_inv);
        assert forall|k: int| 0 <= k < path.len() - 1 implies a0.dom().contains(#[trigger] path[k]) && exists|l: int| 0 <= l < 2 && #[trigger] a0[path[k]].children[l] == Some(path[k + 1]) by {
            let l = choose|l: usize| l < 2 && l < 2 && a0[path[k]].children[l as int] == Some(path[k + 1]) && #[trigger] edge_poly(a0[path[k]].value.aff, l, g.predicates@[k]);
            assert(a0[path[k]].children[l as int] == Some(path[k + 1]));
        }
    }
    assert forall|x: V| x.len() == in_dim && #[trigger] reaches(a0, h0, root, x, path.last()) implies q.sat(x) by {
        lemma_reaches_routed(a0, h0, path, x, 0);
        assert(routed(a0, path, x));
        lemma_route_in_region(a0, g, path, x, in_dim);
    }
}
pub open spec fn regions_ok(a0: AArena<2>, h0: Map<usize, nat>, root: usize, vp: Map<usize, Polytope>, in_dim: usize) -> bool {
    forall|c: usize| #![trigger vp[c]] vp.dom().contains(c) ==> region_covers(a0, h0, root, c, vp[c], in_dim)
}
pub proof fn lemma_regions_final(a0: AArena<2>, hs: Map<usize, nat>, root: usize, vp: Map<usize, Polytope>, in_dim: usize)
    requires regions_ok(a0, hs, root, vp, in_dim), ranked_down(a0, hs), kids_ok(a0), a0.dom().contains(root)
    ensures forall|c: usize, h0: Map<usize, nat>| #![trigger vp[c], ranked_down(a0, h0)] vp.dom().contains(c) && ranked_down(a0, h0) ==> region_covers(a0, h0, root, c, vp[c], in_dim)
{
    assert forall|c: usize, h0: Map<usize, nat>| #![trigger vp[c], ranked_down(a0, h0)] vp.dom().contains(c) && ranked_down(a0, h0) implies region_covers(a0, h0, root, c, vp[c], in_dim) by {
        assert(region_covers(a0, hs, root, c, vp[c], in_dim));
        assert forall|x: V| x.len() == in_dim && #[trigger] reaches(a0, h0, root, x, c) implies vp[c].sat(x) by {
            lemma_reaches_rank_indep(a0, hs, h0, root, x, c);
            assert(reaches(a0, hs, root, x, c));
        }
    }
}
pub proof fn lemma_dec_from_shape(a: AArena<2>, in_dim: usize)
    requires aff_shape_ok(a, in_dim)
    ensures dec_one_row(a)
{
    assert forall|i: usize| #![trigger a[i].value] a.dom().contains(i) && !a[i].isleaf implies a[i].value.aff.mat.nrows() == 1 by { lemma_shape_one_row(a, in_dim, i); }
}
// the two things the unconditional statement rests on: Infeasible LP answers are right, and no input reaches a node cached infeasible at entry
pub open spec fn lp_sound(in_dim: usize) -> bool {
    forall|q: Polytope, x: V| #![trigger q.sat(x)] lp_status(q) is Infeasible && x.len() == in_dim ==> !q.sat(x)
}
pub open spec fn entry_marks_sound(a0: AArena<2>, root: usize) -> bool {
    forall|c: usize, h: Map<usize, nat>, x: V| #![trigger reaches(a0, h, root, x, c)] a0.dom().contains(c) && a0[c].value.state is Infeasible && ranked_down(a0, h) ==> !reaches(a0, h, root, x, c)
}
pub proof fn lemma_unconditional(a0: AArena<2>, a: AArena<2>, root: usize, b: Set<usize>, vp: Map<usize, Polytope>, in_dim: usize)
    requires blame_ok(a0, b, vp), lp_sound(in_dim), entry_marks_sound(a0, root),
        forall|c: usize, h0: Map<usize, nat>| #![trigger vp[c], ranked_down(a0, h0)] vp.dom().contains(c) && ranked_down(a0, h0) ==> region_covers(a0, h0, root, c, vp[c], in_dim),
        forall|h0: Map<usize, nat>, h1: Map<usize, nat>, x: V| #![trigger tree_fn(a0, h0, root, x), tree_fn(a, h1, root, x)]
            ranked_down(a0, h0) && ranked_down(a, h1) && !blamed_path(a0, h0, root, b, x) ==> tree_fn(a, h1, root, x) == tree_fn(a0, h0, root, x),
    ensures forall|h0: Map<usize, nat>, h1: Map<usize, nat>, x: V| #![trigger tree_fn(a0, h0, root, x), tree_fn(a, h1, root, x)]
            ranked_down(a0, h0) && ranked_down(a, h1) && x.len() == in_dim ==> tree_fn(a, h1, root, x) == tree_fn(a0, h0, root, x)
{
    assert forall|h0: Map<usize, nat>, h1: Map<usize, nat>, x: V| #![trigger tree_fn(a0, h0, root, x), tree_fn(a, h1, root, x)]
            ranked_down(a0, h0) && ranked_down(a, h1) && x.len() == in_dim implies tree_fn(a, h1, root, x) == tree_fn(a0, h0, root, x) by {
        if blamed_path(a0, h0, root, b, x) {
            let c = choose|c: usize| b.contains(c) && #[trigger] reaches(a0, h0, root, x, c);
            assert(b.contains(c));
            if a0[c].value.state is Infeasible { assert(!reaches(a0, h0, root, x, c)); }
            else {
                assert(region_covers(a0, h0, root, c, vp[c], in_dim));
                assert(vp[c].sat(x));
            }
        }
    }
}
// every node below the root that the traversal can reach - no proper ancestor other than the root is cached infeasible - carries a verdict (is not
// Indeterminate): a second run of the elimination finds only cached states
pub open spec fn clean_above<const K: usize>(a: AArena<K>, root: usize, i: usize) -> bool {
    forall|y: usize| #![trigger desc(a, y, i)] y != root && desc(a, y, i) ==> !(a[y].value.state is Infeasible)
}
pub open spec fn all_decided(a: AArena<2>, root: usize) -> bool {
    forall|i: usize| #![trigger a[i].value] a.dom().contains(i) && i != root && clean_above(a, root, i) ==> !(a[i].value.state is Indeterminate)
}
// the proper ancestors (other than the root and the node in progress) of a visited or waiting node are not cached infeasible
pub proof fn lemma_el_ancestors_clean<const K: usize>(a: AArena<K>, root: usize, s: Seq<DfsNodeData>, vis: Set<usize>, ex: usize, d0: Set<usize>, n: usize, y: usize, f: nat)
    requires el_inv(a, root, s, vis, ex, d0), tracked(s, vis, n), a.dom().contains(n), is_desc(a, y, n, f), y != root, y != ex
    ensures !(a[y].value.state is Infeasible)
    decreases f
{
    reveal(el_inv);
    let p1 = a[n].parent.unwrap();
    assert(a[n].parent.unwrap() == p1);
    if p1 != y {
        assert(n != root);     // the root has no parent
        assert(vis.contains(p1)) by {
            if vis.contains(n) { } else { let k = choose|k: int| 0 <= k < s.len() && (#[trigger] s[k]).index == n; }
        }
        assert(a.dom().contains(p1));
        lemma_el_ancestors_clean(a, root, s, vis, ex, d0, p1, y, (f - 1) as nat);
    }
}
pub proof fn lemma_el_clean_above<const K: usize>(a: AArena<K>, root: usize, s: Seq<DfsNodeData>, vis: Set<usize>, d0: Set<usize>, n: usize)
    requires el_inv(a, root, s, vis, n, d0), vis.contains(n), a.dom().contains(n)
    ensures clean_above(a, root, n)
{
    assert forall|y: usize| #![trigger desc(a, y, n)] y != root && desc(a, y, n) implies !(a[y].value.state is Infeasible) by {
        let f = choose|f: nat| is_desc(a, y, n, f);
        reveal(el_inv);
        let d = choose|d: Map<usize, nat>| ranked(a, d);
        lemma_desc_rank(a, d, y, n, f);
        assert(y != n);
        lemma_el_ancestors_clean(a, root, s, vis, n, d0, n, y, f);
    }
}
// ---- end elim_region_spec ----
